#!/bin/sh
# Run once after a fresh restore, offline: builds the Rocq development (full .vo build),
# the extracted OCaml model runner and the Rust harness against /repo.
set -e
cd "$(dirname "$0")"
export CARGO_NET_OFFLINE=true
mkdir -p work evidence replays
python3 tools/gen_params.py
( cd coq && timeout 3000 ./mk.sh -j16 ) 
( cd ocaml && timeout 900 ./build.sh )
( cd harness && RUSTFLAGS="--cfg sneldb_verif" timeout 6000 cargo build --profile vh --offline )
echo setup done
