(* requires: WalArchive *)
(* C19 probe: drives the extracted model Model/WalArchive.v with the same case lines as
   harness/src/probes/walarch.rs.  Parsing of the case, state threading and printing only. *)
open Conv
module W = WalArchive

let split c s = Stdlib.String.split_on_char c s
let splitn n c s =
  (* at most n pieces *)
  let rec go n s acc =
    if n <= 1 then Stdlib.List.rev (s :: acc)
    else match Stdlib.String.index_opt s c with
      | None -> Stdlib.List.rev (s :: acc)
      | Some i -> go (n - 1) (Stdlib.String.sub s (i + 1) (Stdlib.String.length s - i - 1)) (Stdlib.String.sub s 0 i :: acc) in
  go n s []
let tl1 s = Stdlib.String.sub s 1 (Stdlib.String.length s - 1)

let jvalue_in (s : string) : W.jvalue =
  match s.[0] with
  | 'n' -> W.JNull
  | 'b' -> W.JBool (s = "b1")
  | 'i' -> W.JInt (z_of_string (tl1 s))
  | 'f' -> W.JFloat (n_of_string (tl1 s))
  | 's' -> W.JStr (bytes_of_hex (tl1 s))
  | 'j' -> W.JNested (bytes_of_hex (tl1 s))
  | _ -> failwith "jvalue"

let scalar_in (s : string) : W.scalar =
  match s.[0] with
  | 'n' -> W.SNull
  | 'b' -> W.SBool (s = "b1")
  | 'i' -> W.SInt (z_of_string (tl1 s))
  | 'f' -> W.SFloat (n_of_string (tl1 s))
  | 't' -> W.STimestamp (z_of_string (tl1 s))
  | 's' -> W.SUtf8 (bytes_of_hex (tl1 s))
  | 'x' -> W.SBinary (bytes_of_hex (tl1 s))
  | _ -> failwith "scalar"

let scalar_out (v : W.scalar) : string =
  match v with
  | W.SNull -> "n"
  | W.SBool b -> if b then "b1" else "b0"
  | W.SInt z -> "i" ^ string_of_z z
  | W.SFloat b -> "f" ^ string_of_n b
  | W.STimestamp z -> "t" ^ string_of_z z
  | W.SUtf8 s -> "s" ^ hex_of_bytes s
  | W.SBinary b -> "x" ^ hex_of_bytes b

let pairs_in (f : string -> 'a) (s : string) : (Bytes.bytes * 'a) list =
  if s = "" then [] else
    Stdlib.List.map (fun kv ->
        match splitn 2 '@' kv with
        | [k; v] -> (bytes_of_hex k, f v)
        | _ -> failwith "pair") (split '+' s)

(* <ts>/<ctx>/<type>/<id>/<pairs> *)
let jentry_in (s : string) : W.jentry =
  match splitn 5 '/' s with
  | [ts; c; t; id; p] ->
      { W.j_ts = n_of_string ts; j_ctx = bytes_of_hex c; j_type = bytes_of_hex t; j_payload = pairs_in jvalue_in p; j_id = n_of_string id }
  | _ -> failwith "jentry"

(* an in-memory entry: the payload is a BTreeMap, built with the model's own insert *)
let entry_in (s : string) : W.entry =
  match splitn 5 '/' s with
  | [ts; c; t; id; p] ->
      { W.e_ts = n_of_string ts; e_ctx = bytes_of_hex c; e_type = bytes_of_hex t;
        e_payload = W.build_map (pairs_in scalar_in p); e_id = n_of_string id }
  | _ -> failwith "entry"

let entry_out (e : W.entry) : string =
  Printf.sprintf "%s/%s/%s/%s/%s" (string_of_n e.W.e_ts) (hex_of_bytes e.W.e_ctx) (hex_of_bytes e.W.e_type) (string_of_n e.W.e_id)
    (Stdlib.String.concat "+" (Stdlib.List.map (fun (k, v) -> hex_of_bytes k ^ "@" ^ scalar_out v) e.W.e_payload))
let entries_out es = Stdlib.String.concat "|" (Stdlib.List.map entry_out es)

(* <rawhex>~<desc> *)
let line_in (s : string) : W.line =
  match splitn 2 '~' s with
  | [_; d] ->
      if d = "U" then W.LBadUtf8 else if d = "B" then W.LBlank else if d = "J" then W.LJunk
      else if Stdlib.String.length d > 2 && d.[0] = 'E' then W.LEntry (jentry_in (Stdlib.String.sub d 2 (Stdlib.String.length d - 2)))
      else failwith "line desc"
  | _ -> failwith "line"

(* <linehex>~<desc>,… : the classification of the raw lines of a file given as bytes *)
let table_in (s : string) : Bytes.bytes -> W.line =
  let tbl = if s = "" then [] else Stdlib.List.map (fun it ->
      match splitn 2 '~' it with [h; _] -> (bytes_of_hex h, line_in it) | _ -> failwith "table") (split ',' s) in
  fun b -> match Stdlib.List.assoc_opt b tbl with Some l -> l | None -> failwith ("unclassified line " ^ hex_of_bytes b)

let wput (d : W.wdir) (spec : string) : W.wdir =
  match splitn 4 '=' spec with
  | [n; "b"; c] -> W.put (bytes_of_hex n) (W.WFile (W.file_lines (table_in "") (bytes_of_hex c))) d
  | [n; "b"; c; t] -> W.put (bytes_of_hex n) (W.WFile (W.file_lines (table_in t) (bytes_of_hex c))) d
  | _ ->
  match splitn 3 '=' spec with
  | [n; "d"] -> W.put (bytes_of_hex n) W.WDir d
  | [n; "f"] -> W.put (bytes_of_hex n) (W.WFile []) d
  | [n; "f"; ls] -> W.put (bytes_of_hex n) (W.WFile (if ls = "" then [] else Stdlib.List.map line_in (split ',' ls))) d
  | _ -> failwith "wput"

let ints (b : Bytes.bytes) = Stdlib.List.map int_of_n b
let sort_by_name l = Stdlib.List.sort (fun (a, _) (b, _) -> compare (ints a) (ints b)) l

let listing_w (d : W.wdir) =
  Stdlib.String.concat "," (Stdlib.List.map (fun (n, o) -> hex_of_bytes n ^ ":" ^ (match o with W.WDir -> "d" | W.WFile _ -> "f")) (sort_by_name d))
let listing_a (d : W.adir) =
  Stdlib.String.concat "," (Stdlib.List.map (fun (n, o) ->
      hex_of_bytes n ^ ":" ^
      (match o with
       | W.ADirEnt -> "d"
       | W.AGarbage -> "g"
       | W.AFile f -> Printf.sprintf "a:%s:%s:%s:%s:%s" (string_of_n f.W.a_log_id) (string_of_n f.W.a_start) (string_of_n f.W.a_end)
                        (string_of_n f.W.a_count) (entries_out f.W.a_entries))) (sort_by_name d))

let no_faults = { W.f_io = (fun _ -> W.IoOk); f_del_ok = (fun _ -> true) }
(* RLIMIT_FSIZE = 0 on the real side: every archive write fails after the file was created *)
let starved = { W.f_io = (fun _ -> W.IoFailLate); f_del_ok = (fun _ -> true) }

let run_case (t : string list) : string =
  match t with
  | _ :: mode :: cmds ->
      let wal = ref [] and xwal = ref [] and use_x = ref false and root = ref W.RMissing in
      let obs = ref [] in
      let fl = ref no_faults in
      let adir () = match !root with W.RDir d -> d | _ -> [] in
      Stdlib.List.iter (fun c ->
          if c = "XD" then use_x := true
          else if c = "WCLR" then wal := []
          else if c = "REC" then
            obs := (match W.recover_all !root with Some es -> "REC:" ^ entries_out es | None -> "REC:err") :: !obs
          else match splitn 2 '=' c with
            | ["R"; v] -> root := (match v with "m" -> W.RMissing | "f" -> W.RNotDir | _ -> W.RDir [])
            | ["A"; v] ->
                (match splitn 6 '=' v with
                 | [n; "d"] -> root := W.RDir (W.put (bytes_of_hex n) W.ADirEnt (adir ()))
                 | [n; "g"] -> root := W.RDir (W.put (bytes_of_hex n) W.AGarbage (adir ()))
                 | [n; "a"; id; s; e; es] ->
                     let entries = if es = "" then [] else Stdlib.List.map entry_in (split '|' es) in
                     (* what a later read of the file returns: the entries after the MessagePack trip *)
                     let f = { W.a_log_id = n_of_string id; a_start = n_of_string s; a_end = n_of_string e;
                               a_count = n_of_int (Stdlib.List.length entries); a_entries = Stdlib.List.map W.mp_entry entries } in
                     root := W.RDir (W.put (bytes_of_hex n) (W.AFile f) (adir ()))
                 | _ -> failwith "A")
            | ["AR"; n] ->
                let nb = bytes_of_hex n in
                (match !root with W.RDir d -> root := W.RDir (Stdlib.List.filter (fun (n', _) -> n' <> nb) d) | _ -> ())
            | ["F"; v] -> fl := (if v = "0" then starved else no_faults)
            | ["W"; v] -> wal := wput !wal v
            | ["X"; v] -> xwal := wput !xwal v
            | ["C"; k] ->
                let w = { W.w_wal = !wal; w_cwal = (if !use_x then Some !xwal else None); w_root = !root } in
                let (w', _) = W.cleanup_up_to (mode = "c") !fl w (n_of_string k) in
                wal := w'.W.w_wal;
                (match w'.W.w_cwal with Some d -> xwal := d | None -> ());
                root := w'.W.w_root;
                obs := (if !use_x then "C:" ^ listing_w !wal ^ "/" ^ listing_w !xwal else "C:" ^ listing_w !wal) :: !obs
            | ["RPL"; n] ->
                obs := (match W.lookup (bytes_of_hex n) (if !use_x then !xwal else !wal) with
                        | Some (W.WFile ls) -> "RPL:" ^ entries_out (W.memtable_order (W.replay_entries ls))
                        | _ -> "RPL:none") :: !obs
            | ["L"; id] ->
                let (r', res) = W.archive_log !fl.W.f_io !wal !root (n_of_string id) in
                root := r';
                obs := (match res with Some n -> "L:ok:" ^ hex_of_bytes n | None -> "L:err") :: !obs
            | _ -> failwith "cmd") cmds;
      let fin = ["WAL:" ^ listing_w !wal] @ (if !use_x then ["XWAL:" ^ listing_w !xwal] else [])
                @ [match !root with W.RMissing -> "ROOT:m" | W.RNotDir -> "ROOT:f" | W.RDir d -> "ROOT:d:" ^ listing_a d] in
      Stdlib.String.concat ";" (Stdlib.List.rev !obs @ fin)
  | _ -> "BADCASE"

let run (t : string list) : string =
  match t with
  | "walarch_run" :: _ -> run_case t
  | ["walarch_rt"; s] -> scalar_out (W.mp_roundtrip (scalar_in s))
  | _ -> "UNKNOWN_PROBE"

let init () = Registry.register "walarch_" run
