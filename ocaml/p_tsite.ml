(* requires: Time TimeSites *)
(* C16: the call sites that read time literals (see harness/src/probes/tsite.rs for the case lines). *)
open Conv

let str_of_bytes (b : BinNums.coq_N list) : string =
  Stdlib.String.init (Stdlib.List.length b) (fun i -> Char.chr (int_of_n (Stdlib.List.nth b i)))
let bytes_of_str (s : string) : BinNums.coq_N list =
  Stdlib.List.init (Stdlib.String.length s) (fun i -> n_of_int (Char.code s.[i]))

(* the generator emits: a string literal without escapes, a number, null, true/false,
   or a compact array/object *)
let tval_of_json (h : string) : TimeSites.tval option =
  let s = str_of_bytes (bytes_of_hex h) in
  let n = Stdlib.String.length s in
  if n >= 2 && s.[0] = '"' && s.[n - 1] = '"' then
    Some (TimeSites.TStr (bytes_of_str (Stdlib.String.sub s 1 (n - 2))))
  else if s = "null" then Some TimeSites.TNull
  else if s = "true" || s = "false" then Some TimeSites.TBool
  else if n > 0 && (s.[0] = '[' || s.[0] = '{') then Some (TimeSites.TOther (bytes_of_str s))
  else match P_time.parse_json_num s with
    | Some jn -> Some (TimeSites.TNum jn)
    | None -> None

let ftype_of = function
  | "dt" -> TimeSites.FDateTime
  | "d" -> TimeSites.FDate
  | "odt" -> TimeSites.FOptDateTime
  | "od" -> TimeSites.FOptDate
  | _ -> TimeSites.FString

let pstate_str = function
  | TimeSites.PAbsent -> "A"
  | TimeSites.PErr -> "E"
  | TimeSites.PNum z -> "S " ^ string_of_z z
  | TimeSites.PStr s -> "T " ^ hex_of_bytes s
  | TimeSites.PNull -> "NULL"
  | TimeSites.POther -> "O"

let scalar_str = function
  | TimeSites.SInt z -> "I " ^ string_of_z z
  | TimeSites.SUtf8 s -> "U " ^ hex_of_bytes s
  | TimeSites.SFloat -> "F"
  | TimeSites.SNull -> "N"
  | TimeSites.SBool -> "B"

let cond_str = function
  | TimeSites.CNum z -> "NUM " ^ string_of_z z
  | TimeSites.CStr -> "STR"
  | TimeSites.CNone -> "NONE"

let op_of = function
  | "eq" -> TimeSites.OEq
  | "neq" -> TimeSites.ONeq
  | "gt" -> TimeSites.OGt
  | "gte" -> TimeSites.OGte
  | "lt" -> TimeSites.OLt
  | "lte" -> TimeSites.OLte
  | _ -> TimeSites.OIn

let zones_of (s : string) : TimeSites.zone list =
  if s = "-" then [] else
    Stdlib.List.map (fun z ->
      match Stdlib.String.split_on_char ':' z with
      | [id; stamps] ->
          { TimeSites.z_id = n_of_string id;
            TimeSites.z_ts = Stdlib.List.map z_of_string (Stdlib.String.split_on_char ',' stamps) }
      | _ -> failwith "zone") (Stdlib.String.split_on_char ';' s)

let run (t : string list) : string =
  match t with
  | ["tsite_payload"; ft; h] ->
      if h = "-" then pstate_str (TimeSites.site_payload (ftype_of ft) None)
      else (match tval_of_json h with
            | None -> "BADJSON"
            | Some v -> pstate_str (TimeSites.site_payload (ftype_of ft) (Some v)))
  | ["tsite_where"; h] ->
      (match tval_of_json h with
       | None -> "BADJSON"
       | Some v -> cond_str (TimeSites.site_where v))
  | ["tsite_since"; h] ->
      let s = bytes_of_hex h in
      let row = match TimeSites.site_since_row s with
        | TimeSites.SinceNum z -> "NUM " ^ string_of_z z
        | TimeSites.SinceIgnored -> "IGN" in
      row ^ " | " ^ scalar_str (TimeSites.site_since_filter s)
  | ["tsite_filter"; ft; h] ->
      (match tval_of_json h with
       | None -> "BADJSON"
       | Some v -> scalar_str (TimeSites.site_filter (ftype_of ft) v))
  | ["tsite_prune"; col; op; kind; h; zs] ->
      let lit = bytes_of_hex h in
      let sv = if kind = "i" then TimeSites.SInt (z_of_string (str_of_bytes lit)) else TimeSites.SUtf8 lit in
      (match TimeSites.prune (col = "timestamp") (op_of op) sv (zones_of zs) with
       | None -> "NONE"
       | Some ids ->
           let ids = Stdlib.List.sort_uniq compare (Stdlib.List.map (fun n -> Z.to_int (zt_of_n n)) ids) in
           if ids = [] then "Z -" else "Z " ^ Stdlib.String.concat "," (Stdlib.List.map string_of_int ids))
  | ["tsite_select"; col; op; kind; h; zs] ->
      let lit = bytes_of_hex h in
      let sv = if kind = "i" then TimeSites.SInt (z_of_string (str_of_bytes lit)) else TimeSites.SUtf8 lit in
      let o = op_of op in
      (* IN is planned as FullScan: every zone of the segment *)
      let ids = if op = "in" then Stdlib.List.map (fun z -> z.TimeSites.z_id) (zones_of zs)
                else TimeSites.select_zones (col = "timestamp") o sv (zones_of zs) in
      let ids = Stdlib.List.sort_uniq compare (Stdlib.List.map (fun n -> Z.to_int (zt_of_n n)) ids) in
      if ids = [] then "Z -" else "Z " ^ Stdlib.String.concat "," (Stdlib.List.map string_of_int ids)
  | ["tsite_all"; h] ->
      let lit = bytes_of_hex h in
      let v = TimeSites.TStr lit in
      let p_dt = TimeSites.site_payload TimeSites.FDateTime (Some v) in
      let p_d = TimeSites.site_payload TimeSites.FDate (Some v) in
      let w = TimeSites.site_where v in
      let sn = TimeSites.site_since_row lit in
      let f = TimeSites.site_filter TimeSites.FDateTime v in
      let clamp z = let x = zt_of_z z in if Z.sign x < 0 then Z.zero else x in
      let cands = [Z.zero]
        @ (match p_dt with TimeSites.PNum z -> [clamp z; zt_of_z z] | _ -> [])
        @ (match p_d with TimeSites.PNum z -> [clamp z; zt_of_z z] | _ -> [])
        @ (match w with TimeSites.CNum z -> [clamp z; zt_of_z z] | _ -> [])
        @ (match sn with TimeSites.SinceNum z -> [clamp z; zt_of_z z] | _ -> [])
        @ (match f with TimeSites.SInt z -> [clamp z; zt_of_z z] | _ -> []) in
      let cands = Stdlib.List.sort_uniq Z.compare cands in
      let zones = Stdlib.List.mapi (fun i c -> { TimeSites.z_id = n_of_int i; TimeSites.z_ts = [z_of_zt c] }) cands in
      let pr = match TimeSites.prune false TimeSites.OEq (TimeSites.SUtf8 lit) zones with
        | None -> "NONE"
        | Some ids ->
            let ids = Stdlib.List.sort_uniq compare (Stdlib.List.map (fun n -> Z.to_int (zt_of_n n)) ids) in
            if ids = [] then "?" else
              Stdlib.String.concat "," (Stdlib.List.map (fun i -> Z.to_string (Stdlib.List.nth cands i)) ids) in
      Printf.sprintf "PDT=%s;PD=%s;W=%s;SN=%s;F=%s;PR=%s" (pstate_str p_dt) (pstate_str p_d) (cond_str w)
        (match sn with TimeSites.SinceNum z -> "NUM " ^ string_of_z z | TimeSites.SinceIgnored -> "IGN")
        (scalar_str f) pr
  | ["tsite_matspec"; h; ts; eid] ->
      let since = if h = "-" then None else Some (bytes_of_hex h) in
      (match TimeSites.site_matspec since (z_of_string ts) (z_of_string eid) with
       | None -> "N"
       | Some s -> "S " ^ hex_of_bytes s)
  | _ -> "UNKNOWN_PROBE"

let init () = Registry.register "tsite_" run
