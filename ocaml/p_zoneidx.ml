(* requires: ZoneSel EnumBitmap Temporal XorKey Time CtxIndex *)
(* C08 part B probes on the extracted models; same case lines and result lines as
   harness/src/probes/zoneidx.rs.  Parsing and printing only. *)
open Conv
module SL = Stdlib.List
module SS = Stdlib.String

let split_on c s = SS.split_on_char c s
let join sep l = SS.concat sep l
let tail1 s = SS.sub s 1 (SS.length s - 1)

let op_of = function
  | "eq" -> ZoneSel.OEq | "neq" -> ZoneSel.ONeq | "gt" -> ZoneSel.OGt | "gte" -> ZoneSel.OGte
  | "lt" -> ZoneSel.OLt | "lte" -> ZoneSel.OLte | _ -> ZoneSel.OIn

let show = function
  | None -> "N"
  | Some zs -> "S:" ^ join "," (SL.map string_of_n zs)

(* zones "zid:cell,cell;zid:..." -> (zid, cell tokens) list *)
let parse_zones (s : string) : (BinNums.coq_N * string list) list =
  if s = "_" then [] else
  SL.map (fun z ->
      match split_on ':' z with
      | [zid; cells] -> (n_of_string zid, split_on ',' cells)
      | _ -> failwith "zone") (split_on ';' s)

let sort_uniq_n (l : BinNums.coq_N list) = SL.sort_uniq (fun a b -> Z.compare (zt_of_n a) (zt_of_n b)) l

(* ---------------- enum *)
let enum_cell (tok : string) : BinNums.coq_N list =
  if tok = "~" then [] else
  match tok.[0] with
  | 's' -> bytes_of_hex (tail1 tok)
  | _ -> failwith "enum cell"

let run_enum variants zones op lit =
  let variants = if variants = "_" then [] else SL.map bytes_of_hex (split_on ',' variants) in
  let zones = SL.map (fun (z, cs) -> (z, SL.map enum_cell cs)) (parse_zones zones) in
  let lit = if lit.[0] = 's' then Some (bytes_of_hex (tail1 lit)) else None in
  match EnumBitmap.build_all variants zones with
  | None -> "PANIC"
  | Some ix ->
      let bits = join ";" (SL.map (fun (z, bs) -> string_of_n z ^ ":" ^ join "/" (SL.map hex_of_bytes bs)) ix.EnumBitmap.e_zones) in
      let res = EnumBitmap.apply (Some ix) (Some (op_of op)) (Some lit) in
      Printf.sprintf "rpz=%s bits=%s res=%s" (string_of_n ix.EnumBitmap.e_rpz) bits (show res)

(* ---------------- temporal *)
let temp_cell (tok : string) : Temporal.tcell =
  if tok = "~" then Temporal.TCOther else
  match tok.[0] with
  | 'i' | 't' -> Temporal.TCInt (z_of_string (tail1 tok))
  | 's' -> Temporal.TCStr (bytes_of_hex (tail1 tok))
  | _ -> Temporal.TCOther

(* exact rational value of an IEEE double given by its bit pattern (finite values only) *)
let rat_of_bits (bits : Z.t) : (Z.t * Z.t) option =
  let sign = Z.testbit bits 63 in
  let e = Z.to_int (Z.logand (Z.shift_right bits 52) (Z.of_int 0x7ff)) in
  let m = Z.logand bits (Z.pred (Z.shift_left Z.one 52)) in
  if e = 0x7ff then None else begin
    let m, e = if e = 0 then m, -1074 else Z.logor m (Z.shift_left Z.one 52), e - 1075 in
    let m = if sign then Z.neg m else m in
    if e >= 0 then Some (Z.shift_left m e, Z.one) else Some (m, Z.shift_left Z.one (-e))
  end

let temp_lit (tok : string) : Temporal.tlit =
  match tok.[0] with
  | 'i' | 't' -> Temporal.TLInt (z_of_string (tail1 tok))
  | 's' -> Temporal.TLStr (bytes_of_hex (tail1 tok))
  | 'f' ->
      let b = SL.hd (split_on '/' (tail1 tok)) in
      (match rat_of_bits (Z.of_string b) with
       | Some (n, d) -> Temporal.TLFloat (z_of_zt n, pos_of_zt d)
       | None -> Temporal.TLOther)
  | _ -> Temporal.TLOther

let run_temp col zones op lit =
  let pz = parse_zones zones in
  let is_ts = (col = "ts") in
  let ix =
    if is_ts then
      Temporal.build_fixed (SL.map (fun (z, cs) -> (z, SL.map (fun c ->
        match c.[0] with
        | 'i' -> n_of_string (tail1 c)
        | 's' -> n_of_string (let b = bytes_of_hex (tail1 c) in SS.init (SL.length b) (fun i -> Char.chr (int_of_n (SL.nth b i))))
        | _ -> failwith "ts cell") cs)) pz)
    else Temporal.build_cells (SL.map (fun (z, cs) -> (z, SL.map temp_cell cs)) pz) in
  let fm m = join "," (SL.map (fun (b, zs) -> string_of_n b ^ ":" ^ join "." (SL.map string_of_n zs)) m) in
  let cal = match ix.Temporal.t_cal with
    | None -> "N"
    | Some c -> "H" ^ fm c.Temporal.cal_hour ^ "|D" ^ fm c.Temporal.cal_day in
  let zids = sort_uniq_n (SL.map fst pz) in
  let zt = SL.filter_map (fun z ->
      match Temporal.zti_lookup z ix.Temporal.t_ztis with
      | None -> None
      | Some x -> Some (Printf.sprintf "%s:%s:%s:%s" (string_of_n z) (string_of_z x.Temporal.z_min) (string_of_z x.Temporal.z_max)
                          (join "." (SL.map string_of_n x.Temporal.z_keys)))) zids in
  let res = SL.map (fun l -> show (Temporal.apply_temporal_only is_ts ix (op_of op) (temp_lit l))) (split_on ',' lit) in
  Printf.sprintf "cal=%s zti=%s res=%s" cal (join ";" zt) (join "|" res)

(* ---------------- xor *)
let xor_scalar (tok : string) : XorKey.scalar option =
  if tok = "~" then None else
  match tok.[0] with
  | 'i' -> Some (XorKey.SInt (z_of_string (tail1 tok)))
  | 't' -> Some (XorKey.STs (z_of_string (tail1 tok)))
  | 's' -> Some (XorKey.SUtf8 (bytes_of_hex (tail1 tok)))
  | 'f' -> (match split_on '/' (tail1 tok) with
            | [_; d] -> Some (XorKey.SFloat (bytes_of_hex d))
            | _ -> failwith "float cell needs a display string")
  | 'b' -> Some (XorKey.SBool (tok = "b1"))
  | 'n' -> Some XorKey.SNull
  | _ -> failwith "xor cell"

let key_str = function None -> "N" | Some k -> string_of_n k

let run_xor zones op lit =
  let pz = SL.map (fun (z, cs) -> (z, SL.map xor_scalar cs)) (parse_zones zones) in
  let lit = match xor_scalar lit with Some l -> l | None -> failwith "literal" in
  let cell_key = function None -> "N" | Some v -> key_str (XorKey.probe_key v) in
  let ck = join ";" (SL.map (fun (z, cs) -> string_of_n z ^ ":" ^ join "," (SL.map cell_key cs)) pz) in
  let ix = XorKey.build_for_field XorKey.exact_build pz in
  let have = match ix with None -> "N" | Some fs -> join "," (SL.map (fun (z, _) -> string_of_n z) fs) in
  let zres = XorKey.apply_zone_index_only XorKey.exact_contains ix (op_of op) lit in
  let all_zones = SL.mapi (fun i _ -> n_of_int i) pz in
  let ff = XorKey.build_field_filter XorKey.exact_build pz in
  let fres = XorKey.apply_presence_only XorKey.exact_contains ff all_zones (op_of op) lit in
  Printf.sprintf "lk=%s disp=ok ck=%s have=%s own=1 zres=%s fres=%s" (key_str (XorKey.probe_key lit)) ck have (show zres) (show fres)

(* ---------------- context index (part C): same line and answer as run_ctx of zoneidx.rs.  The mode token
   (b<k> = the planner cut the rows into zones of k, x = explicit plans) only matters to the Rust side: the zones
   of the line are the zone plans either way (the Rust probe checks that with shape=ok). *)
let run_ctx _mode zones probes =
  let zps = SL.map (fun z ->
      match split_on ':' z with
      | [zid; evt; cs] -> { CtxIndex.zp_id = n_of_string zid; zp_evt = bytes_of_hex evt;
                            zp_ctxs = SL.map bytes_of_hex (split_on ',' cs) }
      | _ -> failwith "ctx zone") (split_on ';' zones) in
  let ix = CtxIndex.build zps in
  let by_key l = SL.sort (fun (a, _) (b, _) -> compare a b) l in
  let dump = by_key (SL.map (fun (e, cm) ->
      (hex_of_bytes e, by_key (SL.map (fun (c, zs) -> (hex_of_bytes c, zs)) cm))) (CtxIndex.dump ix)) in
  let ds = join ";" (SL.map (fun (e, cm) ->
      e ^ ">" ^ join "," (SL.map (fun (c, zs) -> c ^ "=" ^ join "." (SL.map string_of_n zs)) cm)) dump) in
  let res = SL.map (fun p ->
      match split_on '/' p with
      | [e; c] ->
          let ctx = if c = "~" then None else Some (bytes_of_hex c) in
          show (Some (CtxIndex.find ix (bytes_of_hex e) ctx))
      | _ -> failwith "ctx probe") (split_on ',' probes) in
  Printf.sprintf "shape=ok idx=%s res=%s" (if ds = "" then "_" else ds) (join "|" res)

let run (t : string list) : string =
  match t with
  | ["zidx_ctx"; mode; z; probes] -> run_ctx mode z probes
  | ["zidx_hash"; h] -> string_of_n (XorKey.stable_hash64 (bytes_of_hex h))
  | ["zidx_enum"; v; z; op; lit] -> run_enum v z op lit
  | ["zidx_temp"; col; z; op; lit] -> run_temp col z op lit
  | ["zidx_xor"; z; op; lit] -> run_xor z op lit
  | _ -> "UNKNOWN_PROBE"

let init () = Registry.register "zidx_" run
