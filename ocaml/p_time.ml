(* requires: Time *)
open Conv

(* A tiny JSON-number reader for the time_json probe: the case generator only
   emits a number or a string literal without escapes. *)
let parse_json_num (s : string) : Time.jnum option =
  (* integer? *)
  let is_int = Stdlib.String.length s > 0 && (try ignore (Z.of_string s); true with _ -> false)
               && not (Stdlib.String.contains s '.') && not (Stdlib.String.contains s 'e') && not (Stdlib.String.contains s 'E') in
  if is_int then begin
    let z = Z.of_string s in
    (* serde_json: integers that fit u64 / i64 stay integers, others become f64 *)
    if Z.geq z (Z.neg (Z.shift_left Z.one 63)) && Z.lt z (Z.shift_left Z.one 64)
    then Some (Time.JInt (z_of_zt z)) else Some (Time.JDec (z_of_zt z, z_of_zt Z.zero))
  end else begin
    (* mantissa[.frac][e[+-]exp] *)
    try
      let s', e =
        match Stdlib.String.index_opt (Stdlib.String.lowercase_ascii s) 'e' with
        | Some i -> Stdlib.String.sub s 0 i, int_of_string (Stdlib.String.sub s (i + 1) (Stdlib.String.length s - i - 1))
        | None -> s, 0 in
      let ip, fp = match Stdlib.String.index_opt s' '.' with
        | Some i -> Stdlib.String.sub s' 0 i, Stdlib.String.sub s' (i + 1) (Stdlib.String.length s' - i - 1)
        | None -> s', "" in
      let m = Z.of_string (ip ^ fp) in
      let m = if Stdlib.String.length ip > 0 && ip.[0] = '-' && Z.sign m = 0 then m else m in
      Some (Time.JDec (z_of_zt m, z_of_zt (Z.of_int (e - Stdlib.String.length fp))))
    with _ -> None
  end

let run (t : string list) : string =
  match t with
  | ["time_str"; _kind; h] -> opt_z (Time.parse_str_to_epoch_seconds (bytes_of_hex h))
  | ["time_jstr"; _kind; h] -> opt_z (Time.parse_str_to_epoch_seconds (bytes_of_hex h))
  | ["time_json"; _kind; h] ->
      let b = bytes_of_hex h in
      let s = Stdlib.String.init (Stdlib.List.length b) (fun i -> Char.chr (int_of_n (Stdlib.List.nth b i))) in
      let n = Stdlib.String.length s in
      if n >= 2 && s.[0] = '"' && s.[n - 1] = '"' then
        let inner = Stdlib.String.sub s 1 (n - 2) in
        let ib = Stdlib.List.init (Stdlib.String.length inner) (fun i -> n_of_int (Char.code inner.[i])) in
        opt_z (Time.parse_str_to_epoch_seconds ib)
      else begin
        match parse_json_num s with
        | Some jn -> opt_z (Time.normalize_json_number jn)
        | None -> "N"
      end
  | _ -> "UNKNOWN_PROBE"

let init () = Registry.register "time_" run
