(* Conversions between OCaml/Zarith values and the extracted Coq numerals.
   No model logic here. *)
open BinNums

let rec pos_of_zt (z : Z.t) : positive =
  if Z.equal z Z.one then Coq_xH
  else if Z.is_even z then Coq_xO (pos_of_zt (Z.shift_right z 1))
  else Coq_xI (pos_of_zt (Z.shift_right z 1))

let rec zt_of_pos (p : positive) : Z.t =
  match p with
  | Coq_xH -> Z.one
  | Coq_xO q -> Z.shift_left (zt_of_pos q) 1
  | Coq_xI q -> Z.succ (Z.shift_left (zt_of_pos q) 1)

let n_of_zt (z : Z.t) : coq_N = if Z.sign z = 0 then N0 else Npos (pos_of_zt z)
let zt_of_n (n : coq_N) : Z.t = match n with N0 -> Z.zero | Npos p -> zt_of_pos p
let z_of_zt (z : Z.t) : coq_Z =
  if Z.sign z = 0 then Z0 else if Z.sign z > 0 then Zpos (pos_of_zt z) else Zneg (pos_of_zt (Z.neg z))
let zt_of_z (z : coq_Z) : Z.t =
  match z with Z0 -> Z.zero | Zpos p -> zt_of_pos p | Zneg p -> Z.neg (zt_of_pos p)

let n_of_int i = n_of_zt (Z.of_int i)
let int_of_n n = Z.to_int (zt_of_n n)
let z_of_string s = z_of_zt (Z.of_string s)
let n_of_string s = n_of_zt (Z.of_string s)
let string_of_z z = Z.to_string (zt_of_z z)
let string_of_n n = Z.to_string (zt_of_n n)

let rec nat_of_int i : Datatypes.nat = if i <= 0 then Datatypes.O else Datatypes.S (nat_of_int (i - 1))
let rec int_of_nat (n : Datatypes.nat) = match n with Datatypes.O -> 0 | Datatypes.S m -> 1 + int_of_nat m

(* hex token -> list of byte values as N; "-" is the empty string *)
let bytes_of_hex (h : string) : coq_N list =
  if h = "-" then [] else begin
    let n = Stdlib.String.length h / 2 in
    Stdlib.List.init n (fun i -> n_of_int (int_of_string ("0x" ^ Stdlib.String.sub h (2 * i) 2)))
  end
let hex_of_bytes (b : coq_N list) : string =
  if b = [] then "-" else Stdlib.String.concat "" (Stdlib.List.map (fun c -> Printf.sprintf "%02x" (int_of_n c)) b)

let opt_z = function Some z -> "S " ^ string_of_z z | None -> "N"
