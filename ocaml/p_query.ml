(* requires: Value Expr Sem Cond Prune Layout Known *)
(* C02 probe: drives the extracted models Model/{Value,Expr,Sem,Cond,Prune,Layout}.v.
   Parsing of the case and printing only.

   query_eval <schema> <event> <query>
       -> "<wt> <sat> <mem> <seg>"   (0/1, P = the row filter panics)
   query_run  <schema> <events> <layout> <query> <answers>
       -> "R <idx>.<idx>… M<0|1> U<0|1>"     event indexes returned (sorted, with multiplicity); M1 = the candidate
                                      zones mix uid-carrying and bare zones (Layout.mixed_provenance);
                                      U1 = some leaf's zones are not a superset (not Layout.leaves_sound)
   query_class <schema> <events> <query>
       -> the Known.known_class constructor name, or "-"
   query_plan <schema> <query>
       -> per leaf "<leafkey>=<strategy letter><served 0/1>" joined by ","

   schema  : field,field,…     field = <hexname>:<kind>:<opt 0|1>   kind = i u f s b t e=<hex>+<hex>…
   event   : <hexctx>/<v>;<v>;…  v = i<z> u<n> f<bits>~<hexdisp> s<hex> b0|b1 e<hex> t<z> n a
   events  : event,event,…
   layout  : M:<idx>.<idx>…[/S:<zid>=<idx>.<idx>…;<zid>=…]…          ("M:" alone = empty memtable)
   query   : <hexctx|*>,<expr>    expr = W (no WHERE) | prefix tokens separated by ','
             A (and) O (or) N (not) C:<hexf>:<op>:<lit>  I:<hexf>:<lit>+<lit>…   (I:<hexf>: = empty list)
             op = eq ne lt le gt ge ; lit = i<z> f<bits>~<hexjson> s<hex> b0|b1
   answers : "-" or  <seg>:<leafkey>=T<a>;E<a>;R<a>;X<a>,…    leafkey = <hexf>:<op>:<lit>
             a = N | S<zid>.<zid>…   (the four real pruners' answers; the model picks by strategy) *)
open Conv
module V = Value
module E = Expr

let split c s = if s = "" then [] else Stdlib.String.split_on_char c s
let tl1 s = Stdlib.String.sub s 1 (Stdlib.String.length s - 1)
let cut c s =
  match Stdlib.String.index_opt s c with
  | None -> (s, "")
  | Some i -> (Stdlib.String.sub s 0 i, Stdlib.String.sub s (i + 1) (Stdlib.String.length s - i - 1))

let kind_in (s : string) : V.kind =
  match s.[0] with
  | 'i' -> V.KInt | 'u' -> V.KU64 | 'f' -> V.KFloat | 's' -> V.KStr | 'b' -> V.KBool | 't' -> V.KTime
  | 'e' -> V.KEnum (Stdlib.List.map bytes_of_hex (split '+' (Stdlib.String.sub s 2 (Stdlib.String.length s - 2))))
  | _ -> failwith "kind"

let schema_in (s : string) : V.schema =
  Stdlib.List.map (fun f ->
      match Stdlib.String.split_on_char ':' f with
      | [n; k; o] -> { V.f_name = bytes_of_hex n; f_kind = kind_in k; f_opt = (o = "1") }
      | _ -> failwith "field") (split ',' s)

let value_in (s : string) : V.value =
  match s.[0] with
  | 'i' -> V.VInt (z_of_string (tl1 s))
  | 'u' -> V.VU64 (n_of_string (tl1 s))
  | 'f' -> let (b, d) = cut '~' (tl1 s) in V.VFloat (n_of_string b, bytes_of_hex d)
  | 's' -> V.VStr (bytes_of_hex (tl1 s))
  | 'b' -> V.VBool (s = "b1")
  | 'e' -> V.VEnum (bytes_of_hex (tl1 s))
  | 't' -> V.VTime (z_of_string (tl1 s))
  | 'n' -> V.VNull
  | 'a' -> V.VAbsent
  | _ -> failwith "value"

let event_in (s : string) : V.event =
  let (c, vs) = cut '/' s in
  { V.ev_ctx = bytes_of_hex c; ev_row = Stdlib.List.map value_in (split ';' vs) }

let op_in = function
  | "eq" -> E.CEq | "ne" -> E.CNe | "lt" -> E.CLt | "le" -> E.CLe | "gt" -> E.CGt | "ge" -> E.CGe
  | _ -> failwith "op"
let op_out = function
  | E.CEq -> "eq" | E.CNe -> "ne" | E.CLt -> "lt" | E.CLe -> "le" | E.CGt -> "gt" | E.CGe -> "ge"

let lit_in (s : string) : E.lit =
  match s.[0] with
  | 'i' -> E.LInt (z_of_string (tl1 s))
  | 'f' -> let (b, j) = cut '~' (tl1 s) in E.LFloat (n_of_string b, bytes_of_hex j)
  | 's' -> E.LStr (bytes_of_hex (tl1 s))
  | 'b' -> E.LBool (s = "b1")
  | _ -> failwith "lit"
let lit_out = function
  | E.LInt z -> "i" ^ string_of_z z
  | E.LFloat (b, j) -> "f" ^ string_of_n b ^ "~" ^ hex_of_bytes j
  | E.LStr s -> "s" ^ hex_of_bytes s
  | E.LBool b -> if b then "b1" else "b0"

(* prefix expression over a token list *)
let rec expr_in (t : string list) : E.expr * string list =
  match t with
  | "A" :: r -> let (a, r1) = expr_in r in let (b, r2) = expr_in r1 in (E.EAnd (a, b), r2)
  | "O" :: r -> let (a, r1) = expr_in r in let (b, r2) = expr_in r1 in (E.EOr (a, b), r2)
  | "N" :: r -> let (a, r1) = expr_in r in (E.ENot a, r1)
  | x :: r when x.[0] = 'C' ->
      (match Stdlib.String.split_on_char ':' x with
       | [_; f; o; l] -> (E.ECmp (bytes_of_hex f, op_in o, lit_in l), r)
       | _ -> failwith "cmp")
  | x :: r when x.[0] = 'I' ->
      (match Stdlib.String.split_on_char ':' x with
       | [_; f; ls] -> (E.EIn (bytes_of_hex f, Stdlib.List.map lit_in (split '+' ls)), r)
       | _ -> failwith "in")
  | _ -> failwith "expr"

let query_in (s : string) : E.query =
  match Stdlib.String.split_on_char ',' s with
  | c :: rest ->
      let ctx = if c = "*" then None else Some (bytes_of_hex c) in
      let w = match rest with
        | ["W"] -> None
        | _ -> let (e, r) = expr_in rest in if r <> [] then failwith "trailing" else Some e in
      { E.q_ctx = ctx; q_where = w }
  | [] -> failwith "query"

let ob = function Some true -> "1" | Some false -> "0" | None -> "P"
let b01 b = if b then "1" else "0"

let leaf_key (l : Prune.leaf) : string =
  hex_of_bytes l.Prune.l_field ^ ":" ^ op_out l.Prune.l_op ^ ":" ^ lit_out l.Prune.l_lit

let strat_letter = function
  | Prune.SFullScan -> 'F' | Prune.STemporal -> 'T' | Prune.SEnum -> 'E' | Prune.SSurf -> 'R' | Prune.SZoneXor -> 'X'

let ans_in (s : string) : Prune.zid list option =
  if s = "N" then None else Some (Stdlib.List.map n_of_string (split '.' (tl1 s)))

(* answers table: (segidx, leafkey) -> (letter -> answer) *)
let answers_in (s : string) : ((int * string) * (char * Prune.zid list option) list) list =
  if s = "-" then [] else
    Stdlib.List.map (fun e ->
        let (k, v) = cut '=' e in
        let (seg, lk) = cut ':' k in
        ((int_of_string seg, lk),
         Stdlib.List.map (fun a -> (a.[0], ans_in (tl1 a))) (split ';' v))) (split ',' s)

let idx_list s = Stdlib.List.map int_of_string (split '.' s)

let run (t : string list) : string =
  match t with
  | ["query_eval"; sch; ev; q] ->
      let sch = schema_in sch and ev = event_in ev and q = query_in q in
      let wt = match q.E.q_where with Some e -> Sem.well_typed sch e | None -> true in
      Printf.sprintf "%s %s %s %s" (b01 wt) (b01 (Sem.sat_query sch q ev))
        (ob (Cond.filter_mem sch q ev)) (ob (Cond.filter_seg sch q [ev] ev))
  | ["query_class"; sch; evs; q] ->
      let sch = schema_in sch and q = query_in q in
      let evs = Stdlib.List.map event_in (split ',' evs) in
      (match Known.known_class sch evs q with
       | None -> "-"
       | Some c -> (match c with
           | Known.NotComplement -> "NotComplement" | Known.LiteralDropped -> "LiteralDropped"
           | Known.FloatColumnIn -> "FloatColumnIn" | Known.FloatThresholdRounded -> "FloatThresholdRounded"
           | Known.U64NegativeThreshold -> "U64NegativeThreshold" | Known.U64AboveI64Max -> "U64AboveI64Max"
           | Known.NumericLookingString -> "NumericLookingString" | Known.StringOrdering -> "StringOrdering"
           | Known.NullSpelling -> "NullSpelling" | Known.NeqOnOptionalText -> "NeqOnOptionalText"
           | Known.IllTyped -> "IllTyped"))
  | ["query_plan"; sch; q] ->
      let sch = schema_in sch and q = query_in q in
      (match q.E.q_where with
       | None -> "W"
       | Some e ->
           match Prune.build_fg e with
           | None -> "NOTREE"
           | Some g ->
               let rec leaves g acc = match g with
                 | Prune.FLeaf l -> l :: acc
                 | Prune.FAnd (a, b) | Prune.FOr (a, b) -> leaves a (leaves b acc)
                 | Prune.FNot a -> leaves a acc in
               Stdlib.String.concat ","
                 (Stdlib.List.map (fun l ->
                      Printf.sprintf "%s=%c%s" (leaf_key l) (strat_letter (Prune.choose sch l)) (b01 (Prune.serves sch l)))
                     (leaves g [])))
  | ["query_run"; sch; evs; lay; q; answers] ->
      let sch = schema_in sch and q = query_in q in
      let evs = Stdlib.Array.of_list (Stdlib.List.map event_in (split ',' evs)) in
      let tbl = answers_in answers in
      let parts = split '/' lay in
      let mem = ref [] and segs = ref [] in
      Stdlib.List.iter (fun p ->
          let (tag, body) = cut ':' p in
          if tag = "M" then mem := idx_list body
          else segs := (Stdlib.List.map (fun z -> let (zid, rows) = cut '=' z in (n_of_string zid, idx_list rows)) (split ';' body)) :: !segs) parts;
      let segs = Stdlib.List.rev !segs in
      (* events are identified by their index, carried in an extra leading field no query mentions *)
      let tag_schema = { V.f_name = bytes_of_hex "5f5f6964"; f_kind = V.KInt; f_opt = false } :: sch in
      let tagged i = let e = evs.(i) in { V.ev_ctx = e.V.ev_ctx; ev_row = V.VInt (Conv.z_of_zt (Z.of_int i)) :: e.V.ev_row } in
      let layout = { Layout.l_mem = Stdlib.List.map tagged !mem;
                     l_segs = Stdlib.List.map (fun zs -> Stdlib.List.map (fun (zid, rows) -> { Layout.z_id = zid; z_rows = Stdlib.List.map tagged rows }) zs) segs } in
      let ans (i : Datatypes.nat) (l : Prune.leaf) : Prune.zid list option =
        let key = (int_of_nat i, leaf_key l) in
        match Stdlib.List.assoc_opt key tbl with
        | None -> None
        | Some per -> (match Stdlib.List.assoc_opt (strat_letter (Prune.choose tag_schema l)) per with Some a -> a | None -> None) in
      let out = Layout.run_query tag_schema ans layout q in
      let ids = Stdlib.List.map (fun e -> match e.V.ev_row with V.VInt z :: _ -> Z.to_int (Conv.zt_of_z z) | _ -> -1) out in
      "R " ^ Stdlib.String.concat "." (Stdlib.List.map string_of_int (Stdlib.List.sort compare ids))
      ^ (if Layout.mixed_provenance tag_schema ans layout q then " M1" else " M0")
      ^ (if Layout.leaves_sound tag_schema ans layout q then " U0" else " U1")
  | _ -> "BAD_CASE"

let init () = Registry.register "query_" run
