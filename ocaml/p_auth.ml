(* requires: Auth *)
(* Probe for property C13: runs the EXTRACTED model (Model/Auth.v) on the case lines of
   harness/src/probes/auth.rs.  No authorisation logic here: parsing of the case line,
   the instantiation of the model's two uninterpreted functions, and printing.

   - [hmac] is instantiated with a plain OCaml HMAC-SHA256 (hex), below;
   - [parse] maps the command text the gate hands on to the abstract command the case line
     declares for it ([desc] + expected text); any other text is "unparseable".
   The model state, the per-connection gate state, the clock and the token slots live in refs:
   one process = one history, as on the Rust side. *)
open Conv

(* ---------- SHA-256 / HMAC (FIPS 180-4, RFC 2104) on OCaml ints ---------- *)
let k256 = [|
  0x428a2f98; 0x71374491; 0xb5c0fbcf; 0xe9b5dba5; 0x3956c25b; 0x59f111f1; 0x923f82a4; 0xab1c5ed5;
  0xd807aa98; 0x12835b01; 0x243185be; 0x550c7dc3; 0x72be5d74; 0x80deb1fe; 0x9bdc06a7; 0xc19bf174;
  0xe49b69c1; 0xefbe4786; 0x0fc19dc6; 0x240ca1cc; 0x2de92c6f; 0x4a7484aa; 0x5cb0a9dc; 0x76f988da;
  0x983e5152; 0xa831c66d; 0xb00327c8; 0xbf597fc7; 0xc6e00bf3; 0xd5a79147; 0x06ca6351; 0x14292967;
  0x27b70a85; 0x2e1b2138; 0x4d2c6dfc; 0x53380d13; 0x650a7354; 0x766a0abb; 0x81c2c92e; 0x92722c85;
  0xa2bfe8a1; 0xa81a664b; 0xc24b8b70; 0xc76c51a3; 0xd192e819; 0xd6990624; 0xf40e3585; 0x106aa070;
  0x19a4c116; 0x1e376c08; 0x2748774c; 0x34b0bcb5; 0x391c0cb3; 0x4ed8aa4a; 0x5b9cca4f; 0x682e6ff3;
  0x748f82ee; 0x78a5636f; 0x84c87814; 0x8cc70208; 0x90befffa; 0xa4506ceb; 0xbef9a3f7; 0xc67178f2 |]
let m32 = 0xFFFFFFFF
let rotr x n = ((x lsr n) lor (x lsl (32 - n))) land m32
let sha256 (msg : string) : string =
  let h = [| 0x6a09e667; 0xbb67ae85; 0x3c6ef372; 0xa54ff53a; 0x510e527f; 0x9b05688c; 0x1f83d9ab; 0x5be0cd19 |] in
  let ml = Stdlib.String.length msg in
  let padlen = let r = (ml + 9) mod 64 in if r = 0 then 0 else 64 - r in
  let total = ml + 9 + padlen in
  let b = Stdlib.Bytes.make total '\000' in
  Stdlib.Bytes.blit_string msg 0 b 0 ml;
  Stdlib.Bytes.set b ml '\x80';
  let bits = ml * 8 in
  for i = 0 to 7 do
    Stdlib.Bytes.set b (total - 1 - i) (Char.chr ((bits lsr (8 * i)) land 0xFF))
  done;
  let w = Array.make 64 0 in
  for blk = 0 to total / 64 - 1 do
    for i = 0 to 15 do
      let o = blk * 64 + i * 4 in
      w.(i) <- (Char.code (Stdlib.Bytes.get b o) lsl 24) lor (Char.code (Stdlib.Bytes.get b (o + 1)) lsl 16)
               lor (Char.code (Stdlib.Bytes.get b (o + 2)) lsl 8) lor Char.code (Stdlib.Bytes.get b (o + 3))
    done;
    for i = 16 to 63 do
      let s0 = rotr w.(i - 15) 7 lxor rotr w.(i - 15) 18 lxor (w.(i - 15) lsr 3) in
      let s1 = rotr w.(i - 2) 17 lxor rotr w.(i - 2) 19 lxor (w.(i - 2) lsr 10) in
      w.(i) <- (w.(i - 16) + s0 + w.(i - 7) + s1) land m32
    done;
    let a = ref h.(0) and bb = ref h.(1) and c = ref h.(2) and d = ref h.(3)
    and e = ref h.(4) and f = ref h.(5) and g = ref h.(6) and hh = ref h.(7) in
    for i = 0 to 63 do
      let s1 = rotr !e 6 lxor rotr !e 11 lxor rotr !e 25 in
      let ch = (!e land !f) lxor ((lnot !e) land m32 land !g) in
      let t1 = (!hh + s1 + ch + k256.(i) + w.(i)) land m32 in
      let s0 = rotr !a 2 lxor rotr !a 13 lxor rotr !a 22 in
      let mj = (!a land !bb) lxor (!a land !c) lxor (!bb land !c) in
      let t2 = (s0 + mj) land m32 in
      hh := !g; g := !f; f := !e; e := (!d + t1) land m32;
      d := !c; c := !bb; bb := !a; a := (t1 + t2) land m32
    done;
    h.(0) <- (h.(0) + !a) land m32; h.(1) <- (h.(1) + !bb) land m32; h.(2) <- (h.(2) + !c) land m32;
    h.(3) <- (h.(3) + !d) land m32; h.(4) <- (h.(4) + !e) land m32; h.(5) <- (h.(5) + !f) land m32;
    h.(6) <- (h.(6) + !g) land m32; h.(7) <- (h.(7) + !hh) land m32
  done;
  let out = Stdlib.Bytes.create 32 in
  for i = 0 to 7 do
    for j = 0 to 3 do
      Stdlib.Bytes.set out (i * 4 + j) (Char.chr ((h.(i) lsr (24 - 8 * j)) land 0xFF))
    done
  done;
  Stdlib.Bytes.to_string out

let hmac_sha256_hex (key : string) (msg : string) : string =
  let key = if Stdlib.String.length key > 64 then sha256 key else key in
  let key = key ^ Stdlib.String.make (64 - Stdlib.String.length key) '\000' in
  let xor c = Stdlib.String.map (fun k -> Char.chr (Char.code k lxor c)) key in
  let d = sha256 (xor 0x5c ^ sha256 (xor 0x36 ^ msg)) in
  Stdlib.String.concat "" (Stdlib.List.init 32 (fun i -> Printf.sprintf "%02x" (Char.code d.[i])))

(* ---------- conversions ---------- *)
let b_of_s (s : string) : BinNums.coq_N list =
  Stdlib.List.init (Stdlib.String.length s) (fun i -> n_of_int (Char.code s.[i]))
let s_of_b (b : BinNums.coq_N list) : string =
  let a = Array.of_list b in
  Stdlib.String.init (Array.length a) (fun i -> Char.chr (int_of_n a.(i) land 255))
let s_of_hex (h : string) : string =
  if h = "-" then "" else Stdlib.String.init (Stdlib.String.length h / 2) (fun i -> Char.chr (int_of_string ("0x" ^ Stdlib.String.sub h (2 * i) 2)))
let hex_of_s (s : string) : string =
  if s = "" then "-" else Stdlib.String.concat "" (Stdlib.List.init (Stdlib.String.length s) (fun i -> Printf.sprintf "%02x" (Char.code s.[i])))

let model_hmac (k : BinNums.coq_N list) (m : BinNums.coq_N list) : BinNums.coq_N list =
  b_of_s (hmac_sha256_hex (s_of_b k) (s_of_b m))

(* ---------- history state ---------- *)
let st = ref Auth.state_empty
let conns : (string, BinNums.coq_N list option) Hashtbl.t = Hashtbl.create 8
let slots : (string, string) Hashtbl.t = Hashtbl.create 8
let now = ref 1000000
let expiry = ref 300
let booted = ref false
let cfg () = { Auth.g_bypass = false; Auth.g_has_mgr = true; Auth.g_expiry = n_of_int !expiry }

(* FrontendContext::from_config bootstraps the configured admin (initial_admin_user/key) *)
let boot () =
  if not !booted then begin
    booted := true;
    let (_, s) = Auth.create_user !st (b_of_s "root") (Some (b_of_s "rootkey")) [] [b_of_s "admin"] in
    st := s
  end

let model_token slot = Digest.to_hex (Digest.string ("a" ^ slot)) ^ Digest.to_hex (Digest.string ("b" ^ slot))

let replace_all (s : string) (pat : string) (by : string) : string =
  let lp = Stdlib.String.length pat in
  let buf = Buffer.create (Stdlib.String.length s) in
  let i = ref 0 in
  let n = Stdlib.String.length s in
  while !i < n do
    if !i + lp <= n && Stdlib.String.sub s !i lp = pat then (Buffer.add_string buf by; i := !i + lp)
    else (Buffer.add_char buf s.[!i]; incr i)
  done;
  Buffer.contents buf

let subst (s : string) : string =
  Hashtbl.fold (fun k v acc -> replace_all acc ("@{" ^ k ^ "}") v) slots s
let text h = subst (s_of_hex h)
let btext h = b_of_s (text h)
let opt_b h = if h = "-" then None else Some (btext h)

let split c s = Stdlib.String.split_on_char c s
let hexlist (s : string) : BinNums.coq_N list list =
  if s = "-" || s = "" then [] else Stdlib.List.map (fun h -> b_of_s (s_of_hex h)) (split ',' s)
let qspec (s : string) : Auth.qspec =
  match hexlist s with
  | [] -> ([], [])
  | h :: t -> (h, t)

(* the abstract command a [desc] denotes; "bad" = the text does not parse *)
let cmd_of_desc (d : string) : Auth.cmd option =
  match split ':' d with
  | ["st"; t] -> Some (Auth.CStore (b_of_s (s_of_hex t)))
  | ["q"; q] -> Some (Auth.CQuery (qspec q))
  | ["rp"; t; present] -> Some (Auth.CReplay ((if t = "-" then None else Some (b_of_s (s_of_hex t))), hexlist present))
  | ["cmp"; qs] -> Some (Auth.CCompare (Stdlib.List.map qspec (split ';' qs)))
  | ["rem"; n; q] -> Some (Auth.CRemember (b_of_s (s_of_hex n), qspec q))
  | ["show"; n] -> Some (Auth.CShow (b_of_s (s_of_hex n)))
  | ["flush"] -> Some Auth.CFlush
  | ["ping"] -> Some Auth.CPing
  | ["batch"] -> Some Auth.CBatch
  | ["def"; t] -> Some (Auth.CDefine (b_of_s (s_of_hex t)))
  | ["mku"; id; key; roles] ->
      Some (Auth.CCreateUser (b_of_s (s_of_hex id), (if key = "-" then None else Some (b_of_s (s_of_hex key))),
                              (if roles = "-" then None else if roles = "=" then Some [] else Some (hexlist roles))))
  | ["rvk"; id] -> Some (Auth.CRevokeKey (b_of_s (s_of_hex id)))
  | ["lsu"] -> Some Auth.CListUsers
  | ["gr"; rw; ts; id] -> Some (Auth.CGrant (rw.[0] = '1', rw.[1] = '1', hexlist ts, b_of_s (s_of_hex id)))
  | ["rv"; rw; ts; id] -> Some (Auth.CRevokePerm (rw.[0] = '1', rw.[1] = '1', hexlist ts, b_of_s (s_of_hex id)))
  | ["shp"; id] -> Some (Auth.CShowPerms (b_of_s (s_of_hex id)))
  | _ -> None

let is_mgmt d = match split ':' d with
  | ("mku" | "rvk" | "lsu" | "gr" | "rv" | "shp") :: _ -> true
  | _ -> false

let outcome_s = function
  | Auth.O401 -> "401" | Auth.O403 -> "403" | Auth.O400 -> "400" | Auth.O500 -> "500"
  | Auth.OExec -> "200" | Auth.OPanic -> "PANIC"

let err_s = function
  | Auth.EInvalidId -> "badid" | Auth.EIdTooLong -> "idlong" | Auth.EKeyTooLong -> "keylong"
  | Auth.EExists -> "exists" | Auth.ENotFound -> "nf"
let res_s = function None -> "OK" | Some e -> "E " ^ err_s e

let fresh_key = b_of_s "generated-key"

(* canonical permission table, sorted: <hex type>:<r|-><w|->,... *)
let perm_table (ps : (BinNums.coq_N list * Auth.perm) list) : string =
  let es = Stdlib.List.map (fun (t, p) ->
    hex_of_s (s_of_b t) ^ ":" ^ (if p.Auth.p_read then "r" else "-") ^ (if p.Auth.p_write then "w" else "-")) ps in
  if es = [] then "-" else Stdlib.String.concat "," (Stdlib.List.sort compare es)

(* [parse] for a gate line: the expected command text (trim-insensitive) denotes [desc] *)
let parse_for (desc : string) (expected : string) : BinNums.coq_N list -> Auth.cmd option =
  fun t -> if Stdlib.String.trim (s_of_b t) = Stdlib.String.trim expected then cmd_of_desc desc else None

let served_s chan = function
  | Auth.SAuthFail -> "AUTHFAIL"
  | Auth.SAuthOk _ -> "TOKEN"
  | Auth.SParseErr _ -> if chan = "tcp" then "PARSEERR" else "400"
  | Auth.SOut (_, _, Auth.OPanic) -> "EOF"
  | Auth.SOut (_, _, o) -> outcome_s o

let run (t : string list) : string =
  boot ();
  match t with
  | ["auth_cfg"; e] -> expiry := int_of_string e; "CFG"
  | ["auth_restart"] ->
      st := Auth.restart !st; Hashtbl.reset conns; "R"
  | ["auth_mk"; uid; key; roles] ->
      let (r, s) = Auth.create_user !st (btext uid) (opt_b key) fresh_key (hexlist roles) in
      st := s; res_s r
  | ["auth_grant"; uid; evt; r; w] ->
      let (e, s) = Auth.grant_permission !st (btext uid) (btext evt) { Auth.p_read = (r = "1"); Auth.p_write = (w = "1") } in
      st := s; res_s e
  | ["auth_revoke"; uid; evt] ->
      let (e, s) = Auth.revoke_permission !st (btext uid) (btext evt) in st := s; res_s e
  | ["auth_revkey"; uid] ->
      let (e, s) = Auth.revoke_key !st (btext uid) in st := s; res_s e
  | ["auth_can"; uid; evt] ->
      let c = !st.Auth.st_cache in
      let b x = if x then 1 else 0 in
      Printf.sprintf "r=%d w=%d a=%d" (b (Auth.can_read c (btext uid) (btext evt)))
        (b (Auth.can_write c (btext uid) (btext evt))) (b (Auth.is_admin c (btext uid)))
  | ["auth_active"; uid] ->
      (match Auth.alookup (btext uid) !st.Auth.st_users with
       | Some u -> if u.Auth.u_active then "A 1" else "A 0"
       | None -> "A -")
  | ["auth_perms"; uid] ->
      (match Auth.alookup (btext uid) !st.Auth.st_users with
       | Some u -> "PT " ^ perm_table u.Auth.u_perms
       | None -> "E nf")
  | ["auth_parse"; line] ->
      (match Auth.parse_auth (btext line) with
       | Some ((u, s), c) -> Printf.sprintf "P %s %s %s" (hex_of_s (s_of_b u)) (hex_of_s (s_of_b s)) (hex_of_s (s_of_b c))
       | None -> "N")
  | ["auth_verify"; m; u; s] ->
      if Auth.verify_signature model_hmac !st (btext m) (btext u) (btext s) then "OK" else "N"
  | ["auth_tok_new"; slot; uid] ->
      let tok = model_token slot in
      Hashtbl.replace slots slot tok;
      st := Auth.new_session !st (b_of_s tok) (b_of_s (s_of_hex uid)) (n_of_int !now) (n_of_int !expiry); "T"
  | ["auth_tok_check"; tx] ->
      (match Auth.validate_token !st (btext tx) (n_of_int !now) with
       | Some u -> "U " ^ hex_of_s (s_of_b u) | None -> "N")
  | ["auth_tok_revoke"; tx] ->
      let (b, s) = Auth.revoke_token !st (btext tx) in st := s; if b then "1" else "0"
  | ["auth_sess_revoke"; uid] ->
      let (n, s) = Auth.revoke_user_sessions !st (btext uid) in st := s; string_of_n n
  | ["auth_sleep"; n] -> now := !now + int_of_string n; "Z"
  | ["auth_cmd"; uid; desc; _text] ->
      (match cmd_of_desc desc with
       | None -> "PARSE"
       | Some c ->
           let (o, s) = Auth.dispatch !st (opt_b uid) c fresh_key in
           st := s;
           (* SHOW PERMISSIONS prints the user's permission table *)
           (match c, o with
            | Auth.CShowPerms id, Auth.OExec ->
                (match Auth.alookup id !st.Auth.st_users with
                 | Some u when u.Auth.u_perms <> [] -> "200 perms=" ^ perm_table u.Auth.u_perms
                 | _ -> "200")
            | _ -> outcome_s o))
  | ["auth_tcp"; conn; desc; expected; line] ->
      let cs = try Hashtbl.find conns conn with Not_found -> None in
      (* the token an AUTH on this line would produce: registered under slot "auth:<conn>" *)
      let tok = model_token ("auth:" ^ conn) in
      let ((r, cs'), s) =
        Auth.serve_tcp model_hmac (parse_for desc (text expected)) (cfg ()) !st cs (btext line)
          (n_of_int !now) (b_of_s tok) fresh_key in
      st := s;
      (match r with
       | Auth.SOut (_, _, Auth.OPanic) -> Hashtbl.remove conns conn   (* the connection task died *)
       | Auth.SAuthOk _ -> Hashtbl.replace slots ("auth:" ^ conn) tok; Hashtbl.replace conns conn cs'
       | _ -> Hashtbl.replace conns conn cs');
      served_s "tcp" r
  | ["authg_line"; conn; _desc; _expected; line] ->
      (* the gate alone, exact result (needs hooks/C13-check-auth.diff on the Rust side) *)
      let key = "g:" ^ conn in
      let cs = try Hashtbl.find conns key with Not_found -> None in
      let tok = model_token ("gate:" ^ conn) in
      let ((r, cs'), s) = Auth.gate_tcp model_hmac (cfg ()) !st cs (btext line) (n_of_int !now) (b_of_s tok) in
      st := s; Hashtbl.replace conns key cs';
      (match r with
       | Auth.GReject -> "AUTHFAIL"
       | Auth.GAuthOk u -> Hashtbl.replace slots ("gate:" ^ conn) tok; "TOKEN " ^ hex_of_s (s_of_b u)
       | Auth.GDispatch (text, u) -> "D " ^ hex_of_s (s_of_b text) ^ " " ^ hex_of_s (s_of_b u))
  | ["auth_tcpclose"; conn] -> Hashtbl.remove conns conn; "C"
  | ["auth_unix"; desc; expected; line] ->
      let (r, s) = Auth.serve_unix model_hmac (parse_for desc (text expected)) (cfg ()) !st (btext line) fresh_key in
      st := s; served_s "unix" r
  | ["auth_http"; uid; sg; desc; expected; body] ->
      let hdr = match opt_b uid, opt_b sg with
        | Some u, Some g when u <> [] && g <> [] -> Some (u, g)
        | _ -> None in
      let (r, s) = Auth.serve_http model_hmac (parse_for desc (text expected)) (cfg ()) !st hdr (btext body) fresh_key in
      st := s; served_s "http" r
  | _ -> "UNKNOWN_PROBE"

let init () = Registry.register "auth_" run; Registry.register "authg_" run
