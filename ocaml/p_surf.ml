(* requires: SurfEnc Trie ZoneSurf *)
(* C08 part A: runs the extracted models of encode_value, the trie queries and the
   builder/pruner pair on the case lines of harness/src/probes/surf.rs. Parsing/printing only. *)
open Conv

exception Bad of string

(* value token -> Some sval | None (key absent) *)
let value (tok : string) : SurfEnc.sval option =
  let n = Stdlib.String.length tok in
  if n = 0 then raise (Bad "BADCASE");
  let rest = Stdlib.String.sub tok 1 (n - 1) in
  match tok.[0] with
  | '_' -> None
  | 'i' -> Some (SurfEnc.VInt (z_of_string rest))
  | 't' -> Some (SurfEnc.VTs (z_of_string rest))
  | 'f' -> Some (SurfEnc.VFloat (n_of_string rest))
  | 'b' -> Some (SurfEnc.VBool (rest = "1"))
  | 'n' -> Some SurfEnc.VNull
  | 'x' -> Some SurfEnc.VBin
  | 's' ->
      let hx, hint =
        match Stdlib.String.index_opt rest '/' with
        | Some i -> Stdlib.String.sub rest 0 i, Stdlib.String.sub rest (i + 1) (Stdlib.String.length rest - i - 1)
        | None -> rest, "n" in
      let h = if hint = "n" then None else Some (n_of_string hint) in
      Some (SurfEnc.VStr (bytes_of_hex hx, h))
  | _ -> raise (Bad "BADCASE")

let op_of = function
  | "eq" -> ZoneSurf.OEq | "neq" -> ZoneSurf.ONeq | "gt" -> ZoneSurf.OGt | "gte" -> ZoneSurf.OGte
  | "lt" -> ZoneSurf.OLt | "lte" -> ZoneSurf.OLte | "in" -> ZoneSurf.OIn | _ -> raise (Bad "BADCASE")

let cls = function
  | None -> "none"
  | Some ZoneSurf.SurfFirstRowLacksField -> "first"
  | Some ZoneSurf.SurfSaturatedFloat -> "sat"
  | Some ZoneSurf.SurfCrossLane -> "lane"

let ids l = Stdlib.String.concat "," (Stdlib.List.map string_of_int (Stdlib.List.sort compare (Stdlib.List.map int_of_n l)))

let run (t : string list) : string =
  try
    match t with
    | ["surf_enc"; v] ->
        (match value v with
         | None -> "BADCASE"
         | Some sv -> (match SurfEnc.encode_value sv with Some b -> hex_of_bytes b | None -> "N"))
    | ["surf_enc2"; a; b] ->
        let k v = match value v with
          | None -> raise (Bad "BADCASE")
          | Some sv -> (match SurfEnc.encode_value sv with Some b -> hex_of_bytes b | None -> "N") in
        let ka = k a in let kb = k b in ka ^ " " ^ kb
    | "surf_trie" :: dir :: incl :: target :: keys ->
        let trie = Trie.t_build (Stdlib.List.map bytes_of_hex keys) in
        let tg = bytes_of_hex target in
        let r = if dir = "ge" then Trie.may_overlap_ge trie tg (incl = "1") else Trie.may_overlap_le trie tg (incl = "1") in
        if r then "1" else "0"
    | "surf_prune" :: op :: probe :: rest ->
        let op = op_of op in
        let p = match value probe with Some v -> v | None -> raise (Bad "BADCASE") in
        let rec zones toks acc =
          match toks with
          | [] -> Stdlib.List.rev acc
          | "z" :: id :: r ->
              let rec rows r acc2 =
                match r with
                | [] -> Stdlib.List.rev acc2, []
                | "z" :: _ -> Stdlib.List.rev acc2, r
                | v :: r' -> rows r' (value v :: acc2) in
              let rs, r' = rows r [] in
              zones r' ((n_of_string id, rs) :: acc)
          | _ -> raise (Bad "BADCASE") in
        let zs = zones rest [] in
        (match ZoneSurf.prune zs op p with
         | None -> "N"
         | Some res ->
             let au = ZoneSurf.audit zs op p res in
             let aus = Stdlib.String.concat ";" (Stdlib.List.map (fun (id, cl) ->
                 string_of_n id ^ ":" ^ Stdlib.String.concat "/" (Stdlib.List.map cls cl)) au) in
             "S " ^ ids res ^ (if au = [] then "" else " | " ^ aus))
    | _ -> "UNKNOWN_PROBE"
  with Bad e -> e

let init () = Registry.register "surf_" run
