(* requires: Json Schema SchemaReg Validate *)
(* C06 probes on the extracted model: same case lines as harness/src/probes/store.rs.
   Decoding / printing only. *)
open Conv

let str_of_bytes (b : BinNums.coq_N list) : string =
  Stdlib.String.concat "" (Stdlib.List.map (fun c -> Stdlib.String.make 1 (Char.chr (int_of_n c))) b)
let hex_plain (b : BinNums.coq_N list) : string =
  Stdlib.String.concat "" (Stdlib.List.map (fun c -> Printf.sprintf "%02x" (int_of_n c)) b)
let bytes_of_hex_plain (h : string) = if h = "" then [] else bytes_of_hex h

(* ---- <json> token ---- *)
exception Bad
let parse_json (s : string) : Json.json =
  let i = ref 0 in
  let n = Stdlib.String.length s in
  let until_dot () =
    let st = !i in
    while !i < n && s.[!i] <> '.' do incr i done;
    if !i >= n then raise Bad;
    let r = Stdlib.String.sub s st (!i - st) in
    incr i; r in
  let rec value () : Json.json =
    if !i >= n then raise Bad;
    let c = s.[!i] in
    incr i;
    match c with
    | 'n' -> Json.JNull
    | 't' -> Json.JBool true
    | 'f' -> Json.JBool false
    | 'u' -> Json.JNum (Json.PosInt (n_of_string (until_dot ())))
    | 'i' -> Json.JNum (Json.NegInt (z_of_string (until_dot ())))
    | 'd' ->
        let h = Stdlib.String.sub s !i 16 in
        i := !i + 16;
        Json.JNum (Json.Float (n_of_zt (Z.of_string ("0x" ^ h))))
    | 's' -> Json.JStr (bytes_of_hex_plain (until_dot ()))
    | 'a' ->
        let k = int_of_string (until_dot ()) in
        let rec go k = if k = 0 then [] else let v = value () in v :: go (k - 1) in
        Json.JArr (go k)
    | 'o' ->
        let k = int_of_string (until_dot ()) in
        let rec go k =
          if k = 0 then []
          else begin
            let key = bytes_of_hex_plain (until_dot ()) in
            let v = value () in
            (key, v) :: go (k - 1)
          end in
        Json.JObj (go k)
    | _ -> raise Bad in
  let v = value () in
  if !i <> n then raise Bad;
  v

(* ---- <schema> token ---- *)
let parse_schema (s : string) : (BinNums.coq_N list * Schema.fspec) list =
  if s = "-" then []
  else
    Stdlib.List.map
      (fun f ->
        match Stdlib.String.split_on_char ':' f with
        | [name; "p"; spec] -> (bytes_of_hex name, Schema.SPrim (bytes_of_hex spec))
        | [name; "e"; vs] ->
            let variants = if vs = "0" then [] else Stdlib.List.map bytes_of_hex (Stdlib.String.split_on_char '/' vs) in
            (bytes_of_hex name, Schema.SEnum variants)
        | _ -> raise Bad)
      (Stdlib.String.split_on_char ',' s)

let prim_name = function
  | Schema.TString -> "String" | Schema.TU64 -> "U64" | Schema.TI64 -> "I64" | Schema.TF64 -> "F64"
  | Schema.TBool -> "Bool" | Schema.TTimestamp -> "Timestamp" | Schema.TDate -> "Date"

let err_name = function
  | Validate.EType -> "EType" | Validate.ECtx -> "ECtx" | Validate.ENoSchema -> "ENoSchema"
  | Validate.ENotObject -> "ENotObject" | Validate.EField -> "EField" | Validate.EExtra -> "EExtra"
  | Validate.ETime -> "ETime"

let def_name = function
  | SchemaReg.DefOk _ -> "OK"
  | SchemaReg.DefErr SchemaReg.AlreadyDefined -> "AlreadyDefined"
  | SchemaReg.DefErr SchemaReg.EmptySchema -> "EmptySchema"

let the_type = bytes_of_hex "767430"  (* the model's name for "the type this case defined" *)

let etype_of tok = if tok = "=" then the_type else bytes_of_hex tok

let is_time_type = function
  | Schema.FPrim p | Schema.FOpt p -> Validate.time_prim p
  | Schema.FEnum _ -> false

(* V / C / T of an accepted or rejected STORE *)
let observe (reg : SchemaReg.registry) (cmd : Validate.store_cmd) (res : Validate.store_result) : string =
  match res with
  | Validate.Rejected _ -> "V=0 C= T="
  | Validate.Accepted obj ->
      (* rows are observed on the defined type only *)
      if cmd.Validate.sc_type <> the_type then "V=0 C= T="
      else begin
        let sc = match SchemaReg.reg_get reg the_type with Some s -> s | None -> [] in
        let tv =
          Stdlib.List.filter_map
            (fun (k, v) ->
              match Schema.schema_get sc k, v with
              | Some ft, Json.JNum (Json.PosInt n) when is_time_type ft -> Some (str_of_bytes k, hex_plain k ^ "=" ^ string_of_n n)
              | Some ft, Json.JNum (Json.NegInt z) when is_time_type ft -> Some (str_of_bytes k, hex_plain k ^ "=" ^ string_of_z z)
              | _ -> None)
            obj in
        let tv = Stdlib.List.sort (fun (a, _) (b, _) -> compare a b) tv in
        Printf.sprintf "V=1 C=%s T=%s" (hex_plain cmd.Validate.sc_ctx)
          (Stdlib.String.concat "," (Stdlib.List.map snd tv))
      end

let res_name = function Validate.Accepted _ -> "OK" | Validate.Rejected e -> err_name e

let run (t : string list) : string =
  try
    match t with
    | ["store_spec"; h] ->
        (match Schema.from_spec_with_nullable (bytes_of_hex h) with
         | None -> "None"
         | Some (Schema.FPrim p) -> "P " ^ prim_name p
         | Some (Schema.FOpt p) -> "O " ^ prim_name p
         | Some (Schema.FEnum _) -> "?")
    | ["store_case"; sch; et; ctx; js] ->
        let d = SchemaReg.define [] the_type (parse_schema sch) in
        let reg = SchemaReg.define_reg [] the_type (parse_schema sch) in
        let cmd = { Validate.sc_type = etype_of et; sc_ctx = bytes_of_hex ctx; sc_payload = parse_json js } in
        let r = Validate.store_check reg cmd in
        Printf.sprintf "D=%s S=%s %s" (def_name d) (res_name r) (observe reg cmd r)
    | ["store_text"; sch; _et; _ctx; _text; "!"; _plus] ->
        (* the payload text is not valid JSON: it denotes no command, the front answers with a parse error *)
        let d = SchemaReg.define [] the_type (parse_schema sch) in
        Printf.sprintf "D=%s S=PARSE V=0 C= T=" (def_name d)
    | ["store_text"; sch; et; ctx; _text; js; plus] ->
        let d = SchemaReg.define [] the_type (parse_schema sch) in
        let reg = SchemaReg.define_reg [] the_type (parse_schema sch) in
        let ctxb = bytes_of_hex (Stdlib.String.sub ctx 1 (Stdlib.String.length ctx - 1)) in
        let cmd = { Validate.sc_type = etype_of et; sc_ctx = ctxb; sc_payload = parse_json js } in
        let tx = { Validate.tx_cmd = cmd; tx_plus_exp = (plus = "1") } in
        if not (Validate.text_parses tx) then Printf.sprintf "D=%s S=PARSE V=0 C= T=" (def_name d)
        else begin
          let r = Validate.store_check reg cmd in
          Printf.sprintf "D=%s S=%s %s" (def_name d) (res_name r) (observe reg cmd r)
        end
    | ["store_redef"; s1; s2; ctx; js] ->
        let d1 = SchemaReg.define [] the_type (parse_schema s1) in
        let reg1 = SchemaReg.define_reg [] the_type (parse_schema s1) in
        let d2 = SchemaReg.define reg1 the_type (parse_schema s2) in
        let reg2 = SchemaReg.define_reg reg1 the_type (parse_schema s2) in
        let cmd = { Validate.sc_type = the_type; sc_ctx = bytes_of_hex ctx; sc_payload = parse_json js } in
        let r = Validate.store_check reg2 cmd in
        Printf.sprintf "D1=%s D2=%s S=%s %s" (def_name d1) (def_name d2) (res_name r) (observe reg2 cmd r)
    | ["store_life"; ops] ->
        (* a history on one data directory: D<type hex>:<schema>  X<hex of a DEFINE line that does not parse>
           R (restart after kill)  C (restart after clean exit)  S<type hex>:<ctx hex>:<json>, joined by ';' *)
        let ps = ref SchemaReg.ps_init in
        let one op =
          let body = Stdlib.String.sub op 1 (Stdlib.String.length op - 1) in
          match op.[0] with
          | 'D' ->
              let i = Stdlib.String.index body ':' in
              let et = bytes_of_hex (Stdlib.String.sub body 0 i) in
              let cs = parse_schema (Stdlib.String.sub body (i + 1) (Stdlib.String.length body - i - 1)) in
              let (ps', e) = SchemaReg.define_p !ps et cs in
              ps := ps';
              (match e with
               | None -> "D=OK"
               | Some SchemaReg.AlreadyDefined -> "D=AlreadyDefined"
               | Some SchemaReg.EmptySchema -> "D=EmptySchema")
          | 'X' -> "D=PARSE"
          | 'R' | 'C' -> ps := SchemaReg.restart_p !ps; "R"
          | 'S' ->
              (match Stdlib.String.split_on_char ':' body with
               | [et; ctx; js] ->
                   let cmd = { Validate.sc_type = bytes_of_hex et; sc_ctx = bytes_of_hex ctx; sc_payload = parse_json js } in
                   "S=" ^ res_name (Validate.store_check !ps.SchemaReg.ps_reg cmd)
               | _ -> raise Bad)
          | _ -> raise Bad in
        Stdlib.String.concat "," (Stdlib.List.map one (Stdlib.String.split_on_char ';' ops))
    | _ -> "UNKNOWN_PROBE"
  with Bad -> "GENBUG json"

let init () = Registry.register "store_" run
