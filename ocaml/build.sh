#!/bin/sh
# Extract the Coq models and build ocaml/model_run. Requires the .vo files.
set -e
cd "$(dirname "$0")"
rm -rf extracted && mkdir -p extracted
( cd extracted && coqc -Q ../../coq/theories Snel ../Extract.v > extract.log 2>&1 ) || { cat extracted/extract.log; exit 1; }
rm -f Extract.vo Extract.vok Extract.vos Extract.glob .Extract.aux
rm -rf _build && mkdir _build
cp extracted/*.ml extracted/*.mli conv.ml driver.ml p_*.ml _build/
cd _build
ocamlfind ocamlopt -package zarith -linkpkg -w -a -O2 $(ocamlfind ocamldep -sort *.mli *.ml 2>/dev/null | tr ' ' '\n' | grep -v '^$' | tr '\n' ' ') -o ../model_run 2> build.err || { cat build.err; exit 1; }
