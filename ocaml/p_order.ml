(* requires: Order *)
open Conv

(* value tokens: see harness/src/probes/order.rs *)
let parse_value (t : string) : Order.value =
  let rest = Stdlib.String.sub t 1 (Stdlib.String.length t - 1) in
  match t.[0] with
  | 'n' -> Order.VNull
  | 'b' -> Order.VBool (rest = "1")
  | 'i' -> Order.VInt (z_of_string rest)
  | 't' -> Order.VTs (z_of_string rest)
  | 'f' ->
      let i = Stdlib.String.index rest '.' in
      let bits = Stdlib.String.sub rest 0 i and repr = Stdlib.String.sub rest (i + 1) (Stdlib.String.length rest - i - 1) in
      Order.VFloat (n_of_zt (Z.of_string ("0x" ^ bits)), bytes_of_hex repr)
  | 's' -> Order.VStr (bytes_of_hex rest)
  | 'x' -> Order.VBin (bytes_of_hex rest)
  | _ -> failwith "BADVALUE"

let ord = function Datatypes.Eq -> "E" | Datatypes.Lt -> "L" | Datatypes.Gt -> "G"

let parse_streams (tok : string) : Order.value list list =
  if tok = "-" then [] else
  Stdlib.List.map (fun s -> if s = "e" then [] else Stdlib.List.map parse_value (Stdlib.String.split_on_char ',' s))
    (Stdlib.String.split_on_char '/' tok)

let opt f = function Some x -> f x | None -> "-"

let merge (t : string list) (as_set : bool) : string =
  match t with
  | [_; asc; off; lim; _batch; streams] ->
      let ss = parse_streams streams in
      if ss = [] then "ERR" else begin
        let rid = ref 0 in
        let rows = Stdlib.List.map (fun s -> Stdlib.List.map (fun k -> let r = (k, n_of_int !rid) in incr rid; r) s) ss in
        let limit = if lim = "-" then None else Some (n_of_string lim) in
        let out = Order.merger_run (asc = "1") (n_of_string off) limit rows in
        let ids = Stdlib.List.map (fun (_, r) -> int_of_n r) out in
        if as_set then "N " ^ string_of_int (Stdlib.List.length ids)
        else "R " ^ Stdlib.String.concat "," (Stdlib.List.map string_of_int ids)
      end
  | _ -> "BADCASE"

let run (t : string list) : string =
  match t with
  | ["ord_cmp"; a; b; c] ->
      let v = [| parse_value a; parse_value b; parse_value c |] in
      Stdlib.String.concat "" (Stdlib.List.map (fun (i, j) -> ord (Order.scalar_compare v.(i) v.(j)))
        [(0, 1); (1, 2); (0, 2); (1, 0); (2, 1); (2, 0)])
  | ["ord_acc"; a] ->
      let v = parse_value a in
      Printf.sprintf "U %s I %s F %s B %s R %s"
        (opt string_of_z (Order.as_u64 v)) (opt string_of_z (Order.as_i64 v))
        (opt (fun b -> if OrdF64.f64_is_nan b then "nan" else Printf.sprintf "%016s" (Z.format "%x" (zt_of_n b)) |> Stdlib.String.map (fun c -> if c = ' ' then '0' else c)) (Order.as_f64 v))
        (opt (fun b -> if b then "1" else "0") (Order.as_bool v))
        (hex_of_bytes (Order.to_string_repr v))
  | "ord_merge" :: _ -> merge t false
  | "ord_mergeset" :: _ -> merge t true
  | _ -> "UNKNOWN_PROBE"

let init () = Registry.register "ord_" run
