(* model_run: reads one case per line (same files the Rust harness reads) and
   prints the model's canonical result per line. Parsing/printing only. *)
open Conv

let split s = Stdlib.List.filter (fun x -> x <> "") (Stdlib.String.split_on_char ' ' s)

let run (t : string list) : string =
  match t with
  | p :: _ when Stdlib.String.length p >= 5 && Stdlib.String.sub p 0 5 = "time_" -> P_time.run t
  | _ -> "UNKNOWN_PROBE"

let () =
  try
    while true do
      let line = input_line stdin in
      let t = split line in
      if t <> [] then begin
        (try print_string (run t) with e -> print_string ("MODEL_EXN " ^ Printexc.to_string e));
        print_newline ()
      end
    done
  with End_of_file -> ()
