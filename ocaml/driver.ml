(* model_run: reads one case per line (same files the Rust harness reads) and
   prints the model's canonical result per line. Parsing/printing only.
   Probes live in p_*.ml and register themselves (see registry.ml); build.sh
   links every p_*.ml and forces their initialisation through all_probes.ml. *)
let split s = Stdlib.List.filter (fun x -> x <> "") (Stdlib.String.split_on_char ' ' s)

let () =
  All_probes.init ();
  try
    while true do
      let line = input_line stdin in
      let t = split line in
      if t <> [] then begin
        (try print_string (Registry.dispatch t) with
         | Stack_overflow -> print_string "MODEL_EXN stack_overflow"
         | e -> print_string ("MODEL_EXN " ^ Printexc.to_string e));
        print_newline ()
      end
    done
  with End_of_file -> ()
