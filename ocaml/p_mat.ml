(* requires: Materialize *)
(* C14 probe: drives the extracted model Model/Materialize.v with the same case lines as
   harness/src/probes/mat.rs (function level) and with the histories observed by tools/props/c14.py
   (engine level).  Parsing, state threading and printing only.

   mat_hw <ts>.<id> <op>...          a<ts>.<id> advance | s<ts>.<id> satisfies | z is_zero
   mat_sink <frame>|<frame>|...      rows ts.id.k separated by ',', '-' = empty batch
   mat_run <op> <op> ...             engine-level history:
        L:<shard>/<shard>...         shard = <mem>~<seg>~<seg>..., mem = '-' | ev+ev..., seg = <mtime>@<zone>;<zone>..,
                                     zone = ev+ev.., ev = k.ts.pt.id.ctx.v[.type]
        R:<name>:<query>:<choice>    query = ctx,where,since,tf,returned,limit[,type]  ('-' = none; where = e|g|l<n>; tf = C|P)
                                     choice = '-' | idx=k+k;idx=...
        S:<name>:<choice>
        F:<name>:<choice>            SHOW whose delivery failed: the frames named by the choice were appended
     output: one token per op joined by " | ", then " || " and the classes the model flags per op. *)
open Conv
module M = Materialize

let split c s = if s = "" then [] else Stdlib.String.split_on_char c s
let tl1 s = Stdlib.String.sub s 1 (Stdlib.String.length s - 1)

let pair_in (s : string) : M.mark =
  match split '.' s with
  | [a; b] -> (n_of_string a, n_of_string b)
  | _ -> failwith "pair"
let mark_out ((a, b) : M.mark) = string_of_n a ^ "." ^ string_of_n b

let hw_probe (t : string list) : string =
  match t with
  | _ :: start :: ops ->
      let m = ref (pair_in start) in
      Stdlib.String.concat " " (Stdlib.List.map (fun op ->
          match op.[0] with
          | 'a' -> m := M.hw_advance !m (pair_in (tl1 op)); mark_out !m
          | 's' -> if M.hw_satisfies !m (pair_in (tl1 op)) then "1" else "0"
          | 'z' -> if M.mark_zero !m then "1" else "0"
          | _ -> "?") ops)
  | _ -> "BADCASE"

let zero = n_of_int 0
(* ts.id.k *)
let row3 (s : string) : M.event =
  match split '.' s with
  | [ts; id; k] -> { M.e_k = n_of_string k; e_ts = n_of_string ts; e_pt = zero; e_id = n_of_string id; e_ctx = zero; e_v = zero; e_type = zero }
  | _ -> failwith "row3"

let sink_probe (t : string list) : string =
  let spec = match t with _ :: s :: _ -> s | _ -> "" in
  let frames = Stdlib.List.filter (fun s -> s <> "") (split '|' spec) in
  let fs = Stdlib.List.map (fun f -> if f = "-" then [] else Stdlib.List.map row3 (split ',' f)) frames in
  let marks = M.sink_marks [] fs in
  let stored = Stdlib.List.filter (fun f -> f <> []) fs in
  let rows = Stdlib.List.fold_left (fun a f -> a + Stdlib.List.length f) 0 stored in
  let fr = Stdlib.List.map (fun f -> mark_out (M.frame_mark f) ^ "x" ^ string_of_int (Stdlib.List.length f)) stored in
  Stdlib.String.concat " "
    (Stdlib.List.map mark_out marks
     @ [Printf.sprintf "rows=%d" rows; "boot=" ^ mark_out (M.frames_mark stored);
        "frames=" ^ (if fr = [] then "-" else Stdlib.String.concat "," fr)])

(* matwm_filter <ts>.<id> <en> <batch>|...   the model's watermark filter on the core timestamp *)
let wm_probe (t : string list) : string =
  match t with
  | _ :: m :: en :: rest ->
      let mark = pair_in m in
      let q = { M.q_ctx = None; q_where = None; q_since = None; q_tf = (if en = "1" then M.TCore else M.TPayload);
                q_tf_returned = (en = "1"); q_limit = None; q_type = zero } in
      let spec = match rest with s :: _ -> s | [] -> "" in
      let frames = Stdlib.List.filter (fun s -> s <> "") (split '|' spec) in
      Stdlib.String.concat " " (Stdlib.List.map (fun f ->
          if f = "-" then "skip" else
            let rows = Stdlib.List.map row3 (split ',' f) in
            let kept = M.show_filter q mark rows in
            if kept = [] then "none"
            else Stdlib.String.concat "+" (Stdlib.List.map (fun e -> string_of_n e.M.e_k) kept)) frames)
  | _ -> "BADCASE"

(* ---- engine-level histories *)
let event_in (s : string) : M.event =
  match split '.' s with
  | k :: ts :: pt :: id :: c :: v :: ty ->
      { M.e_k = n_of_string k; e_ts = n_of_string ts; e_pt = n_of_string pt; e_id = n_of_string id;
        e_ctx = n_of_string c; e_v = n_of_string v;
        e_type = (match ty with [t] -> n_of_string t | _ -> zero) }
  | _ -> failwith ("event " ^ s)
let events_in (s : string) : M.event list = if s = "-" || s = "" then [] else Stdlib.List.map event_in (split '+' s)
let seg_in (s : string) : M.segment =
  match Stdlib.String.index_opt s '@' with
  | Some i ->
      let mt = Stdlib.String.sub s 0 i and zs = Stdlib.String.sub s (i + 1) (Stdlib.String.length s - i - 1) in
      { M.g_mtime = n_of_string mt; g_zones = Stdlib.List.map events_in (split ';' zs) }
  | None -> failwith "seg"
let shard_in (s : string) : M.shard =
  match split '~' s with
  | mem :: segs -> { M.s_mem = events_in mem; s_segs = Stdlib.List.map seg_in segs }
  | [] -> { M.s_mem = []; s_segs = [] }
let layout_in (s : string) : M.layout = Stdlib.List.map shard_in (split '/' s)

let opt_n s = if s = "-" then None else Some (n_of_string s)
let query_in (s : string) : M.query =
  match split ',' s with
  | c :: w :: si :: tf :: ret :: lim :: ty ->
      { M.q_ctx = opt_n c;
        q_where = (if w = "-" then None else
                     Some ((match w.[0] with 'e' -> M.CEq | 'g' -> M.CGe | _ -> M.CLt), n_of_string (tl1 w)));
        q_since = opt_n si;
        q_tf = (if tf = "P" then M.TPayload else M.TCore);
        q_tf_returned = (ret = "1");
        q_limit = opt_n lim;
        q_type = (match ty with [t] -> n_of_string t | _ -> zero) }
  | _ -> failwith "query"
let choice_in (s : string) : M.choice =
  if s = "-" || s = "" then [] else
    Stdlib.List.map (fun c ->
        match Stdlib.String.index_opt c '=' with
        | Some i ->
            let idx = Stdlib.String.sub c 0 i and ks = Stdlib.String.sub c (i + 1) (Stdlib.String.length c - i - 1) in
            (n_of_string idx, Stdlib.List.map n_of_string (split '+' ks))
        | None -> (n_of_string c, [])) (split ';' s)

let op_in (s : string) : M.op =
  match s.[0] with
  | 'L' -> M.OSetLayout (layout_in (Stdlib.String.sub s 2 (Stdlib.String.length s - 2)))
  | 'R' -> (match split ':' s with
            | [_; name; q; ch] -> M.ORemember (n_of_string name, query_in q, choice_in ch)
            | _ -> failwith "R")
  | 'S' -> (match split ':' s with
            | [_; name; ch] -> M.OShow (n_of_string name, choice_in ch)
            | _ -> failwith "S")
  | 'F' -> (match split ':' s with
            | [_; name; ch] -> M.OShowFail (n_of_string name, choice_in ch)
            | _ -> failwith "F")
  | _ -> failwith "op"

let keys_sorted (l : M.event list) : string =
  let ks = Stdlib.List.sort Z.compare (Stdlib.List.map (fun e -> zt_of_n e.M.e_k) l) in
  if ks = [] then "-" else Stdlib.String.concat "+" (Stdlib.List.map Z.to_string ks)
let frames_out (fs : M.event list list) : string =
  if fs = [] then "-" else Stdlib.String.concat ";" (Stdlib.List.map keys_sorted fs)

let obs_out (o : M.obs) : string =
  match o with
  | M.ObsLayout -> "L"
  | M.ObsRemembered (fs, m) -> Printf.sprintf "R ok frames=%s mark=%s" (frames_out fs) (mark_out m)
  | M.ObsRejected -> "R rejected"
  | M.ObsShow (out, nf, m, c) ->
      Printf.sprintf "S out=%s new=%s mark=%s cat=%s" (keys_sorted out) (frames_out nf) (mark_out m) (mark_out c)
  | M.ObsShowFailed (ap, m, c) -> Printf.sprintf "F new=%s mark=%s cat=%s" (frames_out ap) (mark_out m) (mark_out c)
  | M.ObsUnknown -> "S unknown"
  | M.ObsBadChoice -> "bad-choice"

let class_out = function
  | M.PayloadTimeField -> "PayloadTimeField" | M.LimitNotReapplied -> "LimitNotReapplied"
  | M.MarkOfLastFrame -> "MarkOfLastFrame" | M.EventNotAboveMark -> "EventNotAboveMark"
  | M.RawStreamDuplicates -> "RawStreamDuplicates" | M.SegmentOlderThanEvent -> "SegmentOlderThanEvent"
  | M.InterruptedRefresh -> "InterruptedRefresh"

let run_probe (t : string list) : string =
  let ops = Stdlib.List.map op_in (Stdlib.List.tl t) in
  let st = ref M.init in
  let outs = ref [] and cls = ref [] in
  Stdlib.List.iter (fun o ->
      let c = M.classes_of !st o in
      let side = (match o with
          | M.OSetLayout l -> (if M.keeps_events !st l then [] else ["EVENTS-REMOVED"]) @ (if M.zero_id l then ["ZERO-ID"] else [])
          | _ -> []) in
      let (st', ob) = M.step !st o in
      st := st';
      outs := obs_out ob :: !outs;
      cls := (let l = Stdlib.List.map class_out c @ side in if l = [] then "-" else Stdlib.String.concat "," l) :: !cls) ops;
  Stdlib.String.concat " | " (Stdlib.List.rev !outs) ^ " || " ^ Stdlib.String.concat " " (Stdlib.List.rev !cls)

let run (t : string list) : string =
  try
    match t with
    | "mat_hw" :: _ -> hw_probe t
    | "mat_sink" :: _ -> sink_probe t
    | "mat_run" :: _ -> run_probe t
    | "matwm_filter" :: _ -> wm_probe t
    | _ -> "UNKNOWN_PROBE"
  with Failure m -> "BADCASE " ^ m | Not_found -> "BADCASE" | Invalid_argument m -> "BADCASE " ^ m

let init () = Registry.register "mat_" run; Registry.register "matwm_" run
