(* requires: Tokenizer Parser PlotQL Command Printer JsonCommand *)
(* C17 probes on the extracted model: parse_cmd / parse_fix / parse_disp / parse_kind /
   parse_json / parse_print.  Rendering and AST decoding only; no parsing logic here. *)
open Conv

let hs (b : BinNums.coq_N list) = hex_of_bytes b
let ho = function None -> "~" | Some s -> hs s
let hl l = "[" ^ Stdlib.String.concat "," (Stdlib.List.map hs l) ^ "]"
let hol = function None -> "~" | Some l -> hl l
let text (b : BinNums.coq_N list) =
  let buf = Buffer.create 16 in
  Stdlib.List.iter (fun c -> Buffer.add_char buf (Char.chr (int_of_n c))) b;
  Buffer.contents buf

let value = function
  | Parser.VStr s -> "s" ^ hs s
  | Parser.VInt z -> "i" ^ string_of_z z
  | Parser.VFloat (neg, d, fd) -> "f" ^ (if neg then "-" else "") ^ text d ^ "." ^ text fd
  | Parser.VBool v -> if v then "bT" else "bF"

let op = function
  | Parser.OpEq -> "eq" | Parser.OpNeq -> "neq" | Parser.OpGt -> "gt"
  | Parser.OpGte -> "gte" | Parser.OpLt -> "lt" | Parser.OpLte -> "lte"

let rec expr buf = function
  | Parser.ECmp (f, o, v) -> Buffer.add_string buf (Printf.sprintf "C(%s,%s,%s)" (hs f) (op o) (value v))
  | Parser.EIn (f, vs) ->
      Buffer.add_string buf ("I(" ^ hs f);
      Stdlib.List.iter (fun v -> Buffer.add_char buf ';'; Buffer.add_string buf (value v)) vs;
      Buffer.add_char buf ')'
  | Parser.EAnd (x, y) -> Buffer.add_string buf "A("; expr buf x; Buffer.add_char buf ','; expr buf y; Buffer.add_char buf ')'
  | Parser.EOr (x, y) -> Buffer.add_string buf "O("; expr buf x; Buffer.add_char buf ','; expr buf y; Buffer.add_char buf ')'
  | Parser.ENot x -> Buffer.add_string buf "N("; expr buf x; Buffer.add_char buf ')'

let agg = function
  | Parser.ACount None -> "count"
  | Parser.ACount (Some f) -> "countu:" ^ hs f
  | Parser.ACountField f -> "countf:" ^ hs f
  | Parser.ATotal f -> "total:" ^ hs f
  | Parser.AAvg f -> "avg:" ^ hs f
  | Parser.AMin f -> "min:" ^ hs f
  | Parser.AMax f -> "max:" ^ hs f

let gran = function
  | Parser.GHour -> "hour" | Parser.GDay -> "day" | Parser.GWeek -> "week"
  | Parser.GMonth -> "month" | Parser.GYear -> "year"

let query (q : Parser.query) =
  let w = match q.Parser.q_where with
    | None -> "~"
    | Some e -> let b = Buffer.create 64 in expr b e; Buffer.contents b in
  let seq = match q.Parser.q_seq with
    | [] -> "~"
    | links ->
        hs q.Parser.q_event ^
        Stdlib.String.concat "" (Stdlib.List.map (fun (l, e) ->
          (match l with Parser.FollowedBy -> ">" | Parser.PrecededBy -> "<") ^ hs e) links) in
  Printf.sprintf "Q %s ctx=%s since=%s tf=%s stf=%s where=%s limit=%s offset=%s order=%s ret=%s link=%s aggs=%s tb=%s gb=%s seq=%s"
    (hs q.Parser.q_event) (ho q.Parser.q_ctx) (ho q.Parser.q_since) (ho q.Parser.q_time_field)
    (ho q.Parser.q_seq_time_field) w
    (match q.Parser.q_limit with None -> "~" | Some n -> string_of_n n)
    (match q.Parser.q_offset with None -> "~" | Some n -> string_of_n n)
    (match q.Parser.q_order with None -> "~" | Some (f, d) -> hs f ^ ":" ^ (if d then "d" else "a"))
    (hol q.Parser.q_return) (ho q.Parser.q_link)
    (match q.Parser.q_aggs with None -> "~" | Some l -> "[" ^ Stdlib.String.concat "," (Stdlib.List.map agg l) ^ "]")
    (match q.Parser.q_bucket with None -> "~" | Some g -> gran g)
    (hol q.Parser.q_group) seq

let rec command = function
  | Command.CCompare qs -> "CMP " ^ Stdlib.String.concat " | " (Stdlib.List.map query qs)
  | Command.CBatch cs -> Printf.sprintf "B%d %s" (Stdlib.List.length cs) (Stdlib.String.concat " | " (Stdlib.List.map command cs))
  | Command.CDefine (et, v, fields) ->
      (* a later duplicate key wins; fields are listed sorted, as the Rust side does with its HashMap *)
      let tbl = Hashtbl.create 8 in
      Stdlib.List.iter (fun (k, sp) -> Hashtbl.replace tbl (hs k) (match sp with
        | Command.FPrim s -> hs s | Command.FEnum l -> hl l)) fields;
      let fs = Stdlib.List.sort compare (Hashtbl.fold (fun k v acc -> (k ^ ":" ^ v) :: acc) tbl []) in
      Printf.sprintf "D %s v=%s %s" (hs et) (match v with None -> "~" | Some n -> string_of_n n) (Stdlib.String.concat "," fs)
  | Command.CQuery q -> query q
  | Command.CReplay (et, ctx, since, tf, ret) ->
      Printf.sprintf "R et=%s ctx=%s since=%s tf=%s ret=%s" (ho et) (hs ctx) (ho since) (ho tf) (hol ret)
  | Command.CStore (et, ctx, json) -> Printf.sprintf "S %s %s %s" (hs et) (hs ctx) (hs json)
  | Command.CRemember (name, q) -> Printf.sprintf "M %s %s" (hs name) (query q)
  | Command.CShowMat n -> "SHOW " ^ hs n
  | Command.CPing -> "PING"
  | Command.CFlush -> "FLUSH"
  | Command.CListUsers -> "LU"
  | Command.CCreateUser (u, key, roles) -> Printf.sprintf "CU %s key=%s roles=%s" (hs u) (ho key) (hol roles)
  | Command.CRevokeKey u -> "RK " ^ hs u
  | Command.CGrant (p, e, u) -> Printf.sprintf "GP %s %s %s" (hl p) (hl e) (hs u)
  | Command.CRevokePerm (p, e, u) -> Printf.sprintf "RP %s %s %s" (hl p) (hl e) (hs u)
  | Command.CShowPerm u -> "SP " ^ hs u

let site = function
  | Parser.SiteLimit -> "limit" | Parser.SiteOffset -> "offset"
  | Parser.SiteInt -> "int" | Parser.SiteFloat -> "float"

let presult = function
  | Command.POk c -> "OK " ^ command c
  | Command.PErr -> "ERR"
  | Command.PPanic k -> "PANIC " ^ site k
  | Command.POOF -> "OOF"
  | Command.PDomain -> "DOMAIN"
  | Command.PUnmodelled Command.UDefine -> "UNMODELLED define"
  | Command.PUnmodelled Command.UBatch -> "UNMODELLED batch"

let kind_of_string = function
  | "Define" -> Command.KDefine | "Store" -> Command.KStore | "Query" -> Command.KQuery
  | "RememberQuery" -> Command.KRememberQuery | "ShowMaterialized" -> Command.KShowMaterialized
  | "Replay" -> Command.KReplay | "Ping" -> Command.KPing | "Flush" -> Command.KFlush
  | "Batch" -> Command.KBatch | "Compare" -> Command.KCompare | "CreateUser" -> Command.KCreateUser
  | "RevokeKey" -> Command.KRevokeKey | "ListUsers" -> Command.KListUsers
  | "GrantPermission" -> Command.KGrantPermission | "RevokePermission" -> Command.KRevokePermission
  | "ShowPermissions" -> Command.KShowPermissions
  | s -> failwith ("kind " ^ s)

(* ---- AST decoding for parse_print (prefix notation, see tools/props/c17.py) ---- *)
exception Bad of string
let opt_b = function "~" -> None | h -> Some (bytes_of_hex h)
let bytes_of_text (s : string) = Stdlib.List.init (Stdlib.String.length s) (fun i -> n_of_int (Char.code (Stdlib.String.get s i)))

let dec_val (t : string) : Parser.jval =
  let rest = Stdlib.String.sub t 1 (Stdlib.String.length t - 1) in
  match Stdlib.String.get t 0 with
  | 's' -> Parser.VStr (bytes_of_hex rest)
  | 'i' -> Parser.VInt (z_of_string rest)
  | 'f' ->
      (match Stdlib.String.split_on_char ':' rest with
       | [n; d; fd] -> Parser.VFloat (n = "1", bytes_of_text d, bytes_of_text fd)
       | _ -> raise (Bad t))
  | 'b' -> Parser.VBool (rest = "T")
  | _ -> raise (Bad t)

let dec_op = function
  | "eq" -> Parser.OpEq | "neq" -> Parser.OpNeq | "gt" -> Parser.OpGt | "gte" -> Parser.OpGte
  | "lt" -> Parser.OpLt | "lte" -> Parser.OpLte | s -> raise (Bad s)

let rec take n l = if n = 0 then ([], l) else match l with x :: r -> let (a, b) = take (n - 1) r in (x :: a, b) | [] -> raise (Bad "short")

let rec dec_expr (l : string list) : Parser.expr * string list =
  match l with
  | "A" :: r -> let (x, r) = dec_expr r in let (y, r) = dec_expr r in (Parser.EAnd (x, y), r)
  | "O" :: r -> let (x, r) = dec_expr r in let (y, r) = dec_expr r in (Parser.EOr (x, y), r)
  | "N" :: r -> let (x, r) = dec_expr r in (Parser.ENot x, r)
  | "C" :: f :: o :: v :: r -> (Parser.ECmp (bytes_of_hex f, dec_op o, dec_val v), r)
  | "I" :: f :: n :: r ->
      let (vs, r) = take (int_of_string n) r in
      (Parser.EIn (bytes_of_hex f, Stdlib.List.map dec_val vs), r)
  | _ -> raise (Bad "expr")

let dec_agg (t : string) : Parser.agg =
  match Stdlib.String.split_on_char ':' t with
  | ["count"] -> Parser.ACount None
  | ["countu"; f] -> Parser.ACount (Some (bytes_of_hex f))
  | ["countf"; f] -> Parser.ACountField (bytes_of_hex f)
  | ["total"; f] -> Parser.ATotal (bytes_of_hex f)
  | ["avg"; f] -> Parser.AAvg (bytes_of_hex f)
  | ["min"; f] -> Parser.AMin (bytes_of_hex f)
  | ["max"; f] -> Parser.AMax (bytes_of_hex f)
  | _ -> raise (Bad t)

let dec_gran = function
  | "hour" -> Parser.GHour | "day" -> Parser.GDay | "week" -> Parser.GWeek
  | "month" -> Parser.GMonth | "year" -> Parser.GYear | s -> raise (Bad s)

let dec_list f = function
  | "~" :: r -> (None, r)
  | n :: r -> let (xs, r) = take (int_of_string n) r in (Some (Stdlib.List.map f xs), r)
  | [] -> raise (Bad "list")

let expect k = function x :: r when x = k -> r | _ -> raise (Bad ("expected " ^ k))

let dec_query (l : string list) : Parser.query =
  match l with
  | "Q" :: ev :: nl :: r ->
      let (ls, r) = take (2 * int_of_string nl) r in
      let rec links = function
        | d :: e :: t -> ((if d = "F" then Parser.FollowedBy else Parser.PrecededBy), bytes_of_hex e) :: links t
        | _ -> [] in
      let r = expect "ctx" r in let (ctx, r) = (opt_b (Stdlib.List.hd r), Stdlib.List.tl r) in
      let r = expect "since" r in let (since, r) = (opt_b (Stdlib.List.hd r), Stdlib.List.tl r) in
      let r = expect "tf" r in let (tf, r) = (opt_b (Stdlib.List.hd r), Stdlib.List.tl r) in
      let r = expect "stf" r in let (stf, r) = (opt_b (Stdlib.List.hd r), Stdlib.List.tl r) in
      let r = expect "where" r in
      let (wh, r) = (match r with "~" :: r -> (None, r) | _ -> let (e, r) = dec_expr r in (Some e, r)) in
      let r = expect "ret" r in let (ret, r) = dec_list bytes_of_hex r in
      let r = expect "link" r in let (link, r) = (opt_b (Stdlib.List.hd r), Stdlib.List.tl r) in
      let r = expect "aggs" r in let (aggs, r) = dec_list dec_agg r in
      let r = expect "tb" r in
      let (tb, r) = (match r with "~" :: r -> (None, r) | g :: r -> (Some (dec_gran g), r) | [] -> raise (Bad "tb")) in
      let r = expect "gb" r in let (gb, r) = dec_list bytes_of_hex r in
      let r = expect "order" r in
      let (ord, r) = (match r with "~" :: r -> (None, r) | f :: d :: r -> (Some (bytes_of_hex f, d = "d"), r) | _ -> raise (Bad "order")) in
      let r = expect "limit" r in
      let (lim, r) = (match r with "~" :: r -> (None, r) | n :: r -> (Some (n_of_string n), r) | [] -> raise (Bad "limit")) in
      let r = expect "offset" r in
      let (off, _) = (match r with "~" :: r -> (None, r) | n :: r -> (Some (n_of_string n), r) | [] -> raise (Bad "offset")) in
      { Parser.q_event = bytes_of_hex ev; q_ctx = ctx; q_since = since; q_time_field = tf; q_seq_time_field = stf;
        q_where = wh; q_limit = lim; q_offset = off; q_order = ord; q_return = ret; q_link = link; q_aggs = aggs;
        q_bucket = tb; q_group = gb; q_seq = links ls }
  | _ -> raise (Bad "query")

let with_fallback fx b =
  match Command.parse_command fx b with
  | Command.PDomain ->
      (match Command.peg_fallback fx b with
       | Some r -> "DOMAIN|" ^ presult r
       | None -> "DOMAIN")
  | r -> presult r

(* ---- JSON text -> JsonCommand.json (RFC 8259; decoding only, no conversion logic) ---- *)
exception Bad_json
let huge_number = ref false
let parse_json_text (s : string) : JsonCommand.json =
  let n = Stdlib.String.length s in
  let pos = ref 0 in
  let peek () = if !pos < n then Some (Stdlib.String.get s !pos) else None in
  let adv () = incr pos in
  let rec ws () = match peek () with Some (' ' | '\t' | '\n' | '\r') -> adv (); ws () | _ -> () in
  let expect c = if peek () = Some c then adv () else raise Bad_json in
  let lit w v = if !pos + Stdlib.String.length w <= n && Stdlib.String.sub s !pos (Stdlib.String.length w) = w
                then (pos := !pos + Stdlib.String.length w; v) else raise Bad_json in
  let hex4 () =
    if !pos + 4 > n then raise Bad_json;
    let v = (try int_of_string ("0x" ^ Stdlib.String.sub s !pos 4) with _ -> raise Bad_json) in
    Stdlib.String.iter (fun c -> match c with '0'..'9' | 'a'..'f' | 'A'..'F' -> () | _ -> raise Bad_json) (Stdlib.String.sub s !pos 4);
    pos := !pos + 4; v in
  let utf8 buf cp =
    if cp < 0x80 then Buffer.add_char buf (Char.chr cp)
    else if cp < 0x800 then (Buffer.add_char buf (Char.chr (0xC0 lor (cp lsr 6))); Buffer.add_char buf (Char.chr (0x80 lor (cp land 0x3F))))
    else if cp < 0x10000 then (Buffer.add_char buf (Char.chr (0xE0 lor (cp lsr 12))); Buffer.add_char buf (Char.chr (0x80 lor ((cp lsr 6) land 0x3F))); Buffer.add_char buf (Char.chr (0x80 lor (cp land 0x3F))))
    else (Buffer.add_char buf (Char.chr (0xF0 lor (cp lsr 18))); Buffer.add_char buf (Char.chr (0x80 lor ((cp lsr 12) land 0x3F))); Buffer.add_char buf (Char.chr (0x80 lor ((cp lsr 6) land 0x3F))); Buffer.add_char buf (Char.chr (0x80 lor (cp land 0x3F)))) in
  let str () =
    expect '"';
    let buf = Buffer.create 16 in
    let rec go () =
      match peek () with
      | None -> raise Bad_json
      | Some '"' -> adv ()
      | Some '\\' ->
          adv ();
          (match peek () with
           | Some '"' -> Buffer.add_char buf '"'; adv () | Some '\\' -> Buffer.add_char buf '\\'; adv ()
           | Some '/' -> Buffer.add_char buf '/'; adv () | Some 'b' -> Buffer.add_char buf '\b'; adv ()
           | Some 'f' -> Buffer.add_char buf '\012'; adv () | Some 'n' -> Buffer.add_char buf '\n'; adv ()
           | Some 'r' -> Buffer.add_char buf '\r'; adv () | Some 't' -> Buffer.add_char buf '\t'; adv ()
           | Some 'u' ->
               adv ();
               let hi = hex4 () in
               if hi >= 0xD800 && hi < 0xDC00 then begin
                 if !pos + 2 <= n && Stdlib.String.sub s !pos 2 = "\\u" then begin
                   pos := !pos + 2;
                   let lo = hex4 () in
                   if lo >= 0xDC00 && lo < 0xE000 then utf8 buf (0x10000 + ((hi - 0xD800) lsl 10) + (lo - 0xDC00)) else raise Bad_json
                 end else raise Bad_json
               end else if hi >= 0xDC00 && hi < 0xE000 then raise Bad_json
               else utf8 buf hi
           | _ -> raise Bad_json);
          go ()
      | Some c -> if Char.code c < 0x20 then raise Bad_json else (Buffer.add_char buf c; adv (); go ()) in
    go ();
    bytes_of_text (Buffer.contents buf) in
  let digits () =
    let st = !pos in
    let rec go () = match peek () with Some '0'..'9' -> adv (); go () | _ -> () in
    go (); if !pos = st then raise Bad_json; Stdlib.String.sub s st (!pos - st) in
  let number () =
    let neg = (peek () = Some '-') in
    if neg then adv ();
    let ip = digits () in
    if Stdlib.String.length ip > 1 && Stdlib.String.get ip 0 = '0' then raise Bad_json;
    let fp = if peek () = Some '.' then (adv (); Some (digits ())) else None in
    let ex = (match peek () with
              | Some ('e' | 'E') -> adv (); (match peek () with Some ('+' | '-') -> adv () | _ -> ()); ignore (digits ()); true
              | _ -> false) in
    let zero t = Stdlib.String.for_all (fun c -> c = '0') t in
    (* near or beyond the f64 range the deserialiser rejects the number even under an ignored key: the whole body is undecided here *)
    if Stdlib.String.length ip > 300 then huge_number := true;
    if ex || Stdlib.String.length ip > 300 then JsonCommand.JOdd
    else match fp with
      | None -> if neg && zero ip then JsonCommand.JOdd else JsonCommand.JInt (z_of_string ((if neg then "-" else "") ^ ip))
      | Some f -> if neg && zero ip && zero f then JsonCommand.JOdd else JsonCommand.JDec (neg, bytes_of_text ip, bytes_of_text f) in
  let rec value depth =
    if depth > 4000 then raise Bad_json;
    ws ();
    match peek () with
    | Some '{' ->
        adv (); ws ();
        if peek () = Some '}' then (adv (); JsonCommand.JObj [])
        else begin
          let rec members acc =
            ws (); let k = str () in ws (); expect ':'; let v = value (depth + 1) in ws ();
            match peek () with
            | Some ',' -> adv (); members ((k, v) :: acc)
            | Some '}' -> adv (); JsonCommand.JObj (Stdlib.List.rev ((k, v) :: acc))
            | _ -> raise Bad_json in
          members []
        end
    | Some '[' ->
        adv (); ws ();
        if peek () = Some ']' then (adv (); JsonCommand.JArr [])
        else begin
          let rec elems acc =
            let v = value (depth + 1) in ws ();
            match peek () with
            | Some ',' -> adv (); elems (v :: acc)
            | Some ']' -> adv (); JsonCommand.JArr (Stdlib.List.rev (v :: acc))
            | _ -> raise Bad_json in
          elems []
        end
    | Some '"' -> JsonCommand.JStr (str ())
    | Some 't' -> lit "true" (JsonCommand.JBool true)
    | Some 'f' -> lit "false" (JsonCommand.JBool false)
    | Some 'n' -> lit "null" JsonCommand.JNull
    | Some ('-' | '0'..'9') -> number ()
    | _ -> raise Bad_json in
  let v = value 0 in
  ws (); if !pos <> n then raise Bad_json; v

let rec json_text buf (j : JsonCommand.json) =
  let str b =
    Buffer.add_char buf '"';
    Stdlib.List.iter (fun c -> let c = int_of_n c in
      if c = 34 then Buffer.add_string buf "\\\"" else if c = 92 then Buffer.add_string buf "\\\\"
      else if c < 32 then Buffer.add_string buf (Printf.sprintf "\\u%04x" c) else Buffer.add_char buf (Char.chr c)) b;
    Buffer.add_char buf '"' in
  match j with
  | JsonCommand.JNull -> Buffer.add_string buf "null"
  | JsonCommand.JBool b -> Buffer.add_string buf (if b then "true" else "false")
  | JsonCommand.JInt z -> Buffer.add_string buf (string_of_z z)
  | JsonCommand.JDec (neg, d, fd) -> Buffer.add_string buf ((if neg then "-" else "") ^ text d ^ "." ^ text fd)
  | JsonCommand.JOdd -> Buffer.add_string buf "1e999999"       (* not representable here: makes the comparison fail loudly *)
  | JsonCommand.JStr s -> str s
  | JsonCommand.JArr l -> Buffer.add_char buf '['; Stdlib.List.iteri (fun i x -> if i > 0 then Buffer.add_char buf ','; json_text buf x) l; Buffer.add_char buf ']'
  | JsonCommand.JObj l -> Buffer.add_char buf '{'; Stdlib.List.iteri (fun i (k, x) -> if i > 0 then Buffer.add_char buf ','; str k; Buffer.add_char buf ':'; json_text buf x) l; Buffer.add_char buf '}'

let rec has_odd (j : JsonCommand.json) = match j with
  | JsonCommand.JOdd -> true
  | JsonCommand.JArr l -> Stdlib.List.exists has_odd l
  | JsonCommand.JObj l -> Stdlib.List.exists (fun (_, x) -> has_odd x) l
  | _ -> false

let json_probe (h : string) : string =
  huge_number := false;
  match (try Some (parse_json_text (text (bytes_of_hex h))) with Bad_json | Stack_overflow -> None) with
  | None -> "ERR"                                   (* not JSON *)
  | Some _ when !huge_number -> "UNMODELLED json"
  | Some j ->
      (match JsonCommand.conv_command j with
       | JsonCommand.JOk (JsonCommand.JC c) -> "OK " ^ command c
       | JsonCommand.JOk (JsonCommand.JCStore (et, ctx, p)) ->
           if has_odd p then "UNMODELLED json" else
           let b = Buffer.create 64 in json_text b p;
           Printf.sprintf "OK S %s %s %s" (hs et) (hs ctx) (hs (bytes_of_text (Buffer.contents b)))
       | JsonCommand.JErr -> "ERR"
       | JsonCommand.JUn -> "UNMODELLED json")

let run (t : string list) : string =
  match t with
  | ["parse_cmd"; h] -> with_fallback Params.query_numeric_fallible (bytes_of_hex h)
  | ["parse_cmdt"; _; h] -> with_fallback Params.query_numeric_fallible (bytes_of_hex h)
  | ["parse_old"; h] -> with_fallback false (bytes_of_hex h)
  | ["parse_fix"; h] -> with_fallback true (bytes_of_hex h)
  | ["parse_disp"; h] ->
      (match Command.parse_command_cur (bytes_of_hex h) with
       | Command.POk (Command.CStore (_, _, json)) -> "S " ^ hs json   (* JSON validity is decided in the comparison *)
       | Command.POk (Command.CBatch cs as c) ->
           (* a STORE inside the batch: the JSON validity of its payload is decided in the comparison *)
           (if Command.dispatch_handled (Command.kind_of c) then "BRESP " else "BPANIC ") ^ command c
       | Command.POk c -> if Command.dispatch_handled (Command.kind_of c) then "RESP" else "PANIC"
       | Command.PErr -> "NOPARSE"
       | Command.PPanic _ -> "PANIC"
       | Command.POOF -> "OOF"
       | Command.PDomain -> "DOMAIN"
       | Command.PUnmodelled _ -> "UNMODELLED")
  | ["parse_kind"; k] -> if Command.dispatch_handled (kind_of_string k) then "RESP" else "PANIC"
  | ["parse_json"; h] -> json_probe h
  | "parse_print" :: mode :: "E" :: ast ->
      let (e, _) = dec_expr ast in
      hex_of_bytes (Printer.print_expr (Printer.speller (n_of_string mode)) e)
  | "parse_print" :: mode :: ast ->
      hex_of_bytes (Printer.print_query (Printer.speller (n_of_string mode)) (dec_query ast))
  | "parse_wf" :: ast ->
      let q = dec_query ast in
      if Printer.wf_query q && Printer.clean_query q then "WF" else "NOTWF"
  | _ -> "UNKNOWN_PROBE"

let init () = Registry.register "parse_" run
