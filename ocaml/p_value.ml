(* requires: ValueTiers JsonV7 Float64 RustText *)
(* C07 probe: drives the extracted models Model/{ValueTiers,Json,RustText,Float64}.v with the same
   case lines as harness/src/probes/value.rs, plus the per-cell lines of the engine-level check.
   Parsing of the case and printing only. *)
open Conv
module V = ValueTiers

let tl1 s = Stdlib.String.sub s 1 (Stdlib.String.length s - 1)
let hexbytes s = if s = "" then [] else bytes_of_hex s
let hexout b = if b = [] then "" else hex_of_bytes b
let z_of_hex s = z_of_zt (Z.of_string ("0x" ^ s))
let hex16 z = Z.format "%016x" (zt_of_z z)

let rec json_out (v : JsonV7.json) : string =
  match v with
  | JsonV7.JNull -> "n"
  | JsonV7.JBool b -> if b then "b1" else "b0"
  | JsonV7.JU64 n -> "i" ^ string_of_z n
  | JsonV7.JI64 z -> "i" ^ string_of_z z
  | JsonV7.JF64 b -> "f" ^ hex16 b
  | JsonV7.JStr s -> "s" ^ hexout s
  | JsonV7.JArr l -> "[" ^ Stdlib.String.concat "," (Stdlib.List.map json_out l) ^ "]"
  | JsonV7.JObj l -> "{" ^ Stdlib.String.concat "," (Stdlib.List.map (fun (k, x) -> hexout k ^ ":" ^ json_out x) l) ^ "}"

let scalar_out (s : V.scalar) : string =
  match s with
  | V.SNull -> "N"
  | V.SBool b -> if b then "B1" else "B0"
  | V.SInt z -> "I" ^ string_of_z z
  | V.SFloat b -> "F" ^ hex16 b
  | V.SUtf8 t -> "U" ^ hexout t

let scalar_in (t : string) : V.scalar =
  match t.[0] with
  | 'N' -> V.SNull
  | 'B' -> V.SBool (t = "B1")
  | 'I' -> V.SInt (z_of_string (tl1 t))
  | 'F' -> V.SFloat (z_of_hex (tl1 t))
  | 'U' -> V.SUtf8 (hexbytes (tl1 t))
  | _ -> failwith "scalar"

(* stored payload entry of the engine-level lines: a = key absent; otherwise a scalar JSON value *)
let stored_in (t : string) : JsonV7.json option =
  match t.[0] with
  | 'a' -> None
  | 'n' -> Some JsonV7.JNull
  | 'b' -> Some (JsonV7.JBool (t = "b1"))
  | 'i' -> let z = Z.of_string (tl1 t) in
           Some (if Z.sign z < 0 then JsonV7.JI64 (z_of_zt z) else JsonV7.JU64 (z_of_zt z))
  | 'f' -> Some (JsonV7.JF64 (z_of_hex (tl1 t)))
  | 's' -> Some (JsonV7.JStr (hexbytes (tl1 t)))
  | _ -> failwith "stored"

let rec ftype_in (t : string) : V.ftype =
  if Stdlib.String.length t > 1 && t.[0] = 'o' && t <> "o" then V.TOpt (ftype_in (tl1 t))
  else match t with
    | "str" -> V.TStr | "u64" -> V.TU64 | "i64" -> V.TI64 | "f64" -> V.TF64 | "bool" -> V.TBool
    | "dt" -> V.TTime | "date" -> V.TDate
    | _ ->
        (* enum:<hex>,<hex>,... *)
        if Stdlib.String.length t >= 5 && Stdlib.String.sub t 0 5 = "enum:" then
          V.TEnum (Stdlib.List.map hexbytes (Stdlib.String.split_on_char ',' (Stdlib.String.sub t 5 (Stdlib.String.length t - 5))))
        else failwith "ftype"

let phys_in = function
  | "var" -> V.PVar | "i64" -> V.PI64 | "u64" -> V.PU64 | "f64" -> V.PF64 | "bool" -> V.PBool
  | _ -> failwith "phys"

(* layout: w<0|1> then s<-|n> e.g. "w0s-" "w1s2" *)
let layout_in (t : string) : V.layout =
  let w = t.[1] = '1' in
  let rest = Stdlib.String.sub t 3 (Stdlib.String.length t - 3) in
  { V.via_wal = w; V.in_seg = (if rest = "-" then None else Some (nat_of_int (int_of_string rest))) }

let class_name = function
  | V.Utf8ReparsedOnRender -> "Utf8ReparsedOnRender"
  | V.StringRetyped -> "StringRetyped"
  | V.NullStringBecomesEmpty -> "NullStringBecomesEmpty"
  | V.IntegerInFloatFieldRounded -> "IntegerInFloatFieldRounded"

let rec iter n f x = if n <= 0 then x else iter (n - 1) f (f x)

let run (t : string list) : string =
  match t with
  | ["value_parse"; h] ->
      (match V.store_parse (bytes_of_hex h) with Some v -> json_out v | None -> "ERR")
  | ["value_fromjson"; h] ->
      (match JsonV7.parse_json (bytes_of_hex h) with Some v -> scalar_out (V.scalar_of_json v) | None -> "ERR")
  | ["value_tojson"; s] -> json_out (V.json_of_scalar (scalar_in s))
  | ["value_wal"; s] -> scalar_out (V.wal_scalar (scalar_in s))
  | ["value_builder"; "var"; h] -> scalar_out (V.read_cell (V.CVar (bytes_of_hex h)))
  | ["value_builder"; "i64"; d] -> scalar_out (V.read_cell (V.CI64 (Some (z_of_string d))))
  | ["value_builder"; "u64"; d] -> scalar_out (V.read_cell (V.CU64 (Some (z_of_string d))))
  | ["value_builder"; "f64"; h] -> scalar_out (V.read_cell (V.CF64 (Some (z_of_hex h))))
  | ["value_builder"; "bool"; b] -> scalar_out (V.read_cell (V.CBool (Some (b = "1"))))
  | ["value_builder"; "null"] -> scalar_out (V.read_cell (V.CI64 None))
  | "value_block" :: p :: n :: vals ->
      let p = phys_in p in
      let cells = V.write_zone p (Stdlib.List.map scalar_in vals) in
      let cells = iter (int_of_string n) (V.compact_zone p) cells in
      let rows = Stdlib.List.map (fun c -> scalar_out (V.read_cell c) ^ ";" ^ scalar_out (V.read_cell_sink c)) cells in
      Stdlib.String.concat " " rows ^ " | " ^ Stdlib.String.concat " " (Stdlib.List.map (fun c -> scalar_out (V.scan_cell c)) cells)
  (* value_cell <ftype> <layout> <col_present 0|1> <stored>  ->  returned json ; classes *)
  | ["value_cell"; ft; l; cp; v] ->
      let ft = ftype_in ft and l = layout_in l and cp = (cp = "1") and v = stored_in v in
      let r = V.returned ft l cp v in
      let cls = Stdlib.List.filter (fun k -> V.in_class k ft l cp v) V.all_classes in
      json_out r ^ " " ^ (if cls = [] then "-" else Stdlib.String.concat "," (Stdlib.List.map class_name cls))
      ^ " " ^ (if V.conforming ft v then "ok" else "nonconforming")
  (* value_proj <cols: hex,hex,..> <ret: - | = (empty list) | hex,hex,..> <schema fields: hex,..> -> output columns *)
  | ["value_proj"; cols; ret; fields] ->
      let lst s = if s = "" then [] else Stdlib.List.map hexbytes (Stdlib.String.split_on_char ',' s) in
      let cols = lst cols in
      let ret = if ret = "-" then None else if ret = "=" then Some [] else Some (lst ret) in
      let idx = V.projection cols ret (lst fields) in
      Stdlib.String.concat "," (Stdlib.List.map hexout (V.project_cols idx cols))
  (* value_core <context_id|event_type> <n compactions> <hex text>...  (core string column of a flushed zone) *)
  | "value_core" :: _field :: n :: vals ->
      let texts = Stdlib.List.map (fun h -> if h = "-" then [] else bytes_of_hex h) vals in
      let cells = Stdlib.List.map (fun t -> iter (int_of_string n) V.core_compact (V.core_write t)) texts in
      let rows = Stdlib.List.map (fun c ->
          "U" ^ hexout (V.core_read c) ^ ";U" ^ hexout (V.core_read_sink c) ^ ";" ^ json_out (V.json_of_utf8 (V.core_read c))) cells in
      Stdlib.String.concat " " rows ^ " | " ^ Stdlib.String.concat " " (Stdlib.List.map (fun c -> "U" ^ hexout c) cells)
  (* value_corecell <layout> <hex text> -> returned json ; classes ; ok *)
  | ["value_corecell"; l; h] ->
      let t = if h = "-" then [] else bytes_of_hex h in
      json_out (V.returned_core (layout_in l) t) ^ " " ^ (if V.utf8_reparsed t then "Utf8ReparsedOnRender" else "-") ^ " ok"
  (* value_for <layout> <hex query ctx> <hex stored ctx> -> 1 when the read FOR q returns an event stored under ctx *)
  | ["value_for"; l; q; c] ->
      let b h = if h = "-" then [] else bytes_of_hex h in
      if V.for_selects (layout_in l) (b q) (b c) then "1" else "0"
  | _ -> "UNKNOWN_PROBE"

let init () = Registry.register "value_" run
