(* Probe registry: each p_*.ml registers its prefix and runner at load time. *)
let probes : (string * (string list -> string)) list ref = ref []
let register (prefix : string) (f : string list -> string) = probes := (prefix, f) :: !probes
let starts_with p s = Stdlib.String.length s >= Stdlib.String.length p && Stdlib.String.sub s 0 (Stdlib.String.length p) = p
let dispatch (t : string list) : string =
  match t with
  | [] -> ""
  | name :: _ ->
      let rec go = function
        | [] -> "UNKNOWN_PROBE"
        | (p, f) :: r -> if starts_with p name then f t else go r in
      go !probes
