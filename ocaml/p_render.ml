(* requires: Render *)
(* C20 probe: drives the extracted model Model/Render.v with the same case lines as
   harness/src/probes/render.rs and prints the decoded streams in the canonical form that
   tools/props/c20.py builds from the implementation's bytes.  Parsing and printing only. *)
open Conv
module R = Render

let split c s = Stdlib.String.split_on_char c s
let tl1 s = Stdlib.String.sub s 1 (Stdlib.String.length s - 1)
let cat sep l = Stdlib.String.concat sep l
let lmap = Stdlib.List.map

(* cell = n | b0 | b1 | i<dec> | f<bits>:<disphex> | t<dec> | s<hex>[:d<canonhex>][:f<bits>] | x<hex> *)
let cell_in (tok : string) : R.scalar =
  match split ':' tok with
  | [] -> failwith "cell"
  | hd :: attrs ->
      begin match hd.[0] with
      | 'n' -> R.SNull
      | 'b' -> R.SBool (hd = "b1")
      | 'i' -> R.SInt (z_of_string (tl1 hd))
      | 'f' -> R.SFloat (n_of_string (tl1 hd), (match attrs with a :: _ -> bytes_of_hex a | [] -> []))
      | 't' -> R.STs (z_of_string (tl1 hd))
      | 's' ->
          let doc = ref None and fl = ref None in
          Stdlib.List.iter (fun a ->
              if a.[0] = 'd' then doc := Some (bytes_of_hex (tl1 a))
              else if a.[0] = 'f' then fl := Some (n_of_string (tl1 a))) attrs;
          R.SUtf8 (bytes_of_hex (tl1 hd), !doc, !fl)
      | 'x' -> R.SBin (bytes_of_hex (tl1 hd))
      | _ -> failwith "cell"
      end

let cols_in (tok : string) : R.column list =
  lmap (fun c -> match split ':' c with
      | [n; t] -> { R.c_name = bytes_of_hex n; c_type = bytes_of_hex t }
      | _ -> failwith "col") (split ',' tok)

let rows_in (tok : string) : R.row list =
  if tok = "E" then [] else lmap (fun r -> lmap cell_in (split ',' r)) (split ';' tok)

let batches_in (tok : string) : R.batch list =
  if tok = "-" then [] else lmap rows_in (split '/' tok)

let optn s = if s = "-" then None else Some (n_of_string s)

let kind_in (s : string) : R.wkind =
  if s = "q" then R.WQuery
  else
    let n = Stdlib.String.length s in
    R.WShow (n_of_string (Stdlib.String.sub s 1 (n - 2)), s.[n - 1] = 'w')

let dcell_out (c : R.dcell) : string =
  match c with
  | R.DNull -> "n"
  | R.DBool b -> if b then "b1" else "b0"
  | R.DInt z -> "i" ^ string_of_z z
  | R.DFloat b -> "f" ^ string_of_n b
  | R.DStr s -> "s" ^ hex_of_bytes s
  | R.DDoc c -> "d" ^ hex_of_bytes c

let drow_out r = cat "," (lmap dcell_out r)

let jframe_out (f : R.jframe) : string =
  match f with
  | R.JSchema cols -> "S" ^ cat "," (lmap (fun (n, t) -> hex_of_bytes n ^ ":" ^ hex_of_bytes t) cols)
  | R.JBatch rows -> "B" ^ cat ";" (lmap drow_out rows)
  | R.JRow cells -> "R" ^ cat "," (lmap (fun (n, c) -> hex_of_bytes n ^ "=" ^ dcell_out c) cells)
  | R.JEnd n -> "E" ^ string_of_n n

let atype_out (t : R.atype) : string =
  match t with
  | R.AInt64 -> "Int64" | R.AFloat64 -> "Float64" | R.ABool -> "Boolean" | R.ATsMs -> "TimestampMs" | R.ALargeUtf8 -> "LargeUtf8"

let aframe_out (f : R.aframe) : string =
  match f with
  | R.ASchema fields -> "S" ^ cat "," (lmap (fun (n, t) -> hex_of_bytes n ^ ":" ^ atype_out t ^ ":1") fields)
  | R.ABatch rows -> "B" ^ cat ";" (lmap drow_out rows)

let kclass_out (k : R.kclass option) : string =
  match k with
  | None -> "-"
  | Some R.Utf8BigU64AsNumber -> "Utf8BigU64AsNumber"
  | Some R.Utf8JsonDocReparsed -> "Utf8JsonDocReparsed"
  | Some R.NonFiniteFloatAsNull -> "NonFiniteFloatAsNull"
  | Some R.NonIntegerInIntegerColumn -> "NonIntegerInIntegerColumn"
  | Some R.NonTimestampInTimestampColumn -> "NonTimestampInTimestampColumn"
  | Some R.NonFloatInFloatColumn -> "NonFloatInFloatColumn"
  | Some R.NonBooleanInBooleanColumn -> "NonBooleanInBooleanColumn"
  | Some R.NonStringInStringColumn -> "NonStringInStringColumn"

(* the known class of every cell of the emitted rows (KnownClass of the Coq development), for
   tools/props/c20.py classify; not part of the comparison with the implementation *)
let classes_out (cols : R.column list) (rows : R.row list) : string =
  cat ";" (lmap (fun r ->
      cat "," (lmap (fun (c, v) -> kclass_out (R.known_class c.R.c_type v)) (Stdlib.List.combine cols r))) rows)

let out3 j u a k =
  Printf.sprintf "json{%s} text{%s} arrow{%s} #K:%s" (cat "|" (lmap jframe_out j)) (cat "|" (lmap jframe_out u)) (cat "|" (lmap aframe_out a)) k

let status_in (s : string) : R.status =
  match s with
  | "0" -> R.StOk | "1" -> R.StBadRequest | "2" -> R.StUnauthorized | "3" -> R.StForbidden
  | "4" -> R.StNotFound | "5" -> R.StInternal | _ -> R.StUnavailable

let run (t : string list) : string =
  match t with
  | ["render_run"; kind; bs; lim; off; cols; batches] ->
      let cfg = { R.w_limit = optn lim; w_offset = optn off; w_batch_size = n_of_string bs; w_kind = kind_in kind } in
      let cols = cols_in cols and bs = batches_in batches in
      (* the text renderer goes through the same write_json with the same to_json *)
      let j = R.write_json cfg cols bs in
      out3 j j (R.write_arrow cfg cols bs) (classes_out cols (R.accepted_rows cfg cols bs))
  | ["render_enc"; sel; cols; batch] ->
      let cols = cols_in cols and b = rows_in batch in
      let whole = sel = "W" in
      let rows = if whole then b else R.select_rows b (lmap n_of_string (split ',' sel)) in
      let names = lmap (fun c -> c.R.c_name) cols in
      let j = [R.JSchema (lmap (fun c -> (c.R.c_name, c.R.c_type)) cols); R.JBatch (lmap R.json_row rows)]
              @ lmap (fun r -> R.JRow (Stdlib.List.combine names (R.json_row r))) rows
              @ [R.JEnd (n_of_int (Stdlib.List.length rows))] in
      let a = [R.ASchema (lmap (fun c -> (c.R.c_name, R.arrow_type_schema c.R.c_type)) cols);
               R.ABatch (lmap (R.arrow_row (if whole then R.PWhole else R.PRow) cols) rows)] in
      out3 j j a (classes_out cols rows)
  | ["render_err"; st; msg] ->
      let s = status_in st and m = bytes_of_hex msg in
      let one e =
        Printf.sprintf "B%s S%s H%s" (hex_of_bytes (R.render_error e s m))
          (match R.body_status e s m with Some n -> string_of_n n | None -> "-")
          (string_of_n (R.http_status_of_error e s m)) in
      Printf.sprintf "json{%s} text{%s} arrow{%s} #K:%s" (one R.EJson) (one R.EText) (one R.EArrow)
        (if R.http_known s m then "HttpStatusLongErrorBodyUnparsed" else "-")
  | _ -> "UNKNOWN_PROBE"

let init () = Registry.register "render_" run
