(* requires: BucketZone Bucket *)
(* Separate from p_agg.ml: when the translator refuses the sink's bucketing glue (tools/params/p12_bucket_zone.py)
   only this probe family loses its model, the other agg_ probes keep theirs. *)
open Conv

let gran = function
  | "h" -> Some Bucket.GHour | "d" -> Some Bucket.GDay | "w" -> Some Bucket.GWeek
  | "m" -> Some Bucket.GMonth | "y" -> Some Bucket.GYear | _ -> None

let run (t : string list) : string =
  match t with
  (* agg_bseq <mode r|k|o|n> <gran> <tz> <ws> <ts,ts,..> <initial offset>[:<at>@<offset>,..]  (zone rows: model side only) *)
  | ["agg_bseq"; mode; g; _tz; ws; tss; zn] ->
      (match gran g with
       | None -> "BADGRAN"
       | Some gr ->
           let zone = match Stdlib.String.split_on_char ':' zn with
             | [o] -> (z_of_string o, [])
             | [o; trs] -> (z_of_string o, Stdlib.List.map (fun tr -> match Stdlib.String.split_on_char '@' tr with
                 | [a; o2] -> (z_of_string a, z_of_string o2) | _ -> failwith "BADZONE") (Stdlib.String.split_on_char ',' trs))
             | _ -> failwith "BADZONE" in
           let seq = Stdlib.List.map z_of_string (Stdlib.String.split_on_char ',' tss) in
           let bs = BucketZone.bucket_zone_seq (z_of_string ws) zone gr seq in
           let whole = mode = "o" || mode = "n" in
           if whole && Stdlib.List.exists (fun b -> b = None) bs then "ERR"
           else if mode = "n" then begin
             let vals = Stdlib.List.sort compare (Stdlib.List.map (function Some b -> zt_of_z b | None -> Z.zero) bs) in
             let rec grp = function
               | [] -> []
               | x :: r -> let same = Stdlib.List.filter (fun y -> Z.equal x y) r in
                           (x, 1 + Stdlib.List.length same) :: grp (Stdlib.List.filter (fun y -> not (Z.equal x y)) r) in
             "QC " ^ Stdlib.String.concat "," (Stdlib.List.map (fun (b, n) -> Printf.sprintf "%s:%d" (Z.to_string b) n) (grp vals))
           end else
             "Q " ^ Stdlib.String.concat "," (Stdlib.List.map (function Some b -> string_of_z b | None -> "P") bs))
  | _ -> "UNKNOWN_PROBE"

let init () = Registry.register "agg_bseq" run
