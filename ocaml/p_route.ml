(* requires: SipHash Cluster EventId *)
open Conv

let route_s ctx n =
  match SipHash.route ctx (n_of_string n) with
  | Some r -> string_of_n r
  | None -> "PANIC"

let run (t : string list) : string =
  match t with
  | ["route_get"; n; h] ->
      (match SipHash.route (bytes_of_hex h) (n_of_string n) with
       | Some r -> "R " ^ string_of_n r
       | None -> "PANIC")
  | "route_many" :: h :: ns ->
      let ctx = bytes_of_hex h in
      if Stdlib.List.exists (fun n -> SipHash.route ctx (n_of_string n) = None) ns then "PANIC"
      else "R " ^ Stdlib.String.concat " " (Stdlib.List.map (route_s ctx) ns)
  | ["route_hash"; h] -> "H " ^ string_of_n (SipHash.default_hash_str (bytes_of_hex h))
  | "route_engine" :: n :: rest ->
      (* groups of comma-separated hex contexts separated by "/": STOREs, with a Restart between groups;
         every STORE sees its own advancing clock reading (ids are not compared, only placement and tag) *)
      let groups =
        let rec go cur acc = function
          | [] -> Stdlib.List.rev (Stdlib.List.rev cur :: acc)
          | "/" :: r -> go [] (Stdlib.List.rev cur :: acc) r
          | x :: r -> go (x :: cur) acc r in
        go [] [] rest in
      let ctxs_of g = Stdlib.List.concat_map (fun tok ->
        Stdlib.List.filter (fun x -> x <> "") (Stdlib.String.split_on_char ',' tok)) g in
      let base = Z.of_string "1700000000000" in
      let k = ref 0 in
      let ops = Stdlib.List.concat (Stdlib.List.mapi (fun gi g ->
        let stores = Stdlib.List.map (fun h ->
          incr k;
          Cluster.Store (bytes_of_hex h, n_of_int !k, [n_of_zt (Z.add base (Z.of_int !k))])) (ctxs_of g) in
        if gi = 0 then stores else Cluster.Restart :: stores) groups) in
      let st = Cluster.run_ops (n_of_string n) ops in
      let log = st.Cluster.cl_log in
      let ints b = Stdlib.List.map int_of_n b in
      let ctxs = Stdlib.List.sort_uniq Stdlib.compare
        (Stdlib.List.map (fun (_, e) -> ints e.Cluster.ev_ctx) log) in
      let uniq l = Stdlib.List.sort_uniq Stdlib.compare l in
      let item c =
        let mine = Stdlib.List.filter (fun (_, e) -> ints e.Cluster.ev_ctx = c) log in
        let dirs = uniq (Stdlib.List.map (fun (j, _) -> int_of_n j) mine) in
        let tags = uniq (Stdlib.List.map (fun (_, e) -> int_of_n (EventId.id_shard e.Cluster.ev_id)) mine) in
        let j l = Stdlib.String.concat "+" (Stdlib.List.map string_of_int l) in
        Printf.sprintf "%s=%s/%s/%d" (hex_of_bytes (Stdlib.List.map n_of_int c)) (j dirs) (j tags) (Stdlib.List.length mine) in
      if n_of_string n = BinNums.N0 then "PANIC"
      else "E " ^ (if ctxs = [] then "-" else Stdlib.String.concat " " (Stdlib.List.map item ctxs))
  | "route_burst" :: n :: millis :: count :: hs ->
      (* count STOREs per context, every id generation reading the same millisecond (and, when a sequence is
         exhausted, the following ones) *)
      let m = Z.of_string millis in
      let clock = Stdlib.List.map (fun d -> n_of_zt (Z.add m (Z.of_int d))) [0; 1; 2; 3; 4] in
      let count = int_of_string count in
      let ctxs = Stdlib.List.map bytes_of_hex hs in
      let ops = Stdlib.List.concat (Stdlib.List.init count (fun i ->
        Stdlib.List.map (fun c -> Cluster.Store (c, n_of_int i, clock)) ctxs)) in
      if n_of_string n = BinNums.N0 then "PANIC" else begin
        let st = Cluster.run_ops (n_of_string n) ops in
        let log = Stdlib.List.map (fun (j, e) ->
          (int_of_n j, Stdlib.List.map int_of_n e.Cluster.ev_ctx, e.Cluster.ev_id)) st.Cluster.cl_log in
        let keys = Stdlib.List.sort_uniq Stdlib.compare (Stdlib.List.map (fun (_, c, _) -> c) log) in
        let uniq l = Stdlib.List.sort_uniq Stdlib.compare l in
        let item c =
          let mine = Stdlib.List.filter (fun (_, c', _) -> c' = c) log in
          let dirs = uniq (Stdlib.List.map (fun (j, _, _) -> j) mine) in
          let tags = uniq (Stdlib.List.map (fun (_, _, id) -> int_of_n (EventId.id_shard id)) mine) in
          let ids = uniq (Stdlib.List.map (fun (_, _, id) -> Z.to_string (zt_of_n id)) mine) in
          let j l = Stdlib.String.concat "+" (Stdlib.List.map string_of_int l) in
          Printf.sprintf "%s=%s/%s/%d/%s" (hex_of_bytes (Stdlib.List.map n_of_int c)) (j dirs) (j tags)
            (Stdlib.List.length mine) (if Stdlib.List.length ids = Stdlib.List.length mine then "distinct" else "dup") in
        "B " ^ (if keys = [] then "-" else Stdlib.String.concat " " (Stdlib.List.map item keys))
      end
  | "route_hist" :: n :: pool :: ops ->
      (* engine history: P<hex,hex,...> is the pool of contexts read at every observation;
         ops: S<x>:<hex> (an acknowledged STORE with payload key x), R (restart), O (observe); other tokens are
         layout steps the cluster model does not distinguish (FLUSH).  Per observation: the unscoped read and the
         read scoped to every pool context, as sorted payload keys. *)
      let pool = Stdlib.List.filter (fun x -> x <> "")
        (Stdlib.String.split_on_char ',' (Stdlib.String.sub pool 1 (Stdlib.String.length pool - 1))) in
      let nn = n_of_string n in
      if nn = BinNums.N0 then "PANIC" else begin
        let base = Z.of_string "1700000000000" in
        let k = ref 0 in
        let st = ref (Cluster.cluster_init nn) in
        let obs = ref [] in
        let keys evs = Stdlib.String.concat ","
          (Stdlib.List.map string_of_int (Stdlib.List.sort Stdlib.compare (Stdlib.List.map (fun e -> int_of_n e.Cluster.ev_payload) evs))) in
        Stdlib.List.iter (fun tok ->
          if tok = "R" then st := Cluster.apply_op !st Cluster.Restart
          else if tok = "O" then begin
            let all = keys (Cluster.read_all !st) in
            let per = Stdlib.List.map (fun h -> h ^ "=" ^ keys (Cluster.read_scoped !st (bytes_of_hex h))) pool in
            obs := ("all=" ^ all ^ ";" ^ Stdlib.String.concat ";" per) :: !obs
          end else if Stdlib.String.length tok > 1 && tok.[0] = 'S' then begin
            match Stdlib.String.index_opt tok ':' with
            | Some i ->
                let x = int_of_string (Stdlib.String.sub tok 1 (i - 1)) in
                let h = Stdlib.String.sub tok (i + 1) (Stdlib.String.length tok - i - 1) in
                incr k;
                st := Cluster.apply_op !st (Cluster.Store (bytes_of_hex h, n_of_int x, [n_of_zt (Z.add base (Z.of_int !k))]))
            | None -> ()
          end) ops;
        "H " ^ Stdlib.String.concat " | " (Stdlib.List.rev !obs)
      end
  | _ -> "UNKNOWN_PROBE"

let init () = Registry.register "route_" run
