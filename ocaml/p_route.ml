(* requires: SipHash Cluster EventId *)
open Conv

let route_s ctx n =
  match SipHash.route ctx (n_of_string n) with
  | Some r -> string_of_n r
  | None -> "PANIC"

let run (t : string list) : string =
  match t with
  | ["route_get"; n; h] ->
      (match SipHash.route (bytes_of_hex h) (n_of_string n) with
       | Some r -> "R " ^ string_of_n r
       | None -> "PANIC")
  | "route_many" :: h :: ns ->
      let ctx = bytes_of_hex h in
      if Stdlib.List.exists (fun n -> SipHash.route ctx (n_of_string n) = None) ns then "PANIC"
      else "R " ^ Stdlib.String.concat " " (Stdlib.List.map (route_s ctx) ns)
  | ["route_hash"; h] -> "H " ^ string_of_n (SipHash.default_hash_str (bytes_of_hex h))
  | "route_engine" :: n :: rest ->
      (* groups of comma-separated hex contexts separated by "/": STOREs, with a Restart between groups;
         every STORE sees its own advancing clock reading (ids are not compared, only placement and tag) *)
      let groups =
        let rec go cur acc = function
          | [] -> Stdlib.List.rev (Stdlib.List.rev cur :: acc)
          | "/" :: r -> go [] (Stdlib.List.rev cur :: acc) r
          | x :: r -> go (x :: cur) acc r in
        go [] [] rest in
      let ctxs_of g = Stdlib.List.concat_map (fun tok ->
        Stdlib.List.filter (fun x -> x <> "") (Stdlib.String.split_on_char ',' tok)) g in
      let base = Z.of_string "1700000000000" in
      let k = ref 0 in
      let ops = Stdlib.List.concat (Stdlib.List.mapi (fun gi g ->
        let stores = Stdlib.List.map (fun h ->
          incr k;
          Cluster.Store (bytes_of_hex h, n_of_int !k, [n_of_zt (Z.add base (Z.of_int !k))])) (ctxs_of g) in
        if gi = 0 then stores else Cluster.Restart :: stores) groups) in
      let st = Cluster.run_ops (n_of_string n) ops in
      let log = st.Cluster.cl_log in
      let ints b = Stdlib.List.map int_of_n b in
      let ctxs = Stdlib.List.sort_uniq Stdlib.compare
        (Stdlib.List.map (fun (_, e) -> ints e.Cluster.ev_ctx) log) in
      let uniq l = Stdlib.List.sort_uniq Stdlib.compare l in
      let item c =
        let mine = Stdlib.List.filter (fun (_, e) -> ints e.Cluster.ev_ctx = c) log in
        let dirs = uniq (Stdlib.List.map (fun (j, _) -> int_of_n j) mine) in
        let tags = uniq (Stdlib.List.map (fun (_, e) -> int_of_n (EventId.id_shard e.Cluster.ev_id)) mine) in
        let j l = Stdlib.String.concat "+" (Stdlib.List.map string_of_int l) in
        Printf.sprintf "%s=%s/%s/%d" (hex_of_bytes (Stdlib.List.map n_of_int c)) (j dirs) (j tags) (Stdlib.List.length mine) in
      if n_of_string n = BinNums.N0 then "PANIC"
      else "E " ^ (if ctxs = [] then "-" else Stdlib.String.concat " " (Stdlib.List.map item ctxs))
  | _ -> "UNKNOWN_PROBE"

let init () = Registry.register "route_" run
