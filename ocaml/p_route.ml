(* requires: SipHash *)
open Conv

let route_s ctx n =
  match SipHash.route ctx (n_of_string n) with
  | Some r -> string_of_n r
  | None -> "PANIC"

let run (t : string list) : string =
  match t with
  | ["route_get"; n; h] ->
      (match SipHash.route (bytes_of_hex h) (n_of_string n) with
       | Some r -> "R " ^ string_of_n r
       | None -> "PANIC")
  | "route_many" :: h :: ns ->
      let ctx = bytes_of_hex h in
      if Stdlib.List.exists (fun n -> SipHash.route ctx (n_of_string n) = None) ns then "PANIC"
      else "R " ^ Stdlib.String.concat " " (Stdlib.List.map (route_s ctx) ns)
  | ["route_hash"; h] -> "H " ^ string_of_n (SipHash.default_hash_str (bytes_of_hex h))
  | _ -> "UNKNOWN_PROBE"

let init () = Registry.register "route_" run
