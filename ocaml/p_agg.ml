(* requires: BucketTz Agg Bucket Order *)
open Conv

let parse_value = P_order.parse_value

let gran = function
  | "h" -> Some Bucket.GHour | "d" -> Some Bucket.GDay | "w" -> Some Bucket.GWeek
  | "m" -> Some Bucket.GMonth | "y" -> Some Bucket.GYear | _ -> None

let metric (m : string) : Agg.metric =
  let idx = if Stdlib.String.length m > 1 then int_of_string (Stdlib.String.sub m 1 (Stdlib.String.length m - 1)) else 0 in
  let k = match m.[0] with
    | 'c' -> Agg.MCountAll | 'f' -> Agg.MCountField | 'u' -> Agg.MCountUnique | 't' -> Agg.MTotal
    | 'a' -> Agg.MAvg | 'm' -> Agg.MMin | _ -> Agg.MMax in
  { Agg.m_kind = k; Agg.m_field = nat_of_int idx }

let rec take n l = if n <= 0 then [] else match l with [] -> [] | x :: r -> x :: take (n - 1) r
let rec drop n l = if n <= 0 then l else match l with [] -> [] | _ :: r -> drop (n - 1) r

let parse_flows (tok : string) (ng : int) : Agg.row list list list =
  Stdlib.List.map (fun f ->
    if f = "e" then [] else
    Stdlib.List.map (fun b ->
      Stdlib.List.map (fun r ->
        let vs = Stdlib.List.map parse_value (Stdlib.String.split_on_char ':' r) in
        match vs with
        | ts :: rest -> { Agg.r_ts = ts; Agg.r_groups = take ng rest; Agg.r_fields = drop ng rest }
        | [] -> failwith "BADROW") (Stdlib.String.split_on_char ',' b))
      (Stdlib.String.split_on_char ';' f))
    (Stdlib.String.split_on_char '/' tok)

let str_of_bytes (b : BinNums.coq_N list) : string =
  Stdlib.String.init (Stdlib.List.length b) (let a = Stdlib.Array.of_list b in fun i -> Char.chr (int_of_n a.(i)))

let optz = function Some z -> string_of_z z | None -> "-"

let state_str (a : Agg.agg) : string =
  match a with
  | Agg.ACount n -> "c" ^ string_of_z n
  | Agg.AUnique s -> Printf.sprintf "u%d[%s]" (Stdlib.List.length s) (Stdlib.String.concat "+" (Stdlib.List.map hex_of_bytes s))
  | Agg.ASum s -> "s" ^ string_of_z s
  | Agg.AAvg (s, c) -> "a" ^ string_of_z s ^ "/" ^ string_of_z c
  | Agg.AMin (n, s) | Agg.AMax (n, s) ->
      "m" ^ optz n ^ ":" ^ (match s with Some x -> "s" ^ hex_of_bytes x | None -> "-")

let final_str (a : Agg.agg) : string =
  match a with
  | Agg.AUnique _ -> state_str a
  | _ -> (match Agg.finalize a with
          | Agg.FInt z -> "i" ^ string_of_z z
          | Agg.FStr s -> "s" ^ hex_of_bytes s
          | Agg.FAvg (s, c) -> "a" ^ string_of_z s ^ "/" ^ string_of_z c)

let run_pipeline (t : string list) (raw : bool) : string =
  match t with
  | [_; ms; g; ng; nf; flows] ->
      let ngi = int_of_string ng and nfi = int_of_string nf in
      let p = { Agg.p_metrics = Stdlib.List.map metric (Stdlib.String.split_on_char ',' ms);
                Agg.p_gran = gran g; Agg.p_by = ngi > 0; Agg.p_calendar = true; Agg.p_week_start = z_of_string "0" } in
      let fl = parse_flows flows ngi in
      let alts = Agg.merged_groups_alts p (nat_of_int ngi) (nat_of_int nfi) fl in
      let render merged =
        let out = Stdlib.List.map (fun ((b, gs), st) ->
            ((match b with Some z -> Some (zt_of_z z) | None -> None),
             Stdlib.List.map str_of_bytes gs,
             Stdlib.String.concat "," (Stdlib.List.map (if raw then state_str else final_str) st))) merged in
        let out = Stdlib.List.sort compare out in
        let parts = Stdlib.List.map (fun (b, gs, ms) ->
            Printf.sprintf "%s;%s;%s" (match b with Some z -> Z.to_string z | None -> "-")
              (Stdlib.String.concat "." (Stdlib.List.map (fun g -> if g = "" then "-" else
                 Stdlib.String.concat "" (Stdlib.List.map (fun c -> Printf.sprintf "%02x" (Char.code c)) (Stdlib.List.of_seq (Stdlib.String.to_seq g)))) gs)) ms) out in
        Printf.sprintf "G%d %s" (Stdlib.List.length parts) (Stdlib.String.concat " " parts) in
      (* one line per possible outcome (the sink may lose one of two ungrouped partials) *)
      Stdlib.String.concat " ## " (Stdlib.List.sort_uniq compare (Stdlib.List.map render alts))
  | _ -> "BADCASE"

let run (t : string list) : string =
  match t with
  | "agg_run" :: _ -> run_pipeline t false
  | "agg_raw" :: _ -> run_pipeline t true
  | ["agg_bucket"; g; ws; ts] ->
      (match gran g with
       | None -> "BADGRAN"
       | Some gr ->
           (match Bucket.calendar_bucket_of_opt (z_of_string ws) (z_of_string ts) gr with
            | None -> "PANIC"
            | Some c ->
                Printf.sprintf "C %s U %s N %s" (string_of_z c) (string_of_z c) (string_of_z (Bucket.naive_bucket_of (z_of_string ts) gr))))
  | ["agg_buckettz"; g; ws; ts; _tz; off] ->
      (match gran g with
       | None -> "BADGRAN"
       | Some gr -> "B " ^ string_of_z (BucketTz.calendar_bucket_secs_off (z_of_string ws) (z_of_string off) (z_of_string ts) gr))
  | _ -> "UNKNOWN_PROBE"

let init () = Registry.register "agg_" run
