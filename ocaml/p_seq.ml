(* requires: Sequence *)
(* C15 probe: drives the extracted model Model/Sequence.v with the same case lines as
   harness/src/probes/seq.rs (seq_match) and with the engine-level cases of tools/props/c15.py
   (seq_eng).  Parsing and printing only. *)
open Conv
module S = Sequence

let split c s = Stdlib.String.split_on_char c s
let cat sep l = Stdlib.String.concat sep l
let lmap = Stdlib.List.map

let fields_in tok = if tok = "-" then [] else lmap bytes_of_hex (split ',' tok)

(* zones of one type -> events in position order *)
let events_in (tok : string) (fields : Bytes.bytes list) : S.event list =
  if tok = "-" then [] else begin
    let pos = ref 0 in
    Stdlib.List.concat_map (fun z ->
        match Stdlib.String.index_opt z ':' with
        | None -> failwith "zone"
        | Some i ->
            let flags = Stdlib.String.sub z 0 i in
            let rows = Stdlib.String.sub z (i + 1) (Stdlib.String.length z - i - 1) in
            let has c = Stdlib.String.contains flags c in
            if rows = "" then [] else
              lmap (fun r ->
                  let cells = Stdlib.Array.of_list (split ',' r) in
                  let p = !pos in
                  incr pos;
                  { S.e_pos = n_of_int p;
                    e_link = (if has 'L' then Some (S.link_key_of_text (if cells.(0) = "~" then S.null_text else bytes_of_hex cells.(0))) else None);
                    e_time = (if has 'T' && cells.(1) <> "n" then Some (z_of_string cells.(1)) else None);
                    e_fields = Stdlib.List.mapi (fun fi f -> (f, S.parse_i64 (bytes_of_hex cells.(2 + fi)))) fields
                               (* the link and time columns can be named in WHERE as well *)
                               @ (if has 'L' then [([n_of_int 107], S.parse_i64 (if cells.(0) = "~" then S.null_text else bytes_of_hex cells.(0)))] else [])
                               @ (if has 'T' && cells.(1) <> "n" then [([n_of_int 116], Some (z_of_string cells.(1)))] else []) })
                (split ';' rows))
      (split '/' tok)
  end

let op_in = function
  | "eq" -> S.OpEq | "ne" -> S.OpNeq | "gt" -> S.OpGt | "ge" -> S.OpGte | "lt" -> S.OpLt | _ -> S.OpLte

let where_in (tok : string) : S.expr option =
  if tok = "-" then None else begin
    let st = ref [] in
    let pop () = match !st with x :: r -> st := r; x | [] -> failwith "where" in
    Stdlib.List.iter (fun t ->
        match t with
        | "&" -> let r = pop () in let l = pop () in st := S.EAnd (l, r) :: !st
        | "|" -> let r = pop () in let l = pop () in st := S.EOr (l, r) :: !st
        | "!" -> let x = pop () in st := S.ENot x :: !st
        | leaf ->
            (match split ':' leaf with
             | [_; p; f; op; c] ->
                 st := S.ECmp ((if p = "-" then None else Some (bytes_of_hex p)), bytes_of_hex f, op_in op, z_of_string c) :: !st
             | _ -> failwith "leaf"))
      (split '~' tok);
    Some (pop ())
  end

let pair_out ((a, b) : S.event * S.event) = string_of_n a.S.e_pos ^ "-" ^ string_of_n b.S.e_pos

let groups_out limit (gs : (BinNums.coq_N * (S.event * S.event) list) list) : string =
  let gs = Stdlib.List.filter (fun (_, ps) -> ps <> []) gs in
  "L" ^ limit ^ ";" ^ cat "|" (lmap (fun (e, ps) -> string_of_n e ^ ":" ^ cat "," (lmap pair_out ps)) gs)

let link_in s = if s = "FB" then S.FollowedBy else S.PrecededBy

(* link texts of the rows that have a link column *)
let link_texts (tok : string) : Bytes.bytes list =
  if tok = "-" then [] else
    Stdlib.List.concat_map (fun z ->
        match Stdlib.String.index_opt z ':' with
        | None -> []
        | Some i ->
            let flags = Stdlib.String.sub z 0 i in
            let rows = Stdlib.String.sub z (i + 1) (Stdlib.String.length z - i - 1) in
            if rows = "" || not (Stdlib.String.contains flags 'L') then []
            else lmap (fun r -> let c = Stdlib.List.hd (split ',' r) in if c = "~" then S.null_text else bytes_of_hex c) (split ';' rows))
      (split '/' tok)

(* the KnownClass predicates of the Coq development evaluated on the case (for tools/props/c15.py
   classify; not part of the comparison with the implementation) *)
let flags_out lk wh ta tb da db absent (la : S.event list) (lb : S.event list) (texts : Bytes.bytes list) : string =
  let fl = ref [] in
  (match wh with Some e when S.has_unprefixed_one_sided da db e -> fl := "UnprefixedFieldAppliedToBothTypes" :: !fl | _ -> ());
  if absent then fl := "AbsentLinkGroupedAsNull" :: !fl;
  ignore lk;
  if not (S.conjunctive_where da db wh ta tb) then fl := "CrossTypeOrNot" :: !fl;
  if Stdlib.List.exists (fun e -> not (S.time_ok e)) (la @ lb) then fl := "TimeNotU64Ordered" :: !fl;
  if Stdlib.List.exists (fun s -> Stdlib.List.exists (fun s' -> S.link_alias s s') texts) texts then fl := "LinkTextAliasesInteger" :: !fl;
  " #F:" ^ cat "," !fl

let run (t : string list) : string =
  match t with
  | "seq_match" :: lk :: limit :: wh :: ta :: tb :: fa :: fb :: za :: zb :: rest
  | "seq_eng" :: lk :: limit :: wh :: ta :: tb :: fa :: fb :: za :: zb :: rest ->
      let eng = Stdlib.List.hd t = "seq_eng" in
      ignore rest;
      let fa = fields_in fa and fb = fields_in fb in
      let wh = where_in wh in
      let ta = bytes_of_hex ta and tb = bytes_of_hex tb in
      let k = [n_of_int 107] and tt = [n_of_int 116] and u = [n_of_int 117] in
      let sa = events_in za fa and sb = events_in zb fb in
      (* engine level: the sub-queries deliver the rows that pass the per-type WHERE; when the case carries the rows they
         actually delivered (D<a positions>:<b positions>) the matcher is run on those and a difference is flagged *)
      let delivered =
        match Stdlib.List.filter (fun x -> x <> "" && x.[0] = 'D') rest with
        | d :: _ ->
            (match split ':' (Stdlib.String.sub d 1 (Stdlib.String.length d - 1)) with
             | [a; b] ->
                 let pl x = if x = "-" || x = "" then [] else lmap n_of_string (split ',' x) in
                 Some (pl a, pl b)
             | _ -> None)
        | [] -> None in
      let fa_ = S.sub_query wh ta sa and fb_ = S.sub_query wh tb sb in
      let pick ps l = Stdlib.List.filter (fun e -> Stdlib.List.mem e.S.e_pos ps) l in
      let la, lb, inexact, notloss =
        if not eng then sa, sb, false, false
        else match delivered with
          | None -> fa_, fb_, false, false
          | Some (pa, pb) ->
              let la = pick pa sa and lb = pick pb sb in
              let pos l = lmap (fun e -> e.S.e_pos) l in
              let same_a = pos la = pos fa_ && Stdlib.List.length la = Stdlib.List.length pa
              and same_b = pos lb = pos fb_ && Stdlib.List.length lb = Stdlib.List.length pb in
              (* every difference must be the NOT-complement loss for the narrow class to apply *)
              la, lb, not (same_a && same_b),
              ((same_a || S.not_complement_loss wh ta sa pa) && (same_b || S.not_complement_loss wh tb sb pb)
               && not (same_a && same_b)) in
      let extra = if eng then [u] else [] in
      let da = k :: tt :: fa @ extra and db = k :: tt :: fb @ extra in
      let contains_absent z = Stdlib.List.exists (fun zz -> Stdlib.List.exists (fun r -> Stdlib.String.length r > 0 && r.[0] = '~')
                                                     (split ';' (match split ':' zz with [_; rows] -> rows | _ -> ""))) (split '/' z) in
      let absent = contains_absent za || contains_absent zb in
      let fl = flags_out (link_in lk) wh ta tb da db absent la lb (link_texts za @ link_texts zb) ^ (if inexact then ",SubQueryInexact" else "") ^ (if notloss then ",SubQueryNotComplement" else "") in
      if S.where_ambiguous wh da db then "AMBIGUOUS" ^ fl
      else groups_out limit (S.matcher_groups (link_in lk) wh ta tb la lb) ^ fl
  | _ -> "UNKNOWN_PROBE"

let init () = Registry.register "seq_" run
