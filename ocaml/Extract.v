(* Extraction of the executable models. ExtrOcamlBasic only: bool, option,
   list, prod, unit, sumbool map to OCaml's; N, Z, positive, nat stay the
   extracted inductives.  No Extract Constant / Extract Inductive of our own. *)
Require Extraction.
Require Import ExtrOcamlBasic.
From Snel Require Import Base.Bytes Base.Civil Gen.Params Model.Time.
Extraction Language OCaml.
Set Extraction KeepSingleton.
Separate Extraction
  Snel.Base.Bytes Snel.Base.Civil Snel.Model.Time.
