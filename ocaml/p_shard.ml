(* requires: Shard *)
(* shard_run <cap> <op>…  — replays labels on Model/Shard.v and prints one observation per 'O' op,
   joined by " | ".  Ops: S<k>.<ctx>.<uid>  F  W  fb fw<uid> fi fp fc fx fd  K  T  O *)
open Conv
open Shard

let ks evs = Stdlib.String.concat "," (Stdlib.List.map (fun e -> string_of_n e.ek) evs)
let ns l = Stdlib.String.concat "," (Stdlib.List.map string_of_n l)
let sort_strs l = Stdlib.List.sort compare l

let observe (s : shard) (nuids : int) (nctx : int) : string =
  let b = Buffer.create 256 in
  for u = 0 to nuids - 1 do
    let un = n_of_int u in
    let sel = Stdlib.List.sort compare (Stdlib.List.map (fun e -> Z.to_int (zt_of_n e.ek)) (select s un)) in
    Buffer.add_string b (Printf.sprintf "fragile%d=%b;" u (fragile s un));
    Buffer.add_string b (Printf.sprintf "selm%d=%s;" u (Stdlib.String.concat "," (Stdlib.List.map string_of_int
      (Stdlib.List.sort compare (Stdlib.List.map (fun e -> Z.to_int (zt_of_n e.ek)) (select_mem_only s un))))));
    Buffer.add_string b (Printf.sprintf "sel%d=%s;cnt%d=%s;" u
      (Stdlib.String.concat "," (Stdlib.List.map string_of_int sel)) u (string_of_n (count s un)))
  done;
  for u = 0 to nuids - 1 do
    for c = 0 to nctx - 1 do
      let cn = n_of_int c and un = n_of_int u in
      Buffer.add_string b (Printf.sprintf "rm%d_%d=%s;rs%d_%d=%s;" u c (ks (replay_mem s un cn)) u c (ks (replay_seg s un cn)))
    done
  done;
  Buffer.add_string b (Printf.sprintf "dirs=%s;" (ns (Stdlib.List.map (fun d -> d.sid) s.dirs)));
  Buffer.add_string b (Printf.sprintf "wal=%s;" (Stdlib.String.concat ","
     (Stdlib.List.map (fun (i, es) -> string_of_n i ^ ":" ^ string_of_int (Stdlib.List.length es)) s.walfiles)));
  Buffer.add_string b (Printf.sprintf "live=%s;inf=%s;alloc0=%s;wcur=%s;wcnt=%s;unl=%b;jobs=%d;wlost=%s" (ns s.live) (ns s.inflight)
     (string_of_n s.alloc0) (string_of_n s.wcur) (string_of_n s.wcnt) s.wunlinked (Stdlib.List.length s.jobs) (ks s.wlost));
  Buffer.contents b

let run (t : string list) : string =
  match t with
  | "shard_run" :: cap :: nuids :: nctx :: ops ->
      let s = ref (init (n_of_string cap)) in
      let outs = ref [] in
      Stdlib.List.iter (fun op ->
        let l = Stdlib.String.length op in
        if op = "O" then outs := observe !s (int_of_string nuids) (int_of_string nctx) :: !outs
        else if l > 2 && op.[0] = 'w' && op.[1] = 'd' then
          s := step !s (LFw (FwWalDel (n_of_string (Stdlib.String.sub op 2 (l - 2)))))
        else if l > 2 && op.[0] = 'f' && op.[1] = 'w' then
          s := step !s (LFw (FwWrite (n_of_string (Stdlib.String.sub op 2 (l - 2)))))
        else if op.[0] = 'S' then begin
          match Stdlib.String.split_on_char '.' (Stdlib.String.sub op 1 (l - 1)) with
          | [k; c; u] -> s := step !s (LStore { ek = n_of_string k; ectx = n_of_string c; euid = n_of_string u })
          | _ -> failwith "bad S"
        end else
          let lab = match op with
            | "F" -> LFlushCmd | "W" -> LWalWrite | "Wr" -> LWalRotate | "K" -> LCrash | "T" -> LRestart
            | "fb" -> LFw FwBegin | "fm" -> LFw FwMkdir | "fi" -> LFw FwIndex | "fp" -> LFw FwPublish
            | "fc" -> LFw FwClear | "fx" -> LFw FwWalClean | "fd" -> LFw FwDone
            | _ -> failwith ("bad op " ^ op) in
          s := step !s lab) ops;
      Stdlib.String.concat " | " (Stdlib.List.rev !outs)
  | _ -> "UNKNOWN_PROBE"

let init () = Registry.register "shard_" run
