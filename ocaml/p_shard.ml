(* requires: Shard Compaction *)
(* shard_run <cap> <op>…  — replays labels on Model/Shard.v and prints one observation per 'O' op,
   joined by " | ".  Ops: S<k>.<ctx>.<uid>  F  W  fb fw<uid> fi fp fc fx fd  K  T  O *)
open Conv
open Shard
open Compaction

let ks evs = Stdlib.String.concat "," (Stdlib.List.map (fun e -> string_of_n e.ek) evs)
let ns l = Stdlib.String.concat "," (Stdlib.List.map string_of_n l)
let sort_strs l = Stdlib.List.sort compare l

let observe (s : shard) (nuids : int) (nctx : int) : string =
  let b = Buffer.create 256 in
  for u = 0 to nuids - 1 do
    let un = n_of_int u in
    let sel = Stdlib.List.sort compare (Stdlib.List.map (fun e -> Z.to_int (zt_of_n e.ek)) (select s un)) in
    Buffer.add_string b (Printf.sprintf "fragile%d=%b;" u (fragile s un));
    Buffer.add_string b (Printf.sprintf "selm%d=%s;" u (Stdlib.String.concat "," (Stdlib.List.map string_of_int
      (Stdlib.List.sort compare (Stdlib.List.map (fun e -> Z.to_int (zt_of_n e.ek)) (select_mem_only s un))))));
    Buffer.add_string b (Printf.sprintf "sel%d=%s;cnt%d=%s;" u
      (Stdlib.String.concat "," (Stdlib.List.map string_of_int sel)) u (string_of_n (count s un)))
  done;
  for u = 0 to nuids - 1 do
    for c = 0 to nctx - 1 do
      let cn = n_of_int c and un = n_of_int u in
      Buffer.add_string b (Printf.sprintf "rm%d_%d=%s;rs%d_%d=%s;" u c (ks (replay_mem s un cn)) u c (ks (replay_seg s un cn)))
    done
  done;
  Buffer.add_string b (Printf.sprintf "dirs=%s;" (ns (Stdlib.List.map (fun d -> d.sid) s.dirs)));
  Buffer.add_string b (Printf.sprintf "wal=%s;" (Stdlib.String.concat ","
     (Stdlib.List.map (fun (i, es) -> string_of_n i ^ ":" ^ string_of_int (Stdlib.List.length es)) s.walfiles)));
  Buffer.add_string b (Printf.sprintf "live=%s;inf=%s;alloc0=%s;wcur=%s;wcnt=%s;unl=%b;jobs=%d;wlost=%s" (ns s.live) (ns s.inflight)
     (string_of_n s.alloc0) (string_of_n s.wcur) (string_of_n s.wcnt) s.wunlinked (Stdlib.List.length s.jobs) (ks s.wlost));
  Buffer.contents b

let run (t : string list) : string =
  match t with
  | "shard_run" :: cap :: nuids :: nctx :: ops ->
      let s = ref (init (n_of_string cap)) in
      let outs = ref [] in
      let kfan = ref (n_of_int 2) in
      let cur_batch = ref None in
      let cur_dr = ref [] in
      let all_dr = ref [] in
      let boks = ref [] in
      let round_ix = ref [] in
      let labels = ref [] in      (* Compaction: index labels at every round start of this process lifetime *)
      let routs = ref [] in       (* output ids taken in the current planning round *)
      let walorder = ref [] in
      let allow_full = ref false in  (* a crash between a filling write and its rotation leaves a full file that the restarted writer resumes *)    (* conformance to the hypotheses of the C01 lockstep theorems *)
      let used = ref [] in        (* segment labels that existed earlier in this process lifetime *)
      let stale = ref [] in       (* labels re-created in the same lifetime: label-keyed caches may be stale *)
      let note_dirs () = Stdlib.List.iter (fun d -> if not (Stdlib.List.mem d.sid !used) then used := d.sid :: !used) !s.dirs in
      let nlist str = if str = "" then [] else Stdlib.List.map n_of_string (Stdlib.String.split_on_char '+' str) in
      Stdlib.List.iter (fun op ->
        let l = Stdlib.String.length op in
        if op = "O" then begin
          let stale_rows = Stdlib.List.concat (Stdlib.List.map (fun d -> if Stdlib.List.mem d.sid !stale then d.srows else []) !s.dirs) in
          let incomplete = Stdlib.List.filter (fun d -> d.srows = [] && Stdlib.List.mem d.sid !s.live) !s.dirs in
          outs := (observe !s (int_of_string nuids) (int_of_string nctx) ^ ";walorder=" ^ Stdlib.String.concat "," !walorder ^ ";incomplete=" ^ ns (Stdlib.List.map (fun d -> d.sid) incomplete) ^ ";stalerows=" ^ ks stale_rows ^ ";bok=" ^ Stdlib.String.concat "," (Stdlib.List.rev !boks)
                   ^ ";index=" ^ Stdlib.String.concat "," (Stdlib.List.map (fun (i, us) -> string_of_n i ^ ":" ^ Stdlib.String.concat "+" (Stdlib.List.map string_of_n us)) !s.index)) :: !outs;
          boks := []
        end
        else if l > 1 && op.[0] = 'k' then kfan := n_of_string (Stdlib.String.sub op 1 (l - 1))
        else if l > 2 && op.[0] = 'c' && op.[1] = 'w' then begin
          match Stdlib.String.split_on_char ':' (Stdlib.String.sub op 2 (l - 2)) with
          | [o; ins; us] ->
              let b = { b_out = n_of_string o; b_inputs = nlist ins; b_uids = nlist us } in
              boks := (if batch_ok_fresh (!routs @ !labels) !round_ix !kfan b then "1" else "0") :: !boks;
              routs := seen_batch !routs b;
              cur_batch := Some b;
              note_dirs ();
              if Stdlib.List.mem b.b_out !used && not (Stdlib.List.exists (fun d -> d.sid = b.b_out) !s.dirs)
              then stale := b.b_out :: !stale;
              s := cstep !s (CWrite b)
          | _ -> failwith "bad cw"
        end
        else if op = "cs" then begin round_ix := !s.index; labels := seen_round_start !labels !s.index; routs := [] end
        else if op = "ci" then begin
          match !cur_batch with
          | Some b -> cur_dr := drained !s.index b; s := cstep !s (CIndex b)
          | None -> failwith "ci without batch"
        end
        else if op = "cl" then begin
          match !cur_batch with
          | Some b -> s := cstep !s (CLive (b, !cur_dr)); all_dr := !all_dr @ !cur_dr
          | None -> failwith "cl without batch"
        end
        else if op = "cr" then begin s := cstep !s (CReclaim !all_dr); all_dr := [] end
        else if l > 2 && op.[0] = 'w' && op.[1] = 'd' then
          s := step !s (LFw (FwWalDel (n_of_string (Stdlib.String.sub op 2 (l - 2)))))
        else if l > 2 && op.[0] = 'f' && op.[1] = 'w' then
          s := step !s (LFw (FwWrite (n_of_string (Stdlib.String.sub op 2 (l - 2)))))
        else if op.[0] = 'S' then begin
          match Stdlib.String.split_on_char '.' (Stdlib.String.sub op 1 (l - 1)) with
          | [k; c; u] -> s := step !s (LStore { ek = n_of_string k; ectx = n_of_string c; euid = n_of_string u })
          | _ -> failwith "bad S"
        end else
          let () = if op = "K" || op = "T" then begin labels := []; routs := [] end in   (* a crash / restart ends the lifetime *)
          let () = if op = "T" then begin used := []; stale := [] end else note_dirs () in
          (* the WAL thread rotates right after the write that fills a file: a write while
             entries_written >= cap, or a rotation while entries_written < cap, contradicts the model *)
          let () = if op = "W" && !s.walq <> [] && BinNat.N.leb !s.cap !s.wcnt && not !allow_full then walorder := "write-when-full" :: !walorder in
          let () = if op = "Wr" then allow_full := false in
          let () = if op = "Wr" && not (BinNat.N.leb !s.cap !s.wcnt) then walorder := "rotate-when-not-full" :: !walorder in
          let lab = match op with
            | "F" -> LFlushCmd | "W" -> LWalWrite | "Wr" -> LWalRotate | "K" -> LCrash | "T" -> LRestart
            | "fb" -> LFw FwBegin | "fm" -> LFw FwMkdir | "fi" -> LFw FwIndex | "fp" -> LFw FwPublish
            | "fc" -> LFw FwClear | "fx" -> LFw FwWalClean | "fd" -> LFw FwDone
            | _ -> failwith ("bad op " ^ op) in
          s := step !s lab;
          if op = "T" then allow_full := BinNat.N.leb !s.cap !s.wcnt) ops;
      Stdlib.String.concat " | " (Stdlib.List.rev !outs)
  | _ -> "UNKNOWN_PROBE"

let init () = Registry.register "shard_" run
