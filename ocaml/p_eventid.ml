(* requires: EventId *)
open Conv

(* Clock readings: "<ms>", "<ms>x<count>" (repeated) or "<ms>+<count>" (ms, ms+1, ...); "-" = none.
   Parsing/printing only. *)
let readings (toks : string list) : BinNums.coq_N list =
  Stdlib.List.concat_map (fun t ->
    if t = "-" then [] else
    let part i = (Stdlib.String.sub t 0 i, Stdlib.String.sub t (i + 1) (Stdlib.String.length t - i - 1)) in
    match Stdlib.String.index_opt t 'x', Stdlib.String.index_opt t '+' with
    | Some i, _ ->
        let (v, c) = part i in
        let v = n_of_string v in
        Stdlib.List.init (int_of_string c) (fun _ -> v)
    | None, Some i ->
        let (v, c) = part i in
        let v = Z.of_string v in
        Stdlib.List.init (int_of_string c) (fun j -> n_of_zt (Z.add v (Z.of_int j)))
    | None, None -> [n_of_string t]) toks

let join (ids : BinNums.coq_N list) : string =
  if ids = [] then "-" else Stdlib.String.concat "," (Stdlib.List.map string_of_n ids)

(* split a token list at "/" *)
let split_slash (toks : string list) : string list list =
  let rec go cur acc = function
    | [] -> Stdlib.List.rev (Stdlib.List.rev cur :: acc)
    | "/" :: r -> go [] (Stdlib.List.rev cur :: acc) r
    | x :: r -> go (x :: cur) acc r in
  go [] [] toks

let run (t : string list) : string =
  match t with
  | "eid_run" :: shard :: rest ->
      let sh = n_of_string shard in
      let lives = split_slash rest in
      let outs = Stdlib.List.map (fun life ->
        match life with
        | k :: rs -> join (EventId.issued (nat_of_int (int_of_string k)) EventId.gen0 sh (readings rs))
        | [] -> "-") lives in
      "I " ^ Stdlib.String.concat " / " outs
  | "eid_wal" :: shard :: rest ->
      let sh = n_of_string shard in
      (match split_slash rest with
       | [stored; k :: rs] ->
           let st = Stdlib.List.concat_map (fun s ->
             if s = "-" then [] else if s = "d" then [n_of_int 0] else [n_of_string s]) stored in
           let ((recd, newi), _) = EventId.lifetime sh st (nat_of_int (int_of_string k)) (readings rs) in
           "R " ^ join recd ^ " N " ^ join newi
       | _ -> "BADCASE")
  | "eid_life2" :: shard :: rest ->
      let sh = n_of_string shard in
      (match split_slash rest with
       | [k1 :: rs1; k2 :: rs2] ->
           let ((_, ids1), _) = EventId.lifetime sh [] (nat_of_int (int_of_string k1)) (readings rs1) in
           let ((recd, newi), _) = EventId.lifetime sh ids1 (nat_of_int (int_of_string k2)) (readings rs2) in
           "A " ^ join ids1 ^ " R " ^ join recd ^ " N " ^ join newi
       | _ -> "BADCASE")
  | "eid_engine" :: _flush :: rest ->
      (* one shard (id 0); rows = (x, id) in apply order, de-duplicated by id. A FLUSH before the restart
         moves the first lifetime's rows from WAL/memtable to a segment; the set of rows reaching the
         response writer is the same. *)
      (match split_slash rest with
       | [k1 :: rs1; k2 :: rs2] ->
           let k1 = nat_of_int (int_of_string k1) and k2 = nat_of_int (int_of_string k2) in
           let sh = n_of_int 0 in
           let hist = EventId.restart_history sh k1 (readings rs1) k2 (readings rs2) in
           let vis = EventId.visible_after_restart sh k1 (readings rs1) k2 (readings rs2) in
           let zs l = Stdlib.List.map zt_of_n l in
           let ids = Stdlib.List.sort Z.compare (zs (Stdlib.List.map snd vis)) in
           let rec incr = function a :: (b :: _ as r) -> Z.lt a b && incr r | _ -> true in
           let complete = Stdlib.List.length vis = Stdlib.List.length hist in
           Printf.sprintf "Q stored=%d returned=%d ids=%s order=%s" (Stdlib.List.length hist) (Stdlib.List.length vis)
             (if ids = [] then "-" else Stdlib.String.concat "," (Stdlib.List.map Z.to_string ids))
             (if not complete then "?" else if incr (zs hist) then "increasing" else "not_increasing")
       | _ -> "BADCASE")
  | "eid_synth" :: rest ->
      let zones = split_slash rest in
      let outs = Stdlib.List.map (fun z ->
        match z with
        | seg :: zone :: mode :: ids ->
            let segn = n_of_string seg and zn = n_of_string zone in
            let ids = Stdlib.List.filter (fun x -> x <> "-") ids in
            join (Stdlib.List.mapi (fun i s ->
              EventId.row_id segn zn (n_of_int i) (mode <> "c") (n_of_string s)) ids)
        | _ -> "BADCASE") zones in
      "S " ^ Stdlib.String.concat " / " outs
  | ["eid_raw"; v] ->
      let n = n_of_string v in
      "E " ^ string_of_n n ^ " " ^ (if n = BinNums.N0 then "1" else "0")
  | _ -> "UNKNOWN_PROBE"

let init () = Registry.register "eid_" run
