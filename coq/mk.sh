#!/bin/sh
# (re)generate the Makefile from _CoqProject + the list of .v files, then run make with the args given
cd "$(dirname "$0")"
{ cat _CoqProject; find theories -name '*.v' | sort; } > .CoqProject.full
if [ ! -f Makefile ] || ! cmp -s .CoqProject.full .CoqProject.last; then
  coq_makefile -f .CoqProject.full -o Makefile >/dev/null && cp .CoqProject.full .CoqProject.last
fi
exec make "$@"
