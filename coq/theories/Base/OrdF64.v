(** IEEE-754 binary64 values as their 64-bit patterns ([N] below 2^64):
    correctly rounded conversion of a positive rational to the nearest double
    (ties to even), [i64 as f64], and [f64::partial_cmp].  Executable
    definitions only (used by Model/Order.v and Model/Agg.v). *)
From Coq Require Import ZArith NArith Bool.
Open Scope Z_scope.

Definition f64_sign_bit : N := 9223372036854775808%N.        (* 2^63 *)
Definition f64_inf_bits : N := 9218868437227405312%N.        (* 0x7FF0_0000_0000_0000 *)
Definition f64_qnan_bits : N := 9221120237041090560%N.       (* 0x7FF8_0000_0000_0000 = f64::NAN *)
Definition two52 : Z := 4503599627370496.

(** [a / b] rounded to the nearest integer, ties to even ([b > 0], [a >= 0]). *)
Definition round_div_even (a b : Z) : Z :=
  let q := a / b in
  let r := a mod b in
  match Z.compare (2 * r) b with
  | Lt => q
  | Gt => q + 1
  | Eq => if Z.even q then q else q + 1
  end.

(** magnitude bits of the double nearest to [num / den] ([num > 0], [den > 0]) *)
Definition f64_mag (num den : Z) : N :=
  let e0 := Z.log2 num - Z.log2 den in
  let ge := if 0 <=? e0 then den * 2 ^ e0 <=? num else den <=? num * 2 ^ (- e0) in
  let e := if ge then e0 else e0 - 1 in
  if e <? -1022 then Z.to_N (round_div_even (num * 2 ^ 1074) den)
  else
    let q := if 0 <=? e - 52 then round_div_even num (den * 2 ^ (e - 52))
             else round_div_even (num * 2 ^ (52 - e)) den in
    let bits := Z.to_N ((e + 1022) * two52 + q) in
    if (f64_inf_bits <=? bits)%N then f64_inf_bits else bits.

Definition f64_of_ratio (neg : bool) (num den : Z) : N :=
  let m := if num =? 0 then 0%N else f64_mag num den in
  if neg then (f64_sign_bit + m)%N else m.

(** Rust [z as f64] for an integer (round to nearest, ties to even) *)
Definition f64_of_Z (z : Z) : N := f64_of_ratio (z <? 0) (Z.abs z) 1.

Definition f64_is_nan (b : N) : bool :=
  let m := (b mod f64_sign_bit)%N in (f64_inf_bits <? m)%N.

(** order key of a non-NaN pattern: sign-magnitude, [+0] and [-0] coincide *)
Definition f64_key (b : N) : Z :=
  let m := Z.of_N (b mod f64_sign_bit)%N in
  if (b <? f64_sign_bit)%N then m else - m.

(** [f64::partial_cmp] *)
Definition f64_partial_cmp (a b : N) : option comparison :=
  if f64_is_nan a || f64_is_nan b then None
  else Some (Z.compare (f64_key a) (f64_key b)).

(** [f as i64] (saturating, NaN -> 0, truncation toward zero) *)
Definition f64_to_i64 (b : N) : Z :=
  if f64_is_nan b then 0 else
  let m := (b mod f64_sign_bit)%N in
  let ex := Z.of_N (m / 4503599627370496)%N in
  let fr := Z.of_N (m mod 4503599627370496)%N in
  let mag :=
    if ex =? 0 then 0
    else let sig := two52 + fr in
         let sh := ex - 1075 in
         if 0 <=? sh then (if 11 <? sh then 2 ^ 63 else sig * 2 ^ sh)
         else sig / 2 ^ (- sh) in
  let v := if (b <? f64_sign_bit)%N then mag else - mag in
  Z.max (- 2 ^ 63) (Z.min (2 ^ 63 - 1) v).
