(** Proleptic Gregorian calendar arithmetic (days since 1970-01-01), after
    H. Hinnant's algorithms.  Executable definitions; proofs are in
    Proofs/CivilProofs.v. *)
From Coq Require Import ZArith Bool.
Open Scope Z_scope.

Definition is_leap (y : Z) : bool :=
  ((y mod 4 =? 0) && negb (y mod 100 =? 0)) || (y mod 400 =? 0).

Definition days_in_month (y m : Z) : Z :=
  if m =? 2 then (if is_leap y then 29 else 28)
  else if (m =? 4) || (m =? 6) || (m =? 9) || (m =? 11) then 30
  else 31.

Definition valid_ymd (y m d : Z) : bool :=
  (1 <=? m) && (m <=? 12) && (1 <=? d) && (d <=? days_in_month y m).

Definition days_from_civil (y m d : Z) : Z :=
  let y' := if m <=? 2 then y - 1 else y in
  let era := y' / 400 in
  let yoe := y' - era * 400 in
  let mp := if 2 <? m then m - 3 else m + 9 in
  let doy := (153 * mp + 2) / 5 + d - 1 in
  let doe := yoe * 365 + yoe / 4 - yoe / 100 + doy in
  era * 146097 + doe - 719468.

Definition civil_from_days (z0 : Z) : Z * Z * Z :=
  let z := z0 + 719468 in
  let era := z / 146097 in
  let doe := z - era * 146097 in
  let yoe := (doe - doe / 1460 + doe / 36524 - doe / 146096) / 365 in
  let y := yoe + era * 400 in
  let doy := doe - (365 * yoe + yoe / 4 - yoe / 100) in
  let mp := (5 * doy + 2) / 153 in
  let d := doy - (153 * mp + 2) / 5 + 1 in
  let m := if mp <? 10 then mp + 3 else mp - 9 in
  (if m <=? 2 then y + 1 else y, m, d).

(** Day of week, 0 = Monday … 6 = Sunday (1970-01-01 was a Thursday). *)
Definition weekday_from_days (z : Z) : Z := (z + 3) mod 7.
