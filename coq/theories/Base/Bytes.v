(** Bytes are [N] below 256; strings are [list N]. *)
From Coq Require Import NArith ZArith List Bool.
Import ListNotations.
Open Scope N_scope.

Definition byte := N.
Definition bytes := list N.

Definition is_digit (c : N) : bool := (48 <=? c) && (c <=? 57).
Definition digit_val (c : N) : N := c - 48.
Definition is_ascii_ws (c : N) : bool :=
  (c =? 32) || ((9 <=? c) && (c <=? 13)).
Definition is_alpha (c : N) : bool :=
  ((65 <=? c) && (c <=? 90)) || ((97 <=? c) && (c <=? 122)).
Definition to_lower (c : N) : N := if (65 <=? c) && (c <=? 90) then c + 32 else c.
Definition to_upper (c : N) : N := if (97 <=? c) && (c <=? 122) then c - 32 else c.

Fixpoint drop_while (p : N -> bool) (s : bytes) : bytes :=
  match s with
  | [] => []
  | c :: r => if p c then drop_while p r else s
  end.

Definition trim_start (s : bytes) : bytes := drop_while is_ascii_ws s.
Definition trim_end (s : bytes) : bytes := rev (drop_while is_ascii_ws (rev s)).
Definition trim (s : bytes) : bytes := trim_end (trim_start s).

Fixpoint bytes_eqb (a b : bytes) : bool :=
  match a, b with
  | [], [] => true
  | x :: a', y :: b' => (x =? y) && bytes_eqb a' b'
  | _, _ => false
  end.

(** Lexicographic comparison of byte strings (Rust's [Ord] for [[u8]] / [str]). *)
Fixpoint bytes_cmp (a b : bytes) : comparison :=
  match a, b with
  | [], [] => Eq
  | [], _ :: _ => Lt
  | _ :: _, [] => Gt
  | x :: a', y :: b' =>
      match N.compare x y with
      | Eq => bytes_cmp a' b'
      | c => c
      end
  end.

(** Decimal rendering of a natural number (most significant digit first). *)
Fixpoint dec_digits_fuel (fuel : nat) (n : N) (acc : bytes) : bytes :=
  match fuel with
  | O => acc
  | S f =>
      let acc' := (48 + n mod 10) :: acc in
      if n / 10 =? 0 then acc' else dec_digits_fuel f (n / 10) acc'
  end.
Definition dec_of_N (n : N) : bytes := dec_digits_fuel (S (N.to_nat (N.log2 n))) n [].

Definition dec_of_Z (z : Z) : bytes :=
  match z with
  | Z0 => [48]
  | Zpos p => dec_of_N (Npos p)
  | Zneg p => 45 :: dec_of_N (Npos p)
  end.

(** Fixed-width decimal rendering with zero padding ([w] digits of [n mod 10^w]). *)
Fixpoint pad_digits (w : nat) (n : N) : bytes :=
  match w with
  | O => []
  | S w' => pad_digits w' (n / 10) ++ [48 + n mod 10]
  end.
