(** C06 — STORE accepts exactly the payloads that conform to the defined schema.
    This file contains only the property theorems, each closed by [exact], with
    [Print Assumptions] beneath.  Models: Model/Json.v, Schema.v, SchemaReg.v, Validate.v
    (and Model/Time.v for time strings); specification and proofs: Proofs/ValidateProofs.v.

    [Conforms FT reg cmd] (Proofs/ValidateProofs.v) is the declarative statement of the
    property: event type and context not blank; the type is defined in [reg]; the payload
    is a JSON object; every entry's key is a field of the schema and its value has the
    field's declared type ([HasType]); every field that is not [Optional] is present.
    [FT] is the set of float bit patterns that count as a time; the theorems use
    [FloatInRange] (floor representable as i64 seconds), the property's reading.

    HOW THE CODE READS THE PROPERTY'S WORDS (every place where [Conforms] had to choose;
    1-9 are readings; 10-12 were contradictions of the statement on the pinned tree and have
    been REPAIRED in /repo - the theorems below now hold without any excluded class):

     1. "context id is non-empty"  -> not BLANK: [context_id.trim().is_empty()] rejects ids made
        only of Unicode White_Space characters (" ", "\t", U+00A0, U+3000 ...).  Same test on
        the event type.  [Blank] lists the 25 UTF-8 encodings explicitly.
     2. "value of the declared type", float field ("f64", "float", "double", "number"):
        EVERY JSON number, integers included (an integer literal of any size is a valid float;
        values beyond 2^53 lose precision later - C07's subject).
     3. integer field ("i64", "int64", "int", "integer"): an integer literal in [-2^63, 2^63-1];
        a number written with a fraction or an exponent is a float and is REJECTED, also when
        integral ("1.0", "1e2", "-0").
     4. "u64"/"uint64": an integer literal in [0, 2^64-1]; negatives and floats rejected.
     5. optional field ("T | null" in either order): absent, null, or a T.  A field whose spec
        is not optional must be present and is never null.
     6. enum field: a JSON string equal byte for byte (case-sensitive, no trimming) to a variant.
     7. "a parseable time" (datetime / timestamp / date fields - both kinds behave alike, a date
        field accepts a time of day and is not truncated to midnight): a string that C16's
        parser accepts after Unicode trimming (RFC 3339, YYYY-MM-DD, or a decimal integer
        string of magnitude < 10^19), or an integer literal of magnitude < 10^19
        (so 10^19 .. 2^64-1 are rejected), or a float whose floor fits i64 (see 10).  Booleans, null, arrays,
        objects are rejected.
     8. "flat": not a separate test - no declared type admits an array or an object, so
        conformance implies flatness ([C06_conforms_flat_exact_keys]).
     9. DEFINE: a primitive spec that is not an alias (or "alias | null") silently declares a
        required STRING field ("foo", "foo | null", " int", "null"); "int | float" declares int
        (first non-null part).  Enum variants are taken as given (duplicates, empty strings).
        These are properties of [schema_of_cmd], which the theorems quantify over.
    10. REPAIRED (8f02d15) FloatTimeSaturates: a float in a time-typed slot used to be accepted
        whatever its size ([f.floor() as i64] saturated, 1e300 was stored as 9223372036854775807).
        [normalize_json_value] now rejects floats outside [-2^63, 2^63); the translator reads the
        guard ([time_float_range_checked = true]) and [C06_accept_iff_conforms] is stated with the
        property's reading [FloatInRange] for every STORE.
    11. REPAIRED (fced25a) BraceInString: the STORE grammar used to delimit the payload by counting
        braces without regard to JSON strings; it now skips string literals
        ([store_brace_scan_ignores_strings = false]).
    12. REPAIRED (b3737c8) PlusExponent: the tokenizer that pre-validates every command line used to
        reject '+' (numbers written like 1e+16); '+' is now a symbol ([tokenizer_rejects_plus =
        false]).  With 11 and 12 the command line is transparent: [C06_text_front_transparent],
        [C06_text_accept_iff_conforms].  [C06_former_witnesses_repaired] keeps the three old
        witnesses, now on the right side.

    Hypotheses: [wf_reg] / [wf_payload] say that registry, schemas and payload object are
    maps (unique keys), which [HashMap] and [serde_json::Map] guarantee; every registry built
    by DEFINE satisfies [wf_reg] ([C06_reachable_wf]). *)
From Coq Require Import ZArith NArith List.
From Snel Require Import Base.Bytes Gen.Params Model.Json Model.Schema Model.SchemaReg Model.Validate Proofs.ValidateProofs.
Import ListNotations.

(** The handler accepts a STORE iff it conforms - under the property's own reading of times
    ([FloatInRange]: a float counts as a time only when its floor is an i64 second count), for
    EVERY registry and payload with unique keys, no excluded class. *)
Theorem C06_accept_iff_conforms : forall reg cmd,
  wf_reg reg -> wf_payload (sc_payload cmd) ->
  (store_ok reg cmd = true <-> Conforms FloatInRange reg cmd).
Proof. exact accept_iff_conforms_strict. Qed.
Print Assumptions C06_accept_iff_conforms.

(** A conforming STORE carries a flat object whose keys are fields and cover the required ones. *)
Theorem C06_conforms_flat_exact_keys : forall FT reg cmd, Conforms FT reg cmd ->
  exists sc obj, In (sc_type cmd, sc) reg /\ sc_payload cmd = JObj obj /\
    (forall k v, In (k, v) obj -> scalar v /\ exists ft, In (k, ft) sc) /\
    (forall k ft, In (k, ft) sc -> ~ Optional ft -> exists v, In (k, v) obj).
Proof. exact conforms_flat_exact_keys. Qed.
Print Assumptions C06_conforms_flat_exact_keys.

(** A rejected STORE leaves registry and events exactly as they were (hence every later read). *)
Theorem C06_reject_no_trace : forall st cmd,
  store_ok (st_reg st) cmd = false -> step_store st cmd = st.
Proof. exact reject_no_trace. Qed.
Print Assumptions C06_reject_no_trace.

(** An accepted STORE appends exactly one event, visible under its type and no other. *)
Theorem C06_accept_one_event : forall st cmd,
  store_ok (st_reg st) cmd = true ->
  exists p,
    let ev := {| ev_type := sc_type cmd; ev_ctx := sc_ctx cmd; ev_payload := p |} in
    store_check (st_reg st) cmd = Accepted p /\
    st_reg (step_store st cmd) = st_reg st /\
    st_events (step_store st cmd) = st_events st ++ [ev] /\
    visible (step_store st cmd) (sc_type cmd) = visible st (sc_type cmd) ++ [ev] /\
    (forall et, et <> sc_type cmd -> visible (step_store st cmd) et = visible st et).
Proof. exact accept_one_event. Qed.
Print Assumptions C06_accept_one_event.

(** A DEFINE answered with an error changes nothing: same state, same schemas, same verdict
    on every later STORE. *)
Theorem C06_define_error_keeps_schema : forall st et cs e,
  define (st_reg st) et cs = DefErr e ->
  step_define st et cs = st /\
  (forall et', reg_get (st_reg (step_define st et cs)) et' = reg_get (st_reg st) et') /\
  (forall cmd, store_check (st_reg (step_define st et cs)) cmd = store_check (st_reg st) cmd).
Proof. exact define_error_keeps_schema. Qed.
Print Assumptions C06_define_error_keeps_schema.

(** A DEFINE of an existing type IS answered with an error. *)
Theorem C06_define_existing_rejected : forall st et cs sc,
  reg_get (st_reg st) et = Some sc ->
  define (st_reg st) et cs = DefErr AlreadyDefined /\
  step_define st et cs = st /\
  (forall cmd, store_check (st_reg (step_define st et cs)) cmd = store_check (st_reg st) cmd).
Proof. exact define_existing_rejected. Qed.
Print Assumptions C06_define_existing_rejected.

(** Exactly when a DEFINE is answered with an error. *)
Theorem C06_define_error_iff : forall reg et cs e,
  define reg et cs = DefErr e <->
  ((exists sc, reg_get reg et = Some sc) /\ e = AlreadyDefined) \/
  (reg_get reg et = None /\ cs = [] /\ e = EmptySchema).
Proof. exact define_error_iff. Qed.
Print Assumptions C06_define_error_iff.

(** Schemas are append-only over any sequence of DEFINEs, successful or not. *)
Theorem C06_define_append_only : forall (ds : list (bytes * cmd_schema)) reg et sc,
  reg_get reg et = Some sc ->
  reg_get (fold_left (fun r d => define_reg r (fst d) (snd d)) ds reg) et = Some sc.
Proof. exact define_history_keeps. Qed.
Print Assumptions C06_define_append_only.

(** A successful DEFINE adds the converted schema under its type and touches no other type. *)
Theorem C06_define_ok_appends : forall reg et cs r',
  define reg et cs = DefOk r' ->
  reg_get reg et = None /\ cs <> [] /\
  reg_get r' et = Some (schema_of_cmd cs) /\
  (forall et', et' <> et -> reg_get r' et' = reg_get reg et').
Proof. exact define_ok_appends. Qed.
Print Assumptions C06_define_ok_appends.

(** Registries built by DEFINE commands with unique field names are well formed. *)
Theorem C06_reachable_wf : forall reg, Reachable reg -> wf_reg reg.
Proof. exact reachable_wf. Qed.
Print Assumptions C06_reachable_wf.

(** The command line: a line whose payload is a JSON object reaches the handler unchanged,
    whatever braces its strings carry and however its numbers are spelled ... *)
Theorem C06_text_front_transparent : forall reg t obj,
  sc_payload (tx_cmd t) = JObj obj -> store_text_ok reg t = store_ok reg (tx_cmd t).
Proof. exact text_front_transparent. Qed.
Print Assumptions C06_text_front_transparent.

(** ... hence the command line accepts exactly the conforming STOREs, with no excluded class. *)
Theorem C06_text_accept_iff_conforms : forall reg t,
  wf_reg reg -> wf_payload (sc_payload (tx_cmd t)) ->
  (store_text_ok reg t = true <-> Conforms FloatInRange reg (tx_cmd t)).
Proof. exact text_accept_iff_conforms. Qed.
Print Assumptions C06_text_accept_iff_conforms.

(** The witnesses of the three former findings: {"ts":1e300} is rejected; {"s":"}","f":1} and
    {"s":"x","f":1e+16} are accepted on the command line. *)
Theorem C06_former_witnesses_repaired :
  store_ok w_reg_time w_cmd_1e300 = false /\
  store_text_ok w_reg_text w_text_brace = true /\
  store_text_ok w_reg_text w_text_plus = true.
Proof. exact former_witnesses_repaired. Qed.
Print Assumptions C06_former_witnesses_repaired.

(** A command line that is rejected - by the parser front or by the handler - leaves no trace. *)
Theorem C06_text_reject_no_trace : forall st t,
  store_text_ok (st_reg st) t = false -> step_store_text st t = st.
Proof. exact text_reject_no_trace. Qed.
Print Assumptions C06_text_reject_no_trace.

(** The white-space test of the handler is the declarative [Blank]. *)
Theorem C06_blank_spec : forall s, is_blank s = true <-> Blank s.
Proof. exact is_blank_spec. Qed.
Print Assumptions C06_blank_spec.

(** Every alias of the regenerated table resolves to its type - as written, in upper case, as
    "alias | null" and as "null | alias" (a finite sweep over the table). *)
Theorem C06_alias_resolution : forallb alias_ok schema_alias_table = true /\ (1 <= length schema_alias_table)%nat.
Proof. exact alias_resolution. Qed.
Print Assumptions C06_alias_resolution.

(** Alias lookup ignores ASCII letter case. *)
Theorem C06_alias_case_insensitive : forall s s',
  map to_lower s = map to_lower s' -> from_primitive_str s = from_primitive_str s'.
Proof. exact alias_case_insensitive. Qed.
Print Assumptions C06_alias_case_insensitive.

(** Reading 9: a spec that is not a type silently declares a required string field. *)
Theorem C06_unknown_spec_is_string : forall s,
  from_spec_with_nullable s = None -> field_of_spec (SPrim s) = FPrim TString.
Proof. exact unknown_spec_is_string. Qed.
Print Assumptions C06_unknown_spec_is_string.

(** PERSISTENCE.  The schema in force after a restart is part of the property: [define_p]
    appends a record to the schema file only for an accepted DEFINE, [restart_p] replays the
    file (last record of a type wins).  For EVERY history of DEFINEs and restarts the replayed
    state is the state the process had, so every STORE is judged after the restart as before. *)
Theorem C06_restart_same_registry : forall ops,
  restart_p (run_p ops) = run_p ops /\
  (forall cmd, store_check (ps_reg (restart_p (run_p ops))) cmd = store_check (ps_reg (run_p ops)) cmd).
Proof. exact restart_same_registry. Qed.
Print Assumptions C06_restart_same_registry.

(** A DEFINE answered with an error leaves no trace in memory, in the file, or after a restart. *)
Theorem C06_rejected_define_no_trace : forall ps et cs e,
  define (ps_reg ps) et cs = DefErr e ->
  fst (define_p ps et cs) = ps /\ snd (define_p ps et cs) = Some e /\
  restart_p (fst (define_p ps et cs)) = restart_p ps.
Proof. exact rejected_define_no_trace_p. Qed.
Print Assumptions C06_rejected_define_no_trace.

(** The first accepted schema of a type stays in force through later DEFINEs and restarts. *)
Theorem C06_accepted_schema_survives : forall ops ops' et sc,
  reg_get (ps_reg (run_p ops)) et = Some sc ->
  reg_get (ps_reg (run_p (ops ++ ops'))) et = Some sc.
Proof. exact accepted_schema_survives. Qed.
Print Assumptions C06_accepted_schema_survives.

(** Replay of a file whose event types are unique is the identity (what the invariant gives). *)
Theorem C06_replay_unique : forall l, keys_unique l = true -> replay l = l.
Proof. exact replay_unique. Qed.
Print Assumptions C06_replay_unique.
