(** C07 — stored values come back unchanged from every storage tier.
    This file contains only the property theorems, each closed by [exact], with [Print Assumptions]
    beneath.  Models: Model/{Float64,RustText,Json,ValueTiers}.v; proofs:
    Proofs/{ValueTextProofs,ValueTiersProofs,ValueProjProofs}.v.

    [returned t l cp v]: the JSON cell QUERY/REPLAY return for a payload entry [v] (None = key absent) of a
    field of declared type [t] in layout [l] = (recovered from the WAL?, in memory | in a segment compacted
    n times); [cp] = some row of the zone carries the key.  [expected v] = the stored value (null for an
    absent key); [json_eqb] compares numbers numerically (floats among themselves bit-wise). *)
From Coq Require Import ZArith NArith List Bool.
From Snel Require Import Base.Bytes Model.Float64 Model.RustText Model.JsonV7 Model.ValueTiers.
From Snel Require Import Proofs.ValueTiersProofs Proofs.ValueProjProofs.
Import ListNotations.
Open Scope Z_scope.

(** The round trip is FALSE of the code: one conforming witness per mechanism —
    the string "[1]" from memory (to_json re-parses it), the string "123" after FLUSH (EventBuilder
    re-types it), null in an optional string after FLUSH (var-bytes columns have no null bitmap),
    9007199254740993 in a float field after FLUSH.  (The fifth witness, 446.19296929045356 after WAL
    recovery, was retired by fix 32b7370; see C07_wal_exact.) *)
Theorem C07_roundtrip_refuted :
  fails Utf8ReparsedOnRender TStr L_mem true (Some (JStr [91; 49; 93]%N)) /\
  fails StringRetyped TStr L_seg true (Some (JStr [49; 50; 51]%N)) /\
  fails NullStringBecomesEmpty (TOpt TStr) L_seg true (Some JNull) /\
  fails IntegerInFloatFieldRounded TF64 L_seg true (Some (JU64 9007199254740993)).
Proof. exact roundtrip_refuted. Qed.
Print Assumptions C07_roundtrip_refuted.

(** Outside the FOUR remaining classes every conforming value of every definable field type comes back equal to
    what was stored, in every layout (memtable, WAL-recovered, flushed, compacted any number of times). *)
Theorem C07_roundtrip_outside_known : forall t l cp v,
  definable t = true -> conforming t v = true -> col_consistent cp v = true ->
  known t l cp v = false ->
  json_eqb (returned t l cp v) (expected v) = true.
Proof. exact roundtrip_outside_known. Qed.
Print Assumptions C07_roundtrip_outside_known.

(** its hypotheses are satisfiable in all six layouts (u64::MAX, i64::MIN, floats, non-ASCII strings, "NaN",
    enum variants, times, nulls, absent keys) *)
Theorem C07_roundtrip_outside_known_example :
  forallb (fun l => forallb (fun tv =>
     definable (fst tv) && conforming (fst tv) (snd tv) && col_consistent true (snd tv) &&
     negb (known (fst tv) l true (snd tv)) &&
     json_eqb (returned (fst tv) l true (snd tv)) (expected (snd tv))) sample_inputs) L_all = true.
Proof. exact roundtrip_outside_known_example. Qed.
Print Assumptions C07_roundtrip_outside_known_example.

(** The classes are tight: every conforming input of a class really comes back changed (the render-time
    class is stated for the in-memory layouts; in a segment such a string is in it or in StringRetyped). *)
Theorem C07_known_classes_fail : forall k t l cp v,
  definable t = true -> conforming t v = true -> col_consistent cp v = true ->
  in_class k t l cp v = true ->
  (k = Utf8ReparsedOnRender -> in_memory l = true) ->
  json_eqb (returned t l cp v) (expected v) = false.
Proof. exact known_classes_fail. Qed.
Print Assumptions C07_known_classes_fail.

(** Tiers disagree inside the classes ... *)
Theorem C07_tiers_agree_refuted :
  json_eqb (returned TStr L_mem true (Some (JStr [49; 50; 51]%N))) (returned TStr L_seg true (Some (JStr [49; 50; 51]%N))) = false /\
  json_eqb (returned (TOpt TStr) L_mem true (Some JNull)) (returned (TOpt TStr) L_seg true (Some JNull)) = false /\
  json_eqb (returned TF64 L_mem true (Some (JU64 9007199254740993))) (returned TF64 L_seg true (Some (JU64 9007199254740993))) = false.
Proof. exact tiers_agree_refuted. Qed.
Print Assumptions C07_tiers_agree_refuted.

(** ... and agree outside the three tier-dependent ones (strings that to_json re-parses are returned
    parsed, but identically, before flush, after flush, after compaction and after restart). *)
Theorem C07_tiers_agree_outside_known : forall t l1 l2 cp1 cp2 v,
  definable t = true -> conforming t v = true ->
  col_consistent cp1 v = true -> col_consistent cp2 v = true ->
  tier_known t l1 cp1 v = false -> tier_known t l2 cp2 v = false ->
  json_eqb (returned t l1 cp1 v) (returned t l2 cp2 v) = true.
Proof. exact tiers_agree_outside_known. Qed.
Print Assumptions C07_tiers_agree_outside_known.

(** A zone column holding any mix of values, nulls and absent keys is read back cell by cell ... *)
Theorem C07_zone_pointwise : forall t l vs,
  returned_zone t l vs = map (returned t l (zone_col_present vs)) vs.
Proof. exact zone_pointwise. Qed.
Print Assumptions C07_zone_pointwise.

(** ... so every cell of the zone outside the classes comes back as stored. *)
Theorem C07_zone_roundtrip : forall t l vs,
  definable t = true ->
  Forall (fun v => conforming t v = true /\ known t l (zone_col_present vs) v = false) vs ->
  Forall2 (fun r v => json_eqb r (expected v) = true) (returned_zone t l vs) vs.
Proof. exact zone_roundtrip. Qed.
Print Assumptions C07_zone_roundtrip.

(** Compaction re-writes a flushed cell to itself, for every physical type and every scalar. *)
Theorem C07_compaction_fixpoint : forall n p s, iter_compact n p (write_cell p s) = write_cell p s.
Proof. exact iter_compact_fix. Qed.
Print Assumptions C07_compaction_fixpoint.

(** Which var-bytes cells EventBuilder re-types: exactly those whose text, after Unicode trimming, is
    true/false/null or reads as a u64, an i64 or a FINITE float in Rust's grammar; the only candidates that
    survive unchanged are canonical unsigned integers above i64::MAX. *)
Theorem C07_string_retyped_characterised : forall s,
  (retype_candidate s = false -> add_payload_field s = SUtf8 s) /\
  (retype_candidate s = true ->
     add_payload_field s <> SUtf8 s \/
     exists u, parse_u64 (utrim s) = Some u /\ i64_max < u /\ s = dec_of_Z u).
Proof. exact string_retyped_characterised. Qed.
Print Assumptions C07_string_retyped_characterised.

(** RETURN (compute_return_projection), for a flow whose rows are filled in the order of the batch schema
    (the segment flow; the memtable flow without RETURN): every cell holds the value of the column it is
    named after; only core columns and requested schema fields are returned; core columns are never
    dropped; requested schema fields are returned; without RETURN every column is returned. *)
Theorem C07_projection : forall (A : Type) (d : A) cols ret fields (ev : bytes -> A),
  (forall name val, In (name, val) (flow_row d cols cols ret fields ev) -> val = ev name /\ In name cols) /\
  (forall fs name val, ret = Some fs -> fs <> [] -> In (name, val) (flow_row d cols cols ret fields ev) ->
     is_core name = true \/ (In name fs /\ mem_bytes name fields = true)) /\
  (forall c, In c core_fields -> In c cols -> In (c, ev c) (flow_row d cols cols ret fields ev)) /\
  (forall fs f, ret = Some fs -> In f fs -> mem_bytes f fields = true -> In f cols ->
     In (f, ev f) (flow_row d cols cols ret fields ev)) /\
  (forall f, (ret = None \/ ret = Some []) -> In f cols -> In (f, ev f) (flow_row d cols cols ret fields ev)).
Proof. exact projection_exact. Qed.
Print Assumptions C07_projection.

Theorem C07_projection_example :
  flow_row 0%Z (selection_columns [] [f_b; f_a]) (selection_columns [] [f_b; f_a]) (Some [f_a; f_b]) [f_a; f_b] ev_ab
  = [(nth 0 core_fields [], 0%Z); (nth 1 core_fields [], 0%Z); (nth 2 core_fields [], 0%Z); (nth 3 core_fields [], 0%Z);
     (f_a, 1%Z); (f_b, 2%Z)].
Proof. exact projection_example. Qed.
Print Assumptions C07_projection_example.

(** After fix f2ae870 the requested names are appended in RETURN order: whatever orders the two former
    HashSets would have had, the memtable flow under ANY RETURN list returns every cell under the column it
    is named after, only core columns and requested schema fields, never drops a core column and returns
    every requested schema field.  (Retired: C07_return_mislabel_refuted, C07_memtable_flow_exact_outside_known.) *)
Theorem C07_memtable_flow_exact : forall (A : Type) (d : A) fc ret fields o1 o2 (ev : bytes -> A),
  (forall name val, In (name, val) (memtable_flow_row d fc ret fields o1 o2 ev) -> val = ev name) /\
  (forall name val, ret <> [] -> In (name, val) (memtable_flow_row d fc ret fields o1 o2 ev) ->
     is_core name = true \/ (In name ret /\ mem_bytes name fields = true)) /\
  (forall c, In c core_fields -> In (c, ev c) (memtable_flow_row d fc ret fields o1 o2 ev)) /\
  (forall f, In f ret -> mem_bytes f fields = true -> In (f, ev f) (memtable_flow_row d fc ret fields o1 o2 ev)).
Proof. exact memtable_flow_exact. Qed.
Print Assumptions C07_memtable_flow_exact.

(** After fix 32b7370 (serde_json float_roundtrip) the WAL line is exact for every payload scalar, so a
    WAL-recovering restart never changes what any layout returns.  (Retired: the witness
    446.19296929045356 of C07_roundtrip_refuted / C07_tiers_agree_refuted, class FloatWalReparsedInexact.) *)
Theorem C07_wal_exact : forall s,
  (forall b, s = SFloat b -> f64_is_finite b = true) -> wal_scalar s = s.
Proof. exact wal_exact. Qed.
Print Assumptions C07_wal_exact.

Theorem C07_restart_invisible : forall t seg cp v,
  conforming t v = true ->
  returned t {| via_wal := true; in_seg := seg |} cp v = returned t {| via_wal := false; in_seg := seg |} cp v.
Proof. exact restart_invisible. Qed.
Print Assumptions C07_restart_invisible.

(** the two retired witnesses now pass: the float after WAL recovery, and the RETURN [a, b] row under the two
    column orders that used to swap the values (the legacy reader is kept in the model for comparison) *)
Theorem C07_former_witnesses_pass :
  (returned TF64 L_wal true (Some (JF64 4646557125919078934)) = JF64 4646557125919078934 /\
   wal_float_legacy 4646557125919078934 = SFloat 4646557125919078935) /\
  memtable_flow_row 0%Z [] [f_a; f_b] [f_a; f_b] [f_a; f_b] [f_b; f_a] ev_ab
  = [(nth 0 core_fields [], 0%Z); (nth 1 core_fields [], 0%Z); (nth 2 core_fields [], 0%Z); (nth 3 core_fields [], 0%Z);
     (f_a, 1%Z); (f_b, 2%Z)].
Proof. exact (conj wal_float_former_witness memtable_flow_former_witness). Qed.
Print Assumptions C07_former_witnesses_pass.

(** EventSink (REPLAY / ordered paths) and ConditionEvaluator (QUERY) materialise every cell identically:
    EventSink's extra [get_i64_at] attempt on var-bytes cells gives what add_payload_field gives. *)
Theorem C07_sink_agrees : forall c, read_cell_sink c = read_cell c.
Proof. exact read_cell_sink_agrees. Qed.
Print Assumptions C07_sink_agrees.

(** The core string fields are values too.  context_id and event_type come back as the stored text from
    every layout unless to_json re-parses the text (class Utf8ReparsedOnRender: a context id such as
    "9999999999999999999" or "[1]" is returned as a number / an array, identically in every tier). *)
Theorem C07_core_roundtrip_outside_known : forall l s, utf8_reparsed s = false -> returned_core l s = JStr s.
Proof. exact core_roundtrip_outside_known. Qed.
Print Assumptions C07_core_roundtrip_outside_known.

Theorem C07_core_known_fails : forall l s, utf8_reparsed s = true -> json_eqb (returned_core l s) (JStr s) = false.
Proof. exact core_known_fails. Qed.
Print Assumptions C07_core_known_fails.

Theorem C07_core_refuted :
  returned_core L_mem (dec_of_Z 9999999999999999999) = JU64 9999999999999999999 /\
  returned_core L_cmp (dec_of_Z 9999999999999999999) = JU64 9999999999999999999 /\
  returned_core L_seg [91; 49; 93]%N = JArr [JU64 1].
Proof. exact core_refuted. Qed.
Print Assumptions C07_core_refuted.

Theorem C07_core_tiers_agree : forall l1 l2 s, returned_core l1 s = returned_core l2 s.
Proof. exact core_tiers_agree. Qed.
Print Assumptions C07_core_tiers_agree.

(** Two contexts that differ only in spelling stay two contexts: FOR q returns an event iff it was stored
    under exactly q, in every layout. *)
Theorem C07_for_selects_exact : forall l q ctx, for_selects l q ctx = true <-> ctx = q.
Proof. exact for_selects_exact. Qed.
Print Assumptions C07_for_selects_exact.

(** The integer-first materialisation (EventSink) differs from the one on the QUERY/REPLAY path exactly on
    core texts that read as an i64: "00123" -> "123", "+7" -> "7", "-0" -> "0". *)
Theorem C07_core_sink_characterised : forall s,
  (parse_i64 s = None -> core_read_sink s = core_read s) /\
  (forall z, parse_i64 s = Some z -> core_read_sink s = dec_of_Z z).
Proof. exact core_sink_characterised. Qed.
Print Assumptions C07_core_sink_characterised.

(** WHERE + RETURN.  The loaded columns are the core fields, then the WHERE columns, then the remaining RETURN
    fields; for every WHERE column set [fc], every RETURN list (any order, duplicates, unknown names, core
    names) and both flows, the value under name n in the projection is the stored value of field n. *)
Theorem C07_where_return_exact : forall (A : Type) (d : A) fc ret fields o1 o2 (ev : bytes -> A),
  (forall name val,
     In (name, val) (flow_row d (selection_columns_ret fc ret fields o1) (selection_columns_ret fc ret fields o1)
                              (Some ret) fields ev) -> val = ev name) /\
  (forall name val, In (name, val) (memtable_flow_row d fc ret fields o1 o2 ev) -> val = ev name).
Proof. exact where_return_exact. Qed.
Print Assumptions C07_where_return_exact.

Theorem C07_where_return_example :
  selection_columns_ret [f_b] [f_a; f_b] [f_a; f_b] [] =
    [nth 0 core_fields []; nth 1 core_fields []; nth 2 core_fields []; nth 3 core_fields []; f_b; f_a] /\
  memtable_flow_row 0%Z [f_b] [f_a; f_b] [f_a; f_b] [] [] ev_ab
  = [(nth 0 core_fields [], 0%Z); (nth 1 core_fields [], 0%Z); (nth 2 core_fields [], 0%Z); (nth 3 core_fields [], 0%Z);
     (f_a, 1%Z); (f_b, 2%Z)].
Proof. exact where_return_example. Qed.
Print Assumptions C07_where_return_example.
