(** C16 — a time value denotes the same instant on every path.
    This file contains only the property theorems, each closed by [exact],
    with [Print Assumptions] beneath. Models: Model/Time.v, Model/TimePrint.v (printers), Model/TimeSites.v (call sites),
    Base/Civil.v; proofs: Proofs/TimeProofs.v, Proofs/CivilProofs.v, Proofs/TimeIsoProofs.v,
    Proofs/TimeSitesProofs.v. *)
From Coq Require Import ZArith.
From Coq Require Import NArith List Bool.
From Snel Require Import Base.Bytes Base.Civil Gen.Params Model.Time Model.TimePrint Model.TimeSites
                         Proofs.TimeProofs Proofs.CivilProofs Proofs.TimeIsoProofs Proofs.TimeSitesProofs.
Import ListNotations.
Open Scope Z_scope.

(** Integer spellings (seconds / ms / µs / ns inside their digit bands) of the
    instant [t + sub-second remainder] all normalise to [t] = floor of the instant,
    for negative instants too. *)
Theorem C16_unit_spellings_agree : forall t rms rus rns,
  0 <= rms < 1000 -> 0 <= rus < 1000000 -> 0 <= rns < 1000000000 ->
  (Z.abs t < 10 ^ 11 -> normalize_integer_epoch t = Some t) /\
  (10 ^ 11 <= Z.abs (t * 1000 + rms) < 10 ^ 14 ->
     normalize_integer_epoch (t * 1000 + rms) = Some t) /\
  (10 ^ 14 <= Z.abs (t * 1000000 + rus) < 10 ^ 16 ->
     normalize_integer_epoch (t * 1000000 + rus) = Some t) /\
  (10 ^ 16 <= Z.abs (t * 1000000000 + rns) < 10 ^ 19 ->
     normalize_integer_epoch (t * 1000000000 + rns) = Some t).
Proof. exact unit_spellings_agree. Qed.
Print Assumptions C16_unit_spellings_agree.

(** Magnitudes of 20 digits or more are rejected, never mis-scaled. *)
Theorem C16_out_of_range_rejected : forall n,
  10 ^ 19 <= Z.abs n -> normalize_integer_epoch n = None.
Proof. exact normalize_reject. Qed.
Print Assumptions C16_out_of_range_rejected.

(** ---- ISO-8601 / RFC 3339 spellings ---- *)

(** Hinnant's calendar algorithms are mutually inverse on all of Z. *)
Theorem C16_civil_roundtrip : forall z,
  let '(y, m, d) := civil_from_days z in days_from_civil y m d = z.
Proof. exact civil_roundtrip. Qed.
Print Assumptions C16_civil_roundtrip.

Theorem C16_civil_from_days_valid : forall z,
  let '(y, m, d) := civil_from_days z in valid_ymd y m d = true.
Proof. exact civil_from_days_valid. Qed.
Print Assumptions C16_civil_from_days_valid.

Theorem C16_civil_of_days_from_civil : forall y m d,
  valid_ymd y m d = true -> civil_from_days (days_from_civil y m d) = (y, m, d).
Proof. exact civil_of_days_from_civil. Qed.
Print Assumptions C16_civil_of_days_from_civil.

(** The model of chrono's RFC 3339 parser inverts the printer: for every four-digit
    year, valid date, time of day (second 60 = leap-second spelling), any digit string
    as fraction (absent when empty), separator T / t / space, offset |off| <= 23:59
    written Z / z / +HH:MM / -HH:MM / U+2212 HH:MM. *)
Theorem C16_parse_print_rfc3339_gen : forall y m d h mi s frac sep off tz,
  0 <= y <= 9999 -> valid_ymd y m d = true ->
  0 <= h < 24 -> 0 <= mi < 60 -> 0 <= s <= 60 ->
  forallb is_digit frac = true -> sep_ok sep = true ->
  Z.abs off <= 1439 -> tz_ok off tz ->
  parse_rfc3339 (print_rfc3339_gen y m d h mi s frac sep off tz)
  = Some (days_from_civil y m d * 86400 + h * 3600 + mi * 60 + Z.min s 59 - off * 60).
Proof. exact parse_print_rfc3339_gen. Qed.
Print Assumptions C16_parse_print_rfc3339_gen.

Theorem C16_parse_print_rfc3339 : forall y m d h mi s frac sep off (zulu : bool),
  0 <= y <= 9999 -> valid_ymd y m d = true ->
  0 <= h < 24 -> 0 <= mi < 60 -> 0 <= s <= 60 ->
  forallb is_digit frac = true -> sep_ok sep = true ->
  Z.abs off <= 1439 -> (zulu = true -> off = 0) ->
  parse_rfc3339 (print_rfc3339 y m d h mi s frac sep off zulu)
  = Some (days_from_civil y m d * 86400 + h * 3600 + mi * 60 + Z.min s 59 - off * 60).
Proof. exact parse_print_rfc3339. Qed.
Print Assumptions C16_parse_print_rfc3339.

(** All ISO spellings of one instant [t] (whole seconds; the sub-second digits are
    [frac]) — any offset, any fraction, any separator, any offset notation — denote
    [t] = floor of the instant.  [t] ranges over 0000-01-02T00:00:00Z .. 9999-12-30T23:59:59Z
    (the four-digit years with a day of margin for the offset), negative instants included. *)
Theorem C16_iso_spellings_agree : forall t frac sep off tz,
  iso_t_lo <= t <= iso_t_hi ->
  forallb is_digit frac = true -> sep_ok sep = true ->
  Z.abs off <= 1439 -> tz_ok off tz ->
  parse_rfc3339 (print_instant_gen t frac sep off tz) = Some t.
Proof. exact iso_spellings_agree. Qed.
Print Assumptions C16_iso_spellings_agree.

(** ... and through the entry point [parse_str_to_epoch_seconds] (RFC 3339 is tried
    first), with ASCII white space around the literal. *)
Theorem C16_iso_string_agree : forall t frac sep off tz ws1 ws2,
  iso_t_lo <= t <= iso_t_hi ->
  forallb is_digit frac = true -> sep_ok sep = true ->
  Z.abs off <= 1439 -> tz_ok off tz ->
  forallb is_ascii_ws ws1 = true -> forallb is_ascii_ws ws2 = true ->
  parse_str_to_epoch_seconds (ws1 ++ print_instant_gen t frac sep off tz ++ ws2) = Some t.
Proof. exact iso_string_agree. Qed.
Print Assumptions C16_iso_string_agree.

(** The ISO spelling and the in-band integer spellings (s / ms / us / ns) of the same
    instant normalise to the same second. *)
Theorem C16_iso_and_integer_agree : forall t frac sep off tz ws1 ws2 rms rus rns,
  iso_t_lo <= t <= iso_t_hi ->
  forallb is_digit frac = true -> sep_ok sep = true ->
  Z.abs off <= 1439 -> tz_ok off tz ->
  forallb is_ascii_ws ws1 = true -> forallb is_ascii_ws ws2 = true ->
  0 <= rms < 1000 -> 0 <= rus < 1000000 -> 0 <= rns < 1000000000 ->
  let iso := parse_str_to_epoch_seconds (ws1 ++ print_instant_gen t frac sep off tz ++ ws2) in
  iso = Some t /\
  (Z.abs t < 10 ^ 11 -> normalize_integer_epoch t = iso) /\
  (10 ^ 11 <= Z.abs (t * 1000 + rms) < 10 ^ 14 ->
     normalize_integer_epoch (t * 1000 + rms) = iso) /\
  (10 ^ 14 <= Z.abs (t * 1000000 + rus) < 10 ^ 16 ->
     normalize_integer_epoch (t * 1000000 + rus) = iso) /\
  (10 ^ 16 <= Z.abs (t * 1000000000 + rns) < 10 ^ 19 ->
     normalize_integer_epoch (t * 1000000000 + rns) = iso).
Proof. exact iso_and_integer_agree. Qed.
Print Assumptions C16_iso_and_integer_agree.

(** Date-only spelling YYYY-MM-DD = midnight UTC of that day. *)
Theorem C16_parse_print_date : forall y m d,
  0 <= y <= 9999 -> valid_ymd y m d = true ->
  parse_date_only (print_date y m d) = Some (days_from_civil y m d * 86400).
Proof. exact parse_print_date. Qed.
Print Assumptions C16_parse_print_date.

Theorem C16_date_string_agree : forall y m d,
  0 <= y <= 9999 -> valid_ymd y m d = true ->
  parse_str_to_epoch_seconds (print_date y m d) = Some (days_from_civil y m d * 86400).
Proof. exact date_string_agree. Qed.
Print Assumptions C16_date_string_agree.

(** ---- the same instant on every path: the call sites (Model/TimeSites.v) ---- *)

(** For every string literal, the payload normaliser, the WHERE row filter, the SINCE row
    filter, the planner's literal rewriting and the zone pruner (raw string and rewritten
    integer) read exactly the same second, instants before 1970 included; the materialised-query
    SINCE comparison clamps it at 0 (its watermark is unsigned).  A literal no parser accepts is
    an error for the payload, a string condition for WHERE, ignored for SINCE, left alone by
    the planner and [i64::MIN] ("restricts nothing") for the pruner.
    (Before fix db7c428 the pruner read [max z 0] and fell back to u64; classes
    NegativeInstantClampedByPruner and UnparsableSinceU64WrapsNegative.) *)
Theorem C16_sites_agree : forall (s : bytes) (ft : ftype),
  temporal_ft ft ->
  match parse_str_to_epoch_seconds s with
  | Some z =>
      site_payload ft (Some (TStr s)) = PNum z
      /\ site_where (TStr s) = CNum z
      /\ site_since_row s = SinceNum z
      /\ site_filter ft (TStr s) = SInt z
      /\ pruner_ts (site_since_filter s) = z
      /\ pruner_ts (site_filter ft (TStr s)) = z
      /\ parse_since_epoch s = Some (Z.max z 0)
  | None =>
      site_payload ft (Some (TStr s)) = PErr
      /\ site_where (TStr s) = CStr
      /\ site_since_row s = SinceIgnored
      /\ site_filter ft (TStr s) = SUtf8 s
      /\ pruner_ts (SUtf8 s) = - 2 ^ 63
  end.
Proof. exact sites_agree. Qed.
Print Assumptions C16_sites_agree.

(** The materialiser's `parse::<u64>()` fall-back only ever takes 20-digit numbers. *)
Theorem C16_matspec_u64_fallback_range : forall s u,
  parse_str_to_epoch_seconds s = None -> parse_since_epoch s = Some u -> 10 ^ 19 <= u <= u64_max.
Proof. exact matspec_u64_fallback_range. Qed.
Print Assumptions C16_matspec_u64_fallback_range.

(** The zone pruner, over the artifacts the temporal builder writes, keeps every zone that
    holds an event whose stored instant satisfies the comparison (=, >, >=, <, <=): for every
    literal second from i64::MIN up to 2^32 and every zone whose stamps are below 2^32 —
    literals and stamps before 1970 included.  The only exclusion left is the u32 truncation of
    bucket ids (class CalendarBucketWrapsAfter2106). *)
Theorem C16_prune_sound_outside_known : forall flag op v zones z t,
  - 2 ^ 63 <= v < u32_mod ->
  In z zones -> zmax z < u32_mod ->
  In t (z_ts z) -> cmp_holds op t v ->
  exists ids, prune flag op (SInt v) zones = Some ids /\ In (z_id z) ids.
Proof. exact prune_sound. Qed.
Print Assumptions C16_prune_sound_outside_known.

Theorem C16_prune_sound_literal : forall flag op s v zones z t,
  parse_str_to_epoch_seconds s = Some v ->
  - 2 ^ 63 <= v < u32_mod ->
  In z zones -> zmax z < u32_mod ->
  In t (z_ts z) -> cmp_holds op t v ->
  exists ids, prune flag op (SUtf8 s) zones = Some ids /\ In (z_id z) ids.
Proof. exact prune_sound_literal. Qed.
Print Assumptions C16_prune_sound_literal.

(** A SINCE literal that no parser accepts is ignored by the row filter and rules out no zone
    (no bound on the stamps). *)
Theorem C16_unparsable_since_keeps_all : forall flag s zones z,
  parse_str_to_epoch_seconds s = None ->
  In z zones -> - 2 ^ 63 <= zmax z ->
  site_since_row s = SinceIgnored /\
  exists ids, prune flag OGte (site_since_filter s) zones = Some ids /\ In (z_id z) ids.
Proof. exact unparsable_since_keeps_all. Qed.
Print Assumptions C16_unparsable_since_keeps_all.

(** The field selector on a temporal filter (pruner answer, or all zones when the pruner has
    none for `!=`) keeps every zone holding a match for all six comparison operators ... *)
Theorem C16_select_sound : forall flag op v zones z t,
  - 2 ^ 63 <= v < u32_mod ->
  In z zones -> zmax z < u32_mod ->
  In t (z_ts z) -> cmp_holds_sel op t v ->
  In (z_id z) (select_zones flag op (SInt v) zones).
Proof. exact select_sound. Qed.
Print Assumptions C16_select_sound.

(** ... and `!=` rules out no zone at all, whatever the literal and the stamps
    (was class TemporalNeqPrunesAllZones, fix f801704). *)
Theorem C16_select_neq_keeps_all : forall flag sv zones z,
  In z zones -> In (z_id z) (select_zones flag ONeq sv zones).
Proof. exact select_neq_keeps_all. Qed.
Print Assumptions C16_select_neq_keeps_all.

(** The remaining known class: bucket ids truncated to u32 (a zone of 2106 is lost by
    `t >= 1980-01-01`). *)
Theorem C16_bucket_wrap_refuted :
  prune false OGte (SInt 315532800) [mkZone 3 [4295399296; 4295399297]] = Some []
  /\ cmp_holds OGte 4295399296 315532800.
Proof. exact bucket_wrap_refuted. Qed.
Print Assumptions C16_bucket_wrap_refuted.

(** ---- JSON numbers ---- *)

(** A number serde_json keeps as f64 is stored as the floor of the written value or rejected —
    never as a saturated second count (fix 8f02d15). *)
Theorem C16_json_float_floor_or_rejected : forall m e z,
  normalize_json_number (JDec m e) = Some z -> z = floor_dec m e /\ i64_min <= z <= i64_max.
Proof. exact json_float_floor_or_rejected. Qed.
Print Assumptions C16_json_float_floor_or_rejected.

(** A JSON integer literal of any size in a time field is normalised like the same digits as a
    string, or rejected; never stored as another second
    (was class JsonIntegerBelowI64ReadAsFloatSeconds). *)
Theorem C16_json_integer_never_misread : forall z,
  normalize_json_number (jnum_of_integer z) = normalize_integer_epoch z
  \/ normalize_json_number (jnum_of_integer z) = None.
Proof. exact json_integer_never_misread. Qed.
Print Assumptions C16_json_integer_never_misread.

(** A numeric string reaches [normalize_integer_epoch] whatever its value (the RFC 3339
    and date-only branches reject every optionally signed digit string). *)
Theorem C16_decimal_string_is_integer : forall n,
  parse_str_to_epoch_seconds (dec_of_Z n) = normalize_integer_epoch n.
Proof. exact decimal_string_is_integer. Qed.
Print Assumptions C16_decimal_string_is_integer.

(** All STRING spellings of one instant agree: the ISO spelling with any offset / fraction /
    separator / padding and the decimal strings of its s / ms / us / ns counts (inside their
    digit bands) all go to [Some t] through [parse_str_to_epoch_seconds]. *)
Theorem C16_all_string_spellings_agree : forall t frac sep off tz ws1 ws2 rms rus rns,
  iso_t_lo <= t <= iso_t_hi ->
  forallb is_digit frac = true -> sep_ok sep = true ->
  Z.abs off <= 1439 -> tz_ok off tz ->
  forallb is_ascii_ws ws1 = true -> forallb is_ascii_ws ws2 = true ->
  0 <= rms < 1000 -> 0 <= rus < 1000000 -> 0 <= rns < 1000000000 ->
  parse_str_to_epoch_seconds (ws1 ++ print_instant_gen t frac sep off tz ++ ws2) = Some t /\
  (Z.abs t < 10 ^ 11 -> parse_str_to_epoch_seconds (dec_of_Z t) = Some t) /\
  (10 ^ 11 <= Z.abs (t * 1000 + rms) < 10 ^ 14 ->
     parse_str_to_epoch_seconds (dec_of_Z (t * 1000 + rms)) = Some t) /\
  (10 ^ 14 <= Z.abs (t * 1000000 + rus) < 10 ^ 16 ->
     parse_str_to_epoch_seconds (dec_of_Z (t * 1000000 + rus)) = Some t) /\
  (10 ^ 16 <= Z.abs (t * 1000000000 + rns) < 10 ^ 19 ->
     parse_str_to_epoch_seconds (dec_of_Z (t * 1000000000 + rns)) = Some t).
Proof. exact all_string_spellings_agree. Qed.
Print Assumptions C16_all_string_spellings_agree.

(** ** PER buckets under a configured time zone with a fixed UTC offset *)
From Snel Require Import Model.Bucket Model.BucketTz Proofs.BucketProofs Proofs.BucketTzProofs.

(** the bucket contains the instant ... *)
Theorem C16_bucket_tz_contains : forall ws off secs g, 0 <= ws <= 6 ->
  calendar_bucket_secs_off ws off secs g <= secs < calendar_next_secs_off ws off secs g.
Proof. exact bucket_off_contains. Qed.
Print Assumptions C16_bucket_tz_contains.

(** ... and starts on the boundary of the LOCAL calendar (hour / day / week start / first of month /
    1 January in wall-clock time of the configured offset). *)
Theorem C16_bucket_tz_on_local_boundary : forall ws off secs g, 0 <= ws <= 6 ->
  on_boundary ws g (calendar_bucket_secs_off ws off secs g + off).
Proof. exact bucket_off_on_local_boundary. Qed.
Print Assumptions C16_bucket_tz_on_local_boundary.

(** ** PER buckets in a zone whose offset changes (daylight saving), and sequences of rows *)
From Snel Require Import Model.BucketZone Proofs.BucketZoneProofs.

(** a zone without transitions is the fixed-offset model above *)
Theorem C16_bucket_zone_fixed : forall strict ws off secs g,
  bucket_zone_with strict ws (off, nil) secs g = Some (calendar_bucket_secs_off ws off secs g).
Proof. exact bucket_zone_fixed. Qed.
Print Assumptions C16_bucket_zone_fixed.

(** the bucket of a row of a sequence is the bucket of its instant alone (no dependence on the rows
    bucketed before it) *)
Theorem C16_bucket_zone_seq_pointwise : forall ws zn g pre secs post,
  nth_error (bucket_zone_seq ws zn g (pre ++ secs :: post)) (length pre) = Some (bucket_zone ws zn secs g).
Proof. exact bucket_zone_seq_pointwise. Qed.
Print Assumptions C16_bucket_zone_seq_pointwise.
