(** C16 — a time value denotes the same instant on every path.
    This file contains only the property theorems, each closed by [exact],
    with [Print Assumptions] beneath. Models: Model/Time.v; proofs: Proofs/TimeProofs.v. *)
From Coq Require Import ZArith.
From Snel Require Import Model.Time Proofs.TimeProofs.
Open Scope Z_scope.

(** Integer spellings (seconds / ms / µs / ns inside their digit bands) of the
    instant [t + sub-second remainder] all normalise to [t] = floor of the instant,
    for negative instants too. *)
Theorem C16_unit_spellings_agree : forall t rms rus rns,
  0 <= rms < 1000 -> 0 <= rus < 1000000 -> 0 <= rns < 1000000000 ->
  (Z.abs t < 10 ^ 11 -> normalize_integer_epoch t = Some t) /\
  (10 ^ 11 <= Z.abs (t * 1000 + rms) < 10 ^ 14 ->
     normalize_integer_epoch (t * 1000 + rms) = Some t) /\
  (10 ^ 14 <= Z.abs (t * 1000000 + rus) < 10 ^ 16 ->
     normalize_integer_epoch (t * 1000000 + rus) = Some t) /\
  (10 ^ 16 <= Z.abs (t * 1000000000 + rns) < 10 ^ 19 ->
     normalize_integer_epoch (t * 1000000000 + rns) = Some t).
Proof. exact unit_spellings_agree. Qed.
Print Assumptions C16_unit_spellings_agree.

(** Magnitudes of 20 digits or more are rejected, never mis-scaled. *)
Theorem C16_out_of_range_rejected : forall n,
  10 ^ 19 <= Z.abs n -> normalize_integer_epoch n = None.
Proof. exact normalize_reject. Qed.
Print Assumptions C16_out_of_range_rejected.
