(** C01 — placeholder until the proofs land. *)
From Snel Require Import Model.Shard.
