(** C01 — applied writes survive any process crash and restart, exactly once.
    This file contains only the property theorems, each closed by [exact],
    with [Print Assumptions] beneath.  Model: Model/Shard.v (trace-validated against
    the engine, crashes included); proofs, the specification-side bookkeeping
    ([stored], [durable], [pending]: plain recursions over the label list) and the
    non-vacuity examples: Proofs/ShardC01Proofs.v.

    Setting: [ls] is ANY list of labels (stores, manual flushes, WAL writes and
    rotations, flush-worker stages, crashes and restarts in any order),
    [s = run (init c) ls].  [durable ls] = the events whose WAL entry was written
    (the "acknowledged and applied" cut with flush_each_write).  [occ e l] = number
    of occurrences of [e] in [l].  The model's ghost list [wlost s] holds the entries
    appended while the writer's file was unlinked and the entries of deleted log
    files that were in no segment directory at deletion time. *)
From Coq Require Import NArith List.
From Snel Require Import Model.Shard Proofs.ShardC01Proofs.
Import ListNotations.
Open Scope N_scope.

(** * 1. All histories *)

(** Every durable event outside the known class is returned exactly once after a
    crash + restart, and after a clean stop + restart. *)
Theorem C01_survives_unless_pruned : forall c ls e,
  NoDup (map ek (stored ls)) ->
  In e (durable ls) -> ~ In e (wlost (run (init c) ls)) ->
  occ e (select (restart (crash (run (init c) ls))) (euid e)) = 1%nat /\
  occ e (select (restart (run (init c) ls)) (euid e)) = 1%nat.
Proof. exact survives_unless_pruned. Qed.
Print Assumptions C01_survives_unless_pruned.

(** The same with the known class spelled out: [OpenWalFilePruned c ls e] := the event's WAL
    entry went to (or was in) a log file that the flush worker pruned while no directory
    held the event, i.e. [In e (wlost (run (init c) ls))]. *)
Theorem C01_durable_exactly_once_outside_known : forall c ls e,
  NoDup (map ek (stored ls)) -> In e (durable ls) -> ~ OpenWalFilePruned c ls e ->
  occ e (select (restart (crash (run (init c) ls))) (euid e)) = 1%nat /\
  occ e (select (restart (run (init c) ls)) (euid e)) = 1%nat.
Proof. exact durable_exactly_once_outside_known. Qed.
Print Assumptions C01_durable_exactly_once_outside_known.

(** Nothing is invented: whatever a selection returns, in any reachable state and
    after a crash + restart, was stored and has the queried type. *)
Theorem C01_no_phantom : forall c ls u e,
  In e (select (run (init c) ls) u) -> In e (stored ls) /\ euid e = u.
Proof. exact no_phantom. Qed.
Print Assumptions C01_no_phantom.

Theorem C01_no_phantom_after_crash : forall c ls u e,
  In e (select (restart (crash (run (init c) ls))) u) -> In e (stored ls) /\ euid e = u.
Proof. exact no_phantom_after_crash. Qed.
Print Assumptions C01_no_phantom_after_crash.

(** No selection, in any state whatsoever, contains a key or an event twice: events
    that were not yet written when the crash hit are absent or present once. *)
Theorem C01_never_duplicated : forall s u e,
  NoDup (map ek (select s u)) /\ (occ e (select s u) <= 1)%nat.
Proof. exact never_duplicated. Qed.
Print Assumptions C01_never_duplicated.

(** * 2. One lifetime without manual FLUSH (WAL file ids and segment ids in lockstep)

    [lockstep ls]: no [LFlushCmd], [LCrash], [LRestart].  [wal_ordered]: the WAL
    thread's program order (no write while a rotation is due). *)

(** No durable event is lost: it is in a log file or in a segment directory. *)
Theorem C01_lockstep_no_loss : forall c ls, 0 < c ->
  lockstep ls = true -> wal_ordered (init c) ls = true ->
  forall e, In e (durable ls) ->
    In e (frows (walfiles (run (init c) ls))) \/ In e (drows (dirs (run (init c) ls))).
Proof. exact lockstep_no_loss. Qed.
Print Assumptions C01_lockstep_no_loss.

(** The ghost list only holds events that are in a segment directory. *)
Theorem C01_lockstep_wlost_in_dirs : forall c ls, 0 < c ->
  lockstep ls = true -> wal_ordered (init c) ls = true ->
  forall e, In e (wlost (run (init c) ls)) -> In e (drows (dirs (run (init c) ls))).
Proof. exact lockstep_wlost_in_dirs. Qed.
Print Assumptions C01_lockstep_wlost_in_dirs.

(** It is empty, and the writer's file is never unlinked, when the WAL thread is
    idle at every log-file deletion (the harness's "WAL drained" cut). *)
Theorem C01_lockstep_wlost_empty : forall c ls, 0 < c ->
  lockstep ls = true -> wal_ordered (init c) ls = true -> wal_idle_at_prune (init c) ls = true ->
  wunlinked (run (init c) ls) = false /\ wlost (run (init c) ls) = [].
Proof. exact lockstep_wlost_empty. Qed.
Print Assumptions C01_lockstep_wlost_empty.

(** Without that extra hypothesis the ghost list can be non-empty (the flush worker
    outruns the WAL thread) ... *)
Theorem C01_lockstep_wlost_empty_refuted :
  exists c ls, 0 < c /\ lockstep ls = true /\ wal_ordered (init c) ls = true /\
    wlost (run (init c) ls) <> [].
Proof. exact lockstep_wlost_empty_refuted. Qed.
Print Assumptions C01_lockstep_wlost_empty_refuted.

(** ... and without the program order of the WAL thread a durable event is lost
    (such label lists are not traces of the engine). *)
Theorem C01_lockstep_needs_wal_order_refuted :
  exists c ls e, 0 < c /\ lockstep ls = true /\ wal_ordered (init c) ls = false /\
    NoDup (map ek (stored ls)) /\ In e (durable ls) /\
    occ e (select (restart (crash (run (init c) ls))) (euid e)) = 0%nat.
Proof. exact lockstep_needs_wal_order_refuted. Qed.
Print Assumptions C01_lockstep_needs_wal_order_refuted.

(** Exactly once after the first crash of a database that never saw a manual FLUSH. *)
Theorem C01_exactly_once_after_first_crash : forall c ls e, 0 < c ->
  lockstep ls = true -> wal_ordered (init c) ls = true ->
  NoDup (map ek (stored ls)) -> In e (durable ls) ->
  occ e (select (restart (crash (run (init c) ls))) (euid e)) = 1%nat /\
  occ e (select (restart (run (init c) ls)) (euid e)) = 1%nat.
Proof. exact exactly_once_after_first_crash. Qed.
Print Assumptions C01_exactly_once_after_first_crash.

(** * 3. Known findings (class OpenWalFilePruned), both confirmed on the engine *)

(** cap 4: three stores, manual FLUSH run to completion, one more store, crash:
    the last event is durable but not read back. *)
Theorem C01_manual_flush_refuted :
  exists c ls e, 0 < c /\ one_lifetime ls = true /\ wal_ordered (init c) ls = true /\
    NoDup (map ek (stored ls)) /\ In e (durable ls) /\
    occ e (select (restart (crash (run (init c) ls))) (euid e)) = 0%nat /\
    In e (wlost (run (init c) ls)).
Proof. exact manual_flush_refuted. Qed.
Print Assumptions C01_manual_flush_refuted.

(** No manual FLUSH: a crash during a rotation and the restart let segment ids run
    ahead of WAL file ids; a later flush prunes the open log file. *)
Theorem C01_id_drift_refuted :
  exists c ls e, 0 < c /\ no_manual_flush ls = true /\
    NoDup (map ek (stored ls)) /\ In e (durable ls) /\
    occ e (select (restart (crash (run (init c) ls))) (euid e)) = 0%nat /\
    In e (wlost (run (init c) ls)).
Proof. exact id_drift_refuted. Qed.
Print Assumptions C01_id_drift_refuted.

(** The same drift in its shortest form (cap 2): crash after the directory of an unfinished
    flush was created; the restart takes the next segment id from the directory list but the
    WAL id from the log files. *)
Theorem C01_id_drift_short_refuted :
  exists c ls e, 0 < c /\ no_manual_flush ls = true /\
    NoDup (map ek (stored ls)) /\ In e (durable ls) /\
    occ e (select (restart (crash (run (init c) ls))) (euid e)) = 0%nat /\
    In e (wlost (run (init c) ls)).
Proof. exact id_drift_short_refuted. Qed.
Print Assumptions C01_id_drift_short_refuted.

(** Hence the property as stated (every durable event exactly once, all histories) is false. *)
Theorem C01_durable_exactly_once_refuted :
  ~ (forall c ls e, 0 < c -> NoDup (map ek (stored ls)) -> In e (durable ls) ->
       occ e (select (restart (crash (run (init c) ls))) (euid e)) = 1%nat).
Proof. exact durable_exactly_once_refuted. Qed.
Print Assumptions C01_durable_exactly_once_refuted.

(** * 4. COUNT after recovery (class CountAfterRecovery) *)

(** In-memory rows (the replayed WAL) are counted whatever their type ... *)
Theorem C01_count_type_blind_refuted :
  exists c ls u, 0 < c /\ lockstep ls = true /\ wal_ordered (init c) ls = true /\
    NoDup (map ek (stored ls)) /\ wlost (run (init c) ls) = [] /\
    select (restart (crash (run (init c) ls))) u = of_uid u (durable ls) /\
    count (restart (crash (run (init c) ls))) u <> len (select (restart (crash (run (init c) ls))) u).
Proof. exact count_type_blind_refuted. Qed.
Print Assumptions C01_count_type_blind_refuted.

(** ... and rows present in a leftover directory and in the WAL are counted twice. *)
Theorem C01_count_double_refuted :
  exists c ls u, 0 < c /\ lockstep ls = true /\ wal_ordered (init c) ls = true /\
    NoDup (map ek (stored ls)) /\ wlost (run (init c) ls) = [] /\
    select (restart (crash (run (init c) ls))) u = of_uid u (durable ls) /\
    count (restart (crash (run (init c) ls))) u = 2 * len (select (restart (crash (run (init c) ls))) u) /\
    len (select (restart (crash (run (init c) ls))) u) = 2.
Proof. exact count_double_refuted. Qed.
Print Assumptions C01_count_double_refuted.

(** What is true: the exact value ... *)
Theorem C01_count_after_restart : forall s u,
  count (restart (crash s)) u = len (frows (walfiles s)) + len (of_uid u (drows (dirs s))) /\
  count (restart s) u = len (frows (walfiles s)) + len (of_uid u (drows (dirs s))).
Proof. exact count_after_restart. Qed.
Print Assumptions C01_count_after_restart.

(** ... COUNT never reports fewer rows than the selection returns, in any state ... *)
Theorem C01_count_ge_select : forall s u, len (select s u) <= count s u.
Proof. exact count_ge_select. Qed.
Print Assumptions C01_count_ge_select.

(** ... and when nothing durable was pruned it covers the durable events of the type. *)
Theorem C01_count_covers_durable : forall c ls u,
  NoDup (map ek (stored ls)) ->
  (forall e, In e (durable ls) -> ~ In e (wlost (run (init c) ls))) ->
  len (of_uid u (durable ls)) <= len (select (restart (crash (run (init c) ls))) u) /\
  len (select (restart (crash (run (init c) ls))) u) <= count (restart (crash (run (init c) ls))) u.
Proof. exact count_covers_durable. Qed.
Print Assumptions C01_count_covers_durable.
