(** C01 — applied writes survive any process crash and restart, exactly once.
    This file contains only the property theorems, each closed by [exact],
    with [Print Assumptions] beneath.  Model: Model/Shard.v (trace-validated against
    the engine, crashes included); proofs, the specification-side bookkeeping
    ([stored], [durable], [pending]: plain recursions over the label list) and the
    non-vacuity examples: Proofs/ShardC01Proofs.v.

    Setting: [ls] is ANY list of labels (stores, manual flushes, WAL writes and
    rotations, flush-worker stages, crashes and restarts in any order),
    [s = run (init c) ls].  [durable ls] = the events whose WAL entry was written
    (the "acknowledged and applied" cut with flush_each_write).  [occ e l] = number
    of occurrences of [e] in [l].  The model's ghost list [wlost s] holds the entries
    appended while the writer's file was unlinked and the entries of deleted log
    files that were in no segment directory at deletion time. *)
From Coq Require Import NArith List.
From Snel Require Import Model.Shard Proofs.ShardC01Proofs Proofs.ShardC01RestartProofs.
Import ListNotations.
Open Scope N_scope.

(** * 1. All histories *)

(** Every durable event outside the known class is returned exactly once after a
    crash + restart, and after a clean stop + restart. *)
Theorem C01_survives_unless_pruned : forall c ls e,
  NoDup (map ek (stored ls)) ->
  In e (durable ls) -> ~ In e (wlost (run (init c) ls)) ->
  occ e (select (restart (crash (run (init c) ls))) (euid e)) = 1%nat /\
  occ e (select (restart (run (init c) ls)) (euid e)) = 1%nat.
Proof. exact survives_unless_pruned. Qed.
Print Assumptions C01_survives_unless_pruned.

(** The same with the known class spelled out: [OpenWalFilePruned c ls e] := the event's WAL
    entry went to (or was in) a log file that the flush worker pruned while no directory
    held the event, i.e. [In e (wlost (run (init c) ls))]. *)
Theorem C01_durable_exactly_once_outside_known : forall c ls e,
  NoDup (map ek (stored ls)) -> In e (durable ls) -> ~ OpenWalFilePruned c ls e ->
  occ e (select (restart (crash (run (init c) ls))) (euid e)) = 1%nat /\
  occ e (select (restart (run (init c) ls)) (euid e)) = 1%nat.
Proof. exact durable_exactly_once_outside_known. Qed.
Print Assumptions C01_durable_exactly_once_outside_known.

(** Nothing is invented: whatever a selection returns, in any reachable state and
    after a crash + restart, was stored and has the queried type. *)
Theorem C01_no_phantom : forall c ls u e,
  In e (select (run (init c) ls) u) -> In e (stored ls) /\ euid e = u.
Proof. exact no_phantom. Qed.
Print Assumptions C01_no_phantom.

Theorem C01_no_phantom_after_crash : forall c ls u e,
  In e (select (restart (crash (run (init c) ls))) u) -> In e (stored ls) /\ euid e = u.
Proof. exact no_phantom_after_crash. Qed.
Print Assumptions C01_no_phantom_after_crash.

(** No selection, in any state whatsoever, contains a key or an event twice: events
    that were not yet written when the crash hit are absent or present once. *)
Theorem C01_never_duplicated : forall s u e,
  NoDup (map ek (select s u)) /\ (occ e (select s u) <= 1)%nat.
Proof. exact never_duplicated. Qed.
Print Assumptions C01_never_duplicated.

(** * 2. One lifetime without manual FLUSH (WAL file ids and segment ids in lockstep)

    [lockstep ls]: no [LFlushCmd], [LCrash], [LRestart].  [wal_ordered]: the WAL
    thread's program order (no write while a rotation is due). *)

(** No durable event is lost: it is in a log file or in a segment directory. *)
Theorem C01_lockstep_no_loss : forall c ls, 0 < c ->
  lockstep ls = true -> wal_ordered (init c) ls = true ->
  forall e, In e (durable ls) ->
    In e (frows (walfiles (run (init c) ls))) \/ In e (drows (dirs (run (init c) ls))).
Proof. exact lockstep_no_loss. Qed.
Print Assumptions C01_lockstep_no_loss.

(** The ghost list only holds events that are in a segment directory. *)
Theorem C01_lockstep_wlost_in_dirs : forall c ls, 0 < c ->
  lockstep ls = true -> wal_ordered (init c) ls = true ->
  forall e, In e (wlost (run (init c) ls)) -> In e (drows (dirs (run (init c) ls))).
Proof. exact lockstep_wlost_in_dirs. Qed.
Print Assumptions C01_lockstep_wlost_in_dirs.

(** It is empty, and the writer's file is never unlinked, when the WAL thread is
    idle at every log-file deletion (the harness's "WAL drained" cut). *)
Theorem C01_lockstep_wlost_empty : forall c ls, 0 < c ->
  lockstep ls = true -> wal_ordered (init c) ls = true -> wal_idle_at_prune (init c) ls = true ->
  wunlinked (run (init c) ls) = false /\ wlost (run (init c) ls) = [].
Proof. exact lockstep_wlost_empty. Qed.
Print Assumptions C01_lockstep_wlost_empty.

(** Without that extra hypothesis the ghost list can be non-empty (the flush worker
    outruns the WAL thread) ... *)
Theorem C01_lockstep_wlost_empty_refuted :
  exists c ls, 0 < c /\ lockstep ls = true /\ wal_ordered (init c) ls = true /\
    wlost (run (init c) ls) <> [].
Proof. exact lockstep_wlost_empty_refuted. Qed.
Print Assumptions C01_lockstep_wlost_empty_refuted.

(** ... and without the program order of the WAL thread a durable event is lost
    (such label lists are not traces of the engine). *)
Theorem C01_lockstep_needs_wal_order_refuted :
  exists c ls e, 0 < c /\ lockstep ls = true /\ wal_ordered (init c) ls = false /\
    NoDup (map ek (stored ls)) /\ In e (durable ls) /\
    occ e (select (restart (crash (run (init c) ls))) (euid e)) = 0%nat.
Proof. exact lockstep_needs_wal_order_refuted. Qed.
Print Assumptions C01_lockstep_needs_wal_order_refuted.

(** Exactly once after the first crash of a database that never saw a manual FLUSH. *)
Theorem C01_exactly_once_after_first_crash : forall c ls e, 0 < c ->
  lockstep ls = true -> wal_ordered (init c) ls = true ->
  NoDup (map ek (stored ls)) -> In e (durable ls) ->
  occ e (select (restart (crash (run (init c) ls))) (euid e)) = 1%nat /\
  occ e (select (restart (run (init c) ls)) (euid e)) = 1%nat.
Proof. exact exactly_once_after_first_crash. Qed.
Print Assumptions C01_exactly_once_after_first_crash.

(** * 3. Known findings (class OpenWalFilePruned), both confirmed on the engine *)

(** cap 4: three stores, manual FLUSH run to completion, one more store, crash:
    the last event is durable but not read back. *)
Theorem C01_manual_flush_refuted :
  exists c ls e, 0 < c /\ one_lifetime ls = true /\ wal_ordered (init c) ls = true /\
    NoDup (map ek (stored ls)) /\ In e (durable ls) /\
    occ e (select (restart (crash (run (init c) ls))) (euid e)) = 0%nat /\
    In e (wlost (run (init c) ls)).
Proof. exact manual_flush_refuted. Qed.
Print Assumptions C01_manual_flush_refuted.

(** No manual FLUSH: a crash during a rotation and the restart let segment ids run
    ahead of WAL file ids; a later flush prunes the open log file. *)
Theorem C01_id_drift_refuted :
  exists c ls e, 0 < c /\ no_manual_flush ls = true /\
    NoDup (map ek (stored ls)) /\ In e (durable ls) /\
    occ e (select (restart (crash (run (init c) ls))) (euid e)) = 0%nat /\
    In e (wlost (run (init c) ls)).
Proof. exact id_drift_refuted. Qed.
Print Assumptions C01_id_drift_refuted.

(** The same drift in its shortest form (cap 2): crash after the directory of an unfinished
    flush was created; the restart takes the next segment id from the directory list but the
    WAL id from the log files. *)
Theorem C01_id_drift_short_refuted :
  exists c ls e, 0 < c /\ no_manual_flush ls = true /\
    NoDup (map ek (stored ls)) /\ In e (durable ls) /\
    occ e (select (restart (crash (run (init c) ls))) (euid e)) = 0%nat /\
    In e (wlost (run (init c) ls)).
Proof. exact id_drift_short_refuted. Qed.
Print Assumptions C01_id_drift_short_refuted.

(** Hence the property as stated (every durable event exactly once, all histories) is false. *)
Theorem C01_durable_exactly_once_refuted :
  ~ (forall c ls e, 0 < c -> NoDup (map ek (stored ls)) -> In e (durable ls) ->
       occ e (select (restart (crash (run (init c) ls))) (euid e)) = 1%nat).
Proof. exact durable_exactly_once_refuted. Qed.
Print Assumptions C01_durable_exactly_once_refuted.

(** * 4. COUNT after recovery (class CountAfterRecovery) *)

(** COUNT is the length of the scan (in-memory rows and segment rows of the queried type, before id
    de-duplication).  [count] is defined through the regenerated flag [Params.agg_mem_filters_type]: before
    fix dc170f4 the in-memory rows were counted whatever their type, and this theorem stops checking if
    the memtable read paths lose the event-type condition again. *)
Theorem C01_count_is_scan : forall s u, count s u = len (scan s u).
Proof. exact count_is_scan. Qed.
Print Assumptions C01_count_is_scan.

(** Hence COUNT equals the selection whenever no event id occurs twice in the scan ... *)
Theorem C01_count_exact_when_ids_distinct : forall s u,
  NoDup (map ek (scan s u)) -> count s u = len (select s u).
Proof. exact count_exact_when_ids_distinct. Qed.
Print Assumptions C01_count_exact_when_ids_distinct.

(** ... as on the recovery history with events of two types in the log that used to witness the
    type-blind count (retired known finding). *)
Theorem C01_count_two_types_exact :
  let c := 2 in let ls := Traces.two_types in let u := 0 in
  0 < c /\ lockstep ls = true /\ wal_ordered (init c) ls = true /\
    NoDup (map ek (stored ls)) /\ wlost (run (init c) ls) = [] /\
    select (restart (crash (run (init c) ls))) u = of_uid u (durable ls) /\
    NoDup (map ek (scan (restart (crash (run (init c) ls))) u)) /\
    count (restart (crash (run (init c) ls))) u = len (select (restart (crash (run (init c) ls))) u).
Proof. exact count_two_types_exact. Qed.
Print Assumptions C01_count_two_types_exact.

(** Still refuted: rows present in a leftover directory and in the WAL are counted twice. *)
Theorem C01_count_double_refuted :
  exists c ls u, 0 < c /\ lockstep ls = true /\ wal_ordered (init c) ls = true /\
    NoDup (map ek (stored ls)) /\ wlost (run (init c) ls) = [] /\
    select (restart (crash (run (init c) ls))) u = of_uid u (durable ls) /\
    count (restart (crash (run (init c) ls))) u = 2 * len (select (restart (crash (run (init c) ls))) u) /\
    len (select (restart (crash (run (init c) ls))) u) = 2.
Proof. exact count_double_refuted. Qed.
Print Assumptions C01_count_double_refuted.

(** What is true: the exact value ... *)
Theorem C01_count_after_restart : forall s u,
  count (restart (crash s)) u = len (of_uid u (frows (walfiles s))) + len (of_uid u (drows (dirs s))) /\
  count (restart s) u = len (of_uid u (frows (walfiles s))) + len (of_uid u (drows (dirs s))).
Proof. exact count_after_restart. Qed.
Print Assumptions C01_count_after_restart.

(** ... COUNT never reports fewer rows than the selection returns, in any state ... *)
Theorem C01_count_ge_select : forall s u, len (select s u) <= count s u.
Proof. exact count_ge_select. Qed.
Print Assumptions C01_count_ge_select.

(** ... and when nothing durable was pruned it covers the durable events of the type. *)
Theorem C01_count_covers_durable : forall c ls u,
  NoDup (map ek (stored ls)) ->
  (forall e, In e (durable ls) -> ~ In e (wlost (run (init c) ls))) ->
  len (of_uid u (durable ls)) <= len (select (restart (crash (run (init c) ls))) u) /\
  len (select (restart (crash (run (init c) ls))) u) <= count (restart (crash (run (init c) ls))) u.
Proof. exact count_covers_durable. Qed.
Print Assumptions C01_count_covers_durable.

(** * 5. Kill of the quiescent process + restart keeps the lockstep

    [quiescentb s]: no flush job queued or running, WAL queue drained, no rotation due
    ([wcnt s < cap s]), the writer's file not unlinked, at most [level_span] level-0
    segments.  [lockstep_q s ls]: no [LFlushCmd]; [LCrash] only in a quiescent state and
    immediately followed by [LRestart]; [LRestart] only directly after [LCrash]; inside a
    lifetime the WAL thread's program order and "WAL idle at every log-file deletion";
    plain [run], no compaction.  ([lockq_inv]: the lockstep invariant of
    Proofs/ShardC01Proofs.v extended by: nothing pruned or unlinked, log-file ids strictly
    increasing and not below the number of pruned segments, the current log file holds
    exactly the durable events of the current rotation, the memtable exactly the stored ones.) *)

(** A kill + restart in a quiescent reachable state: same next segment id, same log-file id,
    same entry counter, and that counter is the fill level of the recovered memtable (which
    is the old memtable); same files and directories; the invariant holds again. *)
Theorem C01_quiescent_restart_keeps_lockstep : forall c ls, 0 < c ->
  lockstep_q (init c) ls = true -> quiescentb (run (init c) ls) = true ->
  let s := run (init c) ls in
  let s' := restart (crash s) in
  alloc0 s' = alloc0 s /\ wcur s' = wcur s /\ wcnt s' = wcnt s /\ mem s' = mem s /\
  wcnt s' = len (mem s') /\ wcur s' = alloc0 s' /\
  walfiles s' = walfiles s /\ dirs s' = dirs s /\ wlost s' = [] /\ wunlinked s' = false /\
  lockq_inv c (stored ls) (durable ls) s'.
Proof. exact quiescent_restart_keeps_lockstep. Qed.
Print Assumptions C01_quiescent_restart_keeps_lockstep.

(** The invariant form, for any state (reachable or not) that satisfies it. *)
Theorem C01_quiescent_restart_preserves_inv : forall c P D s, 0 < c ->
  lockq_inv c P D s -> quiescentb s = true -> lockq_inv c P D (restart (crash s)).
Proof. exact quiescent_restart_preserves_inv. Qed.
Print Assumptions C01_quiescent_restart_preserves_inv.

(** Throughout such a history nothing is pruned or unlinked, WAL file [wcur] holds exactly the
    durable events from position [wcur * c] on, the memtable exactly the stored events from
    position [alloc0 * c] on. *)
Theorem C01_lockstep_q_no_prune : forall c ls, 0 < c -> lockstep_q (init c) ls = true ->
  let s := run (init c) ls in
  wlost s = [] /\ wunlinked s = false /\
  len (durable ls) = wcur s * c + wcnt s /\ len (stored ls) = alloc0 s * c + len (mem s) /\
  wcnt s <= c /\ len (mem s) < c /\
  wal_get (walfiles s) (wcur s) = drop (wcur s * c) (durable ls) /\
  mem s = drop (alloc0 s * c) (stored ls).
Proof. exact lockstep_q_no_prune. Qed.
Print Assumptions C01_lockstep_q_no_prune.

(** Whenever no flush job exists and the WAL queue is drained: log-file id = next segment id,
    entry counter = memtable fill level (so [wcnt < cap] in [quiescentb] is implied). *)
Theorem C01_quiet_state_lockstep : forall c ls, 0 < c -> lockstep_q (init c) ls = true ->
  let s := run (init c) ls in
  jobs s = [] -> walq s = [] ->
  wcur s = alloc0 s /\ wcnt s = len (mem s) /\ wcnt s < c.
Proof. exact quiet_state_lockstep. Qed.
Print Assumptions C01_quiet_state_lockstep.

(** Every durable event is read exactly once after any number of quiescent kill/restart
    cycles interleaved with stores and background flushes; nothing is pruned or unlinked. *)
Theorem C01_exactly_once_across_quiescent_restarts : forall c ls e, 0 < c ->
  lockstep_q (init c) ls = true -> NoDup (map ek (stored ls)) -> In e (durable ls) ->
  occ e (select (restart (crash (run (init c) ls))) (euid e)) = 1%nat /\
  occ e (select (restart (run (init c) ls)) (euid e)) = 1%nat /\
  wlost (run (init c) ls) = [] /\ wunlinked (run (init c) ls) = false.
Proof. exact exactly_once_across_quiescent_restarts. Qed.
Print Assumptions C01_exactly_once_across_quiescent_restarts.

(** Corners.  A kill while a flush job is queued (WAL drained, but not quiescent) resets the
    allocator and recovers a full memtable: the relations above fail. *)
Theorem C01_nonquiescent_restart_refuted :
  exists c ls, 0 < c /\ lockstep_q (init c) ls = true /\
    let s := run (init c) ls in
    quiescentb s = false /\ walq s = [] /\
    (alloc0 (restart (crash s)) <> alloc0 s /\ mem (restart (crash s)) <> mem s /\
     ~ (len (mem (restart (crash s))) < c)).
Proof. exact nonquiescent_restart_refuted. Qed.
Print Assumptions C01_nonquiescent_restart_refuted.

(** [alloc0_from] ignores ids outside the level-0 band, hence the bound in [quiescentb]. *)
Theorem C01_alloc0_outside_band_refuted :
  exists ids a, (forall i, In i ids -> i < a) /\ In (a - 1) ids /\ alloc0_from ids <> a.
Proof. exact alloc0_outside_band_refuted. Qed.
Print Assumptions C01_alloc0_outside_band_refuted.
