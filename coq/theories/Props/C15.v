(** C15 — sequence queries return exactly the linked, correctly ordered pairs.
    This file contains only the property theorems, each closed by [exact], with [Print Assumptions]
    beneath.  Model: Model/Sequence.v ([matcher] = ColumnarGrouper + SequenceWhereEvaluator +
    SequenceMatcher, [seq_query] = the per-type sub-queries with the pushed-down WHERE followed by
    [matcher]; both are extracted and run against the real code); proofs and the specification-level
    definitions used below ([linked], [ts_le], [time_le], [time_lt]): Proofs/SequenceProofs.v.

    Quantification: all lists of rows / stored events of the two types (any link keys incl. absent,
    any times incl. null, any field values), all WHERE trees over integer comparisons, both links,
    all LIMITs.  [ts] is the u64 reading of the time field the code compares ([time_ok]: the time
    is present and non-negative, so that this reading orders like the integers).

    KnownClass (decidable, in the model; PrecededByBlockedByEarlyA was retired by fix 49473e7):
    [negb (conjunctive_where fa fb wh ta tb)] (CrossTypeOrNot; with an un-prefixed comparison on a
    field only one schema declares: UnprefixedFieldAppliedToBothTypes, [has_unprefixed_one_sided]),
    [negb (time_ok e)] (TimeNotU64Ordered), [link_alias s s'] (LinkTextAliasesInteger), a link cell
    that is absent and therefore read as [null_text] (AbsentLinkGroupedAsNull).  [linked a b] is
    equality of the link keys as the grouper reads them; the last two classes are exactly where that
    differs from equality of the stored link values.  [fa], [fb]: the fields the two schemas declare. *)
From Coq Require Import NArith ZArith List Bool Sorted.
From Snel Require Import Base.Bytes Model.Sequence Proofs.SequenceProofs Proofs.SequenceOnce.
Import ListNotations.
Open Scope N_scope.

(** Every returned pair is made of an a-row and a b-row given to the matcher that carry the same
    link key, stand in the right time relation ([>=] for FOLLOWED BY, strictly [<] for PRECEDED
    BY) and each satisfy the WHERE conditions addressed to their side. *)
Theorem C15_pairs_sound : forall lk wh ta tb limit la lb a b,
  In (a, b) (matcher lk wh ta tb limit la lb) ->
  In a la /\ In b lb /\ linked a b /\
  match lk with FollowedBy => ts a <= ts b | PrecededBy => ts b < ts a end /\
  where_row wh ta a = true /\ where_row wh tb b = true.
Proof. exact pairs_sound. Qed.
Print Assumptions C15_pairs_sound.

(** The FOLLOWED BY sweep on time-sorted lists, when WHERE accepts every pair of the two lists:
    an a-row is matched iff a b-row at the same time or later exists. *)
Theorem C15_followed_by_matched_iff : forall w la lb,
  Sorted ts_le la -> Sorted ts_le lb ->
  (forall a b, In a la -> In b lb -> w a b = true) ->
  forall a, In a la ->
  ((exists b, In (a, b) (followed_by w la lb)) <-> (exists b, In b lb /\ ts a <= ts b)).
Proof. exact followed_by_matched_iff. Qed.
Print Assumptions C15_followed_by_matched_iff.

(** The matcher in isolation is incomplete: a@1, b1@2 (fails [pb.y = 1]), b2@3 (passes) — the sweep
    spends [a] on b1 and never looks at b2. *)
Theorem C15_matcher_incomplete_refuted :
  let wh := Some (ECmp (Some t_pb) f_y OpEq 1) in
  let a := ev 0 7 1 f_x 0 in
  let b1 := ev 0 7 2 f_y 0 in
  let b2 := ev 1 7 3 f_y 1 in
  matcher FollowedBy wh t_pa t_pb None [a] [b1; b2] = [] /\
  linked a b2 /\ ts a <= ts b2 /\ where_row wh t_pa a = true /\ where_row wh t_pb b2 = true.
Proof. exact matcher_incomplete_refuted. Qed.
Print Assumptions C15_matcher_incomplete_refuted.

(** The push-down of WHERE into the two per-type sub-queries is exact on conjunctions of one-sided
    conditions (plus un-prefixed comparisons as conjuncts) ... *)
Theorem C15_pushdown_exact_for_conjunctions : forall fa fb e ta tb a b,
  bytes_eqb ta tb = false -> conjunctive fa fb e ta tb = true ->
  eval_pair fa fb e ta tb a b = where_row (Some e) ta a && where_row (Some e) tb b.
Proof. exact pushdown_exact_for_conjunctions. Qed.
Print Assumptions C15_pushdown_exact_for_conjunctions.

(** ... and wrong for an OR that spans both types: [pa.x = 1 OR pb.y = 2] holds of the pair
    (a with x = 1, b with y = 0), yet the b-row is filtered out and the query returns nothing. *)
Theorem C15_pushdown_refuted :
  let e := EOr (ECmp (Some t_pa) f_x OpEq 1) (ECmp (Some t_pb) f_y OpEq 2) in
  let a := ev 0 7 1 f_x 1 in
  let b := ev 0 7 2 f_y 0 in
  eval_pair [f_x] [f_y] e t_pa t_pb a b = true /\ where_row (Some e) t_pb b = false /\
  seq_query FollowedBy (Some e) t_pa t_pb None [a] [b] = [] /\ conjunctive [f_x] [f_y] e t_pa t_pb = false.
Proof. exact pushdown_refuted. Qed.
Print Assumptions C15_pushdown_refuted.

(** The property for FOLLOWED BY on the composed pipeline (sub-queries with the pushed-down WHERE,
    grouping by link key, sweep, no LIMIT): for a conjunctive WHERE and times the u64 reading
    orders correctly, an a-event is matched if and only if some b-event carries the same link value,
    is at the same time or later, and the pair satisfies the WHERE. *)
Theorem C15_matched_iff_exists_followed_by : forall fa fb wh ta tb sa sb,
  bytes_eqb ta tb = false -> conjunctive_where fa fb wh ta tb = true ->
  (forall e, In e (sa ++ sb) -> time_ok e = true) ->
  forall a, In a sa ->
  ((exists b, In (a, b) (seq_query FollowedBy wh ta tb None sa sb)) <->
   (exists b, In b sb /\ linked a b /\ time_le a b /\ spec_where fa fb wh ta tb a b = true)).
Proof. exact matched_iff_exists_followed_by. Qed.
Print Assumptions C15_matched_iff_exists_followed_by.

(** The property for PRECEDED BY on the composed pipeline — since fix 49473e7 without any KnownClass
    of its own (before: refuted by a@1, b@5, a@10): an a-event is matched if and only if some
    b-event carries the same link value, is strictly earlier, and the pair satisfies the WHERE. *)
Theorem C15_matched_iff_exists_preceded_by : forall fa fb wh ta tb sa sb,
  bytes_eqb ta tb = false -> conjunctive_where fa fb wh ta tb = true ->
  (forall e, In e (sa ++ sb) -> time_ok e = true) ->
  forall a, In a sa ->
  ((exists b, In (a, b) (seq_query PrecededBy wh ta tb None sa sb)) <->
   (exists b, In b sb /\ linked a b /\ time_lt b a /\ spec_where fa fb wh ta tb a b = true)).
Proof. exact matched_iff_exists_preceded_by. Qed.
Print Assumptions C15_matched_iff_exists_preceded_by.

(** The PRECEDED BY sweep on time-sorted lists, when WHERE accepts every pair of the two lists: an
    a-row is matched iff a strictly earlier b-row exists. *)
Theorem C15_preceded_by_matched_iff : forall w la lb,
  Sorted ts_le la -> Sorted ts_le lb ->
  (forall a b, In a la -> In b lb -> w a b = true) ->
  forall a, In a la ->
  ((exists b, In (a, b) (preceded_by w la lb)) <-> (exists b, In b lb /\ ts b < ts a)).
Proof. exact preceded_by_matched_iff. Qed.
Print Assumptions C15_preceded_by_matched_iff.

(** LIMIT bounds the number of matched sequences; the limited answer is a prefix of the unlimited. *)
Theorem C15_limit_bounds : forall lk wh ta tb n la lb,
  (length (matcher lk wh ta tb (Some n) la lb) <= N.to_nat n)%nat /\
  matcher lk wh ta tb (Some n) la lb = firstn (N.to_nat n) (matcher lk wh ta tb None la lb).
Proof. exact limit_bounds. Qed.
Print Assumptions C15_limit_bounds.

(** No a-event is matched twice: when the a-rows given to the matcher are pairwise different (rows
    carry their position), the a-components of the returned pairs are pairwise different — for
    both links, every WHERE, every LIMIT, every b-list ([subseq]: Proofs/SequenceOnce.v). *)
Theorem C15_each_a_matched_at_most_once : forall lk wh ta tb limit la lb,
  NoDup la -> NoDup (map fst (matcher lk wh ta tb limit la lb)).
Proof. exact matched_once. Qed.
Print Assumptions C15_each_a_matched_at_most_once.

(** Within a link group the matched a-rows are reported in the order of the group's a-rows (time
    order), each at most once: the a-components are a subsequence of the group's a-list. *)
Theorem C15_group_matches_follow_a_rows : forall lk w g,
  subseq (map fst (match_group lk w g)) (g_a g).
Proof. exact group_matches_follow_a_rows. Qed.
Print Assumptions C15_group_matches_follow_a_rows.

(** Hence the number of returned sequences never exceeds the number of a-rows. *)
Theorem C15_matched_count_le_a_rows : forall lk wh ta tb limit la lb,
  NoDup la -> (length (matcher lk wh ta tb limit la lb) <= length la)%nat.
Proof. exact matched_count_le_a_rows. Qed.
Print Assumptions C15_matched_count_le_a_rows.
