(** C14 — SHOW of a remembered query equals the live query, each event once.
    Only the property theorems, each closed by [exact], with [Print Assumptions] beneath.
    Model: Model/Materialize.v ([step], [run], [remember_frames], [show_frames], [show_output],
    [frames_mark], [classes_of] are the functions that are extracted and run against the real engine);
    proofs and specification-level definitions ([reach], [good_op], [no_known], [shows_ok], [is_answer],
    [live], [witness_of]): Proofs/MaterializeProofs.v.

    Quantification: all layouts (any number of shards, segments, zones, zone sizes, file times), all
    sequences of new quiescent layouts (STORE, FLUSH, compaction and restart are "the next layout holds at
    least the events of the previous one"), all queries with FOR / WHERE / SINCE on the core timestamp, all
    arrival orders of the batches of every REMEMBER and SHOW, any number of remembered queries and SHOWs.

    KnownClass (decidable, computed by [classes_of] in the state an operation is applied to):
    [PayloadTimeField], [LimitNotReapplied], [EventNotAboveMark], [RawStreamDuplicates],
    [SegmentOlderThanEvent], [InterruptedRefresh]. *)
From Coq Require Import NArith List Bool Permutation.
From Snel Require Import Model.Materialize Proofs.MaterializeProofs.
Import ListNotations.
Open Scope N_scope.

(** In a state reached through operations none of which falls into a known class, every SHOW returns exactly
    the events the live query selects at that moment, each once (whatever the arrival order of its own delta). *)
Theorem C14_show_eq_query_reach : forall st name ch st' out nf m c,
  reach st ->
  step st (OShow name ch) = (st', ObsShow out nf m c) ->
  exists en, lookup name (st_entries st) = Some en /\
    Permutation out (sel (n_q en) (st_layout st)) /\ NoDup (map e_k out).
Proof. exact show_eq_query_reach. Qed.
Print Assumptions C14_show_eq_query_reach.

(** Since c71d768 (the mark of a store is the maximum over its frames) the arrival order of the batches is no class
    any more: the mark dominates every stored row whatever the order of the frames … *)
Theorem C14_mark_dominates_every_row : forall fs f e,
  In f fs -> In e f -> mle (ekey e) (frames_mark fs) = true.
Proof. exact frames_mark_ge_row. Qed.
Print Assumptions C14_mark_dominates_every_row.

(** … a SHOW never falls into a known class, and a REMEMBER only through its query (payload time field, LIMIT):
    for a query on the core timestamp without LIMIT, REMEMBER and SHOW are good operations for EVERY admissible
    arrival order of their batches. *)
Theorem C14_any_arrival_order : forall st name q ch,
  (forall c, In c (classes_of st (ORemember name q ch)) ->
     (c = PayloadTimeField /\ q_tf q = TPayload) \/ (c = LimitNotReapplied /\ q_limit q <> None)) /\
  (q_tf q = TCore -> q_limit q = None -> good_op st (ORemember name q ch)) /\
  good_op st (OShow name ch) /\
  (forall c, In c (classes_of st (OShowFail name ch)) -> c = InterruptedRefresh).
Proof.
  intros st name q ch. split; [apply remember_classes|]. split; [apply remember_good|].
  split; [apply show_good|apply showfail_classes].
Qed.
Print Assumptions C14_any_arrival_order.

(** the history that was the MarkOfLastFrame witness (memtable batch stored before the segment batch): no class,
    admissible, every SHOW an answer *)
Theorem C14_former_MarkOfLastFrame_witness_exact :
  classes_along init w_lastframe = [] /\ ~ In ObsBadChoice (run init w_lastframe) /\ shows_ok_b init w_lastframe = true
  /\ no_known init w_lastframe.
Proof. exact former_lastframe_witness_now_exact. Qed.
Print Assumptions C14_former_MarkOfLastFrame_witness_exact.

(** The invariant behind it: the stored frames of every remembered query are exactly the matching events at
    or below its mark. *)
Theorem C14_stored_below_mark : forall st, reach st ->
  layout_ok (st_layout st) /\
  forall name en, In (name, en) (st_entries st) ->
    core_q (n_q en) /\
    Permutation (concat (n_frames en))
      (filter (below (n_q en) (frames_mark (n_frames en))) (content (st_layout st))) /\
    mle (n_cat en) (frames_mark (n_frames en)) = true.
Proof. exact reach_inv. Qed.
Print Assumptions C14_stored_below_mark.

(** The clock condition of the property: if every new event carries a second not below and an id above those of
    every event already stored (one shard, or a millisecond clock advancing between applied STOREs, and a wall
    clock that does not step back), no event is late for any remembered query — the class [EventNotAboveMark]
    cannot occur. *)
Theorem C14_monotone_clock_suffices : forall st l,
  Inv st -> zero_id l = false ->
  (forall e, In e (content l) -> ~ In e (content (st_layout st)) ->
     forall e0, In e0 (content (st_layout st)) -> e_ts e0 <= e_ts e /\ e_id e0 < e_id e) ->
  some_late st l = false.
Proof. exact monotone_clock_not_late. Qed.
Print Assumptions C14_monotone_clock_suffices.

(** Repeating SHOW with no new data returns the same rows, appends no frame and leaves the mark. *)
Theorem C14_show_idempotent : forall st name ch1 ch2 st1 out1 nf1 m1 c1 st2 out2 nf2 m2 c2,
  reach st ->
  step st (OShow name ch1) = (st1, ObsShow out1 nf1 m1 c1) ->
  step st1 (OShow name ch2) = (st2, ObsShow out2 nf2 m2 c2) ->
  Permutation out2 out1 /\ nf2 = [] /\ m2 = m1 /\ c2 = c1.
Proof. exact show_idempotent. Qed.
Print Assumptions C14_show_idempotent.

(** Faults during SHOW.  SHOW persists in two steps: delta frames are appended to the store while the response
    streams, the catalog entry (with its own copy of the mark) is rewritten only after the response was written.
    [OShowFail]: the client hung up (or the process died) in between — any duplicate-free selection of the delta
    batches has been appended, the catalog entry is untouched ([C14_failed_show_state]).  Outside the known
    classes the invariant survives (the catalog mark never runs ahead of the store's, the next SHOW filters
    against the store's mark), so after a failed SHOW and any further good operations — STOREs, FLUSH,
    compaction, restart, more failed SHOWs — every SHOW again returns exactly the live selection, each event
    once. *)
Theorem C14_failed_show_then_show_exact : forall st name ch1 st1 ap m1 c1 ops st2 name2 ch2 st3 out nf m c,
  reach st -> good_op st (OShowFail name ch1) ->
  step st (OShowFail name ch1) = (st1, ObsShowFailed ap m1 c1) ->
  no_known st1 ops -> st2 = fold_left (fun s o => fst (step s o)) ops st1 ->
  step st2 (OShow name2 ch2) = (st3, ObsShow out nf m c) ->
  exists en, lookup name2 (st_entries st2) = Some en /\
    Permutation out (sel (n_q en) (st_layout st2)) /\ NoDup (map e_k out).
Proof. exact failed_show_then_show_exact. Qed.
Print Assumptions C14_failed_show_then_show_exact.

Theorem C14_failed_show_state : forall st name ch st' ap m c en,
  lookup name (st_entries st) = Some en ->
  step st (OShowFail name ch) = (st', ObsShowFailed ap m c) ->
  c = n_cat en /\ m = frames_mark (n_frames en ++ ap) /\
  lookup name (st_entries st') = Some (mkEntry (n_q en) (n_frames en ++ ap) (n_cat en)).
Proof. exact failed_show_state. Qed.
Print Assumptions C14_failed_show_state.

(** … but NOT for every interruption: if the aborted refresh appended a batch and left out one holding a row
    that is not above the appended batch's mark, that row is never delivered again. *)
Theorem C14_refuted_InterruptedRefresh : witness_of InterruptedRefresh w_interrupted.
Proof. exact show_eq_query_refuted_interrupted. Qed.
Print Assumptions C14_refuted_InterruptedRefresh.

(** the hypotheses are satisfiable: three failed SHOWs (nothing appended / whole delta appended / the older of two
    batches appended), catalog mark behind the store's mark, every later SHOW exact *)
Theorem C14_failed_show_example : no_known init ex_fail_ops /\
  map (fun o => match o with
                | ObsShow out _ m c => (map e_k out, m, c)
                | ObsShowFailed ap m c => (map e_k (concat ap), m, c)
                | _ => ([], (0, 0), (0, 0)) end) (run init ex_fail_ops)
  = [ ([], (0, 0), (0, 0)); ([], (0, 0), (0, 0)); ([], (10, 100), (10, 100)); ([], (0, 0), (0, 0));
      ([2], (11, 200), (10, 100)); ([1; 2], (11, 200), (10, 100)); ([], (0, 0), (0, 0));
      ([3], (12, 300), (10, 100)); ([1; 2; 3; 4], (13, 400), (13, 400)); ([1; 2; 3; 4], (13, 400), (13, 400)) ].
Proof. exact (conj ex_fail_no_known ex_fail_outputs). Qed.
Print Assumptions C14_failed_show_example.

(** Several remembered queries side by side (names are compared exactly; the model identifies a view by a number).
    Frame property: an operation on view [a] leaves the entry of every other view [b] — query, store (frames, hence
    the store's mark) and catalog mark — unchanged; for all histories; and what an operation on [a] answers and does to
    [a] depends on the layout and on [a]'s own entry only. *)
Theorem C14_frame_property : forall st o b, op_view o <> Some b ->
  lookup b (st_entries (fst (step st o))) = lookup b (st_entries st).
Proof. exact frame_property. Qed.
Print Assumptions C14_frame_property.

Theorem C14_frame_property_history : forall ops st b,
  (forall o, In o ops -> op_view o <> Some b) ->
  lookup b (st_entries (run_state st ops)) = lookup b (st_entries st).
Proof. exact frame_property_history. Qed.
Print Assumptions C14_frame_property_history.

Theorem C14_view_independent : forall st st' o a,
  op_view o = Some a ->
  st_layout st = st_layout st' ->
  lookup a (st_entries st) = lookup a (st_entries st') ->
  snd (step st o) = snd (step st' o) /\
  lookup a (st_entries (fst (step st o))) = lookup a (st_entries (fst (step st' o))).
Proof. exact view_independent. Qed.
Print Assumptions C14_view_independent.

(** three views (two WHERE constants over one type, one over another type), a rejected REMEMBER, a failed SHOW: no
    class, every SHOW the live selection of its OWN query *)
Theorem C14_several_views_example : no_known init ex_views_ops /\
  map (fun o => match o with ObsShow out _ _ _ => map e_k out | ObsRejected => [99] | ObsShowFailed ap _ _ => 77 :: map e_k (concat ap) | _ => [] end)
      (run init ex_views_ops)
  = [[]; []; []; []; [99]; []; [1; 4]; [77; 5]; [2]; [3; 5]; [1; 4]].
Proof. exact (conj ex_views_no_known ex_views_outputs). Qed.
Print Assumptions C14_several_views_example.

(** REMEMBER under an existing name is rejected and changes nothing; under a fresh name it is not rejected. *)
Theorem C14_remember_dup_rejected : forall st name q ch en,
  lookup name (st_entries st) = Some en -> step st (ORemember name q ch) = (st, ObsRejected).
Proof. exact remember_dup_rejected. Qed.
Print Assumptions C14_remember_dup_rejected.

Theorem C14_remember_fresh_accepted : forall st name q ch,
  lookup name (st_entries st) = None -> snd (step st (ORemember name q ch)) <> ObsRejected.
Proof. exact remember_fresh_accepted. Qed.
Print Assumptions C14_remember_fresh_accepted.

(** The full property — every SHOW of every history is an answer of the live query — is FALSE of the model
    (and of the code; each witness below was replayed on the real engine, corpus/C14): *)
Theorem C14_show_eq_query_refuted : exists ops, side_ok init ops = true /\ ~ shows_ok init ops.
Proof. exact show_eq_query_refuted. Qed.
Print Assumptions C14_show_eq_query_refuted.

(** one witness per class, in which no other class occurs and every arrival order is admissible *)
Theorem C14_refuted_PayloadTimeField_dup : witness_of PayloadTimeField w_payload_dup.
Proof. exact show_eq_query_refuted_payload_dup. Qed.
Print Assumptions C14_refuted_PayloadTimeField_dup.
Theorem C14_refuted_PayloadTimeField_lost : witness_of PayloadTimeField w_payload_lost.
Proof. exact show_eq_query_refuted_payload_lost. Qed.
Print Assumptions C14_refuted_PayloadTimeField_lost.
Theorem C14_refuted_PayloadTimeField_hidden : witness_of PayloadTimeField w_payload_hidden.
Proof. exact show_eq_query_refuted_payload_hidden. Qed.
Print Assumptions C14_refuted_PayloadTimeField_hidden.
Theorem C14_refuted_EventNotAboveMark : witness_of EventNotAboveMark w_same_ms.
Proof. exact show_eq_query_refuted_same_ms. Qed.
Print Assumptions C14_refuted_EventNotAboveMark.
Theorem C14_refuted_EventNotAboveMark_component_max : witness_of EventNotAboveMark w_component_max.
Proof. exact show_eq_query_refuted_component_max. Qed.
Print Assumptions C14_refuted_EventNotAboveMark_component_max.
Theorem C14_refuted_LimitNotReapplied : witness_of LimitNotReapplied w_limit.
Proof. exact show_eq_query_refuted_limit. Qed.
Print Assumptions C14_refuted_LimitNotReapplied.
Theorem C14_refuted_RawStreamDuplicates : witness_of RawStreamDuplicates w_window.
Proof. exact show_eq_query_refuted_window. Qed.
Print Assumptions C14_refuted_RawStreamDuplicates.
Theorem C14_refuted_SegmentOlderThanEvent : witness_of SegmentOlderThanEvent w_mtime.
Proof. exact show_eq_query_refuted_mtime. Qed.
Print Assumptions C14_refuted_SegmentOlderThanEvent.

(** The strongest true statement: outside the known classes (and with events only ever added and event ids
    non-zero, which are C01/C03/C05/C18's business) every SHOW of every history is an answer. *)
Theorem C14_show_eq_query_outside_known : forall ops st,
  reach st -> no_known st ops -> shows_ok st ops.
Proof. exact show_eq_query_outside_known. Qed.
Print Assumptions C14_show_eq_query_outside_known.

(** [good_op] is "no KnownClass" plus the two side conditions *)
Theorem C14_no_class_is_good : forall st o, (forall c, ~ KnownClass c st o) -> classes_of st o = [].
Proof. exact no_class_good. Qed.
Print Assumptions C14_no_class_is_good.

(** the hypotheses are satisfiable by a non-trivial history (two shards, flush, re-zoning, an event on the
    high-water second, WHERE / FOR / SINCE, a rejected second REMEMBER, four SHOWs) *)
Theorem C14_outside_known_example : no_known init ex_ops /\
  map (fun o => match o with ObsShow out _ _ _ => map e_k out | ObsRejected => [99] | _ => [] end) (run init ex_ops)
  = [[]; []; [99]; []; [1; 3]; []; [1; 3; 4]; [1; 3; 4]; []; [1; 3; 4; 6]].
Proof. exact (conj ex_no_known ex_outputs). Qed.
Print Assumptions C14_outside_known_example.
