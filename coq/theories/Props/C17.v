(** C17 — parsing and dispatch are total; the parser preserves structure.
    This file contains only the property theorems, each closed by [exact], with
    [Print Assumptions] beneath.  Models: Model/Tokenizer.v, Model/Parser.v, Model/Command.v,
    Model/Printer.v; proofs: Proofs/ParserBasics.v, ExprRoundTrip.v, FuelProofs.v,
    ParserProofs.v, CommandProofs.v, TotalityProofs.v, PanicProofs.v, QueryRoundTrip.v,
    TokenizerProofs.v, LexProofs.v, CommandRoundTrip.v, CostProofs.v,
    ExprRoundTripG.v, PlotProofs.v, PlotRoundTrip.v (PLOT: Model/PlotQL.v), JsonProofs.v (HTTP JSON
    commands: Model/JsonCommand.v). *)
From Coq Require Import NArith ZArith List Bool.
From Snel Require Import Base.Bytes Gen.Params Model.Tokenizer Model.Parser Model.PlotQL Model.Command Model.Printer Model.JsonCommand
  Proofs.ExprRoundTrip Proofs.FuelProofs Proofs.ParserProofs Proofs.CommandProofs
  Proofs.TotalityProofs Proofs.PanicProofs Proofs.QueryRoundTrip 
  Proofs.TokenizerProofs Proofs.CommandRoundTrip Proofs.CostProofs Proofs.PlotRoundTrip Proofs.JsonProofs.
Import ListNotations.
Open Scope N_scope.

(** Printing any well-formed WHERE expression (identifiers that are not keyword-prefixed,
    strings without a quote, numbers in range) and parsing the text again yields the same
    expression — for the grammar as it is ([fx = false]) and for the repaired one, and for
    every letter-casing [sp] of the keywords. *)
Theorem C17_parse_print_expr : forall fx sp e, speller_ok sp -> wf_expr e = true ->
  parse_expr fx (print_expr sp e) = Ok e.
Proof. exact parse_print_expr. Qed.
Print Assumptions C17_parse_print_expr.

(** The well-formedness side condition cannot be dropped: [not_found] is an identifier of the
    grammar, yet [not_found = 1] is read as NOT ([_found = 1]). *)
Theorem C17_parse_print_expr_refuted :
  ident_syntax [110; 111; 116; 95; 102; 111; 117; 110; 100] = true /\
  parse_expr false (print_expr (fun w => w) kw_prefixed_witness)
  = Ok (ENot (ECmp [95; 102; 111; 117; 110; 100] OpEq (VInt 1))).
Proof. exact parse_print_expr_refuted. Qed.
Print Assumptions C17_parse_print_expr_refuted.

(** NOT binds tighter than AND, AND tighter than OR, parentheses override, chains nest to the
    right: for all well-formed non-AND/OR expressions a, b, c (printed at factor level). *)
Theorem C17_precedence : forall fx sp, speller_ok sp -> forall a b c,
  wf_expr a = true -> wf_expr b = true -> wf_expr c = true ->
  is_factor a = true -> is_factor b = true -> is_factor c = true ->
  let A := print_expr_at sp 2 a in let B := print_expr_at sp 2 b in let C := print_expr_at sp 2 c in
  let AND := 32 :: sp K_AND ++ [32] in let OR := 32 :: sp K_OR ++ [32] in let NOT := sp K_NOT ++ [32] in
  parse_expr fx (A ++ OR ++ B ++ AND ++ C) = Ok (EOr a (EAnd b c)) /\
  parse_expr fx (A ++ AND ++ B ++ OR ++ C) = Ok (EOr (EAnd a b) c) /\
  parse_expr fx (NOT ++ A ++ AND ++ B) = Ok (EAnd (ENot a) b) /\
  parse_expr fx (NOT ++ A ++ OR ++ B) = Ok (EOr (ENot a) b) /\
  parse_expr fx (40 :: A ++ OR ++ B ++ 41 :: AND ++ C) = Ok (EAnd (EOr a b) c) /\
  parse_expr fx (NOT ++ 40 :: A ++ AND ++ B ++ [41]) = Ok (ENot (EAnd a b)) /\
  parse_expr fx (A ++ AND ++ B ++ AND ++ C) = Ok (EAnd a (EAnd b c)) /\
  parse_expr fx (A ++ OR ++ B ++ OR ++ C) = Ok (EOr a (EOr b c)) /\
  parse_expr fx (40 :: A ++ AND ++ B ++ 41 :: AND ++ C) = Ok (EAnd (EAnd a b) c).
Proof. exact precedence_all. Qed.
Print Assumptions C17_precedence.

(** Keywords are case-insensitive: two spellings that differ only in letter case parse alike. *)
Theorem C17_keywords_ci : forall fx sp sp' e, speller_ok sp -> speller_ok sp' -> wf_expr e = true ->
  parse_expr fx (print_expr sp e) = parse_expr fx (print_expr sp' e).
Proof. exact keywords_ci. Qed.
Print Assumptions C17_keywords_ci.

(** The same for the FILTER expressions of PLOT, whose grammar (plotql.rs) is a second copy of the
    or / and / factor rules over its own leaves (comparisons and non-empty IN lists over hyphen-free
    non-keyword identifiers): print-then-parse is the identity, for every keyword casing ... *)
Theorem C17_plot_parse_print_expr : forall sp e, speller_ok sp -> wf_pexpr e = true ->
  plot_filter (print_expr sp e) = Ok e.
Proof. exact plot_parse_print_expr. Qed.
Print Assumptions C17_plot_parse_print_expr.

(** ... and NOT > AND > OR, parentheses, right-nesting hold there as well. *)
Theorem C17_plot_precedence : forall sp, speller_ok sp -> forall a b c,
  wf_pexpr a = true -> wf_pexpr b = true -> wf_pexpr c = true ->
  is_factor a = true -> is_factor b = true -> is_factor c = true ->
  let A := print_expr_at sp 2 a in let B := print_expr_at sp 2 b in let C := print_expr_at sp 2 c in
  let AND := 32 :: sp K_AND ++ [32] in let OR := 32 :: sp K_OR ++ [32] in let NOT := sp K_NOT ++ [32] in
  plot_filter (A ++ OR ++ B ++ AND ++ C) = Ok (EOr a (EAnd b c)) /\
  plot_filter (A ++ AND ++ B ++ OR ++ C) = Ok (EOr (EAnd a b) c) /\
  plot_filter (NOT ++ A ++ AND ++ B) = Ok (EAnd (ENot a) b) /\
  plot_filter (NOT ++ A ++ OR ++ B) = Ok (EOr (ENot a) b) /\
  plot_filter (40 :: A ++ OR ++ B ++ 41 :: AND ++ C) = Ok (EAnd (EOr a b) c) /\
  plot_filter (NOT ++ 40 :: A ++ AND ++ B ++ [41]) = Ok (ENot (EAnd a b)) /\
  plot_filter (A ++ AND ++ B ++ AND ++ C) = Ok (EAnd a (EAnd b c)) /\
  plot_filter (A ++ OR ++ B ++ OR ++ C) = Ok (EOr a (EOr b c)) /\
  plot_filter (40 :: A ++ AND ++ B ++ 41 :: AND ++ C) = Ok (EAnd (EAnd a b) c).
Proof. exact plot_precedence_all. Qed.
Print Assumptions C17_plot_precedence.

(** Printing any well-formed Query command (event sequence, FOR, SINCE, USING, USING TIME, WHERE,
    RETURN, LINKED BY, aggregates, PER, BY, ORDER BY, LIMIT, OFFSET) and parsing the text with
    the QUERY grammar yields the same command, in both modes and for every keyword casing. *)
Theorem C17_parse_print_query : forall fx sp, speller_ok sp -> forall q, wf_query q = true ->
  parse_query fx (print_query sp q) = Ok q.
Proof. exact parse_print_query. Qed.
Print Assumptions C17_parse_print_query.

(** The same through the public entry point: trim is the identity on the printed text, the
    tokenizer finds no invalid character (strings without backslash), the first word selects the
    QUERY grammar. *)
Theorem C17_parse_print_command : forall fx sp q, speller_ok sp -> wf_query q = true -> clean_query q = true ->
  parse_command fx (print_query sp q) = POk (CQuery q).
Proof. exact parse_print_command. Qed.
Print Assumptions C17_parse_print_command.

(** The model of parse_command is total for the right reason: the fuel its entry points
    supply never runs out, on any input, in either mode. *)
Theorem C17_fuel_enough :
  (forall fx s, parse_command fx s <> POOF) /\
  (forall f s, (length s <= f)%nat -> tokenize_fuel f s = tokenize s).
Proof. exact (conj parse_command_fuel_enough tokenize_fuel_enough). Qed.
Print Assumptions C17_fuel_enough.

(** Parsing is total on the model of the code as it is now (57cd0c4: the numeric conversions in
    limit_clause / offset_clause / number are fallible grammar actions; the translator reads that
    from query.rs): for every input, parse_command returns a command, an error, or one of the two
    "not modelled" answers - never a panic, never out of fuel.  (Before the repair this was refuted
    by four witnesses and held only outside a known class of out-of-range numerals.) *)
Theorem C17_parse_total : forall s,
  (forall k, parse_command_cur s <> PPanic k) /\ parse_command_cur s <> POOF.
Proof. exact (fun s => conj (parse_never_panics s) (parse_command_fuel_enough _ s)). Qed.
Print Assumptions C17_parse_total.

(** Out-of-range numerals are parse errors (the former panic witnesses), their in-range neighbours parse. *)
Theorem C17_numeric_limits :
  (parse_command_cur txt_limit = PErr /\ parse_command_cur txt_offset = PErr /\
   parse_command_cur txt_int = PErr /\ parse_command_cur txt_float = PErr) /\
  (exists q, parse_command_cur [81;85;69;82;89;32;101;32;76;73;77;73;84;32;52;50;57;52;57;54;55;50;57;53] = POk (CQuery q)
             /\ q_limit q = Some 4294967295) /\
  (exists q, parse_command_cur [81;85;69;82;89;32;101;32;87;72;69;82;69;32;120;32;61;32;45;57;50;50;51;51;55;50;48;51;54;56;53;52;55;55;53;56;48;56]
             = POk (CQuery q) /\ q_where q = Some (ECmp [120] OpEq (VInt (-9223372036854775808)))).
Proof. exact (conj former_witnesses_rejected limits_accepted). Qed.
Print Assumptions C17_numeric_limits.

(** STORE: braces inside string literals are data (fced25a).  A one-member object whose key and value
    are string literals without quote or backslash is matched as one block whatever braces the strings
    contain, with any text after it. *)
Theorem C17_store_string_braces : forall k v rest, clean_json_str k = true -> clean_json_str v = true ->
  balanced_braces (member_block k v ++ rest) = Some (member_block k v, rest).
Proof. exact store_block_with_string. Qed.
Print Assumptions C17_store_string_braces.

(** No exponential witness (04c7300).  In the form the Rust text is in (read by the translator: operands
    parsed once, '{' not among the plain characters of balanced_braces) the number of factor /
    balanced_braces invocations on the former witness families - nested parentheses (closed and one
    short), NOT chains, parenthesised NOT chains, AND and OR chains up to depth 200, unclosed / closed /
    one-short braces up to 1000 - is at most 2*length+2 resp. length+1, and the literal brace rule agrees
    with the model's depth counter on them.  (In the re-parsing form the same families cost 4^depth and
    2^n: CostProofs.reparsing_was_exponential.  A linear bound for all inputs is not proved; on the
    implementation the criterion is the per-case time budget of the probe.) *)
Theorem C17_no_exponential_witness :
  forallb (fun d => linear_expr expr_grammar_reparses (fam_paren d)
                    && linear_expr expr_grammar_reparses (fam_paren_open d)
                    && linear_expr expr_grammar_reparses (fam_not d)
                    && linear_expr expr_grammar_reparses (fam_not_paren d)
                    && linear_expr expr_grammar_reparses (fam_and d)
                    && linear_expr expr_grammar_reparses (fam_or d)) depths = true /\
  forallb (fun n => linear_braces store_brace_rescans (fam_braces n)
                    && linear_braces store_brace_rescans (fam_braces_closed n)
                    && linear_braces store_brace_rescans (fam_braces_short n)) (depths ++ [34; 1000]%nat) = true /\
  forallb (fun n => bb_agrees (fam_braces n) && bb_agrees (fam_braces_closed n) && bb_agrees (fam_braces_short n))
          (depths ++ [34]%nat) = true.
Proof. exact no_exponential_witness. Qed.
Print Assumptions C17_no_exponential_witness.

(** The HTTP JSON form of a query: the operand list of an and / or object is joined without losing,
    duplicating or reordering an operand, for a list of any length. [and_operands n e] reads the operands
    back off a left-nested chain of n connectives; [leaves] lists the comparisons of an expression. *)
Theorem C17_json_join_keeps_operands : forall xs e,
  (join EAnd xs = Some e -> and_operands (length xs - 1) e = xs /\ leaves e = flat_map leaves xs) /\
  (join EOr xs = Some e -> or_operands (length xs - 1) e = xs /\ leaves e = flat_map leaves xs) /\
  (join EAnd xs = None <-> xs = []).
Proof. exact join_keeps_operands. Qed.
Print Assumptions C17_json_join_keeps_operands.

(** ... and through the modelled conversion itself: an object holding only an and (only an or) array whose
    elements convert to the non-empty list xs converts to the chain whose operands are exactly xs. *)
Theorem C17_json_logical_keeps_operands : forall f js xs,
  xs <> [] -> jall (map (conv_expr f) js) = JOk xs ->
  (exists e, conv_expr (S f) (JObj [(S_and, JArr js)]) = JOk e /\
             and_operands (length xs - 1) e = xs /\ leaves e = flat_map leaves xs) /\
  (exists e, conv_expr (S f) (JObj [(S_or, JArr js)]) = JOk e /\
             or_operands (length xs - 1) e = xs /\ leaves e = flat_map leaves xs).
Proof. exact conv_logical_keeps_operands. Qed.
Print Assumptions C17_json_logical_keeps_operands.

(** Dispatch: some variant of Command has no arm (Batch) ... *)
Theorem C17_dispatch_refuted :
  (exists k, In k all_kinds /\ dispatch_handled k = false) /\
  (parse_command_cur [66;65;84;67;72;32;91;32;80;73;78;71;32;93] = POk (CBatch [CPing]) /\
   dispatch_handled (kind_of (CBatch [CPing])) = false).       (* BATCH [ PING ] *)
Proof. exact (conj dispatch_refuted dispatch_refuted_parsed). Qed.
Print Assumptions C17_dispatch_refuted.

(** ... and it is the only one; every command returned by the modelled parsers, except a batch, has an arm. *)
Theorem C17_dispatch_outside_known :
  (forall k, k <> KBatch -> dispatch_handled k = true) /\
  (forall fx s c, parse_command fx s = POk c -> is_batch c = false -> dispatch_handled (kind_of c) = true).
Proof. exact (conj dispatch_others_handled parsed_commands_dispatched). Qed.
Print Assumptions C17_dispatch_outside_known.
