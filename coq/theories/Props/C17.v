(** C17 — parsing and dispatch are total; the parser preserves structure.
    This file contains only the property theorems, each closed by [exact], with
    [Print Assumptions] beneath.  Models: Model/Tokenizer.v, Model/Parser.v, Model/Command.v,
    Model/Printer.v; proofs: Proofs/ParserBasics.v, ExprRoundTrip.v, FuelProofs.v,
    ParserProofs.v, CommandProofs.v, TotalityProofs.v, PanicProofs.v, QueryRoundTrip.v,
    KnownClassProofs.v, TokenizerProofs.v, LexProofs.v, CommandRoundTrip.v. *)
From Coq Require Import NArith ZArith List Bool.
From Snel Require Import Base.Bytes Model.Tokenizer Model.Parser Model.Command Model.Printer
  Proofs.ExprRoundTrip Proofs.FuelProofs Proofs.ParserProofs Proofs.CommandProofs
  Proofs.TotalityProofs Proofs.PanicProofs Proofs.QueryRoundTrip Proofs.KnownClassProofs
  Proofs.TokenizerProofs Proofs.CommandRoundTrip.
Import ListNotations.
Open Scope N_scope.

(** Printing any well-formed WHERE expression (identifiers that are not keyword-prefixed,
    strings without a quote, numbers in range) and parsing the text again yields the same
    expression — for the grammar as it is ([fx = false]) and for the repaired one, and for
    every letter-casing [sp] of the keywords. *)
Theorem C17_parse_print_expr : forall fx sp e, speller_ok sp -> wf_expr e = true ->
  parse_expr fx (print_expr sp e) = Ok e.
Proof. exact parse_print_expr. Qed.
Print Assumptions C17_parse_print_expr.

(** The well-formedness side condition cannot be dropped: [not_found] is an identifier of the
    grammar, yet [not_found = 1] is read as NOT ([_found = 1]). *)
Theorem C17_parse_print_expr_refuted :
  ident_syntax [110; 111; 116; 95; 102; 111; 117; 110; 100] = true /\
  parse_expr false (print_expr (fun w => w) kw_prefixed_witness)
  = Ok (ENot (ECmp [95; 102; 111; 117; 110; 100] OpEq (VInt 1))).
Proof. exact parse_print_expr_refuted. Qed.
Print Assumptions C17_parse_print_expr_refuted.

(** NOT binds tighter than AND, AND tighter than OR, parentheses override, chains nest to the
    right: for all well-formed non-AND/OR expressions a, b, c (printed at factor level). *)
Theorem C17_precedence : forall fx sp, speller_ok sp -> forall a b c,
  wf_expr a = true -> wf_expr b = true -> wf_expr c = true ->
  is_factor a = true -> is_factor b = true -> is_factor c = true ->
  let A := print_expr_at sp 2 a in let B := print_expr_at sp 2 b in let C := print_expr_at sp 2 c in
  let AND := 32 :: sp K_AND ++ [32] in let OR := 32 :: sp K_OR ++ [32] in let NOT := sp K_NOT ++ [32] in
  parse_expr fx (A ++ OR ++ B ++ AND ++ C) = Ok (EOr a (EAnd b c)) /\
  parse_expr fx (A ++ AND ++ B ++ OR ++ C) = Ok (EOr (EAnd a b) c) /\
  parse_expr fx (NOT ++ A ++ AND ++ B) = Ok (EAnd (ENot a) b) /\
  parse_expr fx (NOT ++ A ++ OR ++ B) = Ok (EOr (ENot a) b) /\
  parse_expr fx (40 :: A ++ OR ++ B ++ 41 :: AND ++ C) = Ok (EAnd (EOr a b) c) /\
  parse_expr fx (NOT ++ 40 :: A ++ AND ++ B ++ [41]) = Ok (ENot (EAnd a b)) /\
  parse_expr fx (A ++ AND ++ B ++ AND ++ C) = Ok (EAnd a (EAnd b c)) /\
  parse_expr fx (A ++ OR ++ B ++ OR ++ C) = Ok (EOr a (EOr b c)) /\
  parse_expr fx (40 :: A ++ AND ++ B ++ 41 :: AND ++ C) = Ok (EAnd (EAnd a b) c).
Proof. exact precedence_all. Qed.
Print Assumptions C17_precedence.

(** Keywords are case-insensitive: two spellings that differ only in letter case parse alike. *)
Theorem C17_keywords_ci : forall fx sp sp' e, speller_ok sp -> speller_ok sp' -> wf_expr e = true ->
  parse_expr fx (print_expr sp e) = parse_expr fx (print_expr sp' e).
Proof. exact keywords_ci. Qed.
Print Assumptions C17_keywords_ci.

(** Printing any well-formed Query command (event sequence, FOR, SINCE, USING, USING TIME, WHERE,
    RETURN, LINKED BY, aggregates, PER, BY, ORDER BY, LIMIT, OFFSET) and parsing the text with
    the QUERY grammar yields the same command, in both modes and for every keyword casing. *)
Theorem C17_parse_print_query : forall fx sp, speller_ok sp -> forall q, wf_query q = true ->
  parse_query fx (print_query sp q) = Ok q.
Proof. exact parse_print_query. Qed.
Print Assumptions C17_parse_print_query.

(** The same through the public entry point: trim is the identity on the printed text, the
    tokenizer finds no invalid character (strings without backslash), the first word selects the
    QUERY grammar. *)
Theorem C17_parse_print_command : forall fx sp q, speller_ok sp -> wf_query q = true -> clean_query q = true ->
  parse_command fx (print_query sp q) = POk (CQuery q).
Proof. exact parse_print_command. Qed.
Print Assumptions C17_parse_print_command.

(** The model of parse_command is total for the right reason: the fuel its entry points
    supply never runs out, on any input, in either mode. *)
Theorem C17_fuel_enough :
  (forall fx s, parse_command fx s <> POOF) /\
  (forall f s, (length s <= f)%nat -> tokenize_fuel f s = tokenize s).
Proof. exact (conj parse_command_fuel_enough tokenize_fuel_enough). Qed.
Print Assumptions C17_fuel_enough.

(** Totality is false of the grammar as it is: each of the four unchecked conversions panics. *)
Theorem C17_panic_refuted :
  parse_command false txt_limit = PPanic SiteLimit /\
  parse_command false txt_offset = PPanic SiteOffset /\
  parse_command false txt_int = PPanic SiteInt /\
  parse_command false txt_float = PPanic SiteFloat.
Proof. exact panic_refuted. Qed.
Print Assumptions C17_panic_refuted.

(** ... and nothing else does: with the four conversions made fallible (fixes/C17-numeric-terminals.diff)
    the parser never panics, on any input ... *)
Theorem C17_fixed_never_panics : forall s k, parse_command true s <> PPanic k.
Proof. exact fixed_never_panics. Qed.
Print Assumptions C17_fixed_never_panics.

(** ... and returns exactly what the present grammar returns wherever that one does not panic. *)
Theorem C17_fixed_agrees : forall s, (forall k, parse_command false s <> PPanic k) ->
  parse_command true s = parse_command false s.
Proof. exact fixed_agrees. Qed.
Print Assumptions C17_fixed_agrees.

(** Outside the known class the grammar as it is does not panic either: if at no position of
    the input starts LIMIT/OFFSET followed by an integer outside u32, nor a numeral that [number]
    would convert and that is outside i64 / overflows f64 ([has_bad], decidable), the QUERY
    grammar returns a command or an error; and every panic of parse_command is such a panic. *)
Theorem C17_no_panic_outside_known :
  (forall s, has_bad s = false -> forall k, parse_query false s <> Panic k) /\
  (forall s k, parse_command false s = PPanic k -> exists q, has_bad q = true /\ parse_query false q = Panic k).
Proof. exact (conj no_panic_outside_known command_panic_in_known). Qed.
Print Assumptions C17_no_panic_outside_known.

(** The known classes at the conversions: each one panics exactly on its out-of-range texts. *)
Theorem C17_panic_classes : forall neg d,
  (conv_u32 false SiteLimit neg d = Panic SiteLimit <-> LimitOutOfU32 neg d) /\
  (conv_u32 false SiteOffset neg d = Panic SiteOffset <-> OffsetOutOfU32 neg d) /\
  (conv_i64 false neg d = Panic SiteInt <-> IntLiteralOutOfI64 neg d).
Proof. exact (fun neg d => conj (conv_u32_panics_iff SiteLimit neg d) (conj (conv_u32_panics_iff SiteOffset neg d) (conv_i64_panics_iff neg d))). Qed.
Print Assumptions C17_panic_classes.

(** Dispatch: some variant of Command has no arm (Batch) ... *)
Theorem C17_dispatch_refuted : exists k, In k all_kinds /\ dispatch_handled k = false.
Proof. exact dispatch_refuted. Qed.
Print Assumptions C17_dispatch_refuted.

(** ... and it is the only one; every command returned by the modelled parsers has an arm. *)
Theorem C17_dispatch_outside_known :
  (forall k, k <> KBatch -> dispatch_handled k = true) /\
  (forall fx s c, parse_command fx s = POk c -> dispatch_handled (kind_of c) = true).
Proof. exact (conj dispatch_others_handled parsed_commands_dispatched). Qed.
Print Assumptions C17_dispatch_outside_known.
