(** C02 — a query returns exactly the matching events, wherever they are stored.
    Only the property theorems, each closed by [exact], with [Print Assumptions] beneath.
    Models: Model/{Value,Expr,Sem,Cond,Prune,Layout,Known}.v; proofs: Proofs/QueryProofs.v.

    [run_query sch ans L q] is what the model of the query path returns from layout [L] (memtable
    rows + segments of zones) when the pruning structure of segment [i] answers [ans i leaf];
    [sat_query sch q] is the specification (Model/Sem.v); [known_class] is the decidable description
    of the known failing inputs (Model/Known.v). *)
From Coq Require Import ZArith NArith List Bool Permutation.
From Snel Require Import Base.Bytes Model.Value Model.Expr Model.Sem Model.Cond Model.Prune Model.Layout
  Model.Known Proofs.QueryProofs.
Import ListNotations.

(** Zone collection over a NOT-free filter tree: if every leaf lists zone [z] whenever [z] holds a
    row satisfying that leaf, the AND/OR combination lists [z] whenever it holds a row satisfying the
    whole tree — for any tree, any structure answers, any zone. *)
Theorem C02_collect_zones_sound_notfree : forall sch ans all g z (rows : list row),
  fg_not_free g = true ->
  (forall l, In l (fg_leaves g) ->
             (exists r, In r rows /\ leaf_sat sch l r = true) ->
             cmem z (leaf_zones sch ans all l) = true) ->
  (exists r, In r rows /\ fg_sat sch g r = true) ->
  cmem z (collect sch ans all false g) = true.
Proof. exact collect_zones_sound_notfree. Qed.
Print Assumptions C02_collect_zones_sound_notfree.

(** The zone complement used for NOT is not a superset: a zone holding a = 1 and a = 2, an exact
    leaf answer for [a = 1], and [NOT a = 1] — the zone is dropped although its second row matches. *)
Theorem C02_collect_zones_not_refuted :
  (forall l, In l (fg_leaves (FNot (FLeaf nf_leaf))) ->
             (exists r, In r nf_rows /\ leaf_sat nf_schema l r = true) ->
             cmem 0%N (leaf_zones nf_schema nf_ans [0%N] l) = true) /\
  (exists r, In r nf_rows /\ fg_sat nf_schema (FNot (FLeaf nf_leaf)) r = true) /\
  cmem 0%N (collect nf_schema nf_ans [0%N] false (FNot (FLeaf nf_leaf))) = false.
Proof. exact collect_zones_not_refuted. Qed.
Print Assumptions C02_collect_zones_not_refuted.

(** The property as stated is false of the model (hence of the code, see the replayed witnesses):
    a well-typed query over conforming rows and sound (ideal) pruning structures whose answer is not
    the multiset of matching events. *)
Theorem C02_exact_refuted : exists sch ans L q,
  conforming sch L = true /\ wt_query sch q = true /\ leaves_sound sch ans L q = true /\
  ~ Permutation (run_query sch ans L q) (filter (sat_query sch q) (events L)).
Proof. exact exact_refuted. Qed.
Print Assumptions C02_exact_refuted.

(** One closed witness per remaining known class (well-typed query, conforming rows,
    [known_class] = the class, answer different from the matching events), plus a leaf answer that is
    not a superset.  (Retired in the fix round: the witnesses of FloatColumn, BoolColumn, NeqPruned,
    EnumUnknownVariant, TemporalNegativeLiteral and MixedZoneProvenance — see
    [C02_repaired_findings_exact].) *)
Theorem C02_known_classes_witnessed :
  witness (Some NotComplement) (w_ideal w_seg) w_seg (qw (ENot (ECmp n_a CEq (LInt 1)))) /\
  witness (Some LiteralDropped) (w_ideal w_mem) w_mem (qw (ECmp n_a CGt (LFloat f_1_5 s_1_5))) /\
  witness (Some LiteralDropped) (w_ideal w_seg) w_seg (qw (ECmp n_a CGt (LFloat f_1_5 s_1_5))) /\
  witness (Some FloatColumnIn) (w_ideal w_f2) w_f2 (qw (EIn n_f [LInt 2])) /\
  witness (Some FloatThresholdRounded) (w_ideal w_f53) w_f53 (qw (ECmp n_f CLt (LInt 9007199254740993))) /\
  witness (Some U64NegativeThreshold) (w_ideal w_seg) w_seg (qw (ECmp n_u CGt (LInt (-1)))) /\
  witness (Some U64NegativeThreshold) (w_ideal w_seg) w_seg (qw (ECmp n_u CNe (LInt (-1)))) /\
  witness (Some U64AboveI64Max) (w_ideal w_big) w_big (qw (ECmp n_u CGt (LInt 0))) /\
  witness (Some NumericLookingString) (w_ideal w_mem) w_mem (qw (ECmp n_s CEq (LStr s_007))) /\
  witness (Some StringOrdering) (w_ideal w_mem) w_mem (qw (ECmp n_s CGt (LStr s_p))) /\
  witness (Some NullSpelling) (w_ideal w_mem) w_mem (qw (ECmp n_os CEq (LStr b_null))) /\
  witness (Some NeqOnOptionalText) (w_ideal w_mem) w_mem (qw (ECmp n_os CNe (LStr s_zzz))) /\
  witness (Some NeqOnOptionalText) (w_ideal w_seg) w_seg (qw (ECmp n_os CNe (LStr s_zzz))) /\
  (witness None (fun _ _ => Some []) w_seg (qw (ECmp n_a CEq (LInt 1))) /\
   leaves_sound w_sch (fun _ _ => Some []) w_seg (qw (ECmp n_a CEq (LInt 1))) = false).
Proof.
  exact (conj w_not (conj w_dropped (conj w_dropped_seg (conj w_float_in (conj w_float_round
        (conj w_u64neg (conj w_u64neg_ne (conj w_u64big (conj w_numstr (conj w_strord (conj w_nullsp
        (conj w_neq_opt (conj w_neq_opt_seg w_unsound))))))))))))).
Qed.
Print Assumptions C02_known_classes_witnessed.

(** The repaired findings: the former witnesses of FloatColumn (memory and flushed), BoolColumn,
    NeqPruned, EnumUnknownVariant, TemporalNegativeLiteral and MixedZoneProvenance are now outside
    every known class and answered exactly. *)
Theorem C02_repaired_findings_exact :
  exact_on (w_ideal w_mem) w_mem (qw (ECmp n_f CGt (LInt 1))) /\
  exact_on (w_ideal w_seg) w_seg (qw (ECmp n_f CGt (LInt 1))) /\
  exact_on (w_ideal w_seg) w_seg (qw (ECmp n_b CEq (LStr b_true))) /\
  exact_on (w_ideal w_seg) w_seg (qw (ECmp n_a CNe (LInt 1))) /\
  exact_on (w_ideal w_seg) w_seg (qw (ECmp n_e CNe (LStr s_zzz))) /\
  exact_on (w_ideal w_seg) w_seg (qw (ECmp n_d CGt (LInt (-5)))) /\
  exact_on w_mixed_ans w_two (qw (ECmp n_oi CGe (LInt 0))).
Proof. exact repaired_exact. Qed.
Print Assumptions C02_repaired_findings_exact.

(** Since /repo d4c8eed the provenance of a candidate zone no longer decides whether it is read. *)
Theorem C02_mixed_provenance_gone : forall sch ans L q, mixed_provenance sch ans L q = false.
Proof. exact mixed_provenance_gone. Qed.
Print Assumptions C02_mixed_provenance_gone.

(** The strongest true statement — stronger than before the fix round: float and bool fields, [!=]
    on every field kind, unknown enum variants, negative instants and any mixture of candidate-zone
    provenance are now INSIDE the exact fragment.  For EVERY schema, layout (any number of in-memory
    rows, segments, zones, zone sizes), structure answers and query (FOR + WHERE with =, !=, <, <=, >,
    >=, IN, AND, OR) outside the remaining known classes whose leaves are supersets (C08), QUERY returns
    exactly the stored events that satisfy the specification — as a list, in storage order. *)
Theorem C02_exact_outside_known : forall sch ans L q,
  (forall ev, In ev (events L) -> row_conforms sch (ev_row ev) = true) ->
  known_class sch (events L) q = None ->
  leaves_sound sch ans L q = true ->
  run_query sch ans L q = filter (sat_query sch q) (events L).
Proof. exact exact_outside_known. Qed.
Print Assumptions C02_exact_outside_known.

(** Layout independence there: two layouts holding the same multiset of events give the same
    multiset of answers (memory, flushed, compacted, recovered: only the layout differs). *)
Theorem C02_layout_independent : forall sch ans1 ans2 L1 L2 q,
  Permutation (events L1) (events L2) ->
  (forall ev, In ev (events L1) -> row_conforms sch (ev_row ev) = true) ->
  known_class sch (events L1) q = None ->
  leaves_sound sch ans1 L1 q = true ->
  leaves_sound sch ans2 L2 q = true ->
  Permutation (run_query sch ans1 L1 q) (run_query sch ans2 L2 q).
Proof. exact layout_independent. Qed.
Print Assumptions C02_layout_independent.

(** The hypotheses are satisfiable on a layout with rows in memory and in two segments, a zone that
    mixes matching and non-matching rows, ideal structures, and a compound predicate with FOR, AND,
    OR, IN, an unknown enum variant, a negative number on a u64 field, a float comparison, a bool
    equality and [!=] on an int and an enum field (4 of 6 rows match). *)
Theorem C02_outside_known_example :
  (forall ev, In ev (events ex_L) -> row_conforms w_sch (ev_row ev) = true) /\
  known_class w_sch (events ex_L) ex_q = None /\
  leaves_sound w_sch (w_ideal ex_L) ex_L ex_q = true /\
  wt_query w_sch ex_q = true /\
  length (run_query w_sch (w_ideal ex_L) ex_L ex_q) = 4 /\ length (events ex_L) = 6.
Proof. exact outside_known_example. Qed.
Print Assumptions C02_outside_known_example.

(** … and so are those of layout independence (the same events kept in memory only). *)
Theorem C02_layout_independent_example :
  Permutation (events ex_L) (events ex_L_mem) /\
  leaves_sound w_sch (w_ideal ex_L_mem) ex_L_mem ex_q = true /\
  length (run_query w_sch (w_ideal ex_L_mem) ex_L_mem ex_q) = 4.
Proof. exact layout_independent_example. Qed.
Print Assumptions C02_layout_independent_example.
