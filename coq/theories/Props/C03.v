(** C03 — reads see every applied write exactly once at every stage of its flush.
    This file contains only the property theorems, each closed by [exact],
    with [Print Assumptions] beneath.  Model: Model/Shard.v (validated against
    the engine by trace validation); proofs: Proofs/ShardC03Proofs.v.

    Setting: [s := run (init c) ls] for ANY label list [ls] without
    [LCrash]/[LRestart] ([no_crash ls]) — any interleaving of stores, WAL thread
    steps, manual flushes and flush-worker stage labels, any number of queued
    rotations, any capacity [c] — with [applied ls] the events of the [LStore]
    labels in order, under unique event ids [NoDup (map ek (applied ls))] (C18). *)
From Coq Require Import NArith List Bool Permutation.
From Snel Require Import Model.Shard Proofs.ShardC03Proofs.
Import ListNotations.
Open Scope N_scope.

(** A selection returns every applied event of the type exactly once, at every
    reachable state of a crash-free history. *)
Theorem C03_select_exact : forall c ls u,
  no_crash ls -> NoDup (map ek (applied ls)) ->
  Permutation (select (run (init c) ls) u) (of_uid u (applied ls)).
Proof. exact select_exact. Qed.
Print Assumptions C03_select_exact.

(** Read-your-writes: an applied event is returned by the selection of its type. *)
Theorem C03_read_your_writes : forall c ls e,
  no_crash ls -> NoDup (map ek (applied ls)) ->
  In e (applied ls) -> In e (select (run (init c) ls) (euid e)).
Proof. exact read_your_writes. Qed.
Print Assumptions C03_read_your_writes.

(** Known finding ReadDuringFlushDropsSegmentFlow (confirmed on the engine): while a
    segment carries the in-flight marker and has no files of the queried type, a
    possible outcome of the read is the in-memory rows only; an applied event of a
    complete, published segment is then missing. *)
Theorem C03_fragile_outcome_refuted :
  exists c ls u e,
    let s := run (init c) ls in
    no_crash ls /\ NoDup (map ek (applied ls)) /\
    ReadDuringFlushDropsSegmentFlow s u = true /\
    In e (applied ls) /\ euid e = u /\
    In (select_mem_only s u) (select_outcomes s u) /\ ~ In e (select_mem_only s u).
Proof. exact fragile_outcome_refuted. Qed.
Print Assumptions C03_fragile_outcome_refuted.

(** Outside that class the read has one possible outcome, and it is exact. *)
Theorem C03_outcomes_exact_outside_known : forall c ls u,
  no_crash ls -> NoDup (map ek (applied ls)) ->
  let s := run (init c) ls in
  ReadDuringFlushDropsSegmentFlow s u = false ->
  select_outcomes s u = [select s u] /\
  forall r, In r (select_outcomes s u) -> Permutation r (of_uid u (applied ls)).
Proof. exact outcomes_exact_outside_known. Qed.
Print Assumptions C03_outcomes_exact_outside_known.

(** COUNT differs from the number of selected events in one known class, CountDuringFlush: between
    FwPublish and FwClear the rotated events are in the passive copy and in the published segment and are
    counted twice.  (The former class CountIgnoresTypeInMemory - memory holds an event of another type - is
    repaired by fix dc170f4; [count] reads the regenerated flag [Params.agg_mem_filters_type], so the
    theorems below stop checking if the in-memory rows are aggregated without the type condition again.) *)
Theorem C03_count_refuted :
  exists c ls u, let s := run (init c) ls in
     no_crash ls /\ NoDup (map ek (applied ls)) /\
     CountDuringFlush s = true /\
     jobs s = [mkJob 0 (applied ls) StPublished] /\
     count s u = 2 /\ len (select s u) = 1.
Proof. exact count_refuted. Qed.
Print Assumptions C03_count_refuted.

(** Outside that class (no row both in memory and in a scanned segment) COUNT equals the number of
    selected events, hence (by [C03_select_exact]) the number of applied events of the type - whatever
    other event types memory holds. *)
Theorem C03_count_exact_outside_known : forall c ls u,
  no_crash ls -> NoDup (map ek (applied ls)) ->
  let s := run (init c) ls in
  CountDuringFlush s = false ->
  count s u = len (select s u).
Proof. exact count_exact_outside_known. Qed.
Print Assumptions C03_count_exact_outside_known.

(** The witness of the retired class: one event of type 1 in memory, COUNT for type 0 is 0. *)
Theorem C03_count_other_type_exact :
  let s := run (init 2) ls_count_a in
  no_crash ls_count_a /\ NoDup (map ek (applied ls_count_a)) /\ mem_rows s = [mkEv 0 0 1] /\
  CountDuringFlush s = false /\ count s 0 = 0 /\ select s 0 = [] /\ count s 1 = 1.
Proof. exact count_other_type_exact. Qed.
Print Assumptions C03_count_other_type_exact.

(** The class [CountDuringFlush] says exactly: some row is in memory and in a scanned segment. *)
Theorem C03_CountDuringFlush_spec : forall s,
  CountDuringFlush s = false <-> forall e, In e (mem_rows s) -> ~ In e (seg_rows s).
Proof. exact CountDuringFlush_false. Qed.
Print Assumptions C03_CountDuringFlush_spec.

(** Non-vacuity of the hypotheses: crash-free histories with unique ids and three
    rotations (one complete, one in flight, one queued) outside the known classes. *)
Theorem C03_select_exact_example :
  let s := run (init 2) ls_ex in
  no_crash ls_ex /\ NoDup (map ek (applied ls_ex)) /\
  map jstage (jobs s) = [StBegun; StQueued] /\ live s = [0] /\ inflight s = [1] /\
  select s 0 = [mkEv 2 0 0; mkEv 4 0 0; mkEv 0 1 0] /\
  select s 1 = [mkEv 5 2 1; mkEv 3 1 1; mkEv 1 0 1].
Proof. exact select_exact_example. Qed.
Print Assumptions C03_select_exact_example.

Theorem C03_outcomes_exact_example :
  let s := run (init 2) ls_ex in
  no_crash ls_ex /\ NoDup (map ek (applied ls_ex)) /\ inflight s = [1] /\
  ReadDuringFlushDropsSegmentFlow s 0 = false /\ ReadDuringFlushDropsSegmentFlow s 1 = false.
Proof. exact outcomes_exact_example. Qed.
Print Assumptions C03_outcomes_exact_example.

Theorem C03_count_exact_example :
  let s := run (init 2) ls_ex_count in
  no_crash ls_ex_count /\ NoDup (map ek (applied ls_ex_count)) /\
  map jstage (jobs s) = [StQueued; StQueued] /\ live s = [0] /\
  CountDuringFlush s = false /\ count s 0 = 3 /\ count s 1 = 2 /\ len (mem_rows s) = 3.
Proof. exact count_exact_example. Qed.
Print Assumptions C03_count_exact_example.
