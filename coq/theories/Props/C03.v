(** C03 — placeholder until the proofs land (see Proofs/ShardProofs.v). *)
From Snel Require Import Model.Shard.
