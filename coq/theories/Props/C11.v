(** C11 — published segments are immutable and appear or disappear as a whole.
    This file contains only the property theorems, each closed by [exact],
    with [Print Assumptions] beneath.  Models: Model/Shard.v + Model/Compaction.v
    (validated against the engine by trace validation); proofs:
    Proofs/ShardC11Proofs.v.

    Histories are lists of [clabel] (every label of the shard model plus the four
    compaction labels) run by [crun] from [init c].  [hist_ok s ls = true] says
    that every step satisfies its guard [cstep_ok]:
    - a base label is not [LCrash]/[LRestart] and leaves the level-0 allocator
      inside level 0 ([alloc0 <= level_span]);
    - [CWrite b]: the output id is on a level above 0 (as [batch_ok] demands) and
      FRESH: no directory of that name exists (see the lifetime theorems below for
      what the allocator guarantees about names that existed EARLIER);
    - [CIndex b], [CLive b dr]: the output directory of [b] exists;
    - [CReclaim dr]: the ids are not live, not listed in the index and not the
      segment of a queued flush job.
    [Complete s i]: a directory [i] exists and no flush job of segment [i] is
    still before its index entry (a compaction output is written by the single
    step [CWrite]). *)
From Coq Require Import NArith List Bool.
From Snel Require Import Model.Shard Proofs.ShardC03Proofs Model.Compaction Proofs.CompactionProofs Proofs.ShardC11Proofs.
From Snel Require Import Gen.Params Model.IndexSave Proofs.IndexSaveProofs.
Import ListNotations.
Open Scope N_scope.

(** Once an id is live, the rows of its directory do not change as long as it
    stays live: for every guarded history [ls1 ++ ls2] in which [i] is live at
    every state of the [ls2] part, the directory after [ls1 ++ ls2] is the one
    after [ls1] (equal row lists). *)
Theorem C11_live_rows_immutable_no_crash : forall c ls1 ls2 i,
  hist_ok (init c) (ls1 ++ ls2) = true ->
  (forall n, In i (live (crun (init c) (ls1 ++ firstn n ls2)))) ->
  rows_of (dirs (crun (init c) (ls1 ++ ls2))) i = rows_of (dirs (crun (init c) ls1)) i.
Proof. exact live_rows_immutable_no_crash. Qed.
Print Assumptions C11_live_rows_immutable_no_crash.

(** The invariant [CI] holds at every state of a guarded history. *)
Theorem C11_invariant_reachable : forall c ls,
  hist_ok (init c) ls = true -> CI (crun (init c) ls).
Proof. exact ci_reachable. Qed.
Print Assumptions C11_invariant_reachable.

(** What one guarded step does to an existing directory: nothing; or it removes it
    as a whole (and it was neither live nor listed); or the flush worker appends
    to the directory of its own unfinished job (not complete).  An existing
    directory is never replaced. *)
Theorem C11_dirs_step : forall s l i,
  CI s -> cstep_ok s l = true -> has_dir (dirs s) i ->
  let s' := cstep s l in
  rows_of (dirs s') i = rows_of (dirs s) i /\ has_dir (dirs s') i
  \/ (~ has_dir (dirs s') i /\ ~ In i (live s) /\ ~ In i (index_labels (index s)))
  \/ (exists extra j rest, rows_of (dirs s') i = rows_of (dirs s) i ++ extra /\ has_dir (dirs s') i /\
        jobs s = j :: rest /\ jseg j = i /\ jstage j = StBegun /\ ~ Complete s i).
Proof. exact dirs_step. Qed.
Print Assumptions C11_dirs_step.

(** A directory appears only under an id that has none: as the complete output of
    a [CWrite], or as the directory of the flush job being written (not live, not
    listed). *)
Theorem C11_dir_created_fresh : forall s l i,
  CI s -> cstep_ok s l = true -> ~ has_dir (dirs s) i -> has_dir (dirs (cstep s l)) i ->
  (exists b, l = CWrite b /\ b_out b = i /\ rows_of (dirs (cstep s l)) i = batch_rows (dirs s) b)
  \/ (exists j rest, jobs s = j :: rest /\ jseg j = i /\ jstage j = StBegun /\ ~ In i (live s) /\
        ~ In i (index_labels (index s))).
Proof. exact dir_created_fresh. Qed.
Print Assumptions C11_dir_created_fresh.

(** [live] only names complete directories. *)
Theorem C11_live_names_complete : forall c ls i,
  hist_ok (init c) ls = true -> In i (live (crun (init c) ls)) -> Complete (crun (init c) ls) i.
Proof. exact live_names_complete. Qed.
Print Assumptions C11_live_names_complete.

(** Every id listed in the index has a complete directory. *)
Theorem C11_index_names_complete : forall c ls i,
  hist_ok (init c) ls = true -> In i (index_labels (index (crun (init c) ls))) -> Complete (crun (init c) ls) i.
Proof. exact index_names_complete. Qed.
Print Assumptions C11_index_names_complete.

(** A whole batch of the policy from a well-formed state (C05) satisfies the guards. *)
Theorem C11_batch_guards : forall k s b,
  WF s -> BatchPre k s b -> (forall i, In i (b_inputs b) -> ~ In i (map jseg (jobs s))) ->
  hist_ok s (batch_labels s b) = true.
Proof. exact batch_hist_ok. Qed.
Print Assumptions C11_batch_guards.

(** ** Output ids within one process lifetime (former finding SegmentLabelReused,
    repaired by a19e65f).

    [plabel] adds [PStart], the start of a planning round, to the labels.  [prun k p ls]
    carries the planner's bookkeeping of ONE process lifetime: [p_lab] = the index
    labels at every round start so far ([Compaction.seen_round_start]); [p_routs] =
    the output ids taken in the current round ([seen_batch]); [p_rix] = the index of
    the current round start, against which the batches of the round are planned.  A
    [LCrash] or [LRestart] label ENDS the lifetime: [p_lab] is RESET to [[]].  [p_ok]
    accumulates [cstep_ok] for every non-crash step and, for every [CWrite b],
    [batch_ok_fresh (p_routs p ++ p_lab p) (p_rix p) k b] = [batch_ok] and, when
    [Params.compaction_ids_fresh_in_lifetime] (regenerated from policy.rs), [b_out b]
    not in [p_routs p ++ p_lab p].  [no_pcrash ls]: no crash/restart label, i.e. [ls]
    lies inside one lifetime; [no_pstart ls]: inside one round.  The theorems below
    are proved for the regenerated flag [true]; on the unrepaired text the flag is
    [false] and their proofs fail. *)

(** Every output id of a lifetime is new: it differs from every label that was in
    the index at any round start of the lifetime so far (and from the labels
    remembered at the beginning), and from every output id taken earlier in the same
    round. *)
Theorem C11_ids_fresh_in_lifetime : forall k p ls,
  no_pcrash ls -> p_ok (prun k p ls) = true ->
  forall l1 b l2, ls = l1 ++ PStep (CWrite b) :: l2 ->
    ~ In (b_out b) (p_lab p) /\
    (forall a r, l1 = a ++ PStart :: r -> ~ In (b_out b) (index_labels (index (p_s (prun k p a))))) /\
    (forall a b' r, l1 = a ++ PStep (CWrite b') :: r -> no_pstart r -> b_out b' <> b_out b).
Proof. exact ids_fresh_in_lifetime. Qed.
Print Assumptions C11_ids_fresh_in_lifetime.

(** Inside one planning round the output ids are pairwise distinct. *)
Theorem C11_round_outs_nodup : forall k p ls,
  no_pcrash ls -> no_pstart ls -> p_ok (prun k p ls) = true -> NoDup (outs ls).
Proof. exact round_outs_nodup. Qed.
Print Assumptions C11_round_outs_nodup.

(** Hence, with the guards, in a lifetime that starts from the empty store a
    directory that some step creates
    - on level 0 (a flush directory) has a name that no directory had at ANY earlier
      state of the lifetime (the level-0 allocator only grows);
    - above level 0 is the output of a [CWrite], and its name was not listed in the
      index at any earlier round start of the lifetime.
    A name published once (listed in the index when a planning round started) is
    never created again before the next restart. *)
Theorem C11_name_never_recreated : forall k c ls,
  no_pcrash ls -> p_ok (prun k (pinit c) ls) = true ->
  forall l1 l l2 i, ls = l1 ++ l :: l2 ->
    ~ has_dir (dirs (p_s (prun k (pinit c) l1))) i ->
    has_dir (dirs (p_s (prun k (pinit c) (l1 ++ [l])))) i ->
    (i < level_span -> forall n, ~ has_dir (dirs (p_s (prun k (pinit c) (firstn n l1)))) i) /\
    (level_span <= i ->
       (exists b, l = PStep (CWrite b) /\ b_out b = i) /\
       forall a r, l1 = a ++ PStart :: r -> ~ In i (index_labels (index (p_s (prun k (pinit c) a))))).
Proof. exact name_never_recreated. Qed.
Print Assumptions C11_name_never_recreated.

(** The limit of the repair inside a lifetime: an output id whose batch did not reach
    its index entry (index save failed, no crash) is not remembered; the next round
    hands it out again ([batch_ok_fresh] accepts), over the leftover directory, which
    was never published - the [CWrite] guard (no directory of that name) fails.
    Observed on the engine with an injected index-save failure. *)
Theorem C11_failed_batch_id_retaken_example :
  let p := prun 3 (pinit 1) failed_p in
  let b := mkBatch 10000 [0; 1; 2] [0] in
  no_pcrash failed_p /\ p_ok p = true /\ index (p_s p) = [(0, [0]); (1, [0]); (2, [0])] /\
  batch_ok_fresh (p_routs p ++ p_lab p) (p_rix p) 3 b = true /\
  has_dirb (dirs (p_s p)) 10000 = true /\ cstep_ok (p_s p) (CWrite b) = false /\
  ~ In 10000 (live (p_s p)) /\ outs (failed_p ++ [PStep (CWrite b)]) = [10000; 10000].
Proof. exact failed_batch_id_retaken_example. Qed.
Print Assumptions C11_failed_batch_id_retaken_example.

(** The former witness of SegmentLabelReused: the history satisfies every guard up
    to the start of round 3; the batch [4;5] -> 10000 still satisfies [batch_ok] (a
    lower bound on the id) but is rejected by [batch_ok_fresh]; the id the repaired
    allocator hands out (10002) is accepted. *)
Theorem C11_label_reuse_rejected_example :
  let p := prun 2 (pinit 1) reuse_p in
  hist_ok (init 1) (reuse1 ++ reuse2 ++ reuse3) = true /\ policy_ok 2 (init 1) (reuse1 ++ reuse2 ++ reuse3) = true /\
  no_pcrash reuse_p /\ p_ok p = true /\
  p_rix p = [(20000, [0]); (4, [0]); (5, [0])] /\ In 10000 (p_lab p) /\
  batch_ok (p_rix p) 2 rb4 = true /\ batch_ok_fresh (p_routs p ++ p_lab p) (p_rix p) 2 rb4 = false /\
  p_ok (prun 2 (pinit 1) (reuse_p ++ lift (whole rb4 [4; 5]))) = false /\
  batch_ok_fresh (p_routs p ++ p_lab p) (p_rix p) 2 rb4' = true /\
  p_ok (prun 2 (pinit 1) (reuse_p ++ lift (whole rb4' [4; 5]))) = true.
Proof. exact label_reuse_rejected_example. Qed.
Print Assumptions C11_label_reuse_rejected_example.

(** Still refuted ACROSS a restart, where [p_lab] is reset: lifetime A publishes
    10000 (rows 0..3), retires it into 20000 and reclaims the directory; crash and
    restart; lifetime B's first round sees the index labels {20000, 8, 9, 10, 11} only
    and [8;9;10;11] -> 10000 satisfies [batch_ok_fresh] and every guard, so the name
    10000 is published again with rows 8..11.  (No level-0 name is reused here:
    the level-0 allocator continues at 9.) *)
Theorem C11_label_reuse_across_restart_refuted :
  exists k c lA1 lA2 lB i,
    let restart := [PStep (CBase LCrash); PStep (CBase LRestart)] in
    let p1 := prun k (pinit c) lA1 in
    let p2 := prun k (pinit c) (lA1 ++ lA2) in
    let p3 := prun k (pinit c) (lA1 ++ lA2 ++ restart) in
    let p4 := prun k (pinit c) (lA1 ++ lA2 ++ restart ++ lB) in
    no_pcrash (lA1 ++ lA2) /\ no_pcrash lB /\ p_ok p4 = true /\
    In i (live (p_s p1)) /\ rows_of (dirs (p_s p1)) i = [mkEv 0 0 0; mkEv 1 0 0; mkEv 2 0 0; mkEv 3 0 0] /\
    ~ In i (live (p_s p2)) /\ ~ has_dir (dirs (p_s p2)) i /\ In i (p_lab p2) /\
    p_lab p3 = [] /\ alloc0 (p_s p3) = 9 /\
    In (PStep (CWrite (mkBatch i [8; 9; 10; 11] [0]))) lB /\
    In i (live (p_s p4)) /\ rows_of (dirs (p_s p4)) i = [mkEv 8 0 0; mkEv 9 0 0; mkEv 10 0 0; mkEv 11 0 0].
Proof. exact label_reuse_across_restart_refuted. Qed.
Print Assumptions C11_label_reuse_across_restart_refuted.

(** Non-vacuity of the lifetime theorems. *)
Theorem C11_ids_fresh_example :
  let h := lift (map CBase ls_3) ++ [PStart] ++ lift (whole b_31 [1]) ++ [PStart] ++ lift (whole b_32 [0; 2]) in
  no_pcrash h /\ p_ok (prun 2 (pinit 2) h) = true /\ outs h = [10000; 10001] /\
  map sid (dirs (p_s (prun 2 (pinit 2) h))) = [10000; 10001].
Proof. exact ids_fresh_example. Qed.
Print Assumptions C11_ids_fresh_example.

(** Known finding CrashLeftoverDirectoryBecomesLive: crash after [FwMkdir] (a) or
    after the files of one of two types were written (b), restart: the incomplete
    directory is live and not listed in the index. *)
Theorem C11_crash_leftover_refuted :
  (exists c pre, let s0 := crun (init c) pre in
     let s := crun (init c) (pre ++ [CBase LCrash; CBase LRestart]) in
     hist_ok (init c) pre = true /\ ~ In 0 (live s0) /\ ~ Complete s0 0 /\
     jobs s0 = [mkJob 0 [mkEv 0 0 0] StBegun] /\
     In 0 (live s) /\ index s = [] /\ dirs s = [mkSeg 0 []]) /\
  (exists c pre, let s0 := crun (init c) pre in
     let s := crun (init c) (pre ++ [CBase LCrash; CBase LRestart]) in
     hist_ok (init c) pre = true /\ ~ In 0 (live s0) /\ ~ Complete s0 0 /\
     jobs s0 = [mkJob 0 [mkEv 0 0 0; mkEv 1 0 1] StBegun] /\
     In 0 (live s) /\ index s = [] /\ dirs s = [mkSeg 0 [mkEv 0 0 0]] /\
     mem s = [mkEv 0 0 0; mkEv 1 0 1]).
Proof. exact crash_leftover_refuted. Qed.
Print Assumptions C11_crash_leftover_refuted.

(** Known finding L0IdReusedAfterCompactionAndRestart: after compaction has merged
    the level-0 segments away, crash + restart seeds the level-0 allocator from the
    remaining directory names and the name 0 is published again with other rows. *)
Theorem C11_l0_reuse_after_restart_refuted :
  exists c k l1 l2 l3 i,
    let s1 := crun (init c) l1 in
    let s2 := crun (init c) (l1 ++ l2) in
    let s3 := crun (init c) (l1 ++ l2 ++ l3) in
    hist_ok (init c) (l1 ++ l2) = true /\ policy_ok k (init c) (l1 ++ l2) = true /\
    l3 = [CBase LCrash; CBase LRestart] ++ seg1 2 /\
    hist_ok (crun (init c) (l1 ++ l2 ++ [CBase LCrash; CBase LRestart])) (seg1 2) = true /\
    In i (live s1) /\ rows_of (dirs s1) i = [mkEv 0 0 0] /\
    ~ In i (live s2) /\ ~ has_dir (dirs s2) i /\ alloc0 s2 = 2 /\
    alloc0 (crun (init c) (l1 ++ l2 ++ [CBase LCrash; CBase LRestart])) = 0 /\
    In i (live s3) /\ In i (index_labels (index s3)) /\ rows_of (dirs s3) i = [mkEv 2 0 0].
Proof. exact l0_reuse_after_restart_refuted. Qed.
Print Assumptions C11_l0_reuse_after_restart_refuted.

(** The guard of [CReclaim] is needed in the model (interleaving of a batch with a
    flush job between [FwIndex] and [FwPublish]; not observed on the engine). *)
Theorem C11_reclaim_guard_needed :
  let s := crun (init 1) race in
  policy_ok 2 (init 1) race = true /\ hist_ok (init 1) race = false /\
  live s = [10000; 0] /\ map sid (dirs s) = [10000].
Proof. exact reclaim_guard_needed. Qed.
Print Assumptions C11_reclaim_guard_needed.

(** Non-vacuity. *)
Theorem C11_live_rows_immutable_example :
  let pre := map CBase ls_3 ++ whole b_31 [1] in
  let post := whole b_32 [0; 2] in
  hist_ok (init 2) (pre ++ post) = true /\ policy_ok 2 (init 2) (pre ++ post) = true /\
  (forall n, In 10000 (live (crun (init 2) (pre ++ firstn n post)))) /\
  live (crun (init 2) pre) = [0; 2; 10000] /\ live (crun (init 2) (pre ++ post)) = [10000; 10001] /\
  index (crun (init 2) (pre ++ post)) = [(10000, [0]); (10001, [1])] /\
  rows_of (dirs (crun (init 2) (pre ++ post))) 10000 = [mkEv 0 0 0; mkEv 2 0 0; mkEv 3 1 0].
Proof. exact live_rows_immutable_example. Qed.
Print Assumptions C11_live_rows_immutable_example.

Theorem C11_guards_flush_example :
  hist_ok (init 2) (map CBase ls_ex) = true /\
  map jstage (jobs (crun (init 2) (map CBase ls_ex))) = [StBegun; StQueued] /\
  live (crun (init 2) (map CBase ls_ex)) = [0].
Proof. exact guards_flush_example. Qed.
Print Assumptions C11_guards_flush_example.

(** "... atomically replace the shard's segment index".  The file-system steps of
    [SegmentIndex::save] are read from the Rust source on every run
    ([Params.index_save_steps], tools/params/p25_index_save.py) and run by
    Model/IndexSave.v with a crash after every step (a created file passes through a
    partially written state; rename is atomic - trusted).  [load] is what a restart
    obtains from the index file: [None] = missing or unreadable = the engine falls
    back to listing directories, published or not. *)

(** At every crash point of a save of [new] over a published index [old], whatever an
    earlier crash left in the temporary file ([t]) or elsewhere ([a]), a restart loads
    the old index or the new one. *)
Theorem C11_index_replaced_atomically :
  forall (C : Type) (old new : C) (t a : option (cont C)),
    Forall (fun s => load s = Some old \/ load s = Some new)
           (states new (mkFs (Some (Full old)) t a) save_steps).
Proof. exact index_replaced_atomically. Qed.
Print Assumptions C11_index_replaced_atomically.

Theorem C11_index_save_installs_new :
  forall (C : Type) (old new : C) (t a : option (cont C)),
    load (final new (mkFs (Some (Full old)) t a) save_steps) = Some new.
Proof. exact index_save_installs_new. Qed.
Print Assumptions C11_index_save_installs_new.

(** Whatever the start (an index or none), the index name never holds a partially
    written file at any crash point. *)
Theorem C11_index_never_partial :
  forall (C : Type) (new : C) (i : option C) (t a : option (cont C)),
    Forall (fun s => f_idx s <> Some Partial)
           (states new (mkFs (option_map Full i) t a) save_steps).
Proof. exact index_never_partial. Qed.
Print Assumptions C11_index_never_partial.

(** Sensitivity: moving the index to a backup before the rename, or writing it in
    place, has a crash state without a readable index. *)
Theorem C11_index_backup_first_refuted :
  exists s, In s (states 1%nat (mkFs (Some (Full 0%nat)) None None) backup_first_steps) /\ load s = None.
Proof. exact backup_first_refuted. Qed.
Print Assumptions C11_index_backup_first_refuted.

Theorem C11_index_in_place_refuted :
  exists s, In s (states 1%nat (mkFs (Some (Full 0%nat)) None None) in_place_steps) /\ load s = None.
Proof. exact in_place_refuted. Qed.
Print Assumptions C11_index_in_place_refuted.

(** Non-vacuity: the protocol read from the source passes through four states and ends
    with the new index in place and no temporary file. *)
Theorem C11_index_save_example :
  map load (states 1%nat (mkFs (Some (Full 0%nat)) (Some Partial) None) save_steps) = [Some 0%nat; Some 0%nat; Some 0%nat; Some 1%nat] /\
  final 1%nat (mkFs (Some (Full 0%nat)) (Some Partial) None) save_steps = mkFs (Some (Full 1%nat)) None None.
Proof. exact index_save_example. Qed.
Print Assumptions C11_index_save_example.
