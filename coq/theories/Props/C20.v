(** C20 — every response encoding carries the same rows and values.
    This file contains only the property theorems, each closed by [exact], with [Print Assumptions]
    beneath.  Model: Model/Render.v ([write_json], [write_arrow], [json_cell], [arrow_cell],
    [render_error], [http_status_of_error], [known_class] are the functions that are extracted and
    run against the real QueryResponseWriter / ShowResponseWriter / JsonRenderer / UnixRenderer /
    ArrowStreamEncoder); proofs and the specification-level definitions used below ([wf_batches],
    [arrow_row_of], [row_outside_known]): Proofs/RenderProofs.v.

    Quantification: all writer configurations [cfg] (LIMIT, OFFSET, streaming batch size, QUERY or
    SHOW writer with any materialized-frame count and watermark flag), all schemas [cols] (any
    names and logical type names), all streams [bs] (any split into batches, empty batches, any
    cells of any runtime kind).  [wf_batches cols bs]: every row has one cell per column (enforced
    by [ColumnBatch::new]).

    KnownClass (decidable, in the model): [known_class lt v] with the eight classes of [kclass]
    for cells, [http_known s msg] for the error clause. *)
From Coq Require Import NArith ZArith List Bool.
From Snel Require Import Base.Bytes Gen.Params Model.Render Proofs.RenderProofs.
Import ListNotations.
Open Scope N_scope.

(** The row count announced in the end frame equals the number of rows carried by the batch / row
    frames — for every writer kind, LIMIT, OFFSET and batch size (0 = one frame per row). *)
Theorem C20_row_count_matches : forall cfg cols bs,
  json_announced (write_json cfg cols bs) = Some (N.of_nat (length (json_rows (write_json cfg cols bs)))).
Proof. exact row_count_matches. Qed.
Print Assumptions C20_row_count_matches.

(** The QUERY writer hands to every renderer exactly LIMIT (OFFSET (rows with the first occurrence
    of each event id)), independent of how the stream is cut into batches. *)
Theorem C20_writer_spec : forall cfg cols bs,
  w_kind cfg = WQuery ->
  accepted_rows cfg cols bs = writer_spec cfg cols bs.
Proof. exact writer_spec_query. Qed.
Print Assumptions C20_writer_spec.

(** All encoders receive the same accepted rows in the same order, and the same column names: the
    JSON / text frames carry their [to_json] images, each Arrow record batch carries them through
    the whole-batch or the row-index conversion. *)
Theorem C20_writer_same_rows : forall cfg cols bs,
  wf_batches cols bs ->
  json_names (write_json cfg cols bs) = map c_name cols /\
  arrow_names (write_arrow cfg cols bs) = map c_name cols /\
  json_rows (write_json cfg cols bs) = map json_row (accepted_rows cfg cols bs) /\
  Forall2 (arrow_row_of cols) (arrow_rows (write_arrow cfg cols bs)) (accepted_rows cfg cols bs).
Proof. exact writer_same_rows. Qed.
Print Assumptions C20_writer_same_rows.

(** A cell whose runtime kind matches the declared column type, and which is not a string holding
    an array/object text, a string holding a u64 above i64::MAX, or a non-finite float, decodes to
    the same value from JSON, text and both Arrow conversions (numbers numerically, nulls as nulls,
    strings byte-identical). *)
Theorem C20_cells_agree_typed : forall lt v,
  kind_matches (arrow_type_schema lt) v = true -> reparsed_or_nonfinite v = false ->
  cell_all_agree lt v = true.
Proof. exact cells_agree_typed. Qed.
Print Assumptions C20_cells_agree_typed.

(** The agreement claim at full strength is FALSE of the model (and of the code): one single-cell
    witness per class — "18446744073709551615" in an Integer column (JSON number, Arrow null), the
    string "[1,2]" in a String column (JSON array, Arrow string), NaN in a Float column (JSON null),
    1.5 in an Integer column, 2^53 + 1 in a Float column (f64 cannot hold it), the integer 1 in a
    Boolean / String column. *)
Theorem C20_agree_refuted :
  cell_all_agree s_integer (SUtf8 s_u64max None (Some 4895412794951729152)) = false /\
  json_cell (SUtf8 s_u64max None (Some 4895412794951729152)) = DInt 18446744073709551615 /\
  arrow_cell PWhole s_integer (SUtf8 s_u64max None (Some 4895412794951729152)) = DNull /\
  cell_all_agree s_string (SUtf8 [91;49;44;50;93] (Some [91;49;44;50;93]) None) = false /\
  cell_all_agree s_float (SFloat nan_bits [78;97;78]) = false /\
  cell_all_agree s_integer (SFloat 4609434218613702656 [49;46;53]) = false /\
  cell_all_agree s_float (SInt 9007199254740993) = false /\
  cell_all_agree s_boolean (SInt 1) = false /\
  cell_all_agree s_string (SInt 1) = false.
Proof. exact agree_refuted. Qed.
Print Assumptions C20_agree_refuted.

(** ... also as a whole response (one Integer column, one row). *)
Theorem C20_responses_agree_refuted :
  exists cfg cols bs, wf_batches cols bs /\ responses_agree cfg cols bs = false.
Proof. exact responses_agree_refuted. Qed.
Print Assumptions C20_responses_agree_refuted.

(** The two Arrow conversions disagree with each other (which one is taken depends on whether every
    row of the batch was accepted): "42" in an Integer column is 42 / null, "true" in a Boolean
    column is true / null. *)
Theorem C20_arrow_paths_disagree_refuted :
  cell_agree (arrow_cell PWhole s_integer (SUtf8 [52;50] None (Some 4631107791820423168)))
             (arrow_cell PRow s_integer (SUtf8 [52;50] None (Some 4631107791820423168))) = false /\
  arrow_cell PWhole s_integer (SUtf8 [52;50] None (Some 4631107791820423168)) = DInt 42 /\
  arrow_cell PRow s_integer (SUtf8 [52;50] None (Some 4631107791820423168)) = DNull /\
  arrow_cell PWhole s_boolean (SUtf8 [116;114;117;101] None None) = DBool true /\
  arrow_cell PRow s_boolean (SUtf8 [116;114;117;101] None None) = DNull.
Proof. exact arrow_paths_disagree_refuted. Qed.
Print Assumptions C20_arrow_paths_disagree_refuted.

(** After fix fba8206 the two conversions agree on every Int64 cell of a Float column: both write
    [z as f64] (before, the whole-batch conversion wrote null). *)
Theorem C20_arrow_paths_agree_int_in_float : forall lt z,
  arrow_type_schema lt = AFloat64 ->
  arrow_cell PWhole lt (SInt z) = arrow_cell PRow lt (SInt z) /\
  arrow_cell PWhole lt (SInt z) = DFloat (f64_of_Z z).
Proof. exact arrow_paths_agree_int_in_float. Qed.
Print Assumptions C20_arrow_paths_agree_int_in_float.

(** The known classes are exact (NonFloatInFloatColumn no longer contains the Int64 cells that f64
    holds exactly): a cell decodes alike from every encoding if and only if it is
    outside all eight classes. *)
Theorem C20_known_class_exact : forall lt v,
  known_class lt v = None <-> cell_all_agree lt v = true.
Proof. exact known_class_exact. Qed.
Print Assumptions C20_known_class_exact.

(** The strongest true form of the property: if no cell of an emitted row lies in a known class,
    the JSON (= text) stream and the Arrow stream decode to the same column names, the same number
    of rows, pairwise agreeing cells, and the announced row count is the number of rows. *)
Theorem C20_agree_outside_known : forall cfg cols bs,
  wf_batches cols bs ->
  Forall (row_outside_known cols) (accepted_rows cfg cols bs) ->
  responses_agree cfg cols bs = true.
Proof. exact agree_outside_known. Qed.
Print Assumptions C20_agree_outside_known.

(** Error responses: the status a reader finds in the body is the same in the three encodings (for
    the text rendering it is parsed back from the rendered bytes, whatever the message). *)
Theorem C20_error_status_same_body : forall s msg,
  body_status EJson s msg = Some (status_code s) /\
  body_status EText s msg = Some (status_code s) /\
  body_status EArrow s msg = Some (status_code s).
Proof. exact error_status_same_body. Qed.
Print Assumptions C20_error_status_same_body.

(** After fix c214409 the text rendering of an error of any length is answered with the error's
    own HTTP status (before: always 200). *)
Theorem C20_http_text_status_correct : forall s msg, http_status_of_error EText s msg = status_code s.
Proof. exact http_text_status_correct. Qed.
Print Assumptions C20_http_text_status_correct.

(** ... and so are the JSON rendering and the Arrow renderer's JSON fallback as long as the body stays
    below the full-parse limit (before: Arrow only for messages of at most 6 bytes). *)
Theorem C20_http_status_correct_outside_known : forall s msg,
  N.of_nat (length (render_error EJson s msg)) < render_http_parse_full_below ->
  N.of_nat (length (render_error EArrow s msg)) < render_http_parse_full_below ->
  http_status_of_error EJson s msg = status_code s /\
  http_status_of_error EText s msg = status_code s /\
  http_status_of_error EArrow s msg = status_code s.
Proof. exact http_status_correct_outside_known. Qed.
Print Assumptions C20_http_status_correct_outside_known.

(** The claim "same status in every encoding" is still FALSE for long messages: a 400 with a
    460-byte message has a JSON / Arrow body above 500 bytes, of which only the first 200 are
    parsed (HTTP 200), while its text rendering is answered with 400. *)
Theorem C20_http_status_same_refuted :
  http_status_same StBadRequest long_msg = false /\
  http_status_of_error EJson StBadRequest long_msg = 200 /\
  http_status_of_error EArrow StBadRequest long_msg = 200 /\
  http_status_of_error EText StBadRequest long_msg = 400 /\
  http_known StBadRequest long_msg = true.
Proof. exact http_status_same_refuted. Qed.
Print Assumptions C20_http_status_same_refuted.

(** Outside the known class (an error whose JSON / Arrow body reaches the full-parse limit) the three
    encodings are answered with the same status. *)
Theorem C20_http_status_outside_known : forall s msg,
  http_known s msg = false -> http_status_same s msg = true.
Proof. exact http_status_outside_known. Qed.
Print Assumptions C20_http_status_outside_known.
