(** C05 — compaction changes layout, never content.
    This file contains only the property theorems, each closed by [exact],
    with [Print Assumptions] beneath.  Models: Model/Shard.v + Model/Compaction.v
    (validated against the engine by trace validation); proofs:
    Proofs/CompactionProofs.v (re-using the C03 invariant of Proofs/ShardC03Proofs.v).

    One batch of the k-way policy is the label sequence
    [batch_labels s b = [CWrite b; CIndex b; CLive b dr; CReclaim dr]] with
    [dr = drained (index s) b]; [run_batch s b = crun s (batch_labels s b)].

    [WF s] (well-formed state): live ids have directories; index labels are
    unique; a type listed for a segment has rows in its directory; every row of
    a live directory is listed for that segment or — its type having been retired
    from that entry — a live segment listing the type holds the same row
    ([Auth]); event keys are unique among the scanned rows up to identical copies.
    [BatchPre k s b]: [batch_ok (index s) k b = true], the inputs are live, no
    directory has the output id.
    [Exact s]: every row of a live directory is listed in the entry of its own
    segment (no retired leftovers). *)
From Coq Require Import NArith List Bool Permutation.
From Snel Require Import Model.Shard Proofs.ShardC03Proofs Model.Compaction Proofs.CompactionProofs.
Import ListNotations.
Open Scope N_scope.

(** The merge neither drops nor invents rows: for every directory list, batch and
    type of the batch, the rows written for that type are a permutation of its
    rows in the inputs (any k, any level, any number of inputs). *)
Theorem C05_rows_multiset : forall ds b u,
  NoDup (b_uids b) -> In u (b_uids b) ->
  Permutation (of_uid u (batch_rows ds b)) (of_uid u (concat (map (rows_of ds) (b_inputs b)))).
Proof. exact rows_multiset. Qed.
Print Assumptions C05_rows_multiset.

(** ... and no row of any other type is written. *)
Theorem C05_rows_multiset_other : forall ds b u,
  ~ In u (b_uids b) -> of_uid u (batch_rows ds b) = [].
Proof. exact rows_multiset_other. Qed.
Print Assumptions C05_rows_multiset_other.

(** One whole batch from a well-formed state leaves EVERY selection unchanged (up
    to order), also for types outside the batch and also when an input is drained
    only partially, and re-establishes the invariant. *)
Theorem C05_select_preserved : forall k s b,
  WF s -> BatchPre k s b ->
  WF (run_batch s b) /\ forall u, Permutation (select s u) (select (run_batch s b) u).
Proof. exact select_preserved. Qed.
Print Assumptions C05_select_preserved.

(** Any number of batches / rounds. *)
Theorem C05_select_preserved_rounds : forall k bs s,
  WF s -> batches_pre k s bs ->
  WF (run_batches s bs) /\ forall u, Permutation (select s u) (select (run_batches s bs) u).
Proof. exact select_preserved_rounds. Qed.
Print Assumptions C05_select_preserved_rounds.

(** The invariant is not vacuous: every state reached from [init] by a crash-free
    flush history (any interleaving of STORE, FLUSH, WAL and flush-worker labels)
    with unique event ids is well-formed and exact. *)
Theorem C05_wf_reachable : forall c ls,
  no_crash ls -> NoDup (map ek (applied ls)) ->
  WF (run (init c) ls) /\ Exact (run (init c) ls).
Proof. exact wf_reachable. Qed.
Print Assumptions C05_wf_reachable.

(** Known finding CountAfterPartialDrain: segment 0 holds types {0,1},
    segment 1 type 0, k = 2; the batch for type 0 drains segment 1 only; segment 0
    stays live with the files of type 0: COUNT goes from 3 to 4 while the selection
    is unchanged. *)
Theorem C05_count_partial_drain_refuted :
  exists c ls k b u,
    let s := run (init c) ls in
    no_crash ls /\ NoDup (map ek (applied ls)) /\ BatchPre k s b /\ NoDup (b_uids b) /\ In u (b_uids b) /\
    index s = [(0, [0; 1]); (1, [0])] /\
    drained (index s) b = [1] /\ undrained s b = [0] /\
    live (run_batch s b) = [0; 10000] /\ index (run_batch s b) = [(0, [1]); (10000, [0])] /\
    count s u = 3 /\ count (run_batch s b) u = 4 /\
    select (run_batch s b) u = select s u /\ len (select s u) = 3.
Proof. exact count_partial_drain_refuted. Qed.
Print Assumptions C05_count_partial_drain_refuted.

(** What a batch does to COUNT, exactly: for a type of the batch it grows by the
    number of rows of that type in the inputs that stay live ([undrained]); for
    another type it is unchanged when the state has no retired leftovers. *)
Theorem C05_count_after_batch : forall k s b u,
  WF s -> BatchPre k s b -> NoDup (b_uids b) ->
  (In u (b_uids b) ->
     count (run_batch s b) u
     = count s u + len (of_uid u (concat (map (rows_of (dirs s)) (undrained s b))))) /\
  (~ In u (b_uids b) -> Exact s -> count (run_batch s b) u = count s u).
Proof. exact count_after_batch. Qed.
Print Assumptions C05_count_after_batch.

(** If the batch drains every one of its inputs (e.g. a single event type), COUNT
    is unchanged for every type, and exactness is preserved (so this holds for any
    number of such batches).  [Exact s] cannot be dropped: in
    [C05_select_preserved_example] the second batch drains both of its inputs and
    COUNT for type 0 goes from 5 back to 4, because segment 0 still held the rows
    of type 0 retired by the first batch. *)
Theorem C05_count_preserved_full_drain : forall k s b,
  WF s -> Exact s -> BatchPre k s b -> NoDup (b_uids b) ->
  (forall i, In i (b_inputs b) -> In i (drained (index s) b)) ->
  Exact (run_batch s b) /\ forall u, count (run_batch s b) u = count s u.
Proof. exact count_preserved_full_drain. Qed.
Print Assumptions C05_count_preserved_full_drain.

(** A run that stops after the output directory was written (before the index is
    saved), then crash and restart: the index is as without the run and every
    selection is the same as without the run (the response writer drops the copies
    in the leftover directory, which restart reads as live); COUNT additionally
    counts every row of the leftover directory. *)
Theorem C05_failed_run_harmless : forall s b,
  (forall d, In d (dirs s) -> sid d <> b_out b) -> KeysOkDisk s ->
  let s1 := crun s [CWrite b; CBase LCrash; CBase LRestart] in
  let s0 := crun s [CBase LCrash; CBase LRestart] in
  index s1 = index s0 /\
  (forall u, Permutation (select s1 u) (select s0 u)) /\
  (forall u, count s1 u = count s0 u + len (of_uid u (batch_rows (dirs s) b))).
Proof. exact failed_run_harmless. Qed.
Print Assumptions C05_failed_run_harmless.

(** Without the restart the leftover directory is not read at all. *)
Theorem C05_failed_run_unread : forall s b,
  (forall d, In d (dirs s) -> sid d <> b_out b) ->
  ~ In (b_out b) (live s) -> ~ In (b_out b) (inflight s) ->
  let s1 := cstep s (CWrite b) in
  index s1 = index s /\ live s1 = live s /\
  forall u, select s1 u = select s u /\ count s1 u = count s u.
Proof. exact failed_run_unread. Qed.
Print Assumptions C05_failed_run_unread.

(** [KeysOkDisk] holds at every state of a crash-free flush history with unique ids. *)
Theorem C05_keys_ok_disk_reachable : forall c ls,
  no_crash ls -> NoDup (map ek (applied ls)) -> KeysOkDisk (run (init c) ls).
Proof. exact keys_ok_disk_reachable. Qed.
Print Assumptions C05_keys_ok_disk_reachable.

(** COUNT after the failed run + restart (part of CountAfterPartialDrain). *)
Theorem C05_failed_run_count_refuted :
  exists c ls b u,
    let s := run (init c) ls in
    let s1 := crun s [CWrite b; CBase LCrash; CBase LRestart] in
    let s0 := crun s [CBase LCrash; CBase LRestart] in
    no_crash ls /\ NoDup (map ek (applied ls)) /\ (forall d, In d (dirs s) -> sid d <> b_out b) /\
    live s1 = [0; 1; 10000] /\ index s1 = index s /\
    select s1 u = select s0 u /\ count s0 u = 3 /\ count s1 u = 6.
Proof. exact failed_run_count_refuted. Qed.
Print Assumptions C05_failed_run_count_refuted.

(** Non-vacuity: two event types in different subsets of three segments, two
    batches of the k = 2 policy (the first drains segment 0 partially). *)
Theorem C05_select_preserved_example :
  let s := run (init 2) ls_3 in
  let t := run_batches s [b_31; b_32] in
  no_crash ls_3 /\ NoDup (map ek (applied ls_3)) /\ batches_pre 2 s [b_31; b_32] /\
  index s = [(0, [0; 1]); (1, [0]); (2, [1])] /\ live s = [0; 1; 2] /\
  index t = [(10000, [0]); (10001, [1])] /\ live t = [10000; 10001] /\ map sid (dirs t) = [10000; 10001] /\
  select s 0 = [mkEv 6 2 0; mkEv 0 0 0; mkEv 2 0 0; mkEv 3 1 0] /\ select t 0 = select s 0 /\
  select s 1 = [mkEv 1 0 1; mkEv 5 0 1; mkEv 4 1 1] /\ select t 1 = select s 1 /\
  count s 0 = 4 /\ count (run_batch s b_31) 0 = 5 /\ count t 0 = 4.
Proof. exact select_preserved_example. Qed.
Print Assumptions C05_select_preserved_example.

Theorem C05_count_preserved_full_drain_example :
  let s := run (init 2) ls_fd in
  let b := mkBatch 10000 [0; 1] [0] in
  no_crash ls_fd /\ NoDup (map ek (applied ls_fd)) /\ BatchPre 2 s b /\ NoDup (b_uids b) /\
  (forall i, In i (b_inputs b) -> In i (drained (index s) b)) /\
  live (run_batch s b) = [10000] /\ count s 0 = 5 /\ count (run_batch s b) 0 = 5.
Proof. exact count_preserved_full_drain_example. Qed.
Print Assumptions C05_count_preserved_full_drain_example.

Theorem C05_failed_run_example :
  let s := run (init 2) ls_3 in
  no_crash ls_3 /\ NoDup (map ek (applied ls_3)) /\
  (forall d, In d (dirs s) -> sid d <> b_out b_31) /\
  live (crun s [CWrite b_31; CBase LCrash; CBase LRestart]) = [0; 1; 2; 10000].
Proof. exact failed_run_example. Qed.
Print Assumptions C05_failed_run_example.
