(** C08, part B — enum bitmaps, the temporal calendar + per-zone index and the xor-filter
    keys never rule out a zone that holds a matching row.
    This file contains only the property theorems, each closed by [exact], with
    [Print Assumptions] beneath.  Models: Model/ZoneSel.v, EnumBitmap.v, Temporal.v,
    XorKey.v; proofs: Proofs/EnumBitmapProofs.v, TemporalProofs.v, XorKeyProofs.v.
    [select_*] is what a query scans: the pruner's answer, or the field selector's
    fallback when the pruner answered [None] (regenerated from the Rust text). *)
From Coq Require Import NArith ZArith List.
From Snel Require Import Base.Bytes Model.ZoneSel Model.EnumBitmap Model.Temporal Model.XorKey.
From Snel Require Import Proofs.EnumBitmapProofs Proofs.TemporalProofs Proofs.XorKeyProofs.
Import ListNotations.

(** ** Enum bitmaps *)

(** [=] with a declared literal: every zone (any zone count, any row values) that holds
    the literal is a candidate, whenever the index could be built. *)
Theorem C08b_enum_eq_sound : forall variants zones ix zid vals lit all,
  EnumBitmap.build_all variants zones = Some ix ->
  NoDup (map fst zones) ->
  In (zid, vals) zones ->
  In lit variants ->
  (exists v, In v vals /\ EnumBitmap.row_matches OEq v lit = true) ->
  In zid (select_enum (Some ix) all OEq lit).
Proof. exact enum_eq_sound. Qed.
Print Assumptions C08b_enum_eq_sound.

(** [!=] with a declared literal: every zone that holds another declared variant is a candidate. *)
Theorem C08b_enum_neq_sound : forall variants zones ix zid vals lit all,
  EnumBitmap.build_all variants zones = Some ix ->
  NoDup (map fst zones) ->
  In (zid, vals) zones ->
  In lit variants ->
  (exists v, In v vals /\ In v variants /\ EnumBitmap.row_matches ONeq v lit = true) ->
  In zid (select_enum (Some ix) all ONeq lit).
Proof. exact enum_neq_sound. Qed.
Print Assumptions C08b_enum_neq_sound.

(** FALSE of the code: [!=] with a literal that is not a declared variant returns no zone
    although every row differs from it (known class EnumNeqUndeclaredLiteral). *)
Theorem C08b_enum_neq_undeclared_refuted :
  exists variants zones ix zid vals lit all,
    EnumBitmap.build_all variants zones = Some ix /\ NoDup (map fst zones) /\ In (zid, vals) zones /\
    (forall v, In v vals -> In v variants) /\
    (exists v, In v vals /\ EnumBitmap.row_matches ONeq v lit = true) /\
    ~ In zid (select_enum (Some ix) all ONeq lit).
Proof. exact enum_neq_undeclared_refuted. Qed.
Print Assumptions C08b_enum_neq_undeclared_refuted.

(** FALSE of the code: an operator other than [=] / [!=] on an enum column returns no zone
    (known class EnumRangeOp). *)
Theorem C08b_enum_range_op_refuted :
  exists variants zones ix zid vals lit all,
    EnumBitmap.build_all variants zones = Some ix /\ In (zid, vals) zones /\ In lit variants /\
    (exists v, In v vals /\ In v variants /\ EnumBitmap.row_matches OGt v lit = true) /\
    ~ In zid (select_enum (Some ix) all OGt lit).
Proof. exact enum_range_op_refuted. Qed.
Print Assumptions C08b_enum_range_op_refuted.

(** [rows_per_zone] is truncated to 16 bits: with a first zone of 65536 rows every
    bitmap is empty and the first declared value of any zone makes the builder panic
    (known class EnumZoneLongerThanBitmap; latent, depends on the configured zone size). *)
Theorem C08b_enum_rows_per_zone_wrap_refuted :
  exists n, (0 < n)%N /\ rows_per_zone_of n = 0%N /\
    forall variants v r, In v variants -> add_zone_values variants (rows_per_zone_of n) (v :: r) = None.
Proof. exact enum_rows_per_zone_wrap_refuted. Qed.
Print Assumptions C08b_enum_rows_per_zone_wrap_refuted.

(** ... and the index CAN be built for every flush whose first zone is the longest and
    has fewer than 2^16 rows (what the zone planner produces), so the hypotheses above are met. *)
Theorem C08b_enum_build_ok : forall variants z0 vals0 rest,
  (N.of_nat (length vals0) < 2 ^ Snel.Gen.Params.zidx_rpz_bits)%N ->
  (forall zid vals, In (zid, vals) rest -> (length vals <= length vals0)%nat) ->
  EnumBitmap.build_all variants ((z0, vals0) :: rest) <> None.
Proof. exact enum_build_ok. Qed.
Print Assumptions C08b_enum_build_ok.

(** The strongest true statement: outside the known classes, for columns that hold only
    declared variants (STORE validation, C06), every operator and literal is sound. *)
Theorem C08b_enum_outside_known : forall variants zones ix zid vals op lit all,
  enum_known variants op lit = false ->
  EnumBitmap.build_all variants zones = Some ix ->
  NoDup (map fst zones) ->
  In (zid, vals) zones ->
  (forall v, In v vals -> In v variants) ->
  (exists v, In v vals /\ EnumBitmap.row_matches op v lit = true) ->
  In zid (select_enum (Some ix) all op lit).
Proof. exact enum_outside_known. Qed.
Print Assumptions C08b_enum_outside_known.

(** ** Temporal calendar + per-zone index *)
Open Scope Z_scope.

(** All of [=, >, >=, <, <=]; any number of zones, any value lists (other zones may hold
    anything); timestamps on hour/day boundaries included: a zone without negative
    timestamps that holds a row satisfying a non-negative probe is a candidate, provided
    the day buckets of that row and of the probe start below 2^32. *)
Theorem C08b_temporal_sound_nonneg : forall is_ts zones zid vals t op l v all,
  NoDup (map fst zones) -> In (zid, vals) zones -> In t vals ->
  (forall u, In u vals -> 0 <= u < 2 ^ 63) ->
  lit_value l = Some (LVInt v) -> 0 <= v ->
  day_in_u32 v -> day_in_u32 t ->
  In op [OEq; OGt; OGte; OLt; OLte] ->
  Temporal.row_matches op t (LVInt v) = true ->
  In zid (select_temporal is_ts (Temporal.build zones) all op l).
Proof. exact temporal_sound_nonneg. Qed.
Print Assumptions C08b_temporal_sound_nonneg.

(** [=] is sound for every magnitude (truncated bucket ids only collide, never reorder). *)
Theorem C08b_temporal_eq_sound_any_magnitude : forall is_ts zones zid vals t l v all,
  NoDup (map fst zones) -> In (zid, vals) zones -> In t vals ->
  (forall u, In u vals -> 0 <= u < 2 ^ 63) ->
  lit_value l = Some (LVInt v) ->
  Temporal.row_matches OEq t (LVInt v) = true ->
  In zid (select_temporal is_ts (Temporal.build zones) all OEq l).
Proof. exact temporal_eq_sound_any_magnitude. Qed.
Print Assumptions C08b_temporal_eq_sound_any_magnitude.

(** FALSE of the code: a zone that also holds a negative timestamp is never a candidate
    (known class TemporalNegativeValueInZone). *)
Theorem C08b_temporal_negative_zone_refuted :
  exists zones zid vals t l v,
    NoDup (map fst zones) /\ In (zid, vals) zones /\ In t vals /\
    lit_value l = Some (LVInt v) /\ 0 <= v /\ Temporal.row_matches OEq t (LVInt v) = true /\
    ~ In zid (select_temporal false (Temporal.build zones) [zid] OEq l).
Proof. exact temporal_negative_zone_refuted. Qed.
Print Assumptions C08b_temporal_negative_zone_refuted.

(** FALSE of the code: a negative probe is clamped to 0, so [> v] with [v < 0] misses
    rows at 0 (known class TemporalNegativeProbeGt). *)
Theorem C08b_temporal_negative_probe_refuted :
  exists zones zid vals t l v,
    NoDup (map fst zones) /\ In (zid, vals) zones /\ In t vals /\ (forall u, In u vals -> 0 <= u) /\
    lit_value l = Some (LVInt v) /\ Temporal.row_matches OGt t (LVInt v) = true /\
    ~ In zid (select_temporal false (Temporal.build zones) [zid] OGt l).
Proof. exact temporal_negative_probe_refuted. Qed.
Print Assumptions C08b_temporal_negative_probe_refuted.

(** FALSE of the code: [!=] on a temporal field returns no zone (known class TemporalNeq). *)
Theorem C08b_temporal_neq_refuted :
  exists zones zid vals t l v,
    NoDup (map fst zones) /\ In (zid, vals) zones /\ In t vals /\ (forall u, In u vals -> 0 <= u) /\
    lit_value l = Some (LVInt v) /\ 0 <= v /\ Temporal.row_matches ONeq t (LVInt v) = true /\
    ~ In zid (select_temporal false (Temporal.build zones) [zid] ONeq l).
Proof. exact temporal_neq_refuted. Qed.
Print Assumptions C08b_temporal_neq_refuted.

(** FALSE of the code: bucket ids are truncated to u32 but compared by order; a probe in
    the year 2106 or later misses present-day zones (known class TemporalBeyondU32). *)
Theorem C08b_temporal_u32_wrap_refuted :
  exists zones zid vals t l v,
    NoDup (map fst zones) /\ In (zid, vals) zones /\ In t vals /\ (forall u, In u vals -> 0 <= u) /\
    lit_value l = Some (LVInt v) /\ 0 <= v /\ Temporal.row_matches OLte t (LVInt v) = true /\
    ~ In zid (select_temporal false (Temporal.build zones) [zid] OLte l).
Proof. exact temporal_u32_wrap_refuted. Qed.
Print Assumptions C08b_temporal_u32_wrap_refuted.

(** FALSE of the code: a Float64 literal is probed as 0 (known class TemporalNonIntegerLiteral). *)
Theorem C08b_temporal_float_literal_refuted :
  exists zones zid vals t l n d,
    NoDup (map fst zones) /\ In (zid, vals) zones /\ In t vals /\ (forall u, In u vals -> 0 <= u) /\
    lit_value l = Some (LVRat n d) /\ Temporal.row_matches OLt t (LVRat n d) = true /\
    ~ In zid (select_temporal false (Temporal.build zones) [zid] OLt l).
Proof. exact temporal_float_literal_refuted. Qed.
Print Assumptions C08b_temporal_float_literal_refuted.

(** The strongest true statement: outside the five known classes every operator, every
    literal with a numeric meaning (integer, time string, u64 string), every i64 data. *)
Theorem C08b_temporal_outside_known : forall is_ts zones zid vals t op l lv all,
  NoDup (map fst zones) -> In (zid, vals) zones -> In t vals ->
  (forall u, In u vals -> - 2 ^ 63 <= u < 2 ^ 63) ->
  lit_value l = Some lv ->
  match lv with LVInt v => - 2 ^ 63 <= v < 2 ^ 64 | LVRat _ _ => True end ->
  temporal_known vals op l = false ->
  Temporal.row_matches op t lv = true ->
  In zid (select_temporal is_ts (Temporal.build zones) all op l).
Proof. exact temporal_outside_known. Qed.
Print Assumptions C08b_temporal_outside_known.

(** ** Xor-filter keys (zone-level .zxf and field-level .xf) *)
Open Scope N_scope.

(** Builder and probe derive the same key: for a cell and a literal with the same
    canonical string (in particular the same value), the probe's key is among the keys
    the zone-level builder inserts for the cell's zone and among the keys the
    field-level builder inserts. *)
Theorem C08b_xor_key_agree : forall zones zid cells c l s,
  In (zid, cells) zones -> In (Some c) cells ->
  value_to_string c = Some s -> value_to_string l = Some s ->
  exists k, probe_key l = Some k /\ In k (zone_keys cells) /\ In k (field_keys zones).
Proof. exact xor_key_agree. Qed.
Print Assumptions C08b_xor_key_agree.

(** Given ONLY the contract "a filter built from key list S contains every key of S",
    the zone-level index reports every zone that holds the probed value and whose
    filter was constructed — for every abstract filter implementation. *)
Theorem C08b_xor_zone_sound :
  forall (fuse : Type) (fbuild : list N -> option fuse) (fcontains : fuse -> N -> bool),
  (forall ks f k, fbuild ks = Some f -> In k ks -> fcontains f k = true) ->
  forall zones zid cells c l s inflight all,
    NoDup (map fst zones) -> In (zid, cells) zones -> In (Some c) cells ->
    value_to_string c = Some s -> value_to_string l = Some s ->
    fbuild (zone_keys cells) <> None ->
    In zid (select_zxf fuse fcontains (build_for_field fuse fbuild zones) inflight all OEq l).
Proof. exact xor_zone_sound. Qed.
Print Assumptions C08b_xor_zone_sound.

(** ... and the field-level presence filter admits all zones of the segment. *)
Theorem C08b_xor_field_sound :
  forall (fuse : Type) (fbuild : list N -> option fuse) (fcontains : fuse -> N -> bool),
  (forall ks f k, fbuild ks = Some f -> In k ks -> fcontains f k = true) ->
  forall zones zid cells c l s f all,
    In (zid, cells) zones -> In (Some c) cells ->
    value_to_string c = Some s -> value_to_string l = Some s ->
    build_field_filter fuse fbuild zones = Some f ->
    select_xf fuse fcontains (Some f) all OEq l = all.
Proof. exact xor_field_sound. Qed.
Print Assumptions C08b_xor_field_sound.

(** FALSE of the code: [!=] routed to the zone xor index returns no zone once the segment
    is no longer in flight, for every filter implementation (known class XorNonEqOperator). *)
Theorem C08b_xor_neq_refuted :
  exists (zones : list (N * list (option scalar))) (zid : N) (cells : list (option scalar)) (c l : scalar),
    NoDup (map fst zones) /\ In (zid, cells) zones /\ In (Some c) cells /\
    value_to_string c <> value_to_string l /\ value_to_string l <> None /\
    forall (fuse : Type) (fbuild : list N -> option fuse) (fcontains : fuse -> N -> bool) all,
      ~ In zid (select_zxf fuse fcontains (build_for_field fuse fbuild zones) false all ONeq l).
Proof. exact xor_neq_refuted. Qed.
Print Assumptions C08b_xor_neq_refuted.

Theorem C08b_xor_outside_known :
  forall (fuse : Type) (fbuild : list N -> option fuse) (fcontains : fuse -> N -> bool),
  (forall ks f k, fbuild ks = Some f -> In k ks -> fcontains f k = true) ->
  forall zones zid cells c l s op inflight all,
    xor_known op = false ->
    NoDup (map fst zones) -> In (zid, cells) zones -> In (Some c) cells ->
    value_to_string c = Some s -> value_to_string l = Some s ->
    fbuild (zone_keys cells) <> None ->
    In zid (select_zxf fuse fcontains (build_for_field fuse fbuild zones) inflight all op l).
Proof. exact xor_outside_known. Qed.
Print Assumptions C08b_xor_outside_known.

(** Latent: a zone whose BinaryFuse8 construction failed is skipped by the builder and can
    then never be a candidate (construction failure is not deterministically reachable). *)
Theorem C08b_xor_failed_construction_loses_zone :
  forall (fuse : Type) (fbuild : list N -> option fuse) (fcontains : fuse -> N -> bool),
  forall zones zid cells l,
    NoDup (map fst zones) -> In (zid, cells) zones ->
    fbuild (zone_keys cells) = None ->
    forall fs, build_for_field fuse fbuild zones = Some fs ->
    ~ In zid (zones_maybe_containing fuse fcontains fs l).
Proof. exact xor_failed_construction_loses_zone. Qed.
Print Assumptions C08b_xor_failed_construction_loses_zone.
