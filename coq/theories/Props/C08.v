(** C08 — pruning structures never rule out a zone that holds a matching row.
    Part B (enum bitmaps, temporal calendar + per-zone index, xor-filter keys) first, then part A (the
    succinct range filter). Only property theorems, each closed by [exact], with [Print Assumptions]. *)

(* ===================== part B ===================== *)
(** C08, part B — enum bitmaps, the temporal calendar + per-zone index and the xor-filter
    keys never rule out a zone that holds a matching row.
    This file contains only the property theorems, each closed by [exact], with
    [Print Assumptions] beneath.  Models: Model/ZoneSel.v, EnumBitmap.v, Temporal.v,
    XorKey.v; proofs: Proofs/EnumBitmapProofs.v, TemporalProofs.v, XorKeyProofs.v.
    [select_*] is what a query scans ([FieldSelector::select_for_segment], regenerated
    from the Rust text): all zones of the segment ([all]) when the strategy does not serve
    the operator, else the pruner's answer, else the fallback for a [None].
    State after the fix rounds (f801704 / 01eee7e selector fallback, db7c428 pre-1970 instants). *)
From Coq Require Import NArith ZArith List.
From Snel Require Import Base.Bytes Model.ZoneSel Model.EnumBitmap Model.Temporal Model.XorKey.
From Snel Require Import Proofs.EnumBitmapProofs Proofs.TemporalProofs Proofs.XorKeyProofs.
Import ListNotations.

(** ** Enum bitmaps *)

(** [=] with a declared literal: every zone (any zone count, any row values) that holds
    the literal is a candidate, whenever the index could be built. *)
Theorem C08b_enum_eq_sound : forall variants zones ix zid vals lit all,
  EnumBitmap.build_all variants zones = Some ix ->
  NoDup (map fst zones) ->
  In (zid, vals) zones ->
  In lit variants ->
  (exists v, In v vals /\ EnumBitmap.row_matches OEq v lit = true) ->
  In zid (select_enum (Some ix) all OEq lit).
Proof. exact enum_eq_sound. Qed.
Print Assumptions C08b_enum_eq_sound.

(** [!=] with a declared literal: every zone that holds another declared variant is a candidate. *)
Theorem C08b_enum_neq_sound : forall variants zones ix zid vals lit all,
  EnumBitmap.build_all variants zones = Some ix ->
  NoDup (map fst zones) ->
  In (zid, vals) zones ->
  In lit variants ->
  (exists v, In v vals /\ In v variants /\ EnumBitmap.row_matches ONeq v lit = true) ->
  In zid (select_enum (Some ix) all ONeq lit).
Proof. exact enum_neq_sound. Qed.
Print Assumptions C08b_enum_neq_sound.

(** NOW TRUE (f801704; was C08b_enum_neq_undeclared_refuted): [!=] with a literal that is
    not a declared variant scans every zone of the segment, with or without a loadable index. *)
Theorem C08b_enum_neq_undeclared_sound : forall ix variants lit all zid,
  (match ix with Some x => e_variants x = variants | None => True end) ->
  ~ In lit variants ->
  In zid all ->
  In zid (select_enum ix all ONeq lit).
Proof. exact enum_neq_undeclared_sound. Qed.
Print Assumptions C08b_enum_neq_undeclared_sound.

(** NOW TRUE (01eee7e; was C08b_enum_range_op_refuted): an operator other than [=] / [!=] on
    an enum column scans every zone of the segment, with or without a loadable index. *)
Theorem C08b_enum_unserved_op_all_zones : forall ix all op lit,
  op <> OEq -> op <> ONeq -> select_enum ix all op lit = all.
Proof. exact enum_unserved_op_all_zones. Qed.
Print Assumptions C08b_enum_unserved_op_all_zones.

(** [rows_per_zone] is truncated to 16 bits: with a first zone of 65536 rows every
    bitmap is empty and the first declared value of any zone makes the builder panic
    (known class EnumZoneLongerThanBitmap; latent, depends on the configured zone size). *)
Theorem C08b_enum_rows_per_zone_wrap_refuted :
  exists n, (0 < n)%N /\ rows_per_zone_of n = 0%N /\
    forall variants v r, In v variants -> add_zone_values variants (rows_per_zone_of n) (v :: r) = None.
Proof. exact enum_rows_per_zone_wrap_refuted. Qed.
Print Assumptions C08b_enum_rows_per_zone_wrap_refuted.

(** ... and the index CAN be built for every flush whose first zone is the longest and
    has fewer than 2^16 rows (what the zone planner produces), so the hypotheses above are met. *)
Theorem C08b_enum_build_ok : forall variants z0 vals0 rest,
  (N.of_nat (length vals0) < 2 ^ Snel.Gen.Params.zidx_rpz_bits)%N ->
  (forall zid vals, In (zid, vals) rest -> (length vals <= length vals0)%nat) ->
  EnumBitmap.build_all variants ((z0, vals0) :: rest) <> None.
Proof. exact enum_build_ok. Qed.
Print Assumptions C08b_enum_build_ok.

(** The strongest true statement — no known class is left at selector level (was
    C08b_enum_outside_known with the exclusion [enum_known]): for columns that hold only
    declared variants (STORE validation, C06), EVERY operator is sound for EVERY literal,
    declared or not. *)
Theorem C08b_enum_sound_all_operators : forall variants zones ix zid vals op lit all,
  EnumBitmap.build_all variants zones = Some ix ->
  NoDup (map fst zones) ->
  In (zid, vals) zones ->
  In zid all ->
  (forall v, In v vals -> In v variants) ->
  (exists v, In v vals /\ EnumBitmap.row_matches op v lit = true) ->
  In zid (select_enum (Some ix) all op lit).
Proof. exact enum_sound_all_operators. Qed.
Print Assumptions C08b_enum_sound_all_operators.

(** ** Temporal calendar + per-zone index *)
Open Scope Z_scope.

(** NOW TRUE for pre-1970 data and negative probes (db7c428; was C08b_temporal_sound_nonneg,
    C08b_temporal_negative_zone_refuted, C08b_temporal_negative_probe_refuted).
    All of [=, >, >=, <, <=]; any number of zones; ANY value lists of ANY sign (for the
    fixed [timestamp] column, [mode = 0], the zone must hold no negative value; payload
    datetime fields are [mode = 1]); timestamps on hour/day boundaries included; any
    integer / time-string probe of any sign: a zone holding a row that satisfies the probe
    is a candidate, provided the day buckets (clamped at 0) of that row and of the probe
    start below 2^32. *)
Theorem C08b_temporal_sound : forall mode is_ts zones zid vals t op l v all,
  NoDup (map fst zones) -> In (zid, vals) zones -> In t vals ->
  (mode = 0%N -> forall u, In u vals -> 0 <= u) ->
  lit_value l = Some (LVInt v) ->
  day_in_u32 v -> day_in_u32 t ->
  In op [OEq; OGt; OGte; OLt; OLte] ->
  Temporal.row_matches op t (LVInt v) = true ->
  In zid (select_temporal is_ts (Temporal.build mode zones) all op l).
Proof. exact temporal_sound. Qed.
Print Assumptions C08b_temporal_sound.

(** The per-zone index contains EVERY instant it was built from — for every zone size (no
    bound: 1, 65, 100, 7999 … distinct instants) and every value list with duplicates in
    any order.  This is the specification of [ZoneTemporalIndex::contains_ts] that the
    calendar-then-index equality probe relies on (the model has no fence component: the
    pinned [contains_ts] searches all keys; a fence-window refinement must still satisfy
    this statement, and the size families of the generator test it at 65..8001 instants). *)
Theorem C08b_temporal_index_contains_every_instant : forall ts t,
  In t ts -> contains_ts (from_timestamps ts) t = true.
Proof. exact ft_contains. Qed.
Print Assumptions C08b_temporal_index_contains_every_instant.

(** [=] is sound for every magnitude and sign (truncated bucket ids only collide, never reorder). *)
Theorem C08b_temporal_eq_sound_any_magnitude : forall mode is_ts zones zid vals t l v all,
  NoDup (map fst zones) -> In (zid, vals) zones -> In t vals ->
  (mode = 0%N -> forall u, In u vals -> 0 <= u) ->
  lit_value l = Some (LVInt v) ->
  Temporal.row_matches OEq t (LVInt v) = true ->
  In zid (select_temporal is_ts (Temporal.build mode zones) all OEq l).
Proof. exact temporal_eq_sound_any_magnitude. Qed.
Print Assumptions C08b_temporal_eq_sound_any_magnitude.

(** NOW TRUE (f801704; was C08b_temporal_neq_refuted): [!=] and [IN] on a temporal field scan
    every zone of the segment, whatever the index, the data and the literal. *)
Theorem C08b_temporal_neq_all_zones : forall is_ts ix all op l,
  op = ONeq \/ op = OIn ->
  select_temporal is_ts ix all op l = all.
Proof. exact temporal_neq_all_zones. Qed.
Print Assumptions C08b_temporal_neq_all_zones.

(** FALSE of the code: bucket ids are truncated to u32 but compared by order; a probe in
    the year 2106 or later misses present-day zones (known class TemporalBeyondU32). *)
Theorem C08b_temporal_u32_wrap_refuted :
  exists zones zid vals t l v,
    NoDup (map fst zones) /\ In (zid, vals) zones /\ In t vals /\ (forall u, In u vals -> 0 <= u) /\
    lit_value l = Some (LVInt v) /\ 0 <= v /\ Temporal.row_matches OLte t (LVInt v) = true /\
    ~ In zid (select_temporal false (Temporal.build 1 zones) [zid] OLte l).
Proof. exact temporal_u32_wrap_refuted. Qed.
Print Assumptions C08b_temporal_u32_wrap_refuted.

(** FALSE of the code: a Float64 literal is probed as 0 (known class TemporalNonIntegerLiteral). *)
Theorem C08b_temporal_float_literal_refuted :
  exists zones zid vals t l n d,
    NoDup (map fst zones) /\ In (zid, vals) zones /\ In t vals /\ (forall u, In u vals -> 0 <= u) /\
    lit_value l = Some (LVRat n d) /\ Temporal.row_matches OLt t (LVRat n d) = true /\
    ~ In zid (select_temporal false (Temporal.build 1 zones) [zid] OLt l).
Proof. exact temporal_float_literal_refuted. Qed.
Print Assumptions C08b_temporal_float_literal_refuted.

(** The strongest true statement, STRONGER than before the fix round: every operator
    ([!=], [IN] included), every literal with a meaning, data of any sign; the known class
    shrank from five disjuncts to two (Float64 literal; range operator beyond the u32 day
    buckets) and now speaks about the matching row only. *)
Theorem C08b_temporal_outside_known : forall mode is_ts zones zid vals t op l lv all,
  NoDup (map fst zones) -> In (zid, vals) zones -> In t vals -> In zid all ->
  (mode = 0%N -> forall u, In u vals -> 0 <= u) ->
  lit_value l = Some lv ->
  temporal_known t op l = false ->
  Temporal.row_matches op t lv = true ->
  In zid (select_temporal is_ts (Temporal.build mode zones) all op l).
Proof. exact temporal_outside_known. Qed.
Print Assumptions C08b_temporal_outside_known.

(** ** Xor-filter keys (zone-level .zxf and field-level .xf) *)
Open Scope N_scope.

(** Builder and probe derive the same key: for a cell and a literal with the same
    canonical string (in particular the same value), the probe's key is among the keys
    the zone-level builder inserts for the cell's zone and among the keys the
    field-level builder inserts. *)
Theorem C08b_xor_key_agree : forall zones zid cells c l s,
  In (zid, cells) zones -> In (Some c) cells ->
  value_to_string c = Some s -> value_to_string l = Some s ->
  exists k, probe_key l = Some k /\ In k (zone_keys cells) /\ In k (field_keys zones).
Proof. exact xor_key_agree. Qed.
Print Assumptions C08b_xor_key_agree.

(** Given ONLY the contract "a filter built from key list S contains every key of S",
    the zone-level index reports every zone that holds the probed value and whose
    filter was constructed — for every abstract filter implementation. *)
Theorem C08b_xor_zone_sound :
  forall (fuse : Type) (fbuild : list N -> option fuse) (fcontains : fuse -> N -> bool),
  (forall ks f k, fbuild ks = Some f -> In k ks -> fcontains f k = true) ->
  forall zones zid cells c l s inflight all,
    NoDup (map fst zones) -> In (zid, cells) zones -> In (Some c) cells ->
    value_to_string c = Some s -> value_to_string l = Some s ->
    fbuild (zone_keys cells) <> None ->
    In zid (select_zxf fuse fcontains (build_for_field fuse fbuild zones) inflight all OEq l).
Proof. exact xor_zone_sound. Qed.
Print Assumptions C08b_xor_zone_sound.

(** ... and the field-level presence filter admits all zones of the segment. *)
Theorem C08b_xor_field_sound :
  forall (fuse : Type) (fbuild : list N -> option fuse) (fcontains : fuse -> N -> bool),
  (forall ks f k, fbuild ks = Some f -> In k ks -> fcontains f k = true) ->
  forall zones zid cells c l s f all,
    In (zid, cells) zones -> In (Some c) cells ->
    value_to_string c = Some s -> value_to_string l = Some s ->
    build_field_filter fuse fbuild zones = Some f ->
    select_xf fuse fcontains (Some f) all OEq l = all.
Proof. exact xor_field_sound. Qed.
Print Assumptions C08b_xor_field_sound.

(** NOW TRUE (f801704; was C08b_xor_neq_refuted): for an operator other than [=] the zone
    xor index and the presence filter are not consulted; every zone of the segment is
    scanned, for every filter implementation, in flight or not. *)
Theorem C08b_xor_non_eq_all_zones :
  forall (fuse : Type) (fcontains : fuse -> N -> bool) ix inflight all op l,
    op <> OEq -> select_zxf fuse fcontains ix inflight all op l = all.
Proof. exact xor_non_eq_all_zones. Qed.
Print Assumptions C08b_xor_non_eq_all_zones.

Theorem C08b_xor_presence_non_eq_all_zones :
  forall (fuse : Type) (fcontains : fuse -> N -> bool) f all op l,
    op <> OEq -> select_xf fuse fcontains f all op l = all.
Proof. exact xor_presence_non_eq_all_zones. Qed.
Print Assumptions C08b_xor_presence_non_eq_all_zones.

(** No known class is left for the zone xor index (was C08b_xor_outside_known with the
    exclusion [xor_known]): EVERY operator is sound. *)
Theorem C08b_xor_sound_all_operators :
  forall (fuse : Type) (fbuild : list N -> option fuse) (fcontains : fuse -> N -> bool),
  (forall ks f k, fbuild ks = Some f -> In k ks -> fcontains f k = true) ->
  forall zones zid cells c l s op inflight all,
    In zid all ->
    NoDup (map fst zones) -> In (zid, cells) zones -> In (Some c) cells ->
    value_to_string c = Some s -> value_to_string l = Some s ->
    fbuild (zone_keys cells) <> None ->
    In zid (select_zxf fuse fcontains (build_for_field fuse fbuild zones) inflight all op l).
Proof. exact xor_sound_all_operators. Qed.
Print Assumptions C08b_xor_sound_all_operators.

(** Latent: a zone whose BinaryFuse8 construction failed is skipped by the builder and can
    then never be a candidate of [=] (construction failure is not deterministically reachable). *)
Theorem C08b_xor_failed_construction_loses_zone :
  forall (fuse : Type) (fbuild : list N -> option fuse) (fcontains : fuse -> N -> bool),
  forall zones zid cells l,
    NoDup (map fst zones) -> In (zid, cells) zones ->
    fbuild (zone_keys cells) = None ->
    forall fs, build_for_field fuse fbuild zones = Some fs ->
    ~ In zid (zones_maybe_containing fuse fcontains fs l).
Proof. exact xor_failed_construction_loses_zone. Qed.
Print Assumptions C08b_xor_failed_construction_loses_zone.


(* ===================== part A ===================== *)
(** C08 (part A: the succinct range filter) — pruning structures never rule out a zone that
    holds a matching row.  This file contains only the property theorems, each closed by
    [exact], with [Print Assumptions] beneath.
    Models: Model/SurfEnc.v, Model/Trie.v, Model/ZoneSurf.v;
    proofs: Proofs/SurfLexProofs.v, SurfEncProofs.v, SurfTrieProofs.v, SurfZoneProofs.v.

    Doubles are their 64-bit patterns; [f_val b] is the real value of the pattern scaled by
    2^1074 (exact in Z); numbers of values ([num_of]) are scaled the same way. *)
From Coq Require Import ZArith NArith List.
From Snel Require Import Base.Bytes Gen.Params Model.SurfEnc Model.Trie Model.ZoneSurf.
From Snel Require Import Proofs.SurfLexProofs Proofs.SurfEncProofs Proofs.SurfTrieProofs Proofs.SurfZoneProofs.
Import ListNotations.
Open Scope N_scope.

(** ** Order-preserving 8-byte keys *)

(** big-endian 8-byte strings compare lexicographically as the numbers compare *)
Theorem C08_be8_order : forall a b, a < 2 ^ 64 -> b < 2 ^ 64 ->
  bytes_cmp (be8 a) (be8 b) = N.compare a b.
Proof. exact be8_lex. Qed.
Print Assumptions C08_be8_order.

(** i64 lane (sign flip) *)
Theorem C08_enc_i64_mono : forall x y,
  (- 2 ^ 63 <= x < 2 ^ 63)%Z -> (- 2 ^ 63 <= y < 2 ^ 63)%Z ->
  bytes_cmp (enc_i64 x) (enc_i64 y) = Z.compare x y.
Proof. exact enc_i64_mono. Qed.
Print Assumptions C08_enc_i64_mono.

(** raw u64 lane *)
Theorem C08_enc_u64_mono : forall a b, a < 2 ^ 64 -> b < 2 ^ 64 ->
  bytes_cmp (enc_u64 a) (enc_u64 b) = N.compare a b.
Proof. exact enc_u64_mono. Qed.
Print Assumptions C08_enc_u64_mono.

(** f64 lane (bit trick): keys compare as the sign-magnitude (IEEE totalOrder) order of the
    bit patterns, NaNs and infinities included *)
Theorem C08_enc_f64_mono : forall a b, a < 2 ^ 64 -> b < 2 ^ 64 ->
  bytes_cmp (enc_f64 a) (enc_f64 b) = f64_total_cmp a b.
Proof. exact enc_f64_mono. Qed.
Print Assumptions C08_enc_f64_mono.

(** ... and that order is the order of the real values the patterns denote (proved, not
    assumed); for non-zero doubles the keys compare exactly as the values *)
Theorem C08_f64_bits_order_is_value_order : forall a b, a < 2 ^ 64 -> b < 2 ^ 64 ->
  ((f_val a < f_val b)%Z -> f64_total_cmp a b = Lt) /\
  (f_mag_scaled a <> 0 -> f_mag_scaled b <> 0 ->
   bytes_cmp (enc_f64 a) (enc_f64 b) = Z.compare (f_val a) (f_val b)).
Proof. exact f64_bits_order_is_value_order. Qed.
Print Assumptions C08_f64_bits_order_is_value_order.

(** two well-formed, unsaturated values routed by [encode_value] to the same lane get 8-byte
    keys that compare exactly as the numbers the values denote *)
Theorem C08_same_lane_key_order : forall v p l,
  sval_wf v = true -> sval_wf p = true ->
  saturates v = false -> saturates p = false ->
  lane_of v = Some l -> lane_of p = Some l ->
  exists kv kp a b,
    encode_value v = Some kv /\ encode_value p = Some kp /\
    num_of v = Some a /\ num_of p = Some b /\
    length kv = 8%nat /\ length kp = 8%nat /\
    bytes_cmp kv kp = Z.compare a b.
Proof. exact same_lane_key_order. Qed.
Print Assumptions C08_same_lane_key_order.

(** once the numeric-consistency gate passed, every key inserted into a zone's trie has
    length 8 *)
Theorem C08_surf_keys_len8 : forall zs id rows k,
  gate zs = true -> In (id, rows) zs ->
  In k (key_dedup (key_sort (present_keys rows))) -> length k = 8%nat.
Proof. exact surf_keys_len8. Qed.
Print Assumptions C08_surf_keys_len8.

(** ** The trie *)

(** the trie built from a key list (any order, duplicates, any lengths) is well formed and
    holds exactly those keys *)
Theorem C08_trie_build_keys : forall ks,
  wf_t (t_build ks) /\ forall k, In k (keys_t (t_build ks)) <-> In k ks.
Proof. exact t_build_spec. Qed.
Print Assumptions C08_trie_build_keys.

(** [find_first_key_geq]: the least key >= target; [None] iff every key is smaller *)
Theorem C08_trie_first_geq_spec : forall ks target,
  match find_first_key_geq (t_build ks) target with
  | Some r => In r ks /\ ble target r /\ forall k, In k ks -> ble target k -> ble r k
  | None => forall k, In k ks -> blt k target
  end.
Proof. exact first_geq_spec. Qed.
Print Assumptions C08_trie_first_geq_spec.

(** [find_last_key_leq] for keys of the target's length: the greatest key <= target *)
Theorem C08_trie_last_leq_spec_uniform : forall ks target,
  (forall k, In k ks -> length k = length target) ->
  match find_last_key_leq (t_build ks) target with
  | Some r => In r ks /\ ble r target /\ forall k, In k ks -> ble k target -> ble k r
  | None => forall k, In k ks -> blt target k
  end.
Proof. exact last_leq_spec_uniform. Qed.
Print Assumptions C08_trie_last_leq_spec_uniform.

(** [may_overlap_ge] (inclusive and exclusive) is exact for every key list *)
Theorem C08_trie_may_overlap_ge_exact : forall ks lower (incl : bool),
  may_overlap_ge (t_build ks) lower incl = true <->
  exists k, In k ks /\ (if incl then ble lower k else blt lower k).
Proof. exact may_overlap_ge_exact. Qed.
Print Assumptions C08_trie_may_overlap_ge_exact.

(** [may_overlap_le] is exact for keys of the bound's length *)
Theorem C08_trie_may_overlap_le_exact_uniform : forall ks upper (incl : bool),
  (forall k, In k ks -> length k = length upper) ->
  (may_overlap_le (t_build ks) upper incl = true <->
   exists k, In k ks /\ (if incl then ble k upper else blt k upper)).
Proof. exact may_overlap_le_exact_uniform. Qed.
Print Assumptions C08_trie_may_overlap_le_exact_uniform.

(** [may_overlap_le] has no false negative unless some key is a proper prefix of the bound *)
Theorem C08_trie_may_overlap_le_sound_outside_known : forall ks upper (incl : bool),
  ~ SurfTrieProperPrefixKey ks upper ->
  (exists k, In k ks /\ (if incl then ble k upper else blt k upper)) ->
  may_overlap_le (t_build ks) upper incl = true.
Proof. exact may_overlap_le_sound_outside_known. Qed.
Print Assumptions C08_trie_may_overlap_le_sound_outside_known.

(** ... and with such a key it has one: keys "a","abz", target "aba" (latent: the builder
    only inserts 8-byte keys) *)
Theorem C08_trie_last_leq_prefix_refuted :
  exists ks target k,
    In k ks /\ ble k target /\
    find_last_key_leq (t_build ks) target = None /\
    may_overlap_le (t_build ks) target true = false.
Proof. exact last_leq_prefix_refuted. Qed.
Print Assumptions C08_trie_last_leq_prefix_refuted.

(** ** The per-zone range filter: builder + pruner *)

(** For every column (any number of zones and rows, rows possibly without the field), every
    operator and every probe literal: when the pruner answers [Some res], every zone holding
    a row that satisfies the probe is in [res] — unless the row falls in a known class:
    first event of the zone lacks the field / a double equal to 2^63 or >= 2^64 is involved /
    row and literal are encoded in different lanes.  ([None] = the caller scans all zones.) *)
Theorem C08_surf_sound_outside_known : forall zs op p res id rows v,
  prune zs op p = Some res ->
  In (id, rows) zs -> In (Some v) rows ->
  sval_wf v = true -> sval_wf p = true ->
  sat op v p = true ->
  known_class rows v p = None ->
  In id res.
Proof. exact surf_sound_outside_known. Qed.
Print Assumptions C08_surf_sound_outside_known.

(** values and probe in one lane and every row has the field: full soundness *)
Theorem C08_surf_sound_same_lane : forall zs op p l res,
  (forall id rows r, In (id, rows) zs -> In r rows ->
     exists v, r = Some v /\ sval_wf v = true /\ saturates v = false /\ lane_of v = Some l) ->
  sval_wf p = true -> saturates p = false -> lane_of p = Some l ->
  prune zs op p = Some res ->
  forall id rows v, In (id, rows) zs -> In (Some v) rows -> sat op v p = true -> In id res.
Proof. exact surf_sound_same_lane. Qed.
Print Assumptions C08_surf_sound_same_lane.

(** The unrestricted statement is false of the faithful model; one witness per class. *)
Theorem C08_surf_sound_refuted_float_lanes :
  false_negative [(0, [Some (VFloat 4611686018427387904)])] OGte (VFloat 4610334938539176755) SurfCrossLane.
Proof. exact surf_refuted_float_lanes. Qed.
Print Assumptions C08_surf_sound_refuted_float_lanes.

Theorem C08_surf_sound_refuted_u64_lane :
  false_negative [(0, [Some (VStr str_2p63_5 None)])] OGt (VInt 10) SurfCrossLane.
Proof. exact surf_refuted_u64_lane. Qed.
Print Assumptions C08_surf_sound_refuted_u64_lane.

Theorem C08_surf_sound_refuted_int_vs_fraction :
  false_negative [(0, [Some (VInt 2)])] OGt (VFloat 4609434218613702656) SurfCrossLane.
Proof. exact surf_refuted_int_vs_fraction. Qed.
Print Assumptions C08_surf_sound_refuted_int_vs_fraction.

Theorem C08_surf_sound_refuted_saturation :
  false_negative [(0, [Some (VFloat 4899916394579099648)])] OGt (VFloat 4895412794951729152) SurfSaturatedFloat.
Proof. exact surf_refuted_saturation. Qed.
Print Assumptions C08_surf_sound_refuted_saturation.

Theorem C08_surf_sound_refuted_first_row :
  surf_keys_from_first_event = true ->
  false_negative [(0, [None; Some (VInt 5)]); (1, [Some (VInt 0)])] OGt (VInt 1) SurfFirstRowLacksField.
Proof. exact surf_refuted_first_row. Qed.
Print Assumptions C08_surf_sound_refuted_first_row.

(* ===================== part C ===================== *)
(** C08, part C — the context index ([ZoneIndex]: event type -> context id -> zone ids, filled by
    [ZoneWriter::write_all] on flush and compaction, asked by [find_candidate_zones] for
    `FOR <context>` / `context_id = ...`).  Model: Model/CtxIndex.v; proofs: Proofs/CtxIndexProofs.v.
    [zone_holds zps et c z]: some zone plan of the list has id [z], event type [et] and a row of
    context [c] (the brute-force scan). *)
From Snel Require Model.CtxIndex Proofs.CtxIndexProofs.

(** A probe by context reports every zone holding a row of the context: all lists of zone plans
    (any ids, any order, repeated ids, any row counts, contexts straddling zone boundaries or
    recurring in non-adjacent zones, several event types). *)
Theorem C08c_ctx_probe_sound : forall zps et c z,
  CtxIndex.zone_holds zps et c z -> In z (CtxIndex.find (CtxIndex.build zps) et (Some c)).
Proof. exact CtxIndexProofs.ctx_probe_sound. Qed.
Print Assumptions C08c_ctx_probe_sound.

(** A probe without a context reports every zone holding any row of the event type. *)
Theorem C08c_ctx_probe_none_sound : forall zps et c z,
  CtxIndex.zone_holds zps et c z -> In z (CtxIndex.find (CtxIndex.build zps) et None).
Proof. exact CtxIndexProofs.ctx_probe_none_sound. Qed.
Print Assumptions C08c_ctx_probe_none_sound.

(** The modelled index is exact: a zone is reported for a context iff it holds a row of it. *)
Theorem C08c_ctx_probe_exact : forall zps et c z,
  In z (CtxIndex.find (CtxIndex.build zps) et (Some c)) <-> CtxIndex.zone_holds zps et c z.
Proof. exact CtxIndexProofs.ctx_probe_exact. Qed.
Print Assumptions C08c_ctx_probe_exact.
