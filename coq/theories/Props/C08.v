(** C08 (part A: the succinct range filter) — pruning structures never rule out a zone that
    holds a matching row.  This file contains only the property theorems, each closed by
    [exact], with [Print Assumptions] beneath.
    Models: Model/SurfEnc.v, Model/Trie.v, Model/ZoneSurf.v;
    proofs: Proofs/SurfLexProofs.v, SurfEncProofs.v, SurfTrieProofs.v, SurfZoneProofs.v.

    Doubles are their 64-bit patterns; [f_val b] is the real value of the pattern scaled by
    2^1074 (exact in Z); numbers of values ([num_of]) are scaled the same way. *)
From Coq Require Import ZArith NArith List.
From Snel Require Import Base.Bytes Gen.Params Model.SurfEnc Model.Trie Model.ZoneSurf.
From Snel Require Import Proofs.SurfLexProofs Proofs.SurfEncProofs Proofs.SurfTrieProofs Proofs.SurfZoneProofs.
Import ListNotations.
Open Scope N_scope.

(** ** Order-preserving 8-byte keys *)

(** big-endian 8-byte strings compare lexicographically as the numbers compare *)
Theorem C08_be8_order : forall a b, a < 2 ^ 64 -> b < 2 ^ 64 ->
  bytes_cmp (be8 a) (be8 b) = N.compare a b.
Proof. exact be8_lex. Qed.
Print Assumptions C08_be8_order.

(** i64 lane (sign flip) *)
Theorem C08_enc_i64_mono : forall x y,
  (- 2 ^ 63 <= x < 2 ^ 63)%Z -> (- 2 ^ 63 <= y < 2 ^ 63)%Z ->
  bytes_cmp (enc_i64 x) (enc_i64 y) = Z.compare x y.
Proof. exact enc_i64_mono. Qed.
Print Assumptions C08_enc_i64_mono.

(** raw u64 lane *)
Theorem C08_enc_u64_mono : forall a b, a < 2 ^ 64 -> b < 2 ^ 64 ->
  bytes_cmp (enc_u64 a) (enc_u64 b) = N.compare a b.
Proof. exact enc_u64_mono. Qed.
Print Assumptions C08_enc_u64_mono.

(** f64 lane (bit trick): keys compare as the sign-magnitude (IEEE totalOrder) order of the
    bit patterns, NaNs and infinities included *)
Theorem C08_enc_f64_mono : forall a b, a < 2 ^ 64 -> b < 2 ^ 64 ->
  bytes_cmp (enc_f64 a) (enc_f64 b) = f64_total_cmp a b.
Proof. exact enc_f64_mono. Qed.
Print Assumptions C08_enc_f64_mono.

(** ... and that order is the order of the real values the patterns denote (proved, not
    assumed); for non-zero doubles the keys compare exactly as the values *)
Theorem C08_f64_bits_order_is_value_order : forall a b, a < 2 ^ 64 -> b < 2 ^ 64 ->
  ((f_val a < f_val b)%Z -> f64_total_cmp a b = Lt) /\
  (f_mag_scaled a <> 0 -> f_mag_scaled b <> 0 ->
   bytes_cmp (enc_f64 a) (enc_f64 b) = Z.compare (f_val a) (f_val b)).
Proof. exact f64_bits_order_is_value_order. Qed.
Print Assumptions C08_f64_bits_order_is_value_order.

(** two well-formed, unsaturated values routed by [encode_value] to the same lane get 8-byte
    keys that compare exactly as the numbers the values denote *)
Theorem C08_same_lane_key_order : forall v p l,
  sval_wf v = true -> sval_wf p = true ->
  saturates v = false -> saturates p = false ->
  lane_of v = Some l -> lane_of p = Some l ->
  exists kv kp a b,
    encode_value v = Some kv /\ encode_value p = Some kp /\
    num_of v = Some a /\ num_of p = Some b /\
    length kv = 8%nat /\ length kp = 8%nat /\
    bytes_cmp kv kp = Z.compare a b.
Proof. exact same_lane_key_order. Qed.
Print Assumptions C08_same_lane_key_order.

(** once the numeric-consistency gate passed, every key inserted into a zone's trie has
    length 8 *)
Theorem C08_surf_keys_len8 : forall zs id rows k,
  gate zs = true -> In (id, rows) zs ->
  In k (key_dedup (key_sort (present_keys rows))) -> length k = 8%nat.
Proof. exact surf_keys_len8. Qed.
Print Assumptions C08_surf_keys_len8.

(** ** The trie *)

(** the trie built from a key list (any order, duplicates, any lengths) is well formed and
    holds exactly those keys *)
Theorem C08_trie_build_keys : forall ks,
  wf_t (t_build ks) /\ forall k, In k (keys_t (t_build ks)) <-> In k ks.
Proof. exact t_build_spec. Qed.
Print Assumptions C08_trie_build_keys.

(** [find_first_key_geq]: the least key >= target; [None] iff every key is smaller *)
Theorem C08_trie_first_geq_spec : forall ks target,
  match find_first_key_geq (t_build ks) target with
  | Some r => In r ks /\ ble target r /\ forall k, In k ks -> ble target k -> ble r k
  | None => forall k, In k ks -> blt k target
  end.
Proof. exact first_geq_spec. Qed.
Print Assumptions C08_trie_first_geq_spec.

(** [find_last_key_leq] for keys of the target's length: the greatest key <= target *)
Theorem C08_trie_last_leq_spec_uniform : forall ks target,
  (forall k, In k ks -> length k = length target) ->
  match find_last_key_leq (t_build ks) target with
  | Some r => In r ks /\ ble r target /\ forall k, In k ks -> ble k target -> ble k r
  | None => forall k, In k ks -> blt target k
  end.
Proof. exact last_leq_spec_uniform. Qed.
Print Assumptions C08_trie_last_leq_spec_uniform.

(** [may_overlap_ge] (inclusive and exclusive) is exact for every key list *)
Theorem C08_trie_may_overlap_ge_exact : forall ks lower (incl : bool),
  may_overlap_ge (t_build ks) lower incl = true <->
  exists k, In k ks /\ (if incl then ble lower k else blt lower k).
Proof. exact may_overlap_ge_exact. Qed.
Print Assumptions C08_trie_may_overlap_ge_exact.

(** [may_overlap_le] is exact for keys of the bound's length *)
Theorem C08_trie_may_overlap_le_exact_uniform : forall ks upper (incl : bool),
  (forall k, In k ks -> length k = length upper) ->
  (may_overlap_le (t_build ks) upper incl = true <->
   exists k, In k ks /\ (if incl then ble k upper else blt k upper)).
Proof. exact may_overlap_le_exact_uniform. Qed.
Print Assumptions C08_trie_may_overlap_le_exact_uniform.

(** [may_overlap_le] has no false negative unless some key is a proper prefix of the bound *)
Theorem C08_trie_may_overlap_le_sound_outside_known : forall ks upper (incl : bool),
  ~ SurfTrieProperPrefixKey ks upper ->
  (exists k, In k ks /\ (if incl then ble k upper else blt k upper)) ->
  may_overlap_le (t_build ks) upper incl = true.
Proof. exact may_overlap_le_sound_outside_known. Qed.
Print Assumptions C08_trie_may_overlap_le_sound_outside_known.

(** ... and with such a key it has one: keys "a","abz", target "aba" (latent: the builder
    only inserts 8-byte keys) *)
Theorem C08_trie_last_leq_prefix_refuted :
  exists ks target k,
    In k ks /\ ble k target /\
    find_last_key_leq (t_build ks) target = None /\
    may_overlap_le (t_build ks) target true = false.
Proof. exact last_leq_prefix_refuted. Qed.
Print Assumptions C08_trie_last_leq_prefix_refuted.

(** ** The per-zone range filter: builder + pruner *)

(** For every column (any number of zones and rows, rows possibly without the field), every
    operator and every probe literal: when the pruner answers [Some res], every zone holding
    a row that satisfies the probe is in [res] — unless the row falls in a known class:
    first event of the zone lacks the field / a double equal to 2^63 or >= 2^64 is involved /
    row and literal are encoded in different lanes.  ([None] = the caller scans all zones.) *)
Theorem C08_surf_sound_outside_known : forall zs op p res id rows v,
  prune zs op p = Some res ->
  In (id, rows) zs -> In (Some v) rows ->
  sval_wf v = true -> sval_wf p = true ->
  sat op v p = true ->
  known_class rows v p = None ->
  In id res.
Proof. exact surf_sound_outside_known. Qed.
Print Assumptions C08_surf_sound_outside_known.

(** values and probe in one lane and every row has the field: full soundness *)
Theorem C08_surf_sound_same_lane : forall zs op p l res,
  (forall id rows r, In (id, rows) zs -> In r rows ->
     exists v, r = Some v /\ sval_wf v = true /\ saturates v = false /\ lane_of v = Some l) ->
  sval_wf p = true -> saturates p = false -> lane_of p = Some l ->
  prune zs op p = Some res ->
  forall id rows v, In (id, rows) zs -> In (Some v) rows -> sat op v p = true -> In id res.
Proof. exact surf_sound_same_lane. Qed.
Print Assumptions C08_surf_sound_same_lane.

(** The unrestricted statement is false of the faithful model; one witness per class. *)
Theorem C08_surf_sound_refuted_float_lanes :
  false_negative [(0, [Some (VFloat 4611686018427387904)])] OGte (VFloat 4610334938539176755) SurfCrossLane.
Proof. exact surf_refuted_float_lanes. Qed.
Print Assumptions C08_surf_sound_refuted_float_lanes.

Theorem C08_surf_sound_refuted_u64_lane :
  false_negative [(0, [Some (VStr str_2p63_5 None)])] OGt (VInt 10) SurfCrossLane.
Proof. exact surf_refuted_u64_lane. Qed.
Print Assumptions C08_surf_sound_refuted_u64_lane.

Theorem C08_surf_sound_refuted_int_vs_fraction :
  false_negative [(0, [Some (VInt 2)])] OGt (VFloat 4609434218613702656) SurfCrossLane.
Proof. exact surf_refuted_int_vs_fraction. Qed.
Print Assumptions C08_surf_sound_refuted_int_vs_fraction.

Theorem C08_surf_sound_refuted_saturation :
  false_negative [(0, [Some (VFloat 4899916394579099648)])] OGt (VFloat 4895412794951729152) SurfSaturatedFloat.
Proof. exact surf_refuted_saturation. Qed.
Print Assumptions C08_surf_sound_refuted_saturation.

Theorem C08_surf_sound_refuted_first_row :
  surf_keys_from_first_event = true ->
  false_negative [(0, [None; Some (VInt 5)]); (1, [Some (VInt 0)])] OGt (VInt 1) SurfFirstRowLacksField.
Proof. exact surf_refuted_first_row. Qed.
Print Assumptions C08_surf_sound_refuted_first_row.
