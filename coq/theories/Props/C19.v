(** C19 — WAL files are deleted only after a complete, lossless archive exists.
    This file contains only the property theorems, each closed by [exact], with
    [Print Assumptions] beneath.  Model: Model/WalArchive.v ([cleanup_up_to], [archive_logs_up_to],
    [archive_log], [recover_all], [run_history] are the functions that are extracted and run against
    the real WalCleaner / WalArchiver / WalArchiveRecovery); proofs and the specification-level
    definitions used below ([names], [root_lookup], [wal_wf], [line_wf], [expected_recovery]):
    Proofs/WalArchiveProofs.v.

    Quantification: every theorem holds for all WAL directory contents (any names, files, directories,
    lines of every class), all keep ids, all states of the archive directory (missing, not a directory,
    any entries including directories squatting on archive names and undecodable files), all fault
    oracles [fl] (per-log early/late write failure, per-file deletion failure) and both ways of building
    the cleaner ([cleaner_dir w] is the directory it works on).

    After the fix round (1c3fa90, db8e58e, 06752f6 in /repo) the model describes the repaired code —
    the three behaviours are switched by flags regenerated from the Rust text, and the proofs need the
    repaired values.  The theorems about deleted logs and about recovery now hold without any exclusion;
    the only KnownClass left is [name_reused] (ArchiveNameReused). *)
From Coq Require Import NArith List Bool.
From Snel Require Import Base.Bytes Gen.Params Model.WalArchive Proofs.WalArchiveProofs.
Import ListNotations.
Open Scope N_scope.

(** Conservative mode: if archiving any eligible file fails, no log file is deleted. *)
Theorem C19_no_delete_on_any_failure : forall fl w keep w' res,
  cleanup_up_to true fl w keep = (w', res) ->
  existsb is_none res = true ->
  w_wal w' = w_wal w /\ w_cwal w' = w_cwal w.
Proof. exact no_delete_on_any_failure. Qed.
Print Assumptions C19_no_delete_on_any_failure.

(** ... and every fault pattern of the statement does make the pass report a failure: the archive path
    is not a directory, an eligible log is a directory / contains a non-UTF-8 line, the environment fails
    the write (early or late), or a directory occupies the archive file name. *)
Theorem C19_fault_patterns_fail : forall fl w keep w' res o id,
  cleanup_up_to true fl w keep = (w', res) ->
  In (log_name id, o) (cleaner_dir w) -> parse_log_name (log_name id) = Some id -> walarch_eligible id keep = true ->
  (w_root w = RNotDir
   \/ lookup (log_name id) (cleaner_dir w) = Some WDir
   \/ (exists ls, lookup (log_name id) (cleaner_dir w) = Some (WFile ls) /\ parse_lines ls = None)
   \/ f_io fl id <> IoOk
   \/ (exists ls es, lookup (log_name id) (cleaner_dir w) = Some (WFile ls) /\ parse_lines ls = Some es /\
                     root_lookup (afile_name (make_archive id es)) (w_root w) = Some ADirEnt)) ->
  existsb is_none res = true.
Proof. exact fault_patterns_fail. Qed.
Print Assumptions C19_fault_patterns_fail.

(** Partial success: every archive the pass reported as written is in place afterwards, with the
    header and entries of the log it was made from — whether or not another file failed. *)
Theorem C19_partial_failure_keeps_archives : forall fl w keep w' res nm,
  cleanup_up_to true fl w keep = (w', res) -> In (Some nm) res ->
  exists id ls es, lookup (log_name id) (cleaner_dir w) = Some (WFile ls) /\ parse_lines ls = Some es /\
                   nm = afile_name (make_archive id es) /\
                   root_lookup nm (w_root w') = Some (AFile (make_archive id es)).
Proof. exact partial_failure_keeps_archives. Qed.
Print Assumptions C19_partial_failure_keeps_archives.

(** Every log file that is gone after a conservative cleanup has, in the archive directory, the archive
    made from exactly its parseable entries, in order, under its id.  No exclusion any more: foreign file
    names and cleaners built by [with_wal_dir] are covered. *)
Theorem C19_deleted_implies_archived : forall fl w keep w' res n ls,
  NoDup (names (cleaner_dir w)) ->
  cleanup_up_to true fl w keep = (w', res) ->
  In (n, WFile ls) (cleaner_dir w) -> lookup n (cleaner_dir w') = None ->
  exists id es, n = log_name id /\ parse_log_name n = Some id /\ parse_lines ls = Some es /\
    root_lookup (afile_name (make_archive id es)) (w_root w') = Some (AFile (make_archive id es)).
Proof. exact deleted_implies_archived. Qed.
Print Assumptions C19_deleted_implies_archived.

(** A file whose name is not the canonical name of an eligible id ("wal-1.log", "wal-+00001.log",
    "notes.txt", …) is never removed, in either mode. *)
Theorem C19_foreign_names_untouched : forall c fl w keep w' res n o,
  cleanup_up_to c fl w keep = (w', res) ->
  In (n, o) (cleaner_dir w) ->
  (forall id, parse_log_name n = Some id -> walarch_eligible id keep = true -> n <> log_name id) ->
  In (n, o) (cleaner_dir w').
Proof. exact foreign_names_untouched. Qed.
Print Assumptions C19_foreign_names_untouched.

(** The archive encoding (MessagePack of ScalarValue, read back through serde_json::Value) is the
    identity on every entry read from a log line: event type, context, timestamp, id and each payload
    value come back unchanged.  ([line_wf]: a JSON float is finite, a timestamp is a u64.) *)
Theorem C19_archive_roundtrip_lossless : forall id ls es,
  Forall line_wf ls -> parse_lines ls = Some es ->
  a_entries (make_archive id es) = es.
Proof. exact archive_roundtrip_lossless. Qed.
Print Assumptions C19_archive_roundtrip_lossless.

(** Recovery after a conservative cleanup that reported no failure returns exactly the entries of the
    archived logs, each log's entries in line order, logs in id order — for ids of any width — provided the
    archive directory held no other "*.zst" entry. *)
Theorem C19_recover_roundtrip : forall fl w keep w' res,
  NoDup (names (cleaner_dir w)) -> wal_wf (cleaner_dir w) ->
  w_root w <> RNotDir -> (forall n o, In (n, o) (dir_of (w_root w)) -> has_ext n = false) ->
  cleanup_up_to true fl w keep = (w', res) ->
  existsb is_none res = false ->
  recover_all (w_root w') = Some (expected_recovery (cleaner_dir w) keep).
Proof. exact recover_roundtrip. Qed.
Print Assumptions C19_recover_roundtrip.

(** Archive names are NOT unique across cleanups (still the case): a log id reused after the WAL directory
    was emptied, covering the same second range, is written over the earlier archive; the entries of the
    log deleted by the first cleanup are in no archive afterwards. *)
Theorem C19_archive_names_unique_refuted :
  exists root r1 r2 n ls es,
    NoDup (names (r_wal r1)) /\ wal_wf (r_wal r1) /\
    NoDup (names (r_wal r2)) /\ wal_wf (r_wal r2) /\
    In (n, WFile ls) (r_wal r1) /\ parse_lines ls = Some es /\ es <> [] /\
    lookup n (snd (fst (run_round root r1))) = None /\
    existsb is_none (snd (run_round (fst (fst (run_round root r1))) r2)) = false /\
    forall nm f, root_lookup nm (run_history root [r1; r2]) = Some (AFile f) -> a_entries f <> es.
Proof. exact archive_names_unique_refuted. Qed.
Print Assumptions C19_archive_names_unique_refuted.

(** Within one pass the archive name determines the log id (no two logs of a pass share a name) … *)
Theorem C19_archive_name_determines_id : forall id es id' es',
  afile_name (make_archive id es) = afile_name (make_archive id' es') -> id = id'.
Proof. exact afile_name_inj_id. Qed.
Print Assumptions C19_archive_name_determines_id.

(** … and a cleanup (either mode, any faults) leaves every object of the archive directory alone
    whose name is not the archive name of a log it processes. *)
Theorem C19_archive_kept_outside_known : forall c fl w keep w' res nm,
  cleanup_up_to c fl w keep = (w', res) ->
  name_reused nm (cleaner_dir w) keep = false ->
  root_lookup nm (w_root w') = root_lookup nm (w_root w).
Proof. exact archive_kept_outside_known. Qed.
Print Assumptions C19_archive_kept_outside_known.

(** Histories: a log deleted by some cleanup still has its archive after any number of later cleanups
    (arbitrary WAL contents, keep ids and faults in each), provided none of them archives a log under
    the same archive file name. *)
Theorem C19_history_deleted_stay_archived : forall root r h root1 wal1 res n ls,
  NoDup (names (r_wal r)) ->
  run_round root r = (root1, wal1, res) ->
  In (n, WFile ls) (r_wal r) -> lookup n wal1 = None ->
  exists id es, n = log_name id /\ parse_lines ls = Some es /\
    (Forall (fun r' => name_reused (afile_name (make_archive id es)) (r_wal r') (r_keep r') = false) h ->
     root_lookup (afile_name (make_archive id es)) (run_history root1 h) = Some (AFile (make_archive id es))).
Proof. exact history_deleted_stay_archived. Qed.
Print Assumptions C19_history_deleted_stay_archived.

(** What is a log entry.  [file_lines cls content] is the reader's view of a file: [split_lines] models
    [BufReader::lines()] on the bytes ([cls] classifies a raw line), [replay_entries] is what
    [WalRecovery] restores from those lines.  A last line without a trailing newline is a line … *)
Theorem C19_last_line_without_newline_is_a_line : forall cls pre l,
  (pre = [] \/ exists b, pre = b ++ [10]) -> no_nl l -> l <> [] ->
  file_lines cls (pre ++ l) = file_lines cls pre ++ [cls l].
Proof. exact last_line_without_newline. Qed.
Print Assumptions C19_last_line_without_newline_is_a_line.

(** … "\r\n" terminates a line like "\n" … *)
Theorem C19_crlf_terminated_line : forall cls pre l,
  (pre = [] \/ exists b, pre = b ++ [10]) -> no_nl l ->
  file_lines cls (pre ++ l ++ [13; 10]) = file_lines cls pre ++ [cls l].
Proof. exact crlf_terminated_line. Qed.
Print Assumptions C19_crlf_terminated_line.

(** … and the archive is complete with respect to replay: a log file that is gone after a conservative
    cleanup has an archive whose entries are exactly those WAL replay would have restored from the file,
    in order (any line shapes: blank, foreign, torn, unterminated). *)
Theorem C19_archive_complete_for_replay : forall fl w keep w' res n ls,
  NoDup (names (cleaner_dir w)) -> Forall line_wf ls ->
  cleanup_up_to true fl w keep = (w', res) ->
  In (n, WFile ls) (cleaner_dir w) -> lookup n (cleaner_dir w') = None ->
  exists id f, n = log_name id /\ a_log_id f = id /\
               root_lookup (afile_name f) (w_root w') = Some (AFile f) /\
               a_entries f = replay_entries ls.
Proof. exact archive_complete_for_replay. Qed.
Print Assumptions C19_archive_complete_for_replay.

(** In particular a complete entry left without its newline by a crash between the writer's two writes
    is in the archive of a deleted log. *)
Theorem C19_unterminated_last_entry_archived : forall fl w keep w' res n cls pre l j,
  NoDup (names (cleaner_dir w)) -> Forall line_wf (file_lines cls (pre ++ l)) ->
  (pre = [] \/ exists b, pre = b ++ [10]) -> no_nl l -> l <> [] -> cls l = LEntry j ->
  cleanup_up_to true fl w keep = (w', res) ->
  In (n, WFile (file_lines cls (pre ++ l))) (cleaner_dir w) -> lookup n (cleaner_dir w') = None ->
  exists f, root_lookup (afile_name f) (w_root w') = Some (AFile f) /\
            a_entries f = replay_entries (file_lines cls pre) ++ [entry_of_json j].
Proof. exact unterminated_last_entry_archived. Qed.
Print Assumptions C19_unterminated_last_entry_archived.

(** The archive pass of a conservative cleanup attempts EVERY eligible file: the Rust text of
    [archive_logs_up_to] has the shape "one [archive_log] per directory entry the scan accepts, results
    returned uncut" ([walarch_archives_every_eligible], regenerated from the source: a per-pass cap,
    [take]/[truncate] or an early exit turns it to [false]), and the model returns one result per entry the
    deletion pass can hit ([scan_hits]) - so "no failure among the results" covers every file deleted. *)
Theorem C19_results_cover_every_eligible : forall fl w keep w' res,
  walarch_archives_every_eligible = true /\
  (cleanup_up_to true fl w keep = (w', res) -> length res = length (scan_hits keep (cleaner_dir w))).
Proof. exact results_cover_every_eligible. Qed.
Print Assumptions C19_results_cover_every_eligible.
