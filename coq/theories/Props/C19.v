(** C19 — WAL files are deleted only after a complete, lossless archive exists.
    This file contains only the property theorems, each closed by [exact], with
    [Print Assumptions] beneath.  Model: Model/WalArchive.v ([cleanup_up_to], [archive_logs_up_to],
    [archive_log], [recover_all], [run_history] are the functions that are extracted and run against
    the real WalCleaner / WalArchiver / WalArchiveRecovery); proofs and the specification-level
    definitions used below ([names], [root_lookup], [wal_wf], [line_wf], [expected_recovery]):
    Proofs/WalArchiveProofs.v.

    Quantification: every theorem holds for all WAL directory contents (any names, files, directories,
    lines of every class), all keep ids, all states of the archive directory (missing, not a directory,
    any entries including directories squatting on archive names and undecodable files) and all fault
    oracles [fl] (per-log early/late write failure, per-file deletion failure).

    KnownClass predicates (decidable, in the model): [has_aliased_name] (AliasedLogName),
    [cleaner_dir_differs] (CleanerDirMismatch), [has_wide_id] (WideLogIdOrder), [name_reused]
    (ArchiveNameReused). *)
From Coq Require Import NArith List Bool.
From Snel Require Import Base.Bytes Gen.Params Model.WalArchive Proofs.WalArchiveProofs.
Import ListNotations.
Open Scope N_scope.

(** Conservative mode: if archiving any eligible file fails, no log file is deleted — neither in the
    configured WAL directory nor in the cleaner's own one. *)
Theorem C19_no_delete_on_any_failure : forall fl w keep w' res,
  cleanup_up_to true fl w keep = (w', res) ->
  existsb is_none res = true ->
  w_wal w' = w_wal w /\ w_cwal w' = w_cwal w.
Proof. exact no_delete_on_any_failure. Qed.
Print Assumptions C19_no_delete_on_any_failure.

(** ... and every fault pattern of the statement does make the pass report a failure: the archive path
    is not a directory, the file [archive_log] opens for an eligible scanned name is missing / a
    directory / contains a non-UTF-8 line, the environment fails the write (early or late), or a
    directory occupies the archive file name. *)
Theorem C19_fault_patterns_fail : forall fl w keep w' res n o id,
  cleanup_up_to true fl w keep = (w', res) ->
  In (n, o) (w_wal w) -> parse_log_name n = Some id -> walarch_eligible id keep = true ->
  (w_root w = RNotDir
   \/ lookup (log_name id) (w_wal w) = None
   \/ lookup (log_name id) (w_wal w) = Some WDir
   \/ (exists ls, lookup (log_name id) (w_wal w) = Some (WFile ls) /\ parse_lines ls = None)
   \/ f_io fl id <> IoOk
   \/ (exists ls es, lookup (log_name id) (w_wal w) = Some (WFile ls) /\ parse_lines ls = Some es /\
                     root_lookup (afile_name (make_archive id es)) (w_root w) = Some ADirEnt)) ->
  existsb is_none res = true.
Proof. exact fault_patterns_fail. Qed.
Print Assumptions C19_fault_patterns_fail.

(** Partial success: every archive the pass reported as written is in place afterwards, with the
    header and entries of the log it was made from — whether or not another file failed. *)
Theorem C19_partial_failure_keeps_archives : forall fl w keep w' res nm,
  cleanup_up_to true fl w keep = (w', res) -> In (Some nm) res ->
  exists id ls es, lookup (log_name id) (w_wal w) = Some (WFile ls) /\ parse_lines ls = Some es /\
                   nm = afile_name (make_archive id es) /\
                   root_lookup nm (w_root w') = Some (AFile (make_archive id es)).
Proof. exact partial_failure_keeps_archives. Qed.
Print Assumptions C19_partial_failure_keeps_archives.

(** "Every deleted log has an archive holding its entries" is FALSE of the model (and of the code):
    (1) a file whose name scans to an id but is not the canonical name of that id ("wal-1.log" next to
    "wal-00001.log") is deleted although only the canonical file was archived; (2) a cleaner built by
    [with_wal_dir] deletes from its own directory while the archiver reads the configured one. *)
Theorem C19_deleted_implies_archived_refuted :
  (exists fl w keep n ls es,
     NoDup (names (w_wal w)) /\ cleaner_dir_differs w = false /\ wal_wf (w_wal w) /\
     In (n, WFile ls) (w_wal w) /\ parse_lines ls = Some es /\ es <> [] /\
     lookup n (w_wal (fst (cleanup_up_to true fl w keep))) = None /\
     forall nm f, root_lookup nm (w_root (fst (cleanup_up_to true fl w keep))) = Some (AFile f) -> a_entries f <> es)
  /\
  (exists fl w keep n ls es,
     NoDup (names (cleaner_dir w)) /\ has_aliased_name (w_wal w) keep = false /\
     has_aliased_name (cleaner_dir w) keep = false /\ wal_wf (cleaner_dir w) /\
     In (n, WFile ls) (cleaner_dir w) /\ parse_lines ls = Some es /\ es <> [] /\
     lookup n (cleaner_dir (fst (cleanup_up_to true fl w keep))) = None /\
     forall nm f, root_lookup nm (w_root (fst (cleanup_up_to true fl w keep))) = Some (AFile f) -> a_entries f <> es).
Proof. exact deleted_implies_archived_refuted. Qed.
Print Assumptions C19_deleted_implies_archived_refuted.

(** Outside these two classes: a log file that is gone after a conservative cleanup has, in the archive
    directory, the archive made from exactly its parseable entries, in order, under its id. *)
Theorem C19_deleted_implies_archived_outside_known : forall fl w keep w' res n ls,
  NoDup (names (w_wal w)) ->
  cleaner_dir_differs w = false -> has_aliased_name (w_wal w) keep = false ->
  cleanup_up_to true fl w keep = (w', res) ->
  In (n, WFile ls) (w_wal w) -> lookup n (w_wal w') = None ->
  exists id es, parse_log_name n = Some id /\ parse_lines ls = Some es /\
    root_lookup (afile_name (make_archive id es)) (w_root w') = Some (AFile (make_archive id es)).
Proof. exact deleted_implies_archived_outside_known. Qed.
Print Assumptions C19_deleted_implies_archived_outside_known.

(** The archive encoding (MessagePack of ScalarValue, read back through serde_json::Value) is the
    identity on every entry read from a log line: event type, context, timestamp, id and each payload
    value come back unchanged.  ([line_wf]: a JSON float is finite — serde_json yields no other.) *)
Theorem C19_archive_roundtrip_lossless : forall id ls es,
  Forall line_wf ls -> parse_lines ls = Some es ->
  a_entries (make_archive id es) = es.
Proof. exact archive_roundtrip_lossless. Qed.
Print Assumptions C19_archive_roundtrip_lossless.

(** Recovery after a conservative cleanup that reported no failure returns exactly the entries of the
    archived logs, each log's entries in line order, logs in id order — while the eligible ids have at
    most 5 digits and the archive directory held no other "*.zst" entry. *)
Theorem C19_recover_roundtrip_outside_known : forall fl wal keep root w' res,
  NoDup (names wal) -> wal_wf wal ->
  has_aliased_name wal keep = false -> has_wide_id wal keep = false ->
  root <> RNotDir -> (forall n o, In (n, o) (dir_of root) -> has_ext n = false) ->
  cleanup_up_to true fl (mkWorld wal None root) keep = (w', res) ->
  existsb is_none res = false ->
  recover_all (w_root w') = Some (expected_recovery wal keep).
Proof. exact recover_roundtrip_outside_known. Qed.
Print Assumptions C19_recover_roundtrip_outside_known.

(** With a six-digit id the order is lost ("wal-100000-…" sorts before "wal-99999-…"). *)
Theorem C19_recover_roundtrip_refuted :
  exists fl wal keep root,
    NoDup (names wal) /\ wal_wf wal /\ has_aliased_name wal keep = false /\ root = RMissing /\
    existsb is_none (snd (cleanup_up_to true fl (mkWorld wal None root) keep)) = false /\
    recover_all (w_root (fst (cleanup_up_to true fl (mkWorld wal None root) keep))) <> Some (expected_recovery wal keep).
Proof. exact recover_roundtrip_refuted. Qed.
Print Assumptions C19_recover_roundtrip_refuted.

(** Archive names are NOT unique across cleanups: a log id reused after the WAL directory was emptied,
    covering the same second range, is written over the earlier archive; the entries of the log deleted
    by the first cleanup are in no archive afterwards. *)
Theorem C19_archive_names_unique_refuted :
  exists root r1 r2 n ls es,
    NoDup (names (r_wal r1)) /\ has_aliased_name (r_wal r1) (r_keep r1) = false /\ wal_wf (r_wal r1) /\
    NoDup (names (r_wal r2)) /\ has_aliased_name (r_wal r2) (r_keep r2) = false /\ wal_wf (r_wal r2) /\
    In (n, WFile ls) (r_wal r1) /\ parse_lines ls = Some es /\ es <> [] /\
    lookup n (snd (fst (run_round root r1))) = None /\
    existsb is_none (snd (run_round (fst (fst (run_round root r1))) r2)) = false /\
    forall nm f, root_lookup nm (run_history root [r1; r2]) = Some (AFile f) -> a_entries f <> es.
Proof. exact archive_names_unique_refuted. Qed.
Print Assumptions C19_archive_names_unique_refuted.

(** Within one pass the archive name determines the log id (no two logs of a pass share a name) … *)
Theorem C19_archive_name_determines_id : forall id es id' es',
  afile_name (make_archive id es) = afile_name (make_archive id' es') -> id = id'.
Proof. exact afile_name_inj_id. Qed.
Print Assumptions C19_archive_name_determines_id.

(** … and a cleanup (either mode, any faults) leaves every object of the archive directory alone
    whose name is not the archive name of a log it processes. *)
Theorem C19_archive_kept_outside_known : forall c fl w keep w' res nm,
  cleanup_up_to c fl w keep = (w', res) ->
  name_reused nm (w_wal w) keep = false ->
  root_lookup nm (w_root w') = root_lookup nm (w_root w).
Proof. exact archive_kept_outside_known. Qed.
Print Assumptions C19_archive_kept_outside_known.

(** Histories: a log deleted by some cleanup still has its archive after any number of later cleanups
    (arbitrary WAL contents, keep ids and faults in each), provided none of them archives a log under
    the same archive file name. *)
Theorem C19_history_deleted_stay_archived : forall root r h root1 wal1 res n ls,
  NoDup (names (r_wal r)) -> has_aliased_name (r_wal r) (r_keep r) = false ->
  run_round root r = (root1, wal1, res) ->
  In (n, WFile ls) (r_wal r) -> lookup n wal1 = None ->
  exists id es, parse_log_name n = Some id /\ parse_lines ls = Some es /\
    (Forall (fun r' => name_reused (afile_name (make_archive id es)) (r_wal r') (r_keep r') = false) h ->
     root_lookup (afile_name (make_archive id es)) (run_history root1 h) = Some (AFile (make_archive id es))).
Proof. exact history_deleted_stay_archived. Qed.
Print Assumptions C19_history_deleted_stay_archived.
