(** C12 — all events of a context live on one shard; unscoped reads cover all shards.
    This file contains only the property theorems, each closed by [exact], with
    [Print Assumptions] beneath.  Models: Model/SipHash.v (the routing hash of
    ShardManager::get_shard), Model/Cluster.v (n shards, routed STOREs, restarts, fan-out reads),
    Model/EventId.v (the shard tag in ids); proofs: Proofs/SipHashProofs.v, Proofs/ClusterProofs.v.
    [run_ops n ops] is the cluster after the history [ops] (STOREs with arbitrary clock readings,
    restarts) over [n] shards. *)
From Coq Require Import NArith List Permutation.
From Snel Require Import Base.Bytes Gen.Params Model.EventId Model.SipHash Model.Cluster.
From Snel Require Import Proofs.SipHashProofs Proofs.ClusterProofs.
Import ListNotations.
Open Scope N_scope.

(** The routing hash is a 64-bit value, so [as usize] loses nothing and the shard is hash mod n. *)
Theorem C12_route_is_hash_mod : forall ctx n,
  n <> 0 -> default_hash_str ctx < 2 ^ 64 /\ route ctx n = Some (default_hash_str ctx mod n).
Proof. exact (fun ctx n H => conj (default_hash_str_lt ctx) (route_is_hash_mod ctx n H)). Qed.
Print Assumptions C12_route_is_hash_mod.

(** [route_lt_n]: the chosen index is a valid shard; with no shards there is no answer (the code
    panics on [% 0]). *)
Theorem C12_route_lt_n : forall ctx n r, route ctx n = Some r -> r < n.
Proof. exact route_lt_n. Qed.
Print Assumptions C12_route_lt_n.

Theorem C12_route_total : forall ctx n, n <> 0 -> exists r, route ctx n = Some r /\ r < n.
Proof. exact route_some. Qed.
Print Assumptions C12_route_total.

(** The model's hash is SipHash-1-3: reference vectors 0, 8 and 15 of the SipHash-1-3 table. *)
Theorem C12_siphash13_reference_vectors :
  siphash 1 3 506097522914230528 1084818905618843912 [] = 12370263754033579228 /\
  siphash 1 3 506097522914230528 1084818905618843912 [0;1;2;3;4;5;6;7] = 3931806377309739662 /\
  siphash 1 3 506097522914230528 1084818905618843912
    [0;1;2;3;4;5;6;7;8;9;10;11;12;13;14] = 15213397504630561110.
Proof. exact siphash13_reference_vectors. Qed.
Print Assumptions C12_siphash13_reference_vectors.

(** Every stored event sits on the shard its context routes to, in every history. *)
Theorem C12_placement : forall n ops j e,
  In (j, e) (cl_log (run_ops n ops)) -> route (ev_ctx e) n = Some j /\ j < n.
Proof. exact placement. Qed.
Print Assumptions C12_placement.

(** [ctx_locality]: a read scoped FOR context [c], fanned out to all shards, is answered by shard
    [route c n] alone and returns every event of [c] ever applied, in apply order — for every
    history with restarts between the STOREs. *)
Theorem C12_ctx_locality : forall n ops c i,
  route c n = Some i ->
  let st := run_ops n ops in
  read_scoped st c = filter (for_ctx c) (shard_events st i) /\
  read_scoped st c = filter (for_ctx c) (applied st).
Proof. exact ctx_locality. Qed.
Print Assumptions C12_ctx_locality.

(** [fanout_union]: an unscoped read is the union of all shards: every applied event exactly once. *)
Theorem C12_fanout_union : forall n ops,
  Permutation (read_all (run_ops n ops)) (applied (run_ops n ops)).
Proof. exact fanout_union. Qed.
Print Assumptions C12_fanout_union.

(** [shard_tag_const]: two events of one context were applied by the same shard and their ids
    carry the same shard bits, namely the (cast, masked) index of that shard. *)
Theorem C12_shard_tag_const : forall n ops j1 e1 j2 e2,
  In (j1, e1) (cl_log (run_ops n ops)) -> In (j2, e2) (cl_log (run_ops n ops)) ->
  ev_ctx e1 = ev_ctx e2 ->
  j1 = j2 /\ id_shard (ev_id e1) = id_shard (ev_id e2) /\
  id_shard (ev_id e1) = shard_component j1.
Proof. exact shard_tag_const. Qed.
Print Assumptions C12_shard_tag_const.

(** With at most 2^SHARD_ID_BITS shards the tag read off an id is the routing target itself. *)
Theorem C12_shard_tag_is_route : forall n ops j e,
  n <= 2 ^ id_shard_bits -> In (j, e) (cl_log (run_ops n ops)) ->
  route (ev_ctx e) n = Some (id_shard (ev_id e)).
Proof. exact shard_tag_is_route. Qed.
Print Assumptions C12_shard_tag_is_route.
