(** C04 — placeholder until the proofs land. *)
From Snel Require Import Model.Shard Model.Compaction.
