(** C04 — REPLAY returns a context's events in the order they were appended.
    This file contains only the property theorems, each closed by [exact],
    with [Print Assumptions] beneath.  Models: Model/Shard.v, Model/Compaction.v
    (validated against the engine by trace validation); proofs:
    Proofs/ShardC04Proofs.v (on top of the C03 invariant of Proofs/ShardC03Proofs.v).

    Setting: [s := run (init c0) ls] for ANY label list [ls] without
    [LCrash]/[LRestart] ([no_crash ls]): any interleaving of stores, WAL thread
    steps, manual flushes and flush-worker stage labels, any number of queued
    rotations, any capacity.  [applied ls] = the events of the [LStore] labels in
    order, event ids unique ([NoDup (map ek (applied ls))], C18).
    [ctx_events ls u c := of_ctx c (of_uid u (applied ls))] is the append order the
    property demands of the typed REPLAY of type [u] for context [c].

    The model's REPLAY is SOME interleaving ([Interleave]) of the memory flow
    [replay_mem s u c] (active memtable, THEN the passive copies) and the segment
    flow [replay_seg s u c] (rows of the scanned directories in [dirs] order),
    de-duplicated by the response writer ([dedup_keys l := dedup_ev l []], first
    occurrence of an event id kept).

    Known classes (all confirmed on the engine as ORDER failures of REPLAY):
    - MemtableAndSegmentFlowsInterleave: the fan-in may emit newer in-memory events
      before older on-disk ones ([C04_fanin_order_refuted]);
    - [ActiveBeforePassive] (part of the same engine finding: the memory flow reads
      the active memtable before the passive buffers): a context with events in a
      passive copy and in the active memtable ([C04_mem_flow_order_refuted]);
    - CompactionScramblesContextOrder ([C04_compaction_order_refuted]). *)
From Coq Require Import NArith List Bool Permutation Sorted.
From Snel Require Import Model.Shard Model.Compaction Proofs.ShardC03Proofs Proofs.ShardC04Proofs.
Import ListNotations.
Open Scope N_scope.

(** ** 1. Membership *)

(** Whatever the schedule of the two flows, the de-duplicated REPLAY is a
    permutation of exactly the context's events of the type. *)
Theorem C04_membership : forall c0 ls u c r,
  no_crash ls -> NoDup (map ek (applied ls)) ->
  let s := run (init c0) ls in
  Interleave (replay_mem s u c) (replay_seg s u c) r ->
  Permutation (dedup_keys r) (ctx_events ls u c).
Proof. exact membership_interleavings. Qed.
Print Assumptions C04_membership.

(** The rows of the two flows are exactly the context's events of the type. *)
Theorem C04_membership_rows : forall c0 ls u c,
  no_crash ls -> NoDup (map ek (applied ls)) ->
  let s := run (init c0) ls in
  forall e, In e (replay_mem s u c ++ replay_seg s u c) <-> In e (ctx_events ls u c).
Proof. exact membership_rows. Qed.
Print Assumptions C04_membership_rows.

(** ** 2. Order inside the tiers *)

(** The segment flow as a whole (flush keeps the append order inside a context:
    [flush_order] is a stable sort by context, directories are created in rotation
    order), every directory, the active memtable, every passive copy, and the
    passive copies followed by the active memtable ([replay_mem_fifo]) are
    subsequences of the append order. *)
Theorem C04_order_within_tier : forall c0 ls u c,
  no_crash ls -> NoDup (map ek (applied ls)) ->
  let s := run (init c0) ls in
  Subseq (replay_seg s u c) (ctx_events ls u c) /\
  (forall d, In d (dirs s) -> Subseq (of_ctx c (of_uid u (srows d))) (ctx_events ls u c)) /\
  Subseq (of_ctx c (of_uid u (mem s))) (ctx_events ls u c) /\
  (forall p, In p (passives s) -> Subseq (of_ctx c (of_uid u (snd p))) (ctx_events ls u c)) /\
  Subseq (replay_mem_fifo s u c) (ctx_events ls u c).
Proof. exact order_within_tier. Qed.
Print Assumptions C04_order_within_tier.

(** Refuted: the memory flow itself lists the ACTIVE memtable BEFORE the passive
    copies.  Capacity 4: STORE k1 (c1), manual FLUSH (job queued), STORE k2 (c1):
    [replay_mem] = 2,1. *)
Theorem C04_mem_flow_order_refuted :
  exists c0 ls u c,
    let s := run (init c0) ls in
    no_crash ls /\ NoDup (map ek (applied ls)) /\ ActiveBeforePassive s u c = true /\
    map ek (replay_mem s u c) = [2; 1] /\ map ek (ctx_events ls u c) = [1; 2] /\
    ~ Subseq (replay_mem s u c) (ctx_events ls u c).
Proof. exact mem_flow_order_refuted. Qed.
Print Assumptions C04_mem_flow_order_refuted.

(** Outside that class (the context has no event of the type in the active memtable,
    or none in the passive copies) the memory flow is in append order. *)
Theorem C04_mem_flow_order_outside_known : forall c0 ls u c,
  no_crash ls -> NoDup (map ek (applied ls)) ->
  let s := run (init c0) ls in
  ActiveBeforePassive s u c = false ->
  Subseq (replay_mem s u c) (ctx_events ls u c).
Proof. exact mem_flow_order_outside_known. Qed.
Print Assumptions C04_mem_flow_order_outside_known.

(** ** 3. Sequential composition is the append order (the minimal repair) *)

(** "Segments first, then the passive copies, then the active memtable",
    de-duplicated, is EXACTLY the append order — at every reachable state, also while
    a rotated memtable is both in its directory and in its passive copy. *)
Theorem C04_seg_then_mem_append_order : forall c0 ls u c,
  no_crash ls -> NoDup (map ek (applied ls)) ->
  let s := run (init c0) ls in
  dedup_keys (replay_seg s u c ++ replay_mem_fifo s u c) = ctx_events ls u c.
Proof. exact seg_then_mem_append_order. Qed.
Print Assumptions C04_seg_then_mem_append_order.

(** With the model's memory flow (active memtable first) the composition fails in
    the class [ActiveBeforePassive] ... *)
Theorem C04_seg_then_mem_refuted :
  exists c0 ls u c,
    let s := run (init c0) ls in
    no_crash ls /\ NoDup (map ek (applied ls)) /\ ActiveBeforePassive s u c = true /\
    map ek (dedup_keys (replay_seg s u c ++ replay_mem s u c)) = [2; 1] /\
    map ek (ctx_events ls u c) = [1; 2].
Proof. exact seg_then_mem_refuted. Qed.
Print Assumptions C04_seg_then_mem_refuted.

(** ... and is exact outside it. *)
Theorem C04_seg_then_mem_outside_known : forall c0 ls u c,
  no_crash ls -> NoDup (map ek (applied ls)) ->
  let s := run (init c0) ls in
  ActiveBeforePassive s u c = false ->
  dedup_keys (replay_seg s u c ++ replay_mem s u c) = ctx_events ls u c.
Proof. exact seg_then_mem_outside_known. Qed.
Print Assumptions C04_seg_then_mem_outside_known.

(** ** 4. Known finding MemtableAndSegmentFlowsInterleave *)

(** Capacity 4: STORE k1 (c1), k2 (c2), k3 (c1), manual FLUSH completed, STORE k4 (c1).
    The interleaving that takes the memory flow first returns 4,1,3 (no passive copy
    holds an event: this is not [ActiveBeforePassive]). *)
Theorem C04_fanin_order_refuted :
  exists c0 ls u c r,
    let s := run (init c0) ls in
    no_crash ls /\ NoDup (map ek (applied ls)) /\ jobs s = [] /\ ActiveBeforePassive s u c = false /\
    Interleave (replay_mem s u c) (replay_seg s u c) r /\
    map ek (dedup_keys r) = [4; 1; 3] /\ map ek (ctx_events ls u c) = [1; 3; 4] /\
    ~ Subseq (dedup_keys r) (ctx_events ls u c).
Proof. exact fanin_order_refuted. Qed.
Print Assumptions C04_fanin_order_refuted.

(** Outside both classes of the flush-only setting (the context has rows of the type
    in only one of the two flows, and not both in the active memtable and in a passive
    copy) EVERY schedule returns exactly the append order. *)
Theorem C04_append_order_outside_known : forall c0 ls u c r,
  no_crash ls -> NoDup (map ek (applied ls)) ->
  let s := run (init c0) ls in
  MemtableAndSegmentFlowsInterleave s u c = false -> ActiveBeforePassive s u c = false ->
  Interleave (replay_mem s u c) (replay_seg s u c) r ->
  dedup_keys r = ctx_events ls u c.
Proof. exact replay_order_outside_known. Qed.
Print Assumptions C04_append_order_outside_known.

Theorem C04_append_order_example :
  let s := run (init 4) ls_fanin in
  MemtableAndSegmentFlowsInterleave s 0 2 = false /\ ActiveBeforePassive s 0 2 = false /\
  map ek (replay_seg s 0 2) = [2] /\ replay_mem s 0 2 = [] /\
  MemtableAndSegmentFlowsInterleave s 0 1 = true.
Proof. exact replay_order_example. Qed.
Print Assumptions C04_append_order_example.

(** ** 5. Compaction *)

(** The model's merge is stable.  For ANY relation [R] ("appended before"): if every
    input holds the context's events [R]-sorted and every event of an earlier listed
    input is [R]-before every event of a later one, the merged rows of the context are
    [R]-sorted.  (The implementation's heap compares context ids only; its arbitrary
    tie order between inputs is outside the model, the harness compares REPLAY results
    as multisets after a compaction.) *)
Theorem C04_stable_merge_keeps_order : forall (R : event -> event -> Prop) ds inputs u c,
  (forall i, In i inputs -> StronglySorted R (of_ctx c (of_uid u (Compaction.rows_of ds i)))) ->
  ForallOrdPairs (fun i j => forall x y,
     In x (of_ctx c (of_uid u (Compaction.rows_of ds i))) ->
     In y (of_ctx c (of_uid u (Compaction.rows_of ds j))) -> R x y) inputs ->
  StronglySorted R (of_ctx c (merge_rows ds inputs u)).
Proof. exact stable_merge_keeps_order. Qed.
Print Assumptions C04_stable_merge_keeps_order.

(** C04_order_if_stable: on every crash-free state, after a batch the policy can
    produce ([batch_ok]: its inputs are then in label order), the output directory
    holds the context's events of each merged type in append order. *)
Theorem C04_order_if_stable : forall c0 k ls b u c,
  no_crash ls -> NoDup (map ek (applied ls)) ->
  let s := run (init c0) ls in
  let s1 := crun s (batch_steps s b) in
  batch_ok (index s) k b = true -> NoDup (b_uids b) -> In u (b_uids b) ->
  Subseq (of_ctx c (of_uid u (Compaction.rows_of (dirs s1) (b_out b)))) (ctx_events ls u c).
Proof. exact compaction_output_in_order_planned. Qed.
Print Assumptions C04_order_if_stable.

(** Known finding CompactionScramblesContextOrder, on the model: level-0 segments
    0,1,2 hold k1,k2,k3 of one context, the batch {0,1} -> 10000 (fan-in 2) is merged
    and reclaimed; the output directory is listed after the newer directory 2 and
    the segment flow is 3,1,2 (the memory flow is empty: every schedule returns it). *)
Theorem C04_compaction_order_refuted :
  exists c0 k ls b u c,
    let s := run (init c0) ls in
    let s1 := crun s (batch_steps s b ++ [CReclaim (drained (index s) b)]) in
    no_crash ls /\ NoDup (map ek (applied ls)) /\ jobs s = [] /\
    batch_ok (index s) k b = true /\ b_inputs b = [0; 1] /\ In u (b_uids b) /\
    map sid (dirs s1) = [2; 10000] /\ live s1 = [2; 10000] /\
    replay_mem s1 u c = [] /\
    map ek (replay_seg s1 u c) = [3; 1; 2] /\ map ek (ctx_events ls u c) = [1; 2; 3] /\
    ~ Subseq (replay_seg s1 u c) (ctx_events ls u c).
Proof. exact compaction_order_refuted. Qed.
Print Assumptions C04_compaction_order_refuted.

(** ** 6. Non-vacuity *)

(** Capacity 2: context 1 spans the complete directories 0 and 1, directory 2 (in
    flight: written and published, passive copy not yet released), the passive copy
    of segment 3 (queued) and the active memtable. *)
Theorem C04_tiers_example :
  let s := run (init 2) ls_tiers in
  no_crash ls_tiers /\ NoDup (map ek (applied ls_tiers)) /\
  map sid (dirs s) = [0; 1; 2] /\ map jstage (jobs s) = [StPublished; StQueued] /\
  map (fun p => (fst p, map ek (snd p))) (passives s) = [(0, []); (1, []); (2, [5]); (3, [6])] /\
  map ek (mem s) = [7] /\
  map ek (replay_seg s 0 1) = [1; 2; 3; 5] /\
  map ek (replay_mem s 0 1) = [7; 5; 6] /\ map ek (replay_mem_fifo s 0 1) = [5; 6; 7] /\
  ActiveBeforePassive s 0 1 = true /\
  map ek (dedup_keys (replay_seg s 0 1 ++ replay_mem_fifo s 0 1)) = [1; 2; 3; 5; 6; 7] /\
  map ek (ctx_events ls_tiers 0 1) = [1; 2; 3; 5; 6; 7].
Proof. exact tiers_example. Qed.
Print Assumptions C04_tiers_example.

(** A context in a directory and in the active memtable, outside [ActiveBeforePassive]. *)
Theorem C04_seg_then_mem_example :
  let s := run (init 4) ls_fanin in
  no_crash ls_fanin /\ NoDup (map ek (applied ls_fanin)) /\ ActiveBeforePassive s 0 1 = false /\
  map ek (replay_seg s 0 1) = [1; 3] /\ map ek (replay_mem s 0 1) = [4] /\
  map ek (dedup_keys (replay_seg s 0 1 ++ replay_mem s 0 1)) = [1; 3; 4].
Proof. exact seg_then_mem_example. Qed.
Print Assumptions C04_seg_then_mem_example.

(** The hypotheses of [C04_order_if_stable] hold for the batch of
    [C04_compaction_order_refuted]; its output directory holds 1,2. *)
Theorem C04_compaction_example :
  let s := run (init 1) ls_cp in
  let s1 := crun s (batch_steps s b_cp) in
  no_crash ls_cp /\ NoDup (map ek (applied ls_cp)) /\ batch_ok (index s) 2 b_cp = true /\
  StronglySorted N.lt (b_inputs b_cp) /\ NoDup (b_uids b_cp) /\ In 0 (b_uids b_cp) /\
  map ek (of_ctx 1 (of_uid 0 (Compaction.rows_of (dirs s1) (b_out b_cp)))) = [1; 2].
Proof. exact compaction_example. Qed.
Print Assumptions C04_compaction_example.
