(** C13 — no data command runs without authentication and the required permission.
    Only the property theorems, each closed by [exact], with [Print Assumptions] beneath.
    Model: Model/Auth.v; definitions of [credential], [may_read], [may_write], [policy],
    [KnownClass], [reachable] and all proofs: Proofs/AuthProofs.v.
    [hmac] (HMAC-SHA256) and [parse] (the command parser) are universally quantified. *)
From Coq Require Import NArith List Bool String.
From Snel Require Import Base.Bytes Gen.Params Model.Auth Proofs.AuthProofs Proofs.AuthOwnRecord.
Import ListNotations.
Open Scope N_scope.

(** With authentication on, the TCP/WebSocket gate hands a command text on as user [uid] only
    if the line carries [hmac key text] of the active user [uid] (inline
    "uid:sig:text", or "sig:text" on a connection authenticated as [uid]) or ends in
    " TOKEN t" with [t] an unexpired session token of the active user [uid]; the gate changes
    neither the connection state nor the store. *)
Theorem C13_gate_sound : forall hmac cfg s conn line now tok text uid conn' s',
  auth_on cfg ->
  gate_tcp hmac cfg s conn line now tok = (GDispatch text uid, conn', s') ->
  credential hmac s conn now line text uid /\ conn' = conn /\ s' = s.
Proof. exact gate_sound. Qed.
Print Assumptions C13_gate_sound.

(** AUTH authenticates a connection only for [hmac key uid] of the active user [uid]. *)
Theorem C13_auth_sound : forall hmac cfg s conn line now tok uid conn' s',
  auth_on cfg ->
  gate_tcp hmac cfg s conn line now tok = (GAuthOk uid, conn', s') ->
  exists u sig,
    alookup uid (st_users s) = Some u /\ u_active u = true /\
    eq_ignore_case (firstn 5 (trim line)) auth_word = true /\
    trim (skipn 5 (trim line)) = uid ++ colon :: sig /\ sig = hmac (u_key u) uid /\
    conn' = Some uid /\ s' = new_session s tok uid now (g_expiry cfg).
Proof. exact auth_sound. Qed.
Print Assumptions C13_auth_sound.

(** The UNIX-socket gate and the HTTP /command gate. *)
Theorem C13_gate_unix_sound : forall hmac cfg s line text uid,
  auth_on cfg -> gate_unix hmac cfg s line = GDispatch text uid ->
  credential hmac s None 0 line text uid.
Proof. exact gate_unix_sound. Qed.
Print Assumptions C13_gate_unix_sound.

Theorem C13_gate_http_sound : forall hmac cfg s hdr body text uid,
  auth_on cfg -> gate_http hmac cfg s hdr body = GDispatch text uid ->
  (exists u sig, hdr = Some (uid, sig) /\ text = trim body /\
      alookup uid (st_users s) = Some u /\ u_active u = true /\ sig = hmac (u_key u) (trim body))
  \/ (hdr = None /\ credential hmac s None 0 body text uid).
Proof. exact gate_http_sound. Qed.
Print Assumptions C13_gate_http_sound.

(** In every reachable state the permission cache answers exactly as the declarative RBAC
    rules over the user records ([may_read] / [may_write], written from the documentation). *)
Theorem C13_can_read_spec : forall s uid t, reachable s ->
  (can_read (st_cache s) uid t = true <-> may_read (st_users s) uid t).
Proof. exact can_read_reachable. Qed.
Print Assumptions C13_can_read_spec.

Theorem C13_can_write_spec : forall s uid t, reachable s ->
  (can_write (st_cache s) uid t = true <-> may_write (st_users s) uid t).
Proof. exact can_write_reachable. Qed.
Print Assumptions C13_can_write_spec.

(** After REVOKE KEY nothing is dispatched and no AUTH is accepted for the user: not by
    signature, not by a token issued before, not on a connection authenticated before — for
    the next request and for every later one, whatever happens in between. *)
Theorem C13_revoke_key_next : forall hmac s id s1 s2 cfg conn line now tok,
  revoke_key s id = (None, s1) -> reachable_from s1 s2 -> auth_on cfg ->
  match fst (fst (gate_tcp hmac cfg s2 conn line now tok)) with
  | GDispatch _ u => u <> id
  | GAuthOk u => u <> id
  | GReject => True
  end.
Proof. exact revoke_key_next. Qed.
Print Assumptions C13_revoke_key_next.

(** After an executed REVOKE the next check sees it. *)
Theorem C13_revoke_perm_next : forall s who r w ts id k s' t,
  reachable s -> dispatch s who (CRevokePerm r w ts id) k = (OExec, s') -> In t ts ->
  (w = true -> can_write (st_cache s') id t = true -> admin_user (st_users s') id) /\
  (r = true -> can_read (st_cache s') id t = true ->
     exists u, alookup id (st_users s') = Some u /\
       (has_role u "admin" \/ has_role u "read-only" \/ has_role u "viewer" \/ has_role u "editor")) /\
  (r = true -> w = true -> can_read (st_cache s') id t = true -> admin_user (st_users s') id).
Proof. exact revoke_perm_reachable. Qed.
Print Assumptions C13_revoke_perm_next.

(** Repaired by 139a8cf (was: the reserved id "bypass" could be created and then skipped every
    handler check).  The reserved ids are refused by [create_user], no reachable state holds an
    account under one of them, and with authentication on no gate attributes a request to one. *)
Theorem C13_reserved_id_rejected : forall s id key fk roles,
  is_reserved_id id = true -> create_user s id key fk roles = (Some EInvalidId, s).
Proof. exact reserved_id_rejected. Qed.
Print Assumptions C13_reserved_id_rejected.

Theorem C13_no_reserved_account : forall s, reachable s ->
  forall id, is_reserved_id id = true -> alookup id (st_users s) = None.
Proof. exact reachable_no_reserved. Qed.
Print Assumptions C13_no_reserved_account.

Theorem C13_gate_never_reserved : forall hmac cfg s conn line now tok,
  reachable s -> auth_on cfg ->
  match fst (fst (gate_tcp hmac cfg s conn line now tok)) with
  | GDispatch _ u => is_reserved_id u = false
  | GAuthOk u => is_reserved_id u = false
  | GReject => True
  end.
Proof. exact gate_never_reserved. Qed.
Print Assumptions C13_gate_never_reserved.

Theorem C13_gate_unix_never_reserved : forall hmac cfg s line text uid,
  reachable s -> auth_on cfg -> gate_unix hmac cfg s line = GDispatch text uid -> is_reserved_id uid = false.
Proof. exact gate_unix_never_reserved. Qed.
Print Assumptions C13_gate_unix_never_reserved.

Theorem C13_gate_http_never_reserved : forall hmac cfg s hdr body text uid,
  reachable s -> auth_on cfg -> gate_http hmac cfg s hdr body = GDispatch text uid -> is_reserved_id uid = false.
Proof. exact gate_http_never_reserved. Qed.
Print Assumptions C13_gate_http_never_reserved.

(** SHOW and FLUSH - the two commands still dispatched without the caller's identity - are
    executed identically for every caller. *)
Theorem C13_no_identity_commands : forall s who who' c k,
  KnownClass c = true -> dispatch s who c k = dispatch s who' c k.
Proof. exact no_identity_commands. Qed.
Print Assumptions C13_no_identity_commands.

(** The property as stated ([authorized_only]: whatever is executed for an identity a gate can
    produce satisfies the declarative policy) is still FALSE of the model, with one witness per
    remaining known class: SHOW and FLUSH.  (ReservedUserId repaired by 139a8cf; REPLAY by d146031,
    comparison by 20fee3f, REMEMBER by 8e7945c, sequence queries by 79dcefb: their witnesses are
    refused now, [repaired_witnesses].) *)
Theorem C13_authorized_only_refuted :
  ~ authorized_only /\
  (exists s who c k s', reachable s /\ who <> Some auth_bypass_id /\ dispatch s who c k = (OExec, s') /\ UncheckedShow c = true /\ ~ policy s who c) /\
  (exists s who c k s', reachable s /\ who <> Some auth_bypass_id /\ dispatch s who c k = (OExec, s') /\ FlushNoRole c = true /\ ~ policy s who c).
Proof. exact authorized_only_refuted. Qed.
Print Assumptions C13_authorized_only_refuted.

(** Outside SHOW and FLUSH the property holds in every reachable state, for every identity
    other than the bypass-mode identity: STORE, QUERY incl. sequence queries, REPLAY, REMEMBER,
    comparison, DEFINE, user and permission management.  [cmd_wf]: the event types a whole-context
    REPLAY finds in the context are defined event types. *)
Theorem C13_outside_known : forall s who c k s',
  reachable s -> who <> Some auth_bypass_id -> KnownClass c = false -> cmd_wf s c ->
  dispatch s who c k = (OExec, s') -> policy s who c.
Proof. exact outside_known_reachable. Qed.
Print Assumptions C13_outside_known.

(** The four repaired command kinds spelled out: an executed REPLAY, REMEMBER, comparison or
    (sequence) query was issued by a user who may read every event type it reads. *)
Theorem C13_read_commands_checked : forall s u c k s',
  reachable s -> u <> auth_bypass_id -> cmd_wf s c ->
  match c with CReplay _ _ | CRemember _ _ | CCompare _ | CQuery _ => True | _ => False end ->
  dispatch s (Some u) c k = (OExec, s') -> needs s u c.
Proof. exact read_commands_reachable. Qed.
Print Assumptions C13_read_commands_checked.

(** End to end, for every user id whatsoever: an executed command came with a credential of the
    executing user, that user is not a reserved id, and outside SHOW / FLUSH was entitled to the
    command. *)
Theorem C13_served_outside_known : forall hmac parse cfg s conn line now tok key c uid conn' s',
  reachable s -> auth_on cfg ->
  serve_tcp hmac parse cfg s conn line now tok key = (SOut c uid OExec, conn', s') ->
  exists text, credential hmac s conn now line text uid /\ parse text = Some c /\
               is_reserved_id uid = false /\
               (KnownClass c = false -> cmd_wf s c -> policy s (Some uid) c).
Proof. exact served_outside_known. Qed.
Print Assumptions C13_served_outside_known.

Theorem C13_served_unix_outside_known : forall hmac parse cfg s line key c uid s',
  reachable s -> auth_on cfg ->
  serve_unix hmac parse cfg s line key = (SOut c uid OExec, s') ->
  is_reserved_id uid = false /\ (KnownClass c = false -> cmd_wf s c -> policy s (Some uid) c).
Proof. exact served_unix_outside_known. Qed.
Print Assumptions C13_served_unix_outside_known.

Theorem C13_served_http_outside_known : forall hmac parse cfg s hdr body key c uid s',
  reachable s -> auth_on cfg ->
  serve_http hmac parse cfg s hdr body key = (SOut c uid OExec, s') ->
  is_reserved_id uid = false /\ (KnownClass c = false -> cmd_wf s c -> policy s (Some uid) c).
Proof. exact served_http_outside_known. Qed.
Print Assumptions C13_served_http_outside_known.

(** A GRANT (REVOKE) naming several event types is the sequence of the single-type GRANTs
    (REVOKEs): each step reads the permissions the previous ones left and the loop stops at the
    first failing step. *)
Theorem C13_grant_many_eq_fold : forall ts s r w id,
  grant_loop s r w ts id = fold_left (then_grant r w id) ts (OExec, s).
Proof. exact grant_many_eq_fold. Qed.
Print Assumptions C13_grant_many_eq_fold.

Theorem C13_revoke_many_eq_fold : forall ts s r w id,
  revoke_loop s r w ts id = fold_left (then_revoke r w id) ts (OExec, s).
Proof. exact revoke_many_eq_fold. Qed.
Print Assumptions C13_revoke_many_eq_fold.

(** The same at the level of the dispatcher (the admin check answers the same before every step). *)
Theorem C13_dispatch_grant_many : forall s who r w t ts id k, reachable s ->
  dispatch s who (CGrant r w (t :: ts) id) k =
  match dispatch s who (CGrant r w [t] id) k with
  | (OExec, s') => dispatch s' who (CGrant r w ts id) k
  | other => other
  end.
Proof. exact dispatch_grant_many. Qed.
Print Assumptions C13_dispatch_grant_many.

(** After an executed multi-type GRANT / REVOKE each listed type holds what IT held before plus /
    minus the named permissions, independently of what the user holds on the other listed types,
    of the order of the list and of repetitions; unlisted types are untouched. *)
Theorem C13_grant_many_entry : forall ts s r w id s',
  grant_loop s r w ts id = (OExec, s') ->
  (forall t, In t ts ->
     entry s' id t = Some (mkPerm (p_read (get_permission s id t) || r) (p_write (get_permission s id t) || w))) /\
  (forall t, ~ In t ts -> entry s' id t = entry s id t).
Proof. exact grant_many_entry. Qed.
Print Assumptions C13_grant_many_entry.

Theorem C13_revoke_many_entry : forall ts s r w id s',
  revoke_loop s r w ts id = (OExec, s') ->
  (forall t, In t ts ->
     entry s' id t = Some (mkPerm (p_read (get_permission s id t) && negb r) (p_write (get_permission s id t) && negb w))) /\
  (forall t, ~ In t ts -> entry s' id t = entry s id t).
Proof. exact revoke_many_entry. Qed.
Print Assumptions C13_revoke_many_entry.

(** Frame property of the [active] flag.  GRANT and REVOKE (any number of event types), and the
    manager-level permission operations, leave the flag of EVERY account unchanged; a command
    changes the flag of account [id] only if it is an executed CREATE USER [id] (absent -> active)
    or REVOKE KEY [id] (-> inactive); over all histories (gates, sessions, restart included) an
    account whose key was revoked never becomes active again. *)
Theorem C13_perm_commands_keep_active : forall s who r w ts uid k id,
  active_of (snd (dispatch s who (CGrant r w ts uid) k)) id = active_of s id /\
  active_of (snd (dispatch s who (CRevokePerm r w ts uid) k)) id = active_of s id.
Proof. exact perm_commands_keep_active. Qed.
Print Assumptions C13_perm_commands_keep_active.

Theorem C13_grant_permission_keeps_active : forall s id0 t p id,
  active_of (snd (grant_permission s id0 t p)) id = active_of s id.
Proof. exact grant_permission_keeps_active. Qed.
Print Assumptions C13_grant_permission_keeps_active.

Theorem C13_revoke_permission_keeps_active : forall s id0 t id,
  active_of (snd (revoke_permission s id0 t)) id = active_of s id.
Proof. exact revoke_permission_keeps_active. Qed.
Print Assumptions C13_revoke_permission_keeps_active.

Theorem C13_dispatch_active_frame : forall s who c k id,
  let s' := snd (dispatch s who c k) in
  active_of s' id = active_of s id \/
  (exists key roles, c = CCreateUser id key roles /\ active_of s id = None /\ active_of s' id = Some true) \/
  (c = CRevokeKey id /\ active_of s' id = Some false).
Proof. exact dispatch_active_frame. Qed.
Print Assumptions C13_dispatch_active_frame.

Theorem C13_never_reactivated : forall s0 s id, reachable_from s0 s ->
  active_of s0 id = Some false -> active_of s id = Some false.
Proof. exact never_reactivated. Qed.
Print Assumptions C13_never_reactivated.

(** The permission cache answers for a user id from that user's own record only: two reachable
    states that hold the same record (or none) under [uid] answer alike, whatever other accounts
    exist in either - in particular an account whose id differs only in letter case lends nothing
    (ids are compared exactly, [alookup]).  An id without an account is granted nothing. *)
Theorem C13_can_read_own_record : forall s s' uid t, reachable s -> reachable s' ->
  alookup uid (st_users s) = alookup uid (st_users s') ->
  can_read (st_cache s) uid t = can_read (st_cache s') uid t.
Proof. exact can_read_own_record. Qed.
Print Assumptions C13_can_read_own_record.

Theorem C13_can_write_own_record : forall s s' uid t, reachable s -> reachable s' ->
  alookup uid (st_users s) = alookup uid (st_users s') ->
  can_write (st_cache s) uid t = can_write (st_cache s') uid t.
Proof. exact can_write_own_record. Qed.
Print Assumptions C13_can_write_own_record.

Theorem C13_unknown_id_denied : forall s uid t, reachable s ->
  alookup uid (st_users s) = None ->
  can_read (st_cache s) uid t = false /\ can_write (st_cache s) uid t = false.
Proof. exact unknown_id_denied. Qed.
Print Assumptions C13_unknown_id_denied.
