(** C10 — ORDER BY / LIMIT / OFFSET return the right slice in the right order.
    Only the property theorems, each closed by [exact], with [Print Assumptions].
    Model: Model/Order.v; proofs: Proofs/SortMergeProofs.v, Proofs/OrderProofs.v. *)
From Coq Require Import ZArith NArith List Permutation.
From Snel Require Import Base.Bytes Model.Order Proofs.SortMergeProofs Proofs.OrderProofs.
Import ListNotations.

(** Merging streams that are sorted (in the requested direction) with the merger's heap
    gives a sorted permutation of their concatenation — for every total preorder. *)
Theorem C10_kmerge_sorted_perm : forall (A : Type) (cmp : A -> A -> comparison),
  total_preorder cmp -> forall (asc : bool) (ss : list (list A)),
  Forall (sorted (dir_cmp cmp asc)) ss ->
  sorted (dir_cmp cmp asc) (kmerge (heap_before cmp asc) ss)
  /\ Permutation (kmerge (heap_before cmp asc) ss) (concat ss).
Proof. exact @kmerge_sorted_perm. Qed.
Print Assumptions C10_kmerge_sorted_perm.

(** Sorting every part, keeping its first m+n rows, merging and slicing m..m+n gives, position
    by position up to the order's equivalence (so: the same multiset of sort keys up to
    ties), the slice m..m+n of the sorted whole — for every total preorder, every partition,
    every n and m (including 0 and beyond the size). *)
Theorem C10_topk_of_parts : forall (A : Type) (cmp : A -> A -> comparison),
  total_preorder cmp -> forall (asc : bool) (parts : list (list A)) (m n : N),
  Forall2 (ceq (dir_cmp cmp asc))
    (slice m n (kmerge (heap_before cmp asc)
                  (map (fun p => takeN (m + n) (sort_by (dir_cmp cmp asc) p)) parts)))
    (slice m n (sort_by (dir_cmp cmp asc) (concat parts))).
Proof. exact @topk_of_parts. Qed.
Print Assumptions C10_topk_of_parts.

(** On the values of one column kind [scalar_compare] is the typed order of that kind,
    which is a total preorder. *)
Theorem C10_cmp_total_on_kind : forall k,
  total_preorder (typed_compare k)
  /\ forall a b, in_kind k a = true -> in_kind k b = true ->
                 scalar_compare a b = typed_compare k a b.
Proof. exact (fun k => conj (typed_compare_tp k) (cmp_total_on_kind k)). Qed.
Print Assumptions C10_cmp_total_on_kind.

(** ... but not on all values: "9" < "10" < "1a" < "9". *)
Theorem C10_cmp_total_refuted : ~ total_preorder scalar_compare.
Proof. exact cmp_total_refuted. Qed.
Print Assumptions C10_cmp_total_refuted.

(** Outside the known classes (columns that one kind covers) the comparator obeys the laws. *)
Theorem C10_cmp_total_outside_known : forall a b c,
  classify_column [a; b; c] = None ->
  scalar_compare b a = CompOpp (scalar_compare a b)
  /\ (cle scalar_compare a b -> cle scalar_compare b c -> cle scalar_compare a c).
Proof. exact cmp_total_outside_known. Qed.
Print Assumptions C10_cmp_total_outside_known.

(** The modelled pipeline (per-flow sort; shard-level merge with limit n+m; coordinator merge
    with offset m, limit n) over any split of the rows into shards x flows returns rows whose
    keys are, position by position, equivalent to those of rows m..m+n of the sorted selection. *)
Theorem C10_ordered_query_slice : forall k asc n om (shards : list (list (list row))),
  Forall (Forall (Forall (row_in k))) shards ->
  let m := match om with Some o => o | None => 0%N end in
  Forall2 (key_equiv k)
    (coord_ordered asc (Some n) om shards)
    (slice m n (sort_by (dir_cmp row_cmp asc) (concat (map (@concat row) shards)))).
Proof. exact ordered_query_slice. Qed.
Print Assumptions C10_ordered_query_slice.

Theorem C10_ordered_query_full : forall k asc (shards : list (list (list row))),
  Forall (Forall (Forall (row_in k))) shards ->
  Forall2 (key_equiv k)
    (coord_ordered asc None None shards)
    (sort_by (dir_cmp row_cmp asc) (concat (map (@concat row) shards))).
Proof. exact ordered_query_full. Qed.
Print Assumptions C10_ordered_query_full.

(** Without ORDER BY: LIMIT n [OFFSET m] emits min(n, distinct - m) rows with distinct event
    ids, all of them matching rows. *)
Theorem C10_unordered_limit : forall (A : Type) n om (rows : list (option N * A)),
  let m := match om with Some o => o | None => 0%N end in
  let d := dedup_rows rows in
  writer_run (Some n) om rows = map snd (slice m n d)
  /\ N.of_nat (length (writer_run (Some n) om rows)) = N.min n (N.of_nat (length d) - m)
  /\ NoDup (ids_of d)
  /\ (forall id, In id (ids_of rows) <-> In id (ids_of d))
  /\ (forall r, In r d -> In r rows).
Proof. exact @unordered_limit. Qed.
Print Assumptions C10_unordered_limit.

(** OFFSET without LIMIT is rejected, and nothing else is rejected by that rule. *)
Theorem C10_offset_requires_limit : forall lim off,
  handler_precheck lim off = PreBadRequest <-> (off <> None /\ lim = None).
Proof. exact offset_requires_limit. Qed.
Print Assumptions C10_offset_requires_limit.
