(** C18 — event ids are unique and increase in append order within a shard.
    This file contains only the property theorems, each closed by [exact], with
    [Print Assumptions] beneath.  Model: Model/EventId.v; proofs: Proofs/EventIdProofs.v.
    [issued k g shard rs] = the ids returned by [k] consecutive calls of
    [EventIdGenerator::next(shard)] from state [g] when the clock returns the readings [rs] in
    order; [gen0] is the state of a new generator; [in_window r] says
    epoch <= r < epoch + 2^TIMESTAMP_BITS. *)
From Coq Require Import NArith List Sorted.
From Snel Require Import Gen.Params Model.EventId Proofs.EventIdProofs.
Import ListNotations.
Open Scope N_scope.

(** Side conditions on the constants regenerated from event_id.rs / context.rs /
    condition_evaluator.rs: TS+SHARD+SEQ = 64, SEQ < 16 (u16 sequence), SHARD <= width of the
    [as u16] cast, synthetic-id shift = 32. *)
Theorem C18_params_side_conditions :
  id_ts_bits + id_shard_bits + id_seq_bits = 64 /\ id_seq_bits < 16 /\
  id_shard_bits <= id_shard_cast_bits /\ id_synth_shift = 32.
Proof. exact (conj bits_sum (conj seq_bits_lt16 (conj shard_bits_le_cast synth_shift_32))). Qed.
Print Assumptions C18_params_side_conditions.

(** Within one generator lifetime the ids strictly increase, for every number of calls, every
    shard id and every sequence of clock readings inside the window: repeated readings,
    readings that step backwards, more than 2^SEQUENCE_BITS calls per millisecond. *)
Theorem C18_ids_strictly_increasing : forall k shard rs,
  Forall (fun r => in_window r = true) rs ->
  StronglySorted N.lt (issued k gen0 shard rs).
Proof. exact ids_strictly_increasing. Qed.
Print Assumptions C18_ids_strictly_increasing.

(** Hence no id is issued twice in a lifetime. *)
Theorem C18_ids_unique_in_lifetime : forall k shard rs,
  Forall (fun r => in_window r = true) rs -> NoDup (issued k gen0 shard rs).
Proof. exact ids_unique_in_lifetime. Qed.
Print Assumptions C18_ids_unique_in_lifetime.

(** The packing loses nothing: millisecond, shard and sequence are determined by the id. *)
Theorem C18_pack_injective : forall m1 sh1 s1 m2 sh2 s2,
  id_epoch_ms <= m1 < id_epoch_ms + 2 ^ id_ts_bits ->
  id_epoch_ms <= m2 < id_epoch_ms + 2 ^ id_ts_bits ->
  sh1 < 2 ^ id_shard_bits -> sh2 < 2 ^ id_shard_bits ->
  s1 < 2 ^ id_seq_bits -> s2 < 2 ^ id_seq_bits ->
  pack m1 sh1 s1 = pack m2 sh2 s2 -> m1 = m2 /\ sh1 = sh2 /\ s1 = s2.
Proof. exact pack_injective. Qed.
Print Assumptions C18_pack_injective.

(** Two different shards (ids below 2^SHARD_ID_BITS) never issue the same id — whatever
    their clocks read and whatever state their generators are in. *)
Theorem C18_unique_across_shards : forall k1 k2 g1 g2 sh1 sh2 rs1 rs2 id,
  sh1 < 2 ^ id_shard_bits -> sh2 < 2 ^ id_shard_bits -> sh1 <> sh2 ->
  In id (issued k1 g1 sh1 rs1) -> In id (issued k2 g2 sh2 rs2) -> False.
Proof. exact unique_across_shards. Qed.
Print Assumptions C18_unique_across_shards.

(** WAL recovery gives back the stored (non-zero) ids unchanged and in order, without touching
    the generator or the clock. *)
Theorem C18_recovery_reproduces_ids : forall g shard rs stored,
  Forall (fun id => id <> 0) stored -> recover g shard rs stored = (stored, g, rs).
Proof. exact recovery_reproduces_ids. Qed.
Print Assumptions C18_recovery_reproduces_ids.

(** Ids issued while the clock is strictly after the epoch are non-zero, so the previous
    theorem applies to everything such a lifetime wrote. *)
Theorem C18_issued_nonzero : forall k shard rs,
  Forall (fun r => in_window r = true /\ r <> id_epoch_ms) rs ->
  Forall (fun id => id <> 0) (issued k gen0 shard rs).
Proof. exact issued_nonzero. Qed.
Print Assumptions C18_issued_nonzero.

(** Across a restart the property is FALSE of the code: the new lifetime's generator starts
    from (0,0); when the clock reads the millisecond the old lifetime last used, the same id is
    issued again (in-window readings, one STORE per lifetime). *)
Theorem C18_across_restart_refuted :
  exists shard k1 rs1 k2 rs2,
    Forall (fun r => in_window r = true) rs1 /\ Forall (fun r => in_window r = true) rs2 /\
    ~ NoDup (restart_history shard k1 rs1 k2 rs2).
Proof. exact across_restart_refuted. Qed.
Print Assumptions C18_across_restart_refuted.

(** ... and a clock that stepped back across the restart gives a smaller id. *)
Theorem C18_across_restart_order_refuted :
  exists shard k1 rs1 k2 rs2,
    Forall (fun r => in_window r = true) rs1 /\ Forall (fun r => in_window r = true) rs2 /\
    exists a b, restart_history shard k1 rs1 k2 rs2 = [a; b] /\ b < a.
Proof. exact across_restart_order_refuted. Qed.
Print Assumptions C18_across_restart_order_refuted.

(** Outside the known class [restart_clock_not_advanced] (first reading after the restart <= last
    millisecond used before it) the ids applied over both lifetimes strictly increase. *)
Theorem C18_across_restart_outside_known : forall shard k1 rs1 k2 rs2,
  Forall (fun r => in_window r = true) rs1 -> Forall (fun r => in_window r = true) rs2 ->
  (shard_component shard <> 0 \/ Forall (fun r => r <> id_epoch_ms) rs1) ->
  restart_clock_not_advanced (gen_after k1 gen0 shard rs1) rs2 = false ->
  StronglySorted N.lt (restart_history shard k1 rs1 k2 rs2).
Proof. exact across_restart_outside_known. Qed.
Print Assumptions C18_across_restart_outside_known.

(** User-visible consequence: responses skip rows whose id was already written.  With pairwise
    distinct ids every row is shown ... *)
Theorem C18_unique_ids_all_rows_visible : forall ids,
  NoDup ids -> dedup_ids [] (number_rows ids) = number_rows ids.
Proof. exact unique_ids_all_rows_visible. Qed.
Print Assumptions C18_unique_ids_all_rows_visible.

(** ... so outside the known class everything applied over both lifetimes is visible ... *)
Theorem C18_visible_after_restart_outside_known : forall shard k1 rs1 k2 rs2,
  Forall (fun r => in_window r = true) rs1 -> Forall (fun r => in_window r = true) rs2 ->
  (shard_component shard <> 0 \/ Forall (fun r => r <> id_epoch_ms) rs1) ->
  restart_clock_not_advanced (gen_after k1 gen0 shard rs1) rs2 = false ->
  visible_after_restart shard k1 rs1 k2 rs2 = number_rows (restart_history shard k1 rs1 k2 rs2).
Proof. exact visible_after_restart_outside_known. Qed.
Print Assumptions C18_visible_after_restart_outside_known.

(** ... while in the known class stored events vanish from the answer (4 applied, 2 shown). *)
Theorem C18_restart_drops_rows_refuted :
  exists shard k1 rs1 k2 rs2,
    Forall (fun r => in_window r = true) rs1 /\ Forall (fun r => in_window r = true) rs2 /\
    length (restart_history shard k1 rs1 k2 rs2) = 4%nat /\
    map fst (visible_after_restart shard k1 rs1 k2 rs2) = [0; 1].
Proof. exact restart_drops_rows_refuted. Qed.
Print Assumptions C18_restart_drops_rows_refuted.

(** Outside the window the within-lifetime statement is false as well: at or before the epoch
    [saturating_sub] collapses all milliseconds to timestamp component 0 ... *)
Theorem C18_before_epoch_refuted :
  exists shard rs, Forall (fun r => r <= id_epoch_ms) rs /\ ~ NoDup (issued 2 gen0 shard rs).
Proof. exact before_epoch_refuted. Qed.
Print Assumptions C18_before_epoch_refuted.

(** ... and 2^TIMESTAMP_BITS ms after the epoch the component wraps, so ids fall. *)
Theorem C18_beyond_window_refuted :
  exists shard rs, Forall (fun r => id_epoch_ms <= r) rs /\
    exists a b, issued 2 gen0 shard rs = [a; b] /\ b < a.
Proof. exact beyond_window_refuted. Qed.
Print Assumptions C18_beyond_window_refuted.

(** Shard ids that differ by 2^SHARD_ID_BITS produce identical ids. *)
Theorem C18_shard_tag_aliases : forall m shard s,
  pack m (shard + 2 ^ id_shard_bits) s = pack m shard s.
Proof. exact shard_tag_aliases. Qed.
Print Assumptions C18_shard_tag_aliases.

(** Synthetic row ids (id column missing, or stored id zero) do not depend on the segment:
    the same (zone,row) position of two segments yields the same id ... *)
Theorem C18_synthetic_collide : forall seg1 seg2 zone row st1 st2,
  seg1 <> seg2 -> row_id seg1 zone row true st1 = row_id seg2 zone row true st2.
Proof. exact synthetic_collide. Qed.
Print Assumptions C18_synthetic_collide.

(** ... while inside one segment they are distinct, and a present non-zero id is kept. *)
Theorem C18_synthetic_injective : forall z1 r1 z2 r2,
  z1 < 2 ^ 32 -> z2 < 2 ^ 32 -> r1 < 2 ^ 32 -> r2 < 2 ^ 32 ->
  synthetic_id z1 r1 = synthetic_id z2 r2 -> z1 = z2 /\ r1 = r2.
Proof. exact synthetic_injective. Qed.
Print Assumptions C18_synthetic_injective.

(** Outside the known class [synthetic_row] (id column missing, or stored id zero) every row carries
    its stored id, hence rows that store different ids are never taken for one event. *)
Theorem C18_row_ids_outside_known : forall seg1 z1 r1 m1 st1 seg2 z2 r2 m2 st2,
  synthetic_row m1 st1 = false -> synthetic_row m2 st2 = false ->
  row_id seg1 z1 r1 m1 st1 = st1 /\ row_id seg2 z2 r2 m2 st2 = st2 /\
  (st1 <> st2 -> row_id seg1 z1 r1 m1 st1 <> row_id seg2 z2 r2 m2 st2).
Proof. exact row_ids_outside_known. Qed.
Print Assumptions C18_row_ids_outside_known.
