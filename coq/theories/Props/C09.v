(** C09 — aggregates equal a fold over the events the selection would return.
    Only the property theorems, each closed by [exact], with [Print Assumptions].
    Models: Model/Agg.v, Model/Bucket.v; proofs: Proofs/AggProofs.v, Proofs/BucketProofs.v. *)
From Coq Require Import ZArith NArith List Permutation.
From Snel Require Import Base.Bytes Base.Civil Model.Order Model.Bucket Model.Agg
     Proofs.AggProofs Proofs.AggPipelineProofs Proofs.AggSpecProofs Proofs.BucketProofs.
Import ListNotations.
Open Scope Z_scope.

(** [AggState::merge] is commutative, associative and has the initial state as unit
    (on the well-formed states of one metric kind). *)
Theorem C09_agg_merge_assoc_comm : forall k a b c, wf k a -> wf k b -> wf k c ->
  merge_state a b = merge_state b a
  /\ merge_state (merge_state a b) c = merge_state a (merge_state b c)
  /\ merge_state (agg_init k) a = a.
Proof. exact agg_merge_assoc_comm. Qed.
Print Assumptions C09_agg_merge_assoc_comm.

(** A row update is a merge with the one-cell state, so folding a concatenation of rows is
    merging the folds (a monoid homomorphism, exact at the aggregator level), and the order of
    the rows does not matter. *)
Theorem C09_agg_partition : forall k l1 l2, Forall cell_ok l1 -> Forall cell_ok l2 ->
  run k (l1 ++ l2) = merge_state (run k l1) (run k l2)
  /\ (forall l3, Permutation l1 l3 -> run k l1 = run k l3).
Proof. exact (fun k l1 l2 F1 F2 => conj (run_app k l1 l2 F1 F2) (fun l3 => run_perm k l1 l3 F1)). Qed.
Print Assumptions C09_agg_partition.

(** TOTAL is wrap64(Σ), and Σ itself when Σ fits in i64. *)
Theorem C09_total_is_wrapped_sum : forall l,
  run MTotal l = ASum (wrap_i64 (zsum (cell_ints l)))
  /\ (in_i64 (zsum (cell_ints l)) -> finalize (run MTotal l) = FInt (zsum (cell_ints l))).
Proof. exact (fun l => conj (total_is_wrapped_sum l) (total_exact_when_fits l)). Qed.
Print Assumptions C09_total_is_wrapped_sum.

(** On an integer column (Int64 cells and nulls; it converts the same way under every batching)
    the metrics are the typed ones: rows, non-null values, wrap64 of the sum, (sum, count),
    least and greatest value (COUNT UNIQUE: see [C09_count_unique_texts]). *)
Theorem C09_int_column_metrics : forall vs, Forall int_or_null vs ->
  let cs := to_cells vs in
  let xs := ints_of vs in
  run MCountAll cs = ACount (wrap_i64 (Z.of_nat (length vs)))
  /\ run MCountField cs = ACount (wrap_i64 (Z.of_nat (length xs)))
  /\ run MTotal cs = ASum (wrap_i64 (zsum xs))
  /\ run MAvg cs = AAvg (wrap_i64 (zsum xs)) (wrap_i64 (Z.of_nat (length xs)))
  /\ run MMin cs = AMin (zmin_list xs) None
  /\ run MMax cs = AMax (zmax_list xs) None.
Proof. exact int_column_metrics. Qed.
Print Assumptions C09_int_column_metrics.

(** What the coordinator merges are snapshots: for MIN, a part that holds only nulls breaks the law. *)
Theorem C09_agg_partition_refuted :
  exists l1 l2, finalize (merge_state (wire (run MMin l1)) (wire (run MMin l2)))
                <> finalize (wire (run MMin (l1 ++ l2))).
Proof. exact agg_partition_min_refuted. Qed.
Print Assumptions C09_agg_partition_refuted.

(** Outside that class: for every split of a group's cells into parts (flows, segments,
    memory), folding the parts, snapshotting, sending and merging gives the same final metric as
    folding the whole list — for every metric. *)
Theorem C09_agg_partition_outside_known : forall k p ps,
  Forall cell_ok p -> Forall (Forall cell_ok) ps ->
  ~ MinEmptyPartial k (p :: ps) ->
  finalize (merge_parts k p ps) = finalize (part k (p ++ concat ps)).
Proof. exact agg_partition_outside_known. Qed.
Print Assumptions C09_agg_partition_outside_known.

(** Every row lands in exactly one group, every group is the fold of exactly its rows. *)
Theorem C09_each_event_one_group : forall p rs,
  NoDup (map fst (sink_rows p rs))
  /\ (forall k, lookup k (sink_rows p rs) =
                match sel p k rs with
                | [] => None
                | l => Some (fold_left (upd_all (p_metrics p)) l (init_all (p_metrics p)))
                end)
  /\ (forall r, In r rs -> In r (sel p (row_key p r) rs)
                           /\ forall k, k <> row_key p r -> ~ In r (sel p k rs))
  /\ (forall r, In r rs -> In (row_key p r) (map fst (sink_rows p rs))).
Proof. exact each_event_one_group. Qed.
Print Assumptions C09_each_event_one_group.

(** The whole pipeline — a sink per flow, snapshots, partial rows, coordinator merge — over any
    split of the rows into flows: a group is reported iff some row has its key, and then every
    metric is the final value of the fold over exactly the rows with that key (outside the known
    MIN class). *)
Theorem C09_pipeline_equals_fold : forall p parts k,
  Forall rows_ok parts ->
  ~ MinEmptyContribution p parts k ->
  option_map (map finalize) (lookup k (pipeline p parts)) = spec_group p k (concat parts).
Proof. exact pipeline_equals_fold. Qed.
Print Assumptions C09_pipeline_equals_fold.

(** The sink as it is run (batch by batch, columnar or row path) has a single possible output,
    the [flow_rows] of the theorems above, for EVERY plan: since d49da47 the columnar and the row
    path key the ungrouped aggregators alike (the former class UngroupedMixedBatchPaths is gone).
    Hence the function that is extracted and run against the implementation has exactly one
    outcome, the pipeline of [C09_pipeline_equals_fold] followed by the empty-group filter. *)
Theorem C09_flow_alts_single : forall p ng nf batches,
  flow_alts p ng nf batches = [flow_rows p ng nf batches].
Proof. exact flow_alts_single. Qed.
Print Assumptions C09_flow_alts_single.

Theorem C09_merged_groups_alts_single : forall p ng nf flows,
  merged_groups_alts p ng nf flows =
  [filter (fun e => keep_group p (fst e)) (pipeline p (map (rows_of_flow ng nf) flows))].
Proof. exact merged_groups_alts_single. Qed.
Print Assumptions C09_merged_groups_alts_single.

(** COUNT UNIQUE (since 6631182): for every way of cutting a column into batches, each converted on
    its own (typed i64 or text), the aggregator holds exactly the set of the values' texts, and the
    metric is its size — the former class CountUniqueTypedBatch is gone. *)
Theorem C09_count_unique_texts : forall (batches : list (list value)),
  exists s, run MCountUnique (concat (map to_cells batches)) = AUnique s /\ sset s
            /\ (forall x, In x s <-> In x (map cell_string (concat batches)))
            /\ finalize (run MCountUnique (concat (map to_cells batches))) = FInt (Z.of_nat (length s)).
Proof. exact count_unique_texts. Qed.
Print Assumptions C09_count_unique_texts.

(** LIMIT / OFFSET select whole groups (metrics untouched) out of a permutation of all groups. *)
Theorem C09_limit_caps_groups : forall (V : Type) p limit offset (groups : list (gkey * V)),
  let out := emit_groups p limit offset groups in
  (forall e, In e out -> In e groups)
  /\ (exists sorted, Permutation sorted groups
        /\ out = take_opt limit (match offset with Some o => dropN o | None => fun x => x end sorted))
  /\ (forall n, limit = Some n ->
        N.of_nat (length out) = N.min n (N.of_nat (length groups) - match offset with Some o => o | None => 0%N end)).
Proof. exact @limit_caps_groups. Qed.
Print Assumptions C09_limit_caps_groups.

(** Calendar buckets: bucket <= instant < next bucket, for every instant and week start ... *)
Theorem C09_bucket_contains : forall ws secs g, 0 <= ws <= 6 ->
  calendar_bucket_secs ws secs g <= secs < calendar_next_secs ws secs g.
Proof. exact bucket_contains. Qed.
Print Assumptions C09_bucket_contains.

(** ... the bucket start is on the hour / day / week-start / first-of-month / 1 January ... *)
Theorem C09_bucket_on_boundary : forall ws secs g, 0 <= ws <= 6 ->
  on_boundary ws g (calendar_bucket_secs ws secs g).
Proof. exact bucket_on_boundary. Qed.
Print Assumptions C09_bucket_on_boundary.

(** ... and the u64 function the sink calls is that computation for valid instants. *)
Theorem C09_calendar_bucket_of_exact : forall ws ts g, 0 <= ws <= 6 ->
  0 <= ts < two63 -> in_chrono_range ts = true -> 0 <= calendar_bucket_secs ws ts g ->
  calendar_bucket_of_opt ws ts g = Some (calendar_bucket_secs ws ts g).
Proof. exact calendar_bucket_of_exact. Qed.
Print Assumptions C09_calendar_bucket_of_exact.
