(** Model of src/engine/schema/types.rs ([FieldType], [from_primitive_str],
    [from_spec_with_nullable]) and of [impl From<CommandMiniSchema> for MiniSchema]
    (src/engine/schema/registry.rs) — executable definitions only.

    Field types reachable through DEFINE are a primitive, [Optional] of a primitive, or an
    enum; [Optional(Optional _)] and [Optional(Enum _)] cannot be produced by the conversion,
    so the model's [ftype] is not recursive. *)
From Coq Require Import ZArith NArith List Bool.
From Snel Require Import Base.Bytes Gen.Params Model.Json.
Import ListNotations.
Open Scope N_scope.

Inductive prim := TString | TU64 | TI64 | TF64 | TBool | TTimestamp | TDate.

Inductive ftype :=
| FPrim (p : prim)
| FOpt (p : prim)
| FEnum (variants : list bytes).

(** What a DEFINE command carries per field ([FieldSpec]). *)
Inductive fspec :=
| SPrim (s : bytes)
| SEnum (variants : list bytes).

Definition schema := list (bytes * ftype).      (* engine MiniSchema: HashMap, unique names *)
Definition cmd_schema := list (bytes * fspec).  (* command MiniSchema *)

(** ---- Unicode [White_Space] in UTF-8 ([str::trim], [char::is_whitespace]) ----
    U+0009..000D, U+0020, U+0085, U+00A0, U+1680, U+2000..200A, U+2028, U+2029, U+202F,
    U+205F, U+3000.  [ws_prefix s] is the byte length of the white-space character [s]
    starts with (0 when it starts with none). *)
Definition ws_prefix (s : bytes) : nat :=
  match s with
  | [] => 0%nat
  | c :: r =>
      if is_ascii_ws c then 1%nat
      else
        match r with
        | [] => 0%nat
        | d :: r2 =>
            if c =? 194 then (if (d =? 133) || (d =? 160) then 2%nat else 0%nat)
            else
              match r2 with
              | [] => 0%nat
              | e :: _ =>
                  if (c =? 225) && (d =? 154) && (e =? 128) then 3%nat
                  else if (c =? 226) && (d =? 128)
                          && (((128 <=? e) && (e <=? 138)) || (e =? 168) || (e =? 169) || (e =? 175))
                  then 3%nat
                  else if (c =? 226) && (d =? 129) && (e =? 159) then 3%nat
                  else if (c =? 227) && (d =? 128) && (e =? 128) then 3%nat
                  else 0%nat
              end
        end
  end.

(** [s.trim().is_empty()]: the string consists of white-space characters only.
    Fuel = length (each step consumes at least one byte). *)
Fixpoint all_ws_fuel (fuel : nat) (s : bytes) : bool :=
  match s with
  | [] => true
  | _ :: _ =>
      match fuel with
      | O => false
      | S f =>
          match ws_prefix s with
          | O => false
          | n => all_ws_fuel f (skipn n s)
          end
      end
  end.
Definition is_blank (s : bytes) : bool := all_ws_fuel (length s) s.

Fixpoint utrim_start_fuel (fuel : nat) (s : bytes) : bytes :=
  match fuel with
  | O => s
  | S f =>
      match ws_prefix s with
      | O => s
      | n => utrim_start_fuel f (skipn n s)
      end
  end.
Definition utrim_start (s : bytes) : bytes := utrim_start_fuel (length s) s.

(** Drops the longest all-white-space suffix. *)
Fixpoint utrim_end (s : bytes) : bytes :=
  match s with
  | [] => []
  | c :: r => if is_blank s then [] else c :: utrim_end r
  end.
Definition utrim (s : bytes) : bytes := utrim_end (utrim_start s).

(** ---- aliases ---- *)
Definition prim_of_code (c : N) : option prim :=
  match c with
  | 0 => Some TString | 1 => Some TU64 | 2 => Some TI64 | 3 => Some TF64
  | 4 => Some TBool | 5 => Some TTimestamp | 6 => Some TDate
  | _ => None
  end.

Fixpoint alias_lookup (tbl : list (bytes * N)) (s : bytes) : option prim :=
  match tbl with
  | [] => None
  | (a, c) :: r => if bytes_eqb a s then prim_of_code c else alias_lookup r s
  end.

(** [FieldType::from_primitive_str]: ASCII-lower-case, then the alias table. *)
Definition from_primitive_str (s : bytes) : option prim :=
  alias_lookup schema_alias_table (map to_lower s).

(** [str::split('|')]. *)
Fixpoint split_bar_aux (s : bytes) (cur : bytes) : list bytes :=
  match s with
  | [] => [rev cur]
  | c :: r => if c =? 124 then rev cur :: split_bar_aux r [] else split_bar_aux r (c :: cur)
  end.
Definition split_bar (s : bytes) : list bytes := split_bar_aux s [].

Definition null_word : bytes := [110; 117; 108; 108].
Definition eq_ignore_case (a b : bytes) : bool := bytes_eqb (map to_lower a) (map to_lower b).
Definition is_null_word (p : bytes) : bool := eq_ignore_case p null_word.

Fixpoint first_non_null (parts : list bytes) : option bytes :=
  match parts with
  | [] => None
  | p :: r => if is_null_word p then first_non_null r else Some p
  end.

(** [FieldType::from_spec_with_nullable]. *)
Definition from_spec_with_nullable (s : bytes) : option ftype :=
  if existsb (fun c => c =? 124) s then
    let parts := map utrim (split_bar s) in
    let has_null := existsb is_null_word parts in
    match first_non_null parts with
    | Some nn =>
        match from_primitive_str nn with
        | Some base => Some (if has_null then FOpt base else FPrim base)
        | None => None
        end
    | None => None
    end
  else option_map FPrim (from_primitive_str s).

(** One field of [From<CommandMiniSchema>]: unknown type names become [String]. *)
Definition field_of_spec (sp : fspec) : ftype :=
  match sp with
  | SPrim s => match from_spec_with_nullable s with Some ft => ft | None => FPrim TString end
  | SEnum vs => FEnum vs
  end.

Definition schema_of_cmd (cs : cmd_schema) : schema :=
  map (fun '(name, sp) => (name, field_of_spec sp)) cs.

Fixpoint schema_get (sc : schema) (k : bytes) : option ftype :=
  match sc with
  | [] => None
  | (k', t) :: r => if bytes_eqb k' k then Some t else schema_get r k
  end.
