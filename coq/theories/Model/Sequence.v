(** Model of sequence queries (QUERY a FOLLOWED BY / PRECEDED BY b LINKED BY k) — executable
    definitions only.

    Rust sources:
      src/engine/core/read/sequence/group.rs          ColumnarGrouper (link keys, per-type lists sorted by time)
      src/engine/core/read/sequence/matcher.rs        SequenceMatcher (group order, two-pointer sweeps, LIMIT)
      src/engine/core/read/sequence/where_evaluator.rs, utils.rs   per-type WHERE (transform_where_clause_for_event_type)
      src/engine/core/filter/condition.rs             NumericCondition / LogicalCondition evaluate_at
      src/command/handlers/query/dispatch/sequence_streaming.rs    one sub-query per event type with the transformed WHERE
      src/command/handlers/query/merge/sequence_stream.rs          batches -> one zone per type, grouping, matching

    An event is what the matcher can see of a row: its position (for reporting), the link key the
    grouper extracts, the value of the time field and the integer value of every field a WHERE
    condition may name.  Only integer comparisons are modelled ([Expr::Compare] with an integer
    literal); a field that is missing or does not parse as i64 makes the comparison false, as
    [NumericCondition::evaluate_at] does. *)
From Coq Require Import NArith ZArith List Bool.
From Snel Require Import Base.Bytes Gen.Params.
Import ListNotations.
Open Scope N_scope.

(** ** Events *)

(** the HashMap key of [scalar_to_key]: "i64:<n>" when the link cell reads as an i64 (a typed
    column or a string that parses), else "str:<s>" *)
Inductive lkey := LInt (z : Z) | LStr (s : bytes).

Definition lkey_eqb (a b : lkey) : bool :=
  match a, b with
  | LInt x, LInt y => (x =? y)%Z
  | LStr x, LStr y => bytes_eqb x y
  | _, _ => false
  end.

(** [fast_parse_i64] = [str::parse::<i64>]: optional sign, at least one digit, in range *)
Fixpoint digits_val_acc (s : bytes) (acc : N) : option N :=
  match s with
  | [] => Some acc
  | c :: r => if is_digit c then digits_val_acc r (acc * 10 + digit_val c) else None
  end.
Definition digits_val (s : bytes) : option N :=
  match s with [] => None | _ => digits_val_acc s 0 end.
Definition parse_i64 (s : bytes) : option Z :=
  match s with
  | c :: r =>
      if c =? 45 then
        match digits_val r with
        | Some n => if (Z.of_N n <=? 2 ^ 63)%Z then Some (- Z.of_N n)%Z else None
        | None => None end
      else
        match digits_val (if c =? 43 then r else s) with
        | Some n => if (Z.of_N n <? 2 ^ 63)%Z then Some (Z.of_N n) else None
        | None => None end
  | [] => None
  end.

(** [extract_link_value] on a string-stored column: i64 if the text parses, else the text *)
Definition link_key_of_text (s : bytes) : lkey :=
  match parse_i64 s with Some z => LInt z | None => LStr s end.

(** two different link texts that the grouper puts under one key ("5", "05", "+5") *)
Definition link_alias (s s' : bytes) : bool :=
  negb (bytes_eqb s s') && lkey_eqb (link_key_of_text s) (link_key_of_text s').

Record event := mkEvent {
  e_pos : N;                          (* position of the row (zone, row flattened), reporting only *)
  e_link : option lkey;               (* [extract_link_value]: None = column missing / no readable value *)
  e_time : option Z;                  (* [get_i64_at(time_field)]: None = null / missing *)
  e_fields : list (bytes * option Z)  (* integer reading of the other fields *)
}.

(** [get_timestamp]: [ts as u64], 0 when the field cannot be read *)
Definition ts (e : event) : N :=
  match e_time e with
  | Some z => Z.to_N (z mod 2 ^ 64)
  | None => 0
  end.

Fixpoint field_value (fs : list (bytes * option Z)) (f : bytes) : option Z :=
  match fs with
  | [] => None
  | (n, v) :: r => if bytes_eqb n f then v else field_value r f
  end.

(** ** WHERE *)

Inductive cmpop := OpEq | OpNeq | OpGt | OpGte | OpLt | OpLte.

(** [Expr] restricted to integer comparisons; [pfx] is the event type before the dot of an
    event-prefixed field ([parse_event_field]) *)
Inductive expr :=
| ECmp (pfx : option bytes) (field : bytes) (op : cmpop) (c : Z)
| EAnd (l r : expr)
| EOr (l r : expr)
| ENot (e : expr).

Definition cmp_holds (op : cmpop) (n c : Z) : bool :=
  match op with
  | OpEq => (n =? c)%Z
  | OpNeq => negb (n =? c)%Z
  | OpGt => (c <? n)%Z
  | OpGte => (c <=? n)%Z
  | OpLt => (n <? c)%Z
  | OpLte => (n <=? c)%Z
  end.

(** [transform_where_clause_for_event_type]: conditions prefixed with another type are removed,
    the prefix of the own type is stripped, un-prefixed conditions are kept; And/Or with one side
    removed collapse to the other side. *)
Fixpoint transform (e : expr) (ty : bytes) : option expr :=
  match e with
  | ECmp (Some p) f op c => if bytes_eqb p ty then Some (ECmp None f op c) else None
  | ECmp None f op c => Some (ECmp None f op c)
  | EAnd l r =>
      match transform l ty, transform r ty with
      | Some a, Some b => Some (EAnd a b)
      | Some a, None => Some a
      | None, Some b => Some b
      | None, None => None
      end
  | EOr l r =>
      match transform l ty, transform r ty with
      | Some a, Some b => Some (EOr a b)
      | Some a, None => Some a
      | None, Some b => Some b
      | None, None => None
      end
  | ENot x => match transform x ty with Some a => Some (ENot a) | None => None end
  end.

(** the condition tree built by [ConditionEvaluatorBuilder::add_where_clause] evaluated at a row
    ([evaluate_row_at]); prefixes have been stripped, a leftover prefix never matches a column *)
Fixpoint eval_row (e : expr) (ev : event) : bool :=
  match e with
  | ECmp None f op c => match field_value (e_fields ev) f with Some n => cmp_holds op n c | None => false end
  | ECmp (Some _) _ _ _ => false
  | EAnd l r => eval_row l ev && eval_row r ev
  | EOr l r => eval_row l ev || eval_row r ev
  | ENot x => negb (eval_row x ev)
  end.

(** [SequenceWhereEvaluator::evaluate_row]: no evaluator for the type = the row passes *)
Definition where_row (w : option expr) (ty : bytes) (ev : event) : bool :=
  match w with
  | None => true
  | Some e => match transform e ty with Some t => eval_row t ev | None => true end
  end.

(** [validate_field_ambiguity]: an un-prefixed field (other than the core fields) that both
    schemas declare is rejected *)
Fixpoint common_fields (e : expr) : list bytes :=
  match e with
  | ECmp None f _ _ => [f]
  | ECmp (Some _) _ _ _ => []
  | EAnd l r | EOr l r => common_fields l ++ common_fields r
  | ENot x => common_fields x
  end.
Definition core_fields : list bytes :=
  [[116;105;109;101;115;116;97;109;112]; [99;111;110;116;101;120;116;95;105;100];
   [101;118;101;110;116;95;116;121;112;101]; [101;118;101;110;116;95;105;100]].
Definition mem_bytes (x : bytes) (l : list bytes) : bool := existsb (bytes_eqb x) l.
Definition where_ambiguous (wh : option expr) (fields_a fields_b : list bytes) : bool :=
  match wh with
  | None => false
  | Some e => existsb (fun f => negb (mem_bytes f core_fields) && mem_bytes f fields_a && mem_bytes f fields_b)
                      (common_fields e)
  end.

(** ** Grouping *)

(** stable insertion sort by the u64 time ([sort_by_key] is stable): elements are inserted from the
    right, each in front of the already placed elements with an equal or larger key — which come
    later in the input *)
Fixpoint insert_stable (x : event) (l : list event) : list event :=
  match l with
  | [] => [x]
  | y :: r => if ts y <? ts x then y :: insert_stable x r else x :: l
  end.
Definition sort_stable (l : list event) : list event :=
  fold_right insert_stable [] l.

Record group := mkGroup { g_key : lkey; g_a : list event; g_b : list event }.

Definition has_key (k : lkey) (e : event) : bool :=
  match e_link e with Some k' => lkey_eqb k k' | None => false end.

Fixpoint keys_of (l : list event) (acc : list lkey) : list lkey :=
  match l with
  | [] => acc
  | e :: r =>
      match e_link e with
      | Some k => if existsb (lkey_eqb k) acc then keys_of r acc else keys_of r (acc ++ [k])
      | None => keys_of r acc
      end
  end.

(** [group_zones_by_link_field]: one group per link key seen in either type, each with its rows of
    type a and of type b sorted by time.  (The order of the groups here is the order of first
    appearance; the real HashMap has no order — see [match_sequences].) *)
Definition make_groups (la lb : list event) : list group :=
  map (fun k => mkGroup k (sort_stable (filter (has_key k) la)) (sort_stable (filter (has_key k) lb)))
      (keys_of lb (keys_of la [])).

(** ** The two sweeps *)

Inductive link := FollowedBy | PrecededBy.

Definition pair := (event * event)%type.    (* (a-event, b-event) *)

(** [match_followed_by]: when [ts_b >= ts_a] the pair is tested against WHERE and [a] advances
    whether or not it passed; otherwise [b] advances. *)
Fixpoint followed_by (w : event -> event -> bool) (la : list event) : list event -> list pair :=
  match la with
  | [] => fun _ => []
  | a :: la' =>
      fix go (lb : list event) : list pair :=
        match lb with
        | [] => []
        | b :: lb' =>
            if ts a <=? ts b then (if w a b then [(a, b)] else []) ++ followed_by w la' lb
            else go lb'
        end
  end.

(** the inner scan of [match_preceded_by]: the last b strictly before [ta], and the rest after it *)
Fixpoint latest_before (ta : N) (cur : event) (rest : list event) : event * list event :=
  match rest with
  | nb :: rest' => if ts nb <? ta then latest_before ta nb rest' else (cur, rest)
  | [] => (cur, [])
  end.

(** [match_preceded_by]: when [ts_b < ts_a] the latest such b is paired with a, [a] advances and
    the b pointer stays on that b; otherwise one pointer advances: the a pointer since fix 49473e7 (the
    *b* pointer before it); [adv_a] is regenerated from the Rust text as [seq_pb_else_advances_a]. *)
Fixpoint preceded_by_gen (adv_a : bool) (w : event -> event -> bool) (la : list event) : list event -> list pair :=
  match la with
  | [] => fun _ => []
  | a :: la' =>
      fix go (lb : list event) : list pair :=
        match lb with
        | [] => []
        | b :: lb' =>
            if ts b <? ts a then
              let '(l, rest) := latest_before (ts a) b lb' in
              (if w a l then [(a, l)] else []) ++ preceded_by_gen adv_a w la' (l :: rest)
            else if adv_a then preceded_by_gen adv_a w la' lb
            else go lb'
        end
  end.
Definition preceded_by := preceded_by_gen seq_pb_else_advances_a.

Definition match_group (lk : link) (w : event -> event -> bool) (g : group) : list pair :=
  match g_a g, g_b g with
  | [], _ | _, [] => []
  | _, _ =>
      match lk with
      | FollowedBy => followed_by w (g_a g) (g_b g)
      | PrecededBy => preceded_by w (g_a g) (g_b g)
      end
  end.

(** ** Group order and LIMIT *)

Definition u64_max : N := 2 ^ 64 - 1.

(** earliest time of the first rows: only readable times count *)
Definition first_ts (l : list event) : N :=
  match l with
  | e :: _ => match e_time e with Some _ => ts e | None => u64_max end
  | [] => u64_max
  end.
Definition earliest (g : group) : N := N.min (first_ts (g_a g)) (first_ts (g_b g)).

Fixpoint insert_group (x : group) (l : list group) : list group :=
  match l with
  | [] => [x]
  | y :: r => if earliest y <? earliest x then y :: insert_group x r else x :: l
  end.
(** stable sort of the groups by [earliest]; groups with equal keys keep the order they have in
    the input list, which stands for the iteration order of the HashMap *)
Definition sort_groups (gs : list group) : list group := fold_right insert_group [] gs.

Definition opt_take {A} (o : option N) (l : list A) : list A :=
  match o with Some n => firstn (N.to_nat n) l | None => l end.

(** [match_sequences] for a single link *)
Definition match_sequences (lk : link) (w : event -> event -> bool) (limit : option N) (gs : list group) : list pair :=
  opt_take limit (flat_map (match_group lk w) (sort_groups gs)).

(** ** The matcher on the rows of two types (function level: ColumnarGrouper + SequenceMatcher) *)

Definition pair_where (wh : option expr) (ta tb : bytes) (a b : event) : bool :=
  where_row wh ta a && where_row wh tb b.

Definition matcher (lk : link) (wh : option expr) (ta tb : bytes) (limit : option N) (la lb : list event) : list pair :=
  match_sequences lk (pair_where wh ta tb) limit (make_groups la lb).

(** per-group view used by the probe to compare modulo the unspecified order of groups with equal
    earliest time: (earliest, pairs of the group) in sorted order, without LIMIT *)
Definition matcher_groups (lk : link) (wh : option expr) (ta tb : bytes) (la lb : list event) : list (N * list pair) :=
  map (fun g => (earliest g, match_group lk (pair_where wh ta tb) g)) (sort_groups (make_groups la lb)).

(** ** The composed pipeline (engine level) *)

(** each sub-query returns the rows of its type that satisfy the transformed WHERE (an exact row
    filter is assumed here — C02 — and checked by the engine-level differential run) *)
Definition sub_query (wh : option expr) (ty : bytes) (stored : list event) : list event :=
  filter (where_row wh ty) stored.

Definition seq_query (lk : link) (wh : option expr) (ta tb : bytes) (limit : option N) (sa sb : list event) : list pair :=
  matcher lk wh ta tb limit (sub_query wh ta sa) (sub_query wh tb sb).

(** ** Specification side *)

(** WHERE read on a pair: a condition prefixed with type a speaks about the a-event, one prefixed
    with type b about the b-event, one prefixed with any other type about neither.  An un-prefixed
    field that exactly one of the two schemas declares ([fa], [fb]: the declared fields) is addressed
    to that type — this is what makes the query pass [validate_field_ambiguity]; any other
    un-prefixed field (a core field such as [timestamp], or one nobody declares) speaks about both. *)
Fixpoint eval_pair (fa fb : list bytes) (e : expr) (ta tb : bytes) (a b : event) : bool :=
  match e with
  | ECmp (Some p) f op c =>
      if bytes_eqb p ta then eval_row (ECmp None f op c) a
      else if bytes_eqb p tb then eval_row (ECmp None f op c) b
      else true
  | ECmp None f op c =>
      if mem_bytes f fa && negb (mem_bytes f fb) then eval_row e a
      else if mem_bytes f fb && negb (mem_bytes f fa) then eval_row e b
      else eval_row e a && eval_row e b
  | EAnd l r => eval_pair fa fb l ta tb a b && eval_pair fa fb r ta tb a b
  | EOr l r => eval_pair fa fb l ta tb a b || eval_pair fa fb r ta tb a b
  | ENot x => negb (eval_pair fa fb x ta tb a b)
  end.
Definition spec_where (fa fb : list bytes) (wh : option expr) (ta tb : bytes) (a b : event) : bool :=
  match wh with None => true | Some e => eval_pair fa fb e ta tb a b end.

(** the fragment on which per-type filtering is exact: conjunctions of sub-expressions that each
    speak about one side only; un-prefixed comparisons only as conjuncts and only on fields that
    both or neither schema declares *)
Fixpoint one_sided (e : expr) (ty : bytes) : bool :=
  match e with
  | ECmp (Some p) _ _ _ => bytes_eqb p ty
  | ECmp None _ _ _ => false
  | EAnd l r | EOr l r => one_sided l ty && one_sided r ty
  | ENot x => one_sided x ty
  end.
Definition declared_by_one (fa fb : list bytes) (f : bytes) : bool :=
  xorb (mem_bytes f fa) (mem_bytes f fb).
Fixpoint conjunctive (fa fb : list bytes) (e : expr) (ta tb : bytes) : bool :=
  match e with
  | ECmp None f _ _ => negb (declared_by_one fa fb f)
  | EAnd l r => (conjunctive fa fb l ta tb && conjunctive fa fb r ta tb) || one_sided e ta || one_sided e tb
  | _ => one_sided e ta || one_sided e tb
  end.
Definition conjunctive_where (fa fb : list bytes) (wh : option expr) (ta tb : bytes) : bool :=
  match wh with None => true | Some e => conjunctive fa fb e ta tb end.

(** KnownClass UnprefixedFieldAppliedToBothTypes: an un-prefixed comparison on a field only one of
    the two types declares (it is applied to the rows of the other type as well, where the field is
    missing, so every row of that type fails) *)
Fixpoint has_unprefixed_one_sided (fa fb : list bytes) (e : expr) : bool :=
  match e with
  | ECmp None f _ _ => declared_by_one fa fb f
  | ECmp (Some _) _ _ _ => false
  | EAnd l r | EOr l r => has_unprefixed_one_sided fa fb l || has_unprefixed_one_sided fa fb r
  | ENot x => has_unprefixed_one_sided fa fb x
  end.

(** the text the pipeline stores for a missing / null link cell ([scalar_to_string(Null)]): rows
    without a link value are grouped under it (KnownClass AbsentLinkGroupedAsNull) *)
Definition null_text : bytes := [110; 117; 108; 108].

(** times that the u64 cast orders like the integers: present and non-negative *)
Definition time_ok (e : event) : bool :=
  match e_time e with Some z => (0 <=? z)%Z && (z <? 2 ^ 63)%Z | None => false end.

(** KnownClass SubQueryNotComplement (C02's NotComplement seen through a sequence query): the WHERE
    pushed into the sub-query of a type contains a NOT, and that sub-query delivers only a part of
    the rows satisfying it (a flushed zone holding both a matching and a non-matching row of the
    negated condition is dropped whole).  [stored]: the rows of the type, [delivered]: the positions
    the sub-query returned. *)
Fixpoint has_not (e : expr) : bool :=
  match e with
  | ECmp _ _ _ _ => false
  | EAnd l r | EOr l r => has_not l || has_not r
  | ENot _ => true
  end.
Definition mem_pos (p : N) (l : list N) : bool := existsb (N.eqb p) l.
Definition not_complement_loss (wh : option expr) (ty : bytes) (stored : list event) (delivered : list N) : bool :=
  match wh with
  | None => false
  | Some e =>
      match transform e ty with
      | None => false
      | Some t =>
          let expect := map e_pos (sub_query wh ty stored) in
          has_not t
          && forallb (fun p => mem_pos p expect) delivered                 (* nothing but satisfying rows *)
          && negb (forallb (fun p => mem_pos p delivered) expect)          (* some satisfying row is missing *)
      end
  end.
