(** Model of [SchemaRegistry] (src/engine/schema/registry.rs) as far as DEFINE and STORE
    use it: [get], [define_async] — executable definitions only.
    (Named SchemaReg, not Registry: the extracted OCaml module would collide with
    ocaml/registry.ml of the driver.)

    The registry maps an event type to its schema; [define] refuses a type that is already
    present, then an empty field map, and otherwise appends.  The random uid and the
    on-disk record are not modelled (the append is assumed to succeed). *)
From Coq Require Import ZArith NArith List Bool.
From Snel Require Import Base.Bytes Model.Json Model.Schema.
Import ListNotations.

Definition registry := list (bytes * schema).

Fixpoint reg_get (r : registry) (et : bytes) : option schema :=
  match r with
  | [] => None
  | (k, s) :: r' => if bytes_eqb k et then Some s else reg_get r' et
  end.

Inductive define_error := AlreadyDefined | EmptySchema.

Inductive define_result :=
| DefOk (r : registry)
| DefErr (e : define_error).

(** [SchemaRegistry::define_async] after the handler's [schema.clone().into()]. *)
Definition define (r : registry) (et : bytes) (cs : cmd_schema) : define_result :=
  match reg_get r et with
  | Some _ => DefErr AlreadyDefined
  | None =>
      match cs with
      | [] => DefErr EmptySchema
      | _ :: _ => DefOk (r ++ [(et, schema_of_cmd cs)])
      end
  end.

(** The registry after a DEFINE command, whatever its answer. *)
Definition define_reg (r : registry) (et : bytes) (cs : cmd_schema) : registry :=
  match define r et cs with
  | DefOk r' => r'
  | DefErr _ => r
  end.

(** ---- persistence: schemas.bin and the replay at start-up ----
    [define_async] appends one record (event type, converted schema; the uid is not modelled)
    to the schema file AFTER both checks passed and before registering it; a DEFINE answered
    with an error writes nothing.  [SchemaRegistry::new] replays the file in order through
    [register_record], a [HashMap::insert]: the LAST record of an event type wins.  The append
    is an unbuffered write that has returned before the DEFINE is answered, so a killed
    process keeps it; a record cut short or failing its CRC is skipped by the reader (not
    modelled: the model's log holds whole records only). *)
Fixpoint reg_insert (r : registry) (et : bytes) (sc : schema) : registry :=
  match r with
  | [] => [(et, sc)]
  | (k, s) :: r' => if bytes_eqb k et then (k, sc) :: r' else (k, s) :: reg_insert r' et sc
  end.

Definition replay (log : list (bytes * schema)) : registry :=
  fold_left (fun r rc => reg_insert r (fst rc) (snd rc)) log [].

(** registry in memory + records on disk *)
Record pstate := { ps_reg : registry; ps_log : list (bytes * schema) }.
Definition ps_init : pstate := {| ps_reg := []; ps_log := [] |}.

Definition define_p (ps : pstate) (et : bytes) (cs : cmd_schema) : pstate * option define_error :=
  match define (ps_reg ps) et cs with
  | DefOk r' => ({| ps_reg := r'; ps_log := ps_log ps ++ [(et, schema_of_cmd cs)] |}, None)
  | DefErr e => (ps, Some e)
  end.

(** a new process on the same directory (after a clean exit or a kill alike) *)
Definition restart_p (ps : pstate) : pstate := {| ps_reg := replay (ps_log ps); ps_log := ps_log ps |}.

Inductive reg_op := OpDefine (et : bytes) (cs : cmd_schema) | OpRestart.

Definition step_p (ps : pstate) (op : reg_op) : pstate :=
  match op with
  | OpDefine et cs => fst (define_p ps et cs)
  | OpRestart => restart_p ps
  end.

Definition run_p (ops : list reg_op) : pstate := fold_left step_p ops ps_init.
