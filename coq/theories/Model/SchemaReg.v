(** Model of [SchemaRegistry] (src/engine/schema/registry.rs) as far as DEFINE and STORE
    use it: [get], [define_async] — executable definitions only.
    (Named SchemaReg, not Registry: the extracted OCaml module would collide with
    ocaml/registry.ml of the driver.)

    The registry maps an event type to its schema; [define] refuses a type that is already
    present, then an empty field map, and otherwise appends.  The random uid and the
    on-disk record are not modelled (the append is assumed to succeed). *)
From Coq Require Import ZArith NArith List Bool.
From Snel Require Import Base.Bytes Model.Json Model.Schema.
Import ListNotations.

Definition registry := list (bytes * schema).

Fixpoint reg_get (r : registry) (et : bytes) : option schema :=
  match r with
  | [] => None
  | (k, s) :: r' => if bytes_eqb k et then Some s else reg_get r' et
  end.

Inductive define_error := AlreadyDefined | EmptySchema.

Inductive define_result :=
| DefOk (r : registry)
| DefErr (e : define_error).

(** [SchemaRegistry::define_async] after the handler's [schema.clone().into()]. *)
Definition define (r : registry) (et : bytes) (cs : cmd_schema) : define_result :=
  match reg_get r et with
  | Some _ => DefErr AlreadyDefined
  | None =>
      match cs with
      | [] => DefErr EmptySchema
      | _ :: _ => DefOk (r ++ [(et, schema_of_cmd cs)])
      end
  end.

(** The registry after a DEFINE command, whatever its answer. *)
Definition define_reg (r : registry) (et : bytes) (cs : cmd_schema) : registry :=
  match define r et cs with
  | DefOk r' => r'
  | DefErr _ => r
  end.
