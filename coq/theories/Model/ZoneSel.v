(** Shared pieces of the C08-B models (enum bitmap, temporal, xor): the comparison
    operators of [command::types::CompareOp], zone-id sets ([RoaringBitmap] over u32,
    modelled as strictly sorted lists), [HashMap<u32, _>] as a key-sorted association
    list with replacement, and what [FieldSelector::select_for_segment]
    (src/engine/core/zone/selector/field_selector.rs) does with a pruner's answer.
    Executable definitions only. *)
From Coq Require Import NArith ZArith List Bool.
From Snel Require Import Gen.Params.
Import ListNotations.
Open Scope N_scope.

Inductive cmp_op := OEq | ONeq | OGt | OGte | OLt | OLte | OIn.

Definition cmp_op_eqb (a b : cmp_op) : bool :=
  match a, b with
  | OEq, OEq | ONeq, ONeq | OGt, OGt | OGte, OGte | OLt, OLt | OLte, OLte | OIn, OIn => true
  | _, _ => false
  end.

(** * Zone-id sets: strictly increasing lists *)
Fixpoint zs_insert (z : N) (s : list N) : list N :=
  match s with
  | [] => [z]
  | x :: r => if z <? x then z :: s else if z =? x then s else x :: zs_insert z r
  end.
Definition zs_mem (z : N) (s : list N) : bool := existsb (N.eqb z) s.
Definition zs_union (a b : list N) : list N := fold_right zs_insert b a.
Definition zs_diff (a b : list N) : list N := filter (fun z => negb (zs_mem z b)) a.
Definition zs_of_list (l : list N) : list N := fold_right zs_insert [] l.

(** * [HashMap<u32, A>]: association list sorted by key, insertion replaces *)
Fixpoint am_set {A : Type} (k : N) (v : A) (m : list (N * A)) : list (N * A) :=
  match m with
  | [] => [(k, v)]
  | (k', v') :: r =>
      if k <? k' then (k, v) :: m
      else if k =? k' then (k, v) :: r
      else (k', v') :: am_set k v r
  end.
Fixpoint am_get {A : Type} (k : N) (m : list (N * A)) : option A :=
  match m with
  | [] => None
  | (k', v') :: r => if k =? k' then Some v' else am_get k r
  end.
(** [map.entry(k).or_default().insert(z)] for a map of zone sets *)
Definition am_add_zone (k z : N) (m : list (N * list N)) : list (N * list N) :=
  am_set k (zs_insert z (match am_get k m with Some s => s | None => [] end)) m.

(** * The field selector's treatment of a pruner result ([FieldSelector::select_for_segment]).
    Per strategy, regenerated from the Rust text:
    - [bypass]: an operator other than [=] gets all zones of the segment without the
      pruner being consulted;
    - [none_op_all]: the pruner answered [None] and the operator is one for which the
      index says nothing ([!=], [IN], or — [none_noneq_all] — anything but [=]): all zones;
    - [none_code] for every other [None]: 0 = `return Vec::new()`, 1 = all zones,
      2 = all zones only while the segment is still in flight.
    [all_zones] stands for [collect_zones_for_scope]: every zone of the segment for the uid. *)
Inductive strategy := STemporal | SEnum | SZoneXor | SXorPresence.

Definition none_code (st : strategy) : N :=
  match st with
  | STemporal => zidx_sel_temporal_none
  | SEnum => zidx_sel_enum_none
  | SZoneXor => zidx_sel_zxf_none
  | SXorPresence => zidx_sel_xf_none
  end.

Definition bypass (st : strategy) (op : cmp_op) : bool :=
  negb (cmp_op_eqb op OEq) &&
  match st with
  | STemporal => zidx_sel_temporal_noneq_bypass
  | SEnum => zidx_sel_enum_noneq_bypass
  | SZoneXor => zidx_sel_zxf_noneq_bypass
  | SXorPresence => zidx_sel_xf_noneq_bypass
  end.

Definition none_noneq_all (st : strategy) : bool :=
  match st with
  | STemporal => zidx_sel_temporal_none_noneq_all
  | SEnum => zidx_sel_enum_none_noneq_all
  | SZoneXor => zidx_sel_zxf_none_noneq_all
  | SXorPresence => zidx_sel_xf_none_noneq_all
  end.

Definition none_op_all (st : strategy) (op : cmp_op) : bool :=
  (negb (cmp_op_eqb op OEq) && none_noneq_all st) ||
  match op with
  | ONeq =>
      match st with
      | STemporal => zidx_sel_temporal_none_neq_all
      | SEnum => zidx_sel_enum_none_neq_all
      | SZoneXor => zidx_sel_zxf_none_neq_all
      | SXorPresence => zidx_sel_xf_none_neq_all
      end
  | OIn =>
      match st with
      | STemporal => zidx_sel_temporal_none_in_all
      | SEnum => zidx_sel_enum_none_in_all
      | SZoneXor => zidx_sel_zxf_none_in_all
      | SXorPresence => zidx_sel_xf_none_in_all
      end
  | _ => false
  end.

Definition select (st : strategy) (op : cmp_op) (inflight : bool) (all_zones : list N)
                  (r : option (list N)) : list N :=
  if bypass st op then all_zones else
  match r with
  | Some zs => zs
  | None =>
      if none_op_all st op then all_zones else
      match none_code st with
      | 1 => all_zones
      | 2 => if inflight then all_zones else []
      | _ => []
      end
  end.
