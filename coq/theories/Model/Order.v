(** Model of ORDER BY / LIMIT / OFFSET (C10) — executable definitions only.

    - [scalar_compare]: src/engine/types/mod.rs [ScalarValue::compare]
      (u64 -> i64 -> f64 -> bool -> str -> string-repr cascade) with the
      accessors [as_u64/as_i64/as_f64/as_bool/as_str/to_string_repr];
      Rust's [str::parse::<u64|i64|f64>] are modelled at byte level.
    - [merger_run]: src/engine/core/read/flow/ordered_merger.rs [MergerState::run]
      (binary heap of one head per stream ordered by key then stream index,
      skip [offset], stop at [limit]).
    - [flow_sort]: the per-flow [sort_unstable_by] + [truncate] of
      memtable_source.rs / segment_query_runner.rs.
    - [shard_ordered], [coord_ordered]: engine/query/streaming/merger.rs
      (limit = n+m, offset 0) and command/handlers/query/merge/streaming.rs
      (offset m, limit n).
    - [writer_run]: command/handlers/query/streaming/response_writer.rs
      [try_accept_row] (dedup by event id, skip m, stop at n).
    - [handler_precheck]: command/handlers/query/handler.rs (OFFSET without LIMIT). *)
From Coq Require Import ZArith NArith List Bool.
From Snel Require Import Base.Bytes Base.OrdF64 Gen.Params.
Import ListNotations.
Open Scope Z_scope.

(** * Runtime values ([ScalarValue]) *)

(** [VFloat bits repr]: [repr] is Rust's [f64::to_string()] of [bits]; it is an
    input of the model (the harness checks it against the real formatting on
    every case) because shortest-round-trip float printing is not modelled. *)
Inductive value :=
| VNull
| VBool (b : bool)
| VInt (z : Z)            (* Int64 *)
| VFloat (bits : N) (repr : bytes)
| VTs (z : Z)             (* Timestamp(i64) *)
| VStr (s : bytes)        (* Utf8 *)
| VBin (b : bytes).       (* Binary *)

Definition i64_lo : Z := - 2 ^ 63.
Definition i64_hi : Z := 2 ^ 63 - 1.
Definition u64_hi : Z := 2 ^ 64 - 1.

(** * Integer parsing: [str::parse::<i64>], [str::parse::<u64>] *)

Fixpoint digits_val (s : bytes) (acc : Z) : option Z :=
  match s with
  | [] => Some acc
  | c :: r => if is_digit c then digits_val r (acc * 10 + Z.of_N (digit_val c)) else None
  end.

(** optional sign, at least one digit, nothing else *)
Definition parse_int (s : bytes) : option Z :=
  match s with
  | [] => None
  | 45%N :: ((_ :: _) as r) => option_map Z.opp (digits_val r 0)
  | 43%N :: ((_ :: _) as r) => digits_val r 0
  | _ => digits_val s 0
  end.

Definition parse_i64 (s : bytes) : option Z :=
  match parse_int s with
  | Some z => if (i64_lo <=? z) && (z <=? i64_hi) then Some z else None
  | None => None
  end.

(** unsigned types do not accept a leading '-' (not even "-0") *)
Definition starts_with_minus (s : bytes) : bool :=
  match s with c :: _ => (c =? 45)%N | [] => false end.

Definition parse_u64 (s : bytes) : option Z :=
  if starts_with_minus s then None
  else match parse_int s with
       | Some z => if (0 <=? z) && (z <=? u64_hi) then Some z else None
       | None => None
       end.

(** * Float parsing: [str::parse::<f64>] (core::num::dec2flt), correctly rounded *)

(** leading digit run: value, number of digits, rest *)
Fixpoint scan_digits (s : bytes) (acc : Z) (cnt : Z) : Z * Z * bytes :=
  match s with
  | c :: r => if is_digit c then scan_digits r (acc * 10 + Z.of_N (digit_val c)) (cnt + 1)
              else (acc, cnt, s)
  | [] => (acc, cnt, s)
  end.

Definition lower_bytes (s : bytes) : bytes := map to_lower s.

Definition str_inf : bytes := [105; 110; 102]%N.
Definition str_infinity : bytes := [105; 110; 102; 105; 110; 105; 116; 121]%N.
Definition str_nan : bytes := [110; 97; 110]%N.

(** number of decimal digits of [m > 0] is at most [Z.log2 m / 3 + 1] and at least
    [Z.log2 m / 4 + 1]; only used to decide the clamping below *)
Definition dec_exp_clamp : Z := 400.

(** value [m * 10^e] ([m >= 0]) to the nearest double *)
Definition f64_of_decimal (neg : bool) (m e : Z) : N :=
  if m =? 0 then f64_of_ratio neg 0 1
  else
    let hi := Z.log2 m / 3 + 1 + e in      (* m*10^e < 10^hi *)
    let lo := Z.log2 m / 4 + e in          (* 10^lo <= m*10^e *)
    if dec_exp_clamp <? lo then f64_of_ratio neg (10 ^ dec_exp_clamp) 1
    else if hi <? - dec_exp_clamp then f64_of_ratio neg 0 1
    else if 0 <=? e then f64_of_ratio neg (m * 10 ^ e) 1
    else f64_of_ratio neg m (10 ^ (- e)).

Definition parse_f64 (s : bytes) : option N :=
  match s with
  | [] => None
  | c :: r0 =>
    let neg := (c =? 45)%N in
    let r := if (c =? 45)%N || (c =? 43)%N then r0 else s in
    match r with
    | [] => None
    | _ =>
      let '(ip, ni, r1) := scan_digits r 0 0 in
      let '(m, nf, r2) :=
        match r1 with
        | 46%N :: r1' => scan_digits r1' ip 0
        | _ => (ip, 0, r1)
        end in
      if ni + nf =? 0 then
        let l := lower_bytes r in
        if bytes_eqb l str_nan then Some f64_qnan_bits
        else if bytes_eqb l str_inf || bytes_eqb l str_infinity
             then Some (f64_of_ratio neg (10 ^ dec_exp_clamp) 1)
        else None
      else
        match r2 with
        | [] => Some (f64_of_decimal neg m (- nf))
        | ec :: r3 =>
          if (ec =? 101)%N || (ec =? 69)%N then
            let '(eneg, r4) :=
              match r3 with
              | 45%N :: t => (true, t)
              | 43%N :: t => (false, t)
              | _ => (false, r3)
              end in
            let '(ev, ne, r5) := scan_digits r4 0 0 in
            if ne =? 0 then None
            else match r5 with
                 | [] => Some (f64_of_decimal neg m ((if eneg then - ev else ev) - nf))
                 | _ => None
                 end
          else None
        end
    end
  end.

(** * Accessors of [ScalarValue] *)

Definition as_u64 (v : value) : option Z :=
  match v with
  | VInt z | VTs z => if 0 <=? z then Some z else None
  | VStr s => parse_u64 s
  | _ => None
  end.

Definition as_i64 (v : value) : option Z :=
  match v with
  | VInt z | VTs z => Some z
  | VStr s => parse_i64 s
  | _ => None
  end.

Definition as_f64 (v : value) : option N :=
  match v with
  | VFloat b _ => Some b
  | VInt z | VTs z => Some (f64_of_Z z)
  | VStr s => parse_f64 s
  | _ => None
  end.

Definition str_true : bytes := [116; 114; 117; 101]%N.
Definition str_false : bytes := [102; 97; 108; 115; 101]%N.

Definition as_bool (v : value) : option bool :=
  match v with
  | VBool b => Some b
  | VStr s =>
      let l := lower_bytes s in
      if bytes_eqb l str_true || bytes_eqb l [49%N] then Some true
      else if bytes_eqb l str_false || bytes_eqb l [48%N] then Some false
      else None
  | VInt z => Some (negb (z =? 0))
  | _ => None
  end.

Definition as_str (v : value) : option bytes :=
  match v with VStr s => Some s | _ => None end.

(** standard base64 with padding ([BASE64_STANDARD.encode]) *)
Definition b64_char (i : N) : N :=
  (if i <? 26 then 65 + i else if i <? 52 then 97 + (i - 26)
   else if i <? 62 then 48 + (i - 52) else if i =? 62 then 43 else 47)%N.

Fixpoint base64 (b : bytes) : bytes :=
  match b with
  | [] => []
  | [x] => [b64_char (x / 4); b64_char ((x mod 4) * 16); 61; 61]%N
  | [x; y] => [b64_char (x / 4); b64_char ((x mod 4) * 16 + y / 16);
               b64_char ((y mod 16) * 4); 61]%N
  | x :: y :: z :: r =>
      (b64_char (x / 4) :: b64_char ((x mod 4) * 16 + y / 16)
       :: b64_char ((y mod 16) * 4 + z / 64) :: b64_char (z mod 64) :: base64 r)%N
  end.

Definition to_string_repr (v : value) : bytes :=
  match v with
  | VNull => []
  | VBool true => str_true
  | VBool false => str_false
  | VInt z | VTs z => dec_of_Z z
  | VFloat _ r => r
  | VStr s => s
  | VBin b => base64 b
  end.

Definition bool_cmp (a b : bool) : comparison :=
  match a, b with
  | false, true => Lt
  | true, false => Gt
  | _, _ => Eq
  end.

(** * [ScalarValue::compare] *)
Definition scalar_compare (a b : value) : comparison :=
  match as_u64 a, as_u64 b with
  | Some x, Some y => Z.compare x y
  | _, _ =>
  match as_i64 a, as_i64 b with
  | Some x, Some y => Z.compare x y
  | _, _ =>
  match as_f64 a, as_f64 b with
  | Some x, Some y => match f64_partial_cmp x y with Some c => c | None => Eq end
  | _, _ =>
  match as_bool a, as_bool b with
  | Some x, Some y => bool_cmp x y
  | _, _ =>
  match as_str a, as_str b with
  | Some x, Some y => bytes_cmp x y
  | _, _ => bytes_cmp (to_string_repr a) (to_string_repr b)
  end end end end end.

(** * Generic list machinery *)

Section Lists.
  Context {A : Type}.

  (** first [n] elements, [n : N] (no unary numbers: limits go up to 2^32) *)
  Fixpoint takeN (n : N) (l : list A) : list A :=
    match l with
    | [] => []
    | x :: r => if (n =? 0)%N then [] else x :: takeN (N.pred n) r
    end.

  Fixpoint dropN (n : N) (l : list A) : list A :=
    match l with
    | [] => []
    | x :: r => if (n =? 0)%N then l else dropN (N.pred n) r
    end.

  Definition take_opt (n : option N) (l : list A) : list A :=
    match n with Some k => takeN k l | None => l end.

  (** rows [m .. m+n) *)
  Definition slice (m n : N) (l : list A) : list A := takeN n (dropN m l).

  (** stable insertion sort; [cmp x y = Gt] means [x] goes after [y] *)
  Fixpoint insert_by (cmp : A -> A -> comparison) (x : A) (l : list A) : list A :=
    match l with
    | [] => [x]
    | y :: r => match cmp x y with
                | Gt => y :: insert_by cmp x r
                | _ => x :: l
                end
    end.

  Fixpoint sort_by (cmp : A -> A -> comparison) (l : list A) : list A :=
    match l with
    | [] => []
    | x :: r => insert_by cmp x (sort_by cmp r)
    end.

  (** ** k-way merge driven by a heap holding one head per stream.
      [before (i, x) (j, y) = true] iff the heap pops item [(i, x)] before [(j, y)].
      With one item per stream and a total preorder on keys the greatest heap item
      is unique, so the pop order does not depend on the heap's internal layout;
      the model scans the heads from stream 0 upwards and keeps the current best. *)
  Fixpoint pick (before : nat * A -> nat * A -> bool) (i : nat) (ss : list (list A))
           (best : option (nat * A)) : option (nat * A) :=
    match ss with
    | [] => best
    | s :: r =>
        let best' :=
          match s with
          | [] => best
          | x :: _ => match best with
                      | None => Some (i, x)
                      | Some b => if before (i, x) b then Some (i, x) else best
                      end
          end in
        pick before (S i) r best'
    end.

  Fixpoint drop_head (i : nat) (ss : list (list A)) : list (list A) :=
    match ss with
    | [] => []
    | s :: r => match i with
                | O => tl s :: r
                | S j => s :: drop_head j r
                end
    end.

  Fixpoint total_len (ss : list (list A)) : nat :=
    match ss with
    | [] => O
    | s :: r => (length s + total_len r)%nat
    end.

  Fixpoint kmerge_fuel (before : nat * A -> nat * A -> bool) (fuel : nat)
           (ss : list (list A)) : list A :=
    match fuel with
    | O => []
    | S f => match pick before O ss None with
             | None => []
             | Some (i, x) => x :: kmerge_fuel before f (drop_head i ss)
             end
    end.

  Definition kmerge (before : nat * A -> nat * A -> bool) (ss : list (list A)) : list A :=
    kmerge_fuel before (total_len ss) ss.

  (** The loop of [MergerState::run], literally: pop, stop if [emitted >= limit],
      skip while [skipped > 0], else emit; stop again if the limit is reached;
      refill from the stream the item came from. *)
  Fixpoint merger_loop (before : nat * A -> nat * A -> bool) (fuel : nat)
           (ss : list (list A)) (skipped : N) (limit : option N) (emitted : N) : list A :=
    match fuel with
    | O => []
    | S f =>
      match pick before O ss None with
      | None => []
      | Some (i, x) =>
        let full := match limit with Some l => (l <=? emitted)%N | None => false end in
        if full then []
        else if (0 <? skipped)%N
        then merger_loop before f (drop_head i ss) (N.pred skipped) limit emitted
        else
          let emitted' := N.succ emitted in
          let full' := match limit with Some l => (l <=? emitted')%N | None => false end in
          x :: (if full' then [] else merger_loop before f (drop_head i ss) 0%N limit emitted')
      end
    end.
End Lists.

(** * The ordered merger on rows *)

(** a row: sort key and an opaque row identity *)
Definition row : Type := value * N.

Definition row_cmp (a b : row) : comparison := scalar_compare (fst a) (fst b).

(** [HeapItem::cmp]: [ord = compare(key).then(other.shard_idx.cmp(self.shard_idx))],
    reversed when ascending; the heap is a max-heap, so [x] is popped before [y]
    iff [cmp x y = Greater]. *)
Definition heap_item_cmp {A} (cmp : A -> A -> comparison) (ascending : bool)
           (x y : nat * A) : comparison :=
  let ord := match cmp (snd x) (snd y) with
             | Eq => Nat.compare (fst y) (fst x)
             | c => c
             end in
  if ascending then CompOpp ord else ord.

Definition heap_before {A} (cmp : A -> A -> comparison) (ascending : bool)
           (x y : nat * A) : bool :=
  match heap_item_cmp cmp ascending x y with Gt => true | _ => false end.

(** direction-adjusted comparator used by the per-flow sort *)
Definition dir_cmp {A} (cmp : A -> A -> comparison) (ascending : bool) (a b : A) : comparison :=
  if ascending then cmp a b else CompOpp (cmp a b).

(** [StreamingContext::effective_limit] *)
Definition effective_limit (limit offset : option N) : option N :=
  match limit with
  | Some l => Some (l + match offset with Some o => o | None => 0%N end)%N
  | None => None
  end.

Section OrderedPath.
  Context {A : Type}.
  Variable cmp : A -> A -> comparison.

  (** [OrderedStreamMerger::spawn(.., ascending, offset, limit, ..)] on the rows of
      the receivers (batch boundaries are not observable in the row sequence) *)
  Definition merger_run_g (ascending : bool) (offset : N) (limit : option N)
             (streams : list (list A)) : list A :=
    merger_loop (heap_before cmp ascending) (total_len streams) streams offset limit 0%N.

  (** per-flow: collect, sort, truncate to the flow limit (None when ORDER BY defers it) *)
  Definition flow_sort_g (ascending : bool) (lim : option N) (rows : list A) : list A :=
    take_opt lim (sort_by (dir_cmp cmp ascending) rows).

  (** shard level (engine/query/streaming/merger.rs): offset 0, limit n+m *)
  Definition shard_ordered_g (ascending : bool) (limit offset : option N)
             (flows : list (list A)) : list A :=
    merger_run_g ascending 0%N (effective_limit limit offset)
                 (map (flow_sort_g ascending None) flows).

  (** coordinator (merge/streaming.rs): offset m, limit n, applied once *)
  Definition coord_ordered_g (ascending : bool) (limit offset : option N)
             (shards : list (list (list A))) : list A :=
    merger_run_g ascending (match offset with Some o => o | None => 0%N end) limit
                 (map (shard_ordered_g ascending limit offset) shards).
End OrderedPath.

Definition merger_run := merger_run_g row_cmp.
Definition flow_sort := flow_sort_g row_cmp.
Definition shard_ordered := shard_ordered_g row_cmp.
Definition coord_ordered := coord_ordered_g row_cmp.

(** * The response writer (unordered path and final dedup) *)

Fixpoint mem_N (x : N) (l : list N) : bool :=
  match l with
  | [] => false
  | y :: r => (x =? y)%N || mem_N x r
  end.

(** [try_accept_row] over the row sequence; a row carries [Some id] when its
    event_id column converts with [as_u64], else [None] *)
Fixpoint writer_go {A} (limit offset : option N) (seen : list N) (skipped emitted : N)
         (rows : list (option N * A)) : list A :=
  match rows with
  | [] => []
  | (oid, x) :: r =>
    let dup := match oid with Some id => mem_N id seen | None => false end in
    let seen' := match oid with Some id => if dup then seen else id :: seen | None => seen end in
    if dup then writer_go limit offset seen' skipped emitted r
    else
      let skip := match offset with Some o => (skipped <? o)%N | None => false end in
      if skip then writer_go limit offset seen' (N.succ skipped) emitted r
      else
        let full := match limit with Some l => (l <=? emitted)%N | None => false end in
        if full then []      (* limit_reached: the loops stop *)
        else x :: writer_go limit offset seen' skipped (N.succ emitted) r
  end.

Definition writer_run {A} (limit offset : option N) (rows : list (option N * A)) : list A :=
  writer_go limit offset [] 0%N 0%N rows.

(** event id of a row as the writer sees it *)
Definition event_id_of (v : value) : option N :=
  match as_u64 v with Some z => Some (Z.to_N z) | None => None end.

(** * Handler rule *)
Inductive precheck := PreOk | PreBadRequest.

(** [query_offset_requires_limit] is regenerated from handler.rs by the translator *)
Definition handler_precheck (limit offset : option N) : precheck :=
  match offset, limit with
  | Some _, None => if query_offset_requires_limit then PreBadRequest else PreOk
  | _, _ => PreOk
  end.

(** which limits the response writer receives (handler.rs): none for ordered
    queries (already applied by the merger), the command's for unordered ones *)
Definition writer_limits (ordered : bool) (limit offset : option N) : option N * option N :=
  if ordered then (None, None) else (limit, offset).

(** * Column kinds on which [scalar_compare] is the typed order *)

(** i64 / datetime columns: Int64 and Timestamp cells *)
Definition is_intlike (v : value) : bool :=
  match v with
  | VNull | VInt _ | VTs _ => true
  | _ => false
  end.

(** u64 columns: non-negative Int64 / Timestamp cells, and values above i64::MAX,
    which [ScalarValue::from] holds as Utf8 decimal strings *)
Definition is_u64like (v : value) : bool :=
  match v with
  | VNull => true
  | VInt z | VTs z => 0 <=? z
  | VStr s => match parse_u64 s with Some z => i64_hi <? z | None => false end
  | _ => false
  end.

Definition is_floatlike (v : value) : bool :=
  match v with
  | VNull => true
  | VFloat b r => negb (f64_is_nan b) && negb (match r with [] => true | _ => false end)
  | _ => false
  end.

(** float columns also hold Int64 cells (an integral JSON number in a float field);
    integers of magnitude at most 2^53 convert to doubles exactly *)
Definition num_int_bound : Z := 9007199254740992.
Definition is_numlike (v : value) : bool :=
  match v with
  | VNull => true
  | VFloat b r => negb (f64_is_nan b) && negb (match r with [] => true | _ => false end)
  | VInt z | VTs z => (- num_int_bound <=? z) && (z <=? num_int_bound)
  | _ => false
  end.

Definition is_boollike (v : value) : bool :=
  match v with VNull | VBool _ => true | _ => false end.

(** strings that none of the numeric / boolean accessors accept *)
Definition plain_string (s : bytes) : bool :=
  match parse_u64 s, parse_i64 s, parse_f64 s, as_bool (VStr s) with
  | None, None, None, None => true
  | _, _, _, _ => false
  end.

Definition is_plainstr (v : value) : bool :=
  match v with VNull => true | VStr s => plain_string s | _ => false end.

Inductive kind := KInt | KU64 | KFloat | KNum | KBool | KStr.

Definition in_kind (k : kind) (v : value) : bool :=
  match k with
  | KInt => is_intlike v
  | KU64 => is_u64like v
  | KFloat => is_floatlike v
  | KNum => is_numlike v
  | KBool => is_boollike v
  | KStr => is_plainstr v
  end.

Definition opt_cmp {A} (c : A -> A -> comparison) (a b : option A) : comparison :=
  match a, b with
  | None, None => Eq
  | None, Some _ => Lt
  | Some _, None => Gt
  | Some x, Some y => c x y
  end.

(** position of a numeric cell on the double line *)
Definition num_key (v : value) : option Z :=
  match v with
  | VFloat x _ => Some (f64_key x)
  | VInt z | VTs z => Some (f64_key (f64_of_Z z))
  | _ => None
  end.

(** the typed order of each kind (missing values first) *)
Definition typed_compare (k : kind) (a b : value) : comparison :=
  match k with
  | KInt => opt_cmp Z.compare (as_i64 a) (as_i64 b)
  | KU64 => opt_cmp Z.compare (as_u64 a) (as_u64 b)
  | KFloat =>
      opt_cmp Z.compare
        (match a with VFloat x _ => Some (f64_key x) | _ => None end)
        (match b with VFloat x _ => Some (f64_key x) | _ => None end)
  | KNum => opt_cmp Z.compare (num_key a) (num_key b)
  | KBool =>
      opt_cmp bool_cmp (match a with VBool x => Some x | _ => None end)
                       (match b with VBool x => Some x | _ => None end)
  | KStr =>
      bytes_cmp (match a with VStr s => s | _ => [] end)
                (match b with VStr s => s | _ => [] end)
  end.

Definition all_kinds : list kind := [KInt; KU64; KFloat; KNum; KBool; KStr].

(** a column (list of keys) is coherent when one kind covers all its values *)
Definition coherent (vs : list value) : bool :=
  existsb (fun k => forallb (in_kind k) vs) all_kinds.

(** * Known-finding classes of incoherent sort columns (see Props/C10.v) *)
Inductive order_class := NumericLookingStrings | NumericMixed | MixedKinds.

Definition is_strnull (v : value) : bool :=
  match v with VNull | VStr _ => true | _ => false end.
Definition is_numnull (v : value) : bool :=
  match v with VNull | VInt _ | VTs _ | VFloat _ _ => true | _ => false end.

(** [None]: one kind covers the column and [scalar_compare] is its typed order.
    - [NumericLookingStrings]: a string column in which some value is accepted by a
      numeric or boolean accessor ("9" "10" "1a"; "true" "1" "x"; "nan").
    - [NumericMixed]: Int64 / Timestamp cells beyond 2^53 together with Float64
      cells (the integer rounds when compared with a float), or a NaN.
    - [MixedKinds]: any other mixture of runtime kinds in one column (arises from
      the string re-typing after FLUSH, C07). *)
Definition classify_column (vs : list value) : option order_class :=
  if coherent vs then None
  else if forallb is_strnull vs then Some NumericLookingStrings
  else if forallb is_numnull vs then Some NumericMixed
  else Some MixedKinds.
