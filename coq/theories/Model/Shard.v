(** Executable model of one shard's storage state machine (write path, WAL,
    background flush, crash / restart, reads).  Definitions only.

    Source: src/engine/store/insert.rs, src/engine/shard/{context,worker}.rs,
    src/engine/core/wal/{wal_handle,inner_wal_writer,wal_cleaner,wal_recovery}.rs,
    src/engine/core/write/{flush_manager,flush_worker,flusher}.rs,
    src/engine/core/segment/{segment_id_loader,range_allocator}.rs,
    src/engine/query/streaming/scan.rs.

    Labelled small steps: every label corresponds to a hook step point of the
    engine (src/verif_hooks.rs), so a run of the real engine yields a label
    sequence that this model replays (trace validation). *)
From Coq Require Import NArith List Bool.
From Snel Require Import Gen.Params.
Import ListNotations.
Open Scope N_scope.

(** An event: unique key [ek] (stands for the event id / payload), context and
    event-type (uid) indexes. Context indexes are ordered as the context strings. *)
Record event := mkEv { ek : N; ectx : N; euid : N }.

Definition ev_eqb (a b : event) : bool :=
  (ek a =? ek b) && (ectx a =? ectx b) && (euid a =? euid b).

(** A segment directory: id and its rows in written order. The files of uid [u]
    exist in the directory iff some row has uid [u]. *)
Record segdir := mkSeg { sid : N; srows : list event }.

Inductive stage := StQueued | StBegun | StIndexed | StPublished | StCleared | StWalCleaned.

Record job := mkJob { jseg : N; jevs : list event; jstage : stage }.

Record shard := mkShard {
  cap : N;                               (* fill_factor * event_per_zone *)
  mem : list event;                      (* active memtable, apply order *)
  passives : list (N * list event);      (* rotated copies; [] once released *)
  inflight : list N;                     (* in-flight segment markers *)
  live : list N;                         (* volatile live segment list *)
  dirs : list segdir;                    (* segment directories on disk *)
  index : list (N * list N);             (* segments.idx: id, uids *)
  walq : list event;                     (* handed to the WAL thread, not yet written *)
  walfiles : list (N * list event);      (* wal-<id>.log on disk *)
  wcur : N;                              (* writer: current log id *)
  wcnt : N;                              (* writer: entries_written *)
  wunlinked : bool;                      (* the writer's open file was deleted under it *)
  alloc0 : N;                            (* next level-0 segment offset *)
  jobs : list job;                       (* flush queue, head = job being processed *)
  wlost : list event                     (* ghost: entries whose WAL write went to an unlinked file *)
}.

Definition init (c : N) : shard :=
  mkShard c [] [] [] [] [] [] [] [(0, [])] 0 0 false 0 [] [].

(** ** helpers *)
Definition memb (x : N) (l : list N) : bool := existsb (N.eqb x) l.

Fixpoint remove_n (x : N) (l : list N) : list N :=
  match l with [] => [] | y :: r => if x =? y then remove_n x r else y :: remove_n x r end.

Fixpoint insert_sorted (x : N) (l : list N) : list N :=
  match l with
  | [] => [x]
  | y :: r => if x <=? y then x :: l else y :: insert_sorted x r
  end.
Definition sort_n (l : list N) : list N := fold_right insert_sorted [] l.

Fixpoint dedup_n (l : list N) : list N :=
  match l with [] => [] | x :: r => if memb x r then dedup_n r else x :: dedup_n r end.

Definition len {A} (l : list A) : N := N.of_nat (length l).

(** flusher order: contexts in BTreeMap order, append order inside a context
    (a stable sort by context); regrouping by type keeps the relative order. *)
Fixpoint insert_by_ctx (e : event) (l : list event) : list event :=
  match l with
  | [] => [e]
  | x :: r => if ectx x <=? ectx e then x :: insert_by_ctx e r else e :: l
  end.
Definition flush_order (evs : list event) : list event :=
  fold_left (fun acc e => insert_by_ctx e acc) evs [].

Definition uids_of (evs : list event) : list N := sort_n (dedup_n (map euid evs)).

(** ** write path *)

Definition rotate (s : shard) : shard :=
  let seg := alloc0 s in
  mkShard (cap s) [] (passives s ++ [(seg, mem s)]) (inflight s) (live s) (dirs s) (index s)
          (walq s) (walfiles s) (wcur s) (wcnt s) (wunlinked s) (N.succ seg)
          (jobs s ++ [mkJob seg (mem s) StQueued]) (wlost s).

(** STORE applied on the shard: WAL send, memtable insert, rotation when full. *)
Definition store (s : shard) (e : event) : shard :=
  let s1 := mkShard (cap s) (mem s ++ [e]) (passives s) (inflight s) (live s) (dirs s) (index s)
                    (walq s ++ [e]) (walfiles s) (wcur s) (wcnt s) (wunlinked s) (alloc0 s) (jobs s) (wlost s) in
  if cap s <=? len (mem s1) then rotate s1 else s1.

(** manual FLUSH: rotation happens unconditionally (also for an empty memtable). *)
Definition flush_cmd (s : shard) : shard := rotate s.

(** ** WAL thread *)

Fixpoint wal_append (files : list (N * list event)) (id : N) (e : event) : list (N * list event) :=
  match files with
  | [] => [(id, [e])]
  | (i, es) :: r =>
      if i =? id then (i, es ++ [e]) :: r
      else if id <? i then (id, [e]) :: files
      else (i, es) :: wal_append r id e
  end.

Fixpoint wal_touch (files : list (N * list event)) (id : N) : list (N * list event) :=
  match files with
  | [] => [(id, [])]
  | (i, es) :: r =>
      if i =? id then files
      else if id <? i then (id, []) :: files
      else (i, es) :: wal_touch r id
  end.

Definition wal_max_id (files : list (N * list event)) : N :=
  fold_left (fun m f => N.max m (fst f)) files 0.

Fixpoint wal_lines (files : list (N * list event)) (id : N) : N :=
  match files with
  | [] => 0
  | (i, es) :: r => if i =? id then len es else wal_lines r id
  end.

(** [count_entries]: lines of the highest-numbered log file. *)
Definition wal_count_entries (files : list (N * list event)) : N :=
  wal_lines files (wal_max_id files).

(** One entry is written ([append_immediate]). A write into an unlinked file is lost. *)
Definition wal_write (s : shard) : shard :=
  match walq s with
  | [] => s
  | e :: q =>
      let files1 := if wunlinked s then walfiles s else wal_append (walfiles s) (wcur s) e in
      mkShard (cap s) (mem s) (passives s) (inflight s) (live s) (dirs s) (index s)
              q files1 (wcur s) (N.succ (wcnt s)) (wunlinked s) (alloc0 s) (jobs s)
              (if wunlinked s then wlost s ++ [e] else wlost s)
  end.

(** The WAL thread rotates right after a write when [entries_written >= cap]:
    flush+close, id+1, (re)open in append mode, [entries_written] := lines of the
    highest-numbered file. *)
Definition wal_rotate (s : shard) : shard :=
  if cap s <=? wcnt s then
    let cur2 := N.succ (wcur s) in
    let files2 := wal_touch (walfiles s) cur2 in
    mkShard (cap s) (mem s) (passives s) (inflight s) (live s) (dirs s) (index s)
            (walq s) files2 cur2 (wal_count_entries files2) false (alloc0 s) (jobs s) (wlost s)
  else s.

(** ** background flush: the head job advances one stage per label *)

Definition set_jobs (s : shard) (j : list job) : shard :=
  mkShard (cap s) (mem s) (passives s) (inflight s) (live s) (dirs s) (index s)
          (walq s) (walfiles s) (wcur s) (wcnt s) (wunlinked s) (alloc0 s) j (wlost s).

Definition clear_passive (ps : list (N * list event)) (seg : N) : list (N * list event) :=
  map (fun p => if fst p =? seg then (fst p, []) else p) ps.

Definition wal_cleanup (files : list (N * list event)) (keep_from : N) : list (N * list event) :=
  filter (fun f => negb (fst f <? keep_from)) files.

Fixpoint dir_add_rows (ds : list segdir) (seg : N) (rows : list event) : list segdir :=
  match ds with
  | [] => [mkSeg seg rows]
  | d :: r => if sid d =? seg then mkSeg seg (srows d ++ rows) :: r else d :: dir_add_rows r seg rows
  end.

Definition dir_has_uid (s : shard) (seg u : N) : bool :=
  existsb (fun d => (sid d =? seg) && existsb (fun e => euid e =? u) (srows d)) (dirs s).

(** ghost bookkeeping for C01: the entries of a deleted log file that are in no
    segment directory at that moment are no longer recoverable after a crash *)
Definition in_dirs (ds : list segdir) (e : event) : bool :=
  existsb (fun d => existsb (ev_eqb e) (srows d)) ds.
Definition pruned_unsaved (ds : list segdir) (deleted : list (N * list event)) : list event :=
  filter (fun e => negb (in_dirs ds e)) (concat (map snd deleted)).

Inductive fwlabel := FwBegin | FwMkdir | FwWrite (u : N) | FwIndex | FwPublish | FwClear | FwWalDel (id : N) | FwWalClean | FwDone.

Definition is_empty {A} (l : list A) : bool := match l with [] => true | _ => false end.

Definition fw_step (s : shard) (l : fwlabel) : shard :=
  match jobs s with
  | [] => s
  | j :: rest =>
      let seg := jseg j in
      let adv st := mkJob seg (jevs j) st :: rest in
      match l, jstage j with
      | FwBegin, StQueued =>
          mkShard (cap s) (mem s) (passives s) (inflight s ++ [seg]) (live s) (dirs s) (index s)
                  (walq s) (walfiles s) (wcur s) (wcnt s) (wunlinked s) (alloc0 s) (adv StBegun) (wlost s)
      | FwMkdir, StBegun =>
          mkShard (cap s) (mem s) (passives s) (inflight s) (live s)
                  (dir_add_rows (dirs s) seg []) (index s)
                  (walq s) (walfiles s) (wcur s) (wcnt s) (wunlinked s) (alloc0 s) (jobs s) (wlost s)
      | FwWrite u, StBegun =>
          (* the files of one event type are written (the directory is created first);
             each type of the rotated memtable is written exactly once *)
          if negb (memb u (uids_of (jevs j))) || dir_has_uid s seg u then s else
          mkShard (cap s) (mem s) (passives s) (inflight s) (live s)
                  (dir_add_rows (dirs s) seg (filter (fun e => euid e =? u) (flush_order (jevs j)))) (index s)
                  (walq s) (walfiles s) (wcur s) (wcnt s) (wunlinked s) (alloc0 s) (jobs s) (wlost s)
      | FwIndex, StBegun =>
          (* the index entry is added after every type has been written *)
          if is_empty (jevs j) || negb (forallb (dir_has_uid s seg) (uids_of (jevs j))) then s
          else
            mkShard (cap s) (mem s) (passives s) (inflight s) (live s) (dirs s)
                    (index s ++ [(seg, uids_of (jevs j))])
                    (walq s) (walfiles s) (wcur s) (wcnt s) (wunlinked s) (alloc0 s) (adv StIndexed) (wlost s)
      | FwPublish, StIndexed =>
          if is_empty (jevs j) then set_jobs s (adv StPublished)
          else
            mkShard (cap s) (mem s) (passives s) (inflight s)
                    (if memb seg (live s) then live s else live s ++ [seg]) (dirs s) (index s)
                    (walq s) (walfiles s) (wcur s) (wcnt s) (wunlinked s) (alloc0 s) (adv StPublished) (wlost s)
      | FwClear, StPublished =>
          if is_empty (jevs j) then set_jobs s (adv StCleared)
          else
            mkShard (cap s) (mem s) (clear_passive (passives s) seg) (inflight s) (live s) (dirs s) (index s)
                    (walq s) (walfiles s) (wcur s) (wcnt s) (wunlinked s) (alloc0 s) (adv StCleared) (wlost s)
      | FwWalDel id, StCleared =>
          (* one obsolete log file is deleted *)
          if is_empty (jevs j) || negb (id <? N.succ seg) then s
          else
            let files' := filter (fun f => negb (fst f =? id)) (walfiles s) in
            let unl := wunlinked s || (wcur s =? id) in
            mkShard (cap s) (mem s) (passives s) (inflight s) (live s) (dirs s) (index s)
                    (walq s) files' (wcur s) (wcnt s) unl (alloc0 s) (jobs s)
                    (wlost s ++ pruned_unsaved (dirs s) (filter (fun f => fst f =? id) (walfiles s)))
      | FwWalClean, StCleared =>
          if is_empty (jevs j) then set_jobs s (adv StWalCleaned)
          else
            let keep := N.succ seg in
            let files' := wal_cleanup (walfiles s) keep in
            let unl := wunlinked s || ((wcur s <? keep) && negb (is_empty (filter (fun f => fst f =? wcur s) (walfiles s)))) in
            mkShard (cap s) (mem s) (passives s) (inflight s) (live s) (dirs s) (index s)
                    (walq s) files' (wcur s) (wcnt s) unl (alloc0 s) (adv StWalCleaned)
                    (wlost s ++ pruned_unsaved (dirs s) (filter (fun f => fst f <? keep) (walfiles s)))
      | FwDone, StBegun =>
          (* an empty memtable: the worker returns right after the (no-op) flush *)
          if is_empty (jevs j) then
            mkShard (cap s) (mem s) (passives s) (remove_n seg (inflight s)) (live s) (dirs s) (index s)
                    (walq s) (walfiles s) (wcur s) (wcnt s) (wunlinked s) (alloc0 s) rest (wlost s)
          else s
      | FwDone, StWalCleaned =>
          mkShard (cap s) (mem s) (passives s) (remove_n seg (inflight s)) (live s) (dirs s) (index s)
                  (walq s) (walfiles s) (wcur s) (wcnt s) (wunlinked s) (alloc0 s) rest (wlost s)
      | _, _ => s
      end
  end.

(** ** crash and restart *)

(** A process crash loses everything volatile. With [flush_each_write] every
    written WAL entry is already in the file. *)
Definition crash (s : shard) : shard :=
  mkShard (cap s) [] [] [] [] (dirs s) (index s) [] (walfiles s) (wcur s) (wcnt s) false (alloc0 s) [] (wlost s).

Definition level_span : N := 10000.

(** [RangeAllocator::from_existing_ids] for level 0: max offset + 1 among ids below LEVEL_SPAN. *)
Definition alloc0_from (ids : list N) : N :=
  fold_left (fun m i => if i <? level_span then N.max m (N.succ i) else m) ids 0.

(** [find_next_wal_id] *)
Definition find_next_wal_id (c : N) (files : list (N * list event)) : N :=
  let last := wal_max_id files in
  if last =? 0 then 0
  else if wal_lines files last <? c then last else N.succ last.

Definition restart (s : shard) : shard :=
  let ids := sort_n (map sid (dirs s)) in
  let cur := find_next_wal_id (cap s) (walfiles s) in
  let files' := wal_touch (walfiles s) cur in
  mkShard (cap s) (concat (map snd (walfiles s))) [] [] ids (dirs s) (index s)
          [] files' cur (wal_count_entries files') false (alloc0_from ids) [] (wlost s).

(** ** the labelled transition function *)

Inductive label :=
| LStore (e : event)
| LFlushCmd
| LWalWrite
| LWalRotate
| LFw (l : fwlabel)
| LCrash
| LRestart.

Definition step (s : shard) (l : label) : shard :=
  match l with
  | LStore e => store s e
  | LFlushCmd => flush_cmd s
  | LWalWrite => wal_write s
  | LWalRotate => wal_rotate s
  | LFw f => fw_step s f
  | LCrash => crash s
  | LRestart => restart s
  end.

Definition run (s : shard) (ls : list label) : shard := fold_left step ls s.

(** ** reads *)

Definition of_uid (u : N) (evs : list event) : list event := filter (fun e => euid e =? u) evs.

(** A directory is scanned when its id is in the live list or carries an
    in-flight marker (and it exists on disk). *)
Definition scanned_dirs (s : shard) : list segdir :=
  filter (fun d => memb (sid d) (live s) || memb (sid d) (inflight s)) (dirs s).

Definition mem_rows (s : shard) : list event := mem s ++ concat (map snd (passives s)).
Definition seg_rows (s : shard) : list event := concat (map srows (scanned_dirs s)).

(** every row a scan for uid [u] produces (aggregates see exactly these, without de-duplication) *)
Definition scan (s : shard) (u : N) : list event := of_uid u (mem_rows s ++ seg_rows s).

Fixpoint dedup_ev (l : list event) (seen : list N) : list event :=
  match l with
  | [] => []
  | e :: r => if memb (ek e) seen then dedup_ev r seen else e :: dedup_ev r (ek e :: seen)
  end.

(** what a selection returns: the response writer drops repeated event ids *)
Definition select (s : shard) (u : N) : list event := dedup_ev (scan s u) [].

(** While a segment carries the in-flight marker and has no files for the queried
    event type (directory missing, that type not written yet, or the rotated memtable
    holds no event of that type at all) the segment flow of a read may fail as a
    whole; the read then returns the in-memory rows only.  Observed on the
    implementation (schedule dependent), see the C03 known findings. *)
Definition fragile (s : shard) (u : N) : bool :=
  existsb (fun seg => negb (dir_has_uid s seg u)) (inflight s).
Definition select_mem_only (s : shard) (u : N) : list event := dedup_ev (of_uid u (mem_rows s)) [].
Definition select_outcomes (s : shard) (u : N) : list (list event) :=
  if fragile s u then [select s u; select_mem_only s u] else [select s u].
(** what an aggregate counts.  The segment flow is filtered by event type (zones are per type).  The
    in-memory flow (active memtable + passive copies) is filtered by the event-type / context / time
    conditions iff the memtable read paths build their evaluator with them for aggregation plans
    ([Params.agg_mem_filters_type], regenerated from condition_evaluator_builder.rs, memtable_source.rs and
    memtable_query.rs; before fix dc170f4 it was false and every in-memory row was counted).  Rows present
    both in memory and in a scanned segment are counted twice either way (aggregation happens before the
    id de-duplication). *)
Definition count_with (mem_typed : bool) (s : shard) (u : N) : N :=
  len (if mem_typed then of_uid u (mem_rows s) else mem_rows s) + len (of_uid u (seg_rows s)).
Definition count (s : shard) (u : N) : N := count_with agg_mem_filters_type s u.
(** the count an exact aggregate would report *)
Definition count_exact (s : shard) (u : N) : N := len (scan s u).

(** REPLAY of a context: the memtable flow and the segment flow are merged by
    plain fan-in, so the result is some interleaving of these two sequences. *)
Definition of_ctx (c : N) (evs : list event) : list event := filter (fun e => ectx e =? c) evs.
Definition replay_mem (s : shard) (u c : N) : list event := of_ctx c (of_uid u (mem_rows s)).
Definition replay_seg (s : shard) (u c : N) : list event := of_ctx c (of_uid u (seg_rows s)).
