(** Model of the STORE path up to the shard hand-off — executable definitions only:
    src/command/handlers/store.rs ([handle], [validate_payload], [type_allows_value]),
    src/engine/schema/normalization.rs ([PayloadTimeNormalizer::normalize]),
    [TimeParser::normalize_json_value] (Model/Time.v has the parser), and the text front
    (src/command/parser/command.rs pre-validation by [tokenize], the PEG rule
    [balanced_braces] of src/command/parser/commands/store.rs).

    The state a STORE can change is the list of events handed to the shards; a DEFINE
    changes the registry only. *)
From Coq Require Import ZArith NArith List Bool.
From Snel Require Import Base.Bytes Gen.Params Model.Time Model.Json Model.Schema Model.SchemaReg.
Import ListNotations.

(** ---- [type_allows_value] ---- *)
Definition is_some {A : Type} (o : option A) : bool := match o with Some _ => true | None => false end.

(** The predicate each primitive arm applies (codes regenerated from the Rust text). *)
Definition pred_of_code (c : N) (v : json) : bool :=
  match c with
  | 0%N => is_string v
  | 1%N => is_some (as_u64 v)
  | 2%N => is_some (as_i64 v)
  | 3%N => as_f64_is_some v
  | 4%N => is_boolean v
  | 5%N => is_string v || is_number v
  | 6%N => is_number v
  | 7%N => is_null v
  | _ => false
  end.

Definition tav_code (p : prim) : N :=
  match p with
  | TString => tav_string | TU64 => tav_u64 | TI64 => tav_i64 | TF64 => tav_f64
  | TBool => tav_bool | TTimestamp => tav_timestamp | TDate => tav_date
  end.

Definition prim_allows (p : prim) (v : json) : bool := pred_of_code (tav_code p) v.

Definition type_allows_value (ft : ftype) (v : json) : bool :=
  match ft with
  | FPrim p => prim_allows p v
  | FOpt p => is_null v || prim_allows p v
  | FEnum vs => match as_str v with Some s => mem_bytes s vs | None => false end
  end.

Definition is_optional (ft : ftype) : bool := match ft with FOpt _ => true | _ => false end.

(** ---- [validate_payload] ---- *)
Inductive store_error := EType | ECtx | ENoSchema | ENotObject | EField | EExtra | ETime.

(** the field loop: a present value must be allowed, an absent one must be Optional *)
Definition field_ok (obj : list (bytes * json)) (f : bytes * ftype) : bool :=
  match obj_get obj (fst f) with
  | Some v => type_allows_value (snd f) v
  | None => is_optional (snd f)
  end.
Definition check_fields (obj : list (bytes * json)) (sc : schema) : bool := forallb (field_ok obj) sc.

(** [actual_keys.difference(&allowed_keys)] is empty *)
Definition no_extra_keys (obj : list (bytes * json)) (sc : schema) : bool :=
  forallb (fun kv => is_some (schema_get sc (fst kv))) obj.

Definition validate_payload (payload : json) (sc : schema) : option store_error :=
  match payload with
  | JObj obj =>
      if check_fields obj sc then
        if no_extra_keys obj sc then None else Some EExtra
      else Some EField
  | _ => Some ENotObject
  end.

(** ---- time normalisation ---- *)
Definition in_i64 (z : Z) : bool := (i64_lo <=? z)%Z && (z <=? i64_hi)%Z.

(** [TimeParser::normalize_json_value]: integers through the digit-band heuristic, floats
    floored with a saturating cast (after a range check when the regenerated
    [time_float_range_checked] says the source has one), strings through the parser ([str::trim] is Unicode-aware;
    Model/Time.v trims ASCII white space, so the Unicode trim is applied first). *)
Definition time_of_value (v : json) : option Z :=
  match v with
  | JNum (PosInt n) => normalize_integer_epoch (Z.of_N n)
  | JNum (NegInt z) => normalize_integer_epoch z
  | JNum (Float b) =>
      if time_float_range_checked && negb (in_i64 (f64_floor b)) then None
      else Some (sat_i64 (f64_floor b))
  | JStr s => parse_str_to_epoch_seconds (utrim s)
  | _ => None
  end.

(** [serde_json::Number::from(i64)] *)
Definition json_of_i64 (z : Z) : json :=
  if (0 <=? z)%Z then JNum (PosInt (Z.to_N z)) else JNum (NegInt z).

Definition time_prim (p : prim) : bool :=
  match p with TTimestamp | TDate => true | _ => false end.

(** which (field type, present value) pairs the normaliser rewrites *)
Definition needs_time (ft : ftype) (v : json) : bool :=
  match ft with
  | FPrim p => time_prim p
  | FOpt p => time_prim p && negb (is_null v)
  | FEnum _ => false
  end.

Definition normalize_value (sc : schema) (k : bytes) (v : json) : option json :=
  match schema_get sc k with
  | Some ft => if needs_time ft v then option_map json_of_i64 (time_of_value v) else Some v
  | None => Some v
  end.

(** [PayloadTimeNormalizer::normalize].  The Rust loop walks the schema (a HashMap, in
    arbitrary order) and rewrites [obj[field]]; with unique keys on both sides that is the
    same as visiting every payload entry once, which is how it is written here. *)
Fixpoint normalize_obj (sc : schema) (obj : list (bytes * json)) : option (list (bytes * json)) :=
  match obj with
  | [] => Some []
  | (k, v) :: r =>
      match normalize_value sc k v, normalize_obj sc r with
      | Some v', Some r' => Some ((k, v') :: r')
      | _, _ => None
      end
  end.

(** ---- [store::handle] (after the permission gate) ---- *)
Record store_cmd := { sc_type : bytes; sc_ctx : bytes; sc_payload : json }.

Inductive store_result :=
| Accepted (normalised : list (bytes * json))
| Rejected (e : store_error).

Definition store_check (reg : registry) (cmd : store_cmd) : store_result :=
  if is_blank (sc_type cmd) then Rejected EType
  else if is_blank (sc_ctx cmd) then Rejected ECtx
  else match reg_get reg (sc_type cmd) with
       | None => Rejected ENoSchema
       | Some sc =>
           match validate_payload (sc_payload cmd) sc with
           | Some e => Rejected e
           | None =>
               match sc_payload cmd with
               | JObj obj =>
                   match normalize_obj sc obj with
                   | Some obj' => Accepted obj'
                   | None => Rejected ETime
                   end
               | _ => Rejected ENotObject
               end
           end
       end.

Definition store_ok (reg : registry) (cmd : store_cmd) : bool :=
  match store_check reg cmd with Accepted _ => true | Rejected _ => false end.

(** ---- the state STORE and DEFINE act on ---- *)
Record event := { ev_type : bytes; ev_ctx : bytes; ev_payload : list (bytes * json) }.
Record state := { st_reg : registry; st_events : list event }.

Definition step_store (st : state) (cmd : store_cmd) : state :=
  match store_check (st_reg st) cmd with
  | Accepted p =>
      {| st_reg := st_reg st;
         st_events := st_events st ++ [{| ev_type := sc_type cmd; ev_ctx := sc_ctx cmd; ev_payload := p |}] |}
  | Rejected _ => st
  end.

Definition step_define (st : state) (et : bytes) (cs : cmd_schema) : state :=
  {| st_reg := define_reg (st_reg st) et cs; st_events := st_events st |}.

(** what a later unfiltered read of an event type returns *)
Definition visible (st : state) (et : bytes) : list event :=
  filter (fun e => bytes_eqb (ev_type e) et) (st_events st).

(** ---- the text front of STORE ---- *)
(** Braces of the payload text in document order ([true] = '{', [false] = '}'): the
    structural ones and those inside keys and string values.  JSON escaping never touches
    a brace, so this sequence is all the PEG rule [balanced_braces] looks at. *)
Fixpoint brace_seq_str (s : bytes) : list bool :=
  match s with
  | [] => []
  | c :: r => if (c =? 123)%N then true :: brace_seq_str r
              else if (c =? 125)%N then false :: brace_seq_str r
              else brace_seq_str r
  end.

Fixpoint brace_seq (v : json) : list bool :=
  match v with
  | JStr s => brace_seq_str s
  | JArr l =>
      (fix go (l : list json) : list bool :=
         match l with [] => [] | x :: r => brace_seq x ++ go r end) l
  | JObj m =>
      true :: (fix go (m : list (bytes * json)) : list bool :=
                 match m with
                 | [] => []
                 | (k, x) :: r => brace_seq_str k ++ brace_seq x ++ go r
                 end) m ++ [false]
  | _ => []
  end.

(** [json_block] followed by end of input: the brace depth, counted without regard to
    string literals, returns to zero for the first time at the last character. *)
Fixpoint closes_at_end (depth : N) (l : list bool) : bool :=
  match l with
  | [] => false
  | true :: r => closes_at_end (depth + 1) r
  | false :: r =>
      if (depth =? 1)%N then match r with [] => true | _ :: _ => false end
      else closes_at_end (depth - 1) r
  end.

Definition braces_ok (v : json) : bool :=
  if store_brace_scan_ignores_strings then
    match brace_seq v with
    | true :: r => closes_at_end 1 r
    | _ => false
    end
  else match v with JObj _ => true | _ => false end.

(** A STORE command line: the command it denotes plus the one lexical feature of the
    payload text that the value does not determine and the parser front is sensitive to —
    whether some number is written with an explicit '+' in its exponent (e.g. [1e+16]). *)
Record store_text := { tx_cmd : store_cmd; tx_plus_exp : bool }.

Definition text_parses (t : store_text) : bool :=
  negb (tokenizer_rejects_plus && tx_plus_exp t) && braces_ok (sc_payload (tx_cmd t)).

Definition store_text_ok (reg : registry) (t : store_text) : bool :=
  text_parses t && store_ok reg (tx_cmd t).

Definition step_store_text (st : state) (t : store_text) : state :=
  if text_parses t then step_store st (tx_cmd t) else st.
