(** Model of src/shared/datetime/time_bucketing.rs — executable definitions only.
    [calendar_bucket_of]: [CalendarTimeBucketer::bucket_of] with no time zone or UTC
    (chrono 0.4: [DateTime::from_timestamp(ts as i64, 0)], out of range -> epoch 0);
    [naive_bucket_of]: the fixed-width fallback. *)
From Coq Require Import ZArith NArith Bool.
From Snel Require Import Base.Civil.
Open Scope Z_scope.

Inductive gran := GHour | GDay | GWeek | GMonth | GYear.

Definition two64 : Z := 18446744073709551616.
Definition two63 : Z := 9223372036854775808.

(** [x as i64] for a u64, [x as u64] for an i64 *)
Definition u64_to_i64 (x : Z) : Z := if x <? two63 then x else x - two64.
Definition i64_to_u64 (x : Z) : Z := x mod two64.

(** fixed-width buckets ([ts] is a u64) *)
Definition naive_width (g : gran) : Z :=
  match g with
  | GHour => 3600
  | GDay => 86400
  | GWeek => 604800
  | GMonth => 2592000
  | GYear => 31536000
  end.

Definition naive_bucket_of (ts : Z) (g : gran) : Z := (ts / naive_width g) * naive_width g.

(** chrono's representable dates: years -262143 ..= 262142 *)
Definition chrono_min_day : Z := days_from_civil (-262143) 1 1.
Definition chrono_max_day : Z := days_from_civil 262142 12 31.

Definition in_chrono_range (secs : Z) : bool :=
  let d := secs / 86400 in (chrono_min_day <=? d) && (d <=? chrono_max_day).

(** start of the calendar bucket containing the instant [secs] (signed seconds, UTC);
    [week_start]: 0 = Monday .. 6 = Sunday *)
Definition calendar_bucket_secs (week_start : Z) (secs : Z) (g : gran) : Z :=
  let day := secs / 86400 in
  let sod := secs mod 86400 in
  match g with
  | GHour => day * 86400 + (sod / 3600) * 3600
  | GDay => day * 86400
  | GWeek =>
      let back := (weekday_from_days day + (7 - week_start)) mod 7 in
      (day - back) * 86400
  | GMonth => let '(y, m, _) := civil_from_days day in days_from_civil y m 1 * 86400
  | GYear => let '(y, _, _) := civil_from_days day in days_from_civil y 1 1 * 86400
  end.

(** [CalendarTimeBucketer::bucket_of(ts, gran)]: u64 in, u64 out.  [None]: the week
    start would fall before chrono's first date and [NaiveDate - Duration] panics. *)
Definition calendar_bucket_of_opt (week_start : Z) (ts : Z) (g : gran) : option Z :=
  let secs := u64_to_i64 ts in
  let secs' := if in_chrono_range secs then secs else 0 in
  let b := calendar_bucket_secs week_start secs' g in
  match g with
  | GWeek => if b / 86400 <? chrono_min_day then None else Some (i64_to_u64 b)
  | _ => Some (i64_to_u64 b)
  end.

Definition calendar_bucket_of (week_start : Z) (ts : Z) (g : gran) : Z :=
  match calendar_bucket_of_opt week_start ts g with Some b => b | None => 0 end.

(** start of the next bucket (used by the alignment theorems) *)
Definition calendar_next_secs (week_start : Z) (secs : Z) (g : gran) : Z :=
  let b := calendar_bucket_secs week_start secs g in
  match g with
  | GHour => b + 3600
  | GDay => b + 86400
  | GWeek => b + 604800
  | GMonth =>
      let '(y, m, _) := civil_from_days (secs / 86400) in
      (if m =? 12 then days_from_civil (y + 1) 1 1 else days_from_civil y (m + 1) 1) * 86400
  | GYear =>
      let '(y, _, _) := civil_from_days (secs / 86400) in days_from_civil (y + 1) 1 1 * 86400
  end.
