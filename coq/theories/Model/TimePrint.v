(** Printers for the ISO-8601 / RFC 3339 spellings of an instant (C16).
    These are the "spelling" side of the theorems in Proofs/TimeIsoProofs.v:
    [parse_rfc3339 (print_rfc3339 ...)] gives back the instant.  Executable
    definitions only; nothing here changes Model/Time.v. *)
From Coq Require Import ZArith NArith List Bool.
From Snel Require Import Base.Bytes Base.Civil.
Import ListNotations.
Open Scope Z_scope.

Definition pad2 (z : Z) : bytes := pad_digits 2 (Z.to_N z).
Definition pad4 (z : Z) : bytes := pad_digits 4 (Z.to_N z).

(** How the UTC offset is written. *)
Inductive tz_spelling :=
| TzZulu (lower : bool)        (* "Z" / "z"; only for offset 0 *)
| TzNumeric (unicode_minus : bool). (* "+HH:MM" / "-HH:MM" / U+2212 "HH:MM" *)

Definition print_sign (off_min : Z) (unicode_minus : bool) : bytes :=
  if off_min <? 0 then (if unicode_minus then [226%N; 136%N; 146%N] else [45%N]) else [43%N].

Definition print_offset_gen (off_min : Z) (tz : tz_spelling) : bytes :=
  match tz with
  | TzZulu lower => [if lower then 122%N else 90%N]
  | TzNumeric um =>
      let a := Z.abs off_min in
      print_sign off_min um ++ pad2 (a / 60) ++ 58%N :: pad2 (a mod 60)
  end.

(** fractional seconds: [] = absent, otherwise "." followed by the digit bytes *)
Definition print_frac (frac : bytes) : bytes :=
  match frac with [] => [] | _ => 46%N :: frac end.

(** [YYYY-MM-DD<sep>HH:MM:SS[.frac](Z|z|+HH:MM|-HH:MM)] *)
Definition print_rfc3339_gen (y m d h mi s : Z) (frac : bytes) (sep : N)
                             (off_min : Z) (tz : tz_spelling) : bytes :=
  pad4 y ++ 45%N :: pad2 m ++ 45%N :: pad2 d ++ sep :: pad2 h ++ 58%N :: pad2 mi ++ 58%N :: pad2 s
  ++ print_frac frac ++ print_offset_gen off_min tz.

Definition print_rfc3339 (y m d h mi s : Z) (frac : bytes) (sep : N)
                         (off_min : Z) (zulu : bool) : bytes :=
  print_rfc3339_gen y m d h mi s frac sep off_min
    (if zulu then TzZulu false else TzNumeric false).

(** The spelling of the instant [t] (whole seconds since the epoch, the
    sub-second part is [frac]) as local civil time at UTC offset [off_min] minutes. *)
Definition print_instant_gen (t : Z) (frac : bytes) (sep : N) (off_min : Z) (tz : tz_spelling) : bytes :=
  let l := t + off_min * 60 in
  let '(y, m, d) := civil_from_days (l / 86400) in
  let sod := l mod 86400 in
  print_rfc3339_gen y m d (sod / 3600) (sod mod 3600 / 60) (sod mod 60) frac sep off_min tz.

Definition print_instant (t : Z) (frac : bytes) (sep : N) (off_min : Z) (zulu : bool) : bytes :=
  print_instant_gen t frac sep off_min (if zulu then TzZulu false else TzNumeric false).

(** date-only spelling [YYYY-MM-DD] *)
Definition print_date (y m d : Z) : bytes := pad4 y ++ 45%N :: pad2 m ++ 45%N :: pad2 d.
