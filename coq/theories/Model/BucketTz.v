(** PER buckets under a configured time zone with a FIXED UTC offset (no DST):
    [CalendarTimeBucketer::bucket_of] converts the instant to local wall-clock time,
    truncates there and converts back. Zones with daylight saving are not modelled. *)
From Coq Require Import ZArith.
From Snel Require Import Base.Civil Model.Bucket.
Open Scope Z_scope.

Definition calendar_bucket_secs_off (week_start off secs : Z) (g : gran) : Z :=
  calendar_bucket_secs week_start (secs + off) g - off.

Definition calendar_next_secs_off (week_start off secs : Z) (g : gran) : Z :=
  calendar_next_secs week_start (secs + off) g - off.
