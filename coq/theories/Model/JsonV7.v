(** JSON values as serde_json 1.0.140 sees them (default features: no [arbitrary_precision], no
    [preserve_order], no [float_roundtrip]) and [serde_json::from_str::<Value>] at byte level —
    executable definitions only.
    Numbers: [JU64] (PosInt), [JI64] (NegInt, always negative), [JF64] (finite double, bit pattern).
    Objects are [BTreeMap]s: sorted by key bytes, a duplicate key keeps the last value.
    Floats are built by [f64_from_parts]: [significand as f64] then ONE multiplication/division by a
    power of ten per step — not correctly rounded. *)
From Coq Require Import ZArith NArith List Bool.
From Snel Require Import Base.Bytes Model.Float64 Model.RustText Gen.Params.
Import ListNotations.
Open Scope N_scope.

Inductive json : Type :=
| JNull
| JBool (b : bool)
| JU64 (n : Z)
| JI64 (z : Z)
| JF64 (bits : Z)
| JStr (s : bytes)
| JArr (l : list json)
| JObj (l : list (bytes * json)).

(** ---- numbers ---- *)
Definition i32_max : Z := (2 ^ 31 - 1)%Z.
Definition i32_min : Z := (- 2 ^ 31)%Z.
Definition sat_i32 (z : Z) : Z := Z.max i32_min (Z.min i32_max z).

(** POW10[i] = the literal 1e<i> as f64 (correctly rounded), i <= 308 *)
Definition pow10_f64 (i : Z) : Z := dec_mag 1 i.

(** [f64_from_parts] without float_roundtrip; [None] = NumberOutOfRange. Magnitude only. *)
Fixpoint f64_from_parts_fuel (fuel : nat) (f : Z) (e : Z) : option Z :=
  match fuel with
  | O => None
  | S fu =>
      let a := Z.abs e in
      if (a <=? 308)%Z then
        if (0 <=? e)%Z then
          let r := fmul f (pow10_f64 a) in
          if f64_is_finite r then Some r else None
        else Some (fdiv f (pow10_f64 a))
      else if f64_is_zero f then Some f
      else if (0 <=? e)%Z then None
      else f64_from_parts_fuel fu (fdiv f (pow10_f64 308)) (e + 308)%Z
  end.
(** the exponent is an i32, so at most 2^31/308 + 1 rounds; in practice f reaches 0 after three *)
Definition f64_from_parts (neg : bool) (sig e : Z) : option Z :=
  match f64_from_parts_fuel 8 (f64_of_nat_int sig) (if (e <? -2400)%Z then -2400 else e)%Z with
  | Some m => Some (f64_with_sign neg m)
  | None => None
  end.

Definition is_e (c : N) : bool := (c =? 101) || (c =? 69).

Fixpoint skip_digits (s : bytes) : bytes :=
  match s with c :: r => if is_digit c then skip_digits r else s | [] => [] end.

(** [parse_exponent]: [s] starts after the 'e'. *)
Fixpoint exp_digits (s : bytes) (acc : Z) : option Z * bytes :=   (* None = i32 overflow *)
  match s with
  | c :: r =>
      if is_digit c then
        let acc' := (acc * 10 + Z.of_N (digit_val c))%Z in
        if (i32_max <? acc')%Z then (None, skip_digits r) else exp_digits r acc'
      else (Some acc, s)
  | [] => (Some acc, s)
  end.
Definition parse_exponent (neg : bool) (sig start : Z) (s : bytes) : option (json * bytes) :=
  let '(epos, s1) := match s with
                     | 43 :: r => (true, r)
                     | 45 :: r => (false, r)
                     | _ => (true, s)
                     end in
  match s1 with
  | c :: r =>
      if is_digit c then
        match exp_digits r (Z.of_N (digit_val c)) with
        | (Some e, rest) =>
            let fin := if epos then sat_i32 (start + e) else sat_i32 (start - e) in
            match f64_from_parts neg sig fin with
            | Some b => Some (JF64 b, rest)
            | None => None
            end
        | (None, rest) =>
            if negb (sig =? 0)%Z && epos then None
            else Some (JF64 (f64_with_sign neg 0), rest)
        end
      else None
  | [] => None
  end.

(** fraction digits: accumulate while the u64 significand does not overflow *)
Fixpoint frac_digits (s : bytes) (sig : Z) (after : Z) : Z * Z * bool * bytes :=
  (* (significand, exponent_after_decimal_point, overflowed, rest) *)
  match s with
  | c :: r =>
      if is_digit c then
        let sig' := (sig * 10 + Z.of_N (digit_val c))%Z in
        if (u64_max <? sig')%Z then (sig, after, true, skip_digits r)
        else frac_digits r sig' (after - 1)%Z
      else (sig, after, false, s)
  | [] => (sig, after, false, s)
  end.
(** [parse_decimal]: [s] starts after the '.' *)
Definition parse_decimal (neg : bool) (sig before : Z) (s : bytes) : option (json * bytes) :=
  let '(sig', after, ovf, rest) := frac_digits s sig 0%Z in
  if negb ovf && (after =? 0)%Z then None
  else
    let e := (before + after)%Z in
    match rest with
    | c :: r =>
        if is_e c then parse_exponent neg sig' e r
        else match f64_from_parts neg sig' e with Some b => Some (JF64 b, rest) | None => None end
    | [] => match f64_from_parts neg sig' e with Some b => Some (JF64 b, rest) | None => None end
    end.

(** integer digits after the first non-zero digit *)
Fixpoint int_digits (s : bytes) (sig : Z) : Z * Z * bool * bytes :=
  (* (significand, dropped digit count, long mode, rest) *)
  match s with
  | c :: r =>
      if is_digit c then
        let sig' := (sig * 10 + Z.of_N (digit_val c))%Z in
        if (u64_max <? sig')%Z then
          let rest := skip_digits s in
          (sig, Z.of_nat (length s - length rest), true, rest)
        else int_digits r sig'
      else (sig, 0%Z, false, s)
  | [] => (sig, 0%Z, false, s)
  end.

Definition number_tail (neg : bool) (sig dropped : Z) (long : bool) (rest : bytes) : option (json * bytes) :=
  match rest with
  | 46 :: r => parse_decimal neg sig dropped r
  | c :: r =>
      if is_e c then parse_exponent neg sig dropped r
      else if long then match f64_from_parts neg sig dropped with Some b => Some (JF64 b, rest) | None => None end
      else if negb neg then Some (JU64 sig, rest)
      else if (sig =? 0)%Z then Some (JF64 (f64_with_sign true 0), rest)
      else if (sig <=? 2 ^ 63)%Z then Some (JI64 (- sig), rest)
      else Some (JF64 (f64_with_sign true (f64_of_nat_int sig)), rest)
  | [] =>
      if long then match f64_from_parts neg sig dropped with Some b => Some (JF64 b, rest) | None => None end
      else if negb neg then Some (JU64 sig, rest)
      else if (sig =? 0)%Z then Some (JF64 (f64_with_sign true 0), rest)
      else if (sig <=? 2 ^ 63)%Z then Some (JI64 (- sig), rest)
      else Some (JF64 (f64_with_sign true (f64_of_nat_int sig)), rest)
  end.

(** [s] starts at the first digit (after an optional '-'); the reader without [float_roundtrip] *)
Definition parse_number_legacy (neg : bool) (s : bytes) : option (json * bytes) :=
  match s with
  | c :: r =>
      if c =? 48 then
        match r with
        | d :: _ => if is_digit d then None else number_tail neg 0%Z 0%Z false r
        | [] => number_tail neg 0%Z 0%Z false r
        end
      else if is_digit c then
        let '(sig, dropped, long, rest) := int_digits r (Z.of_N (digit_val c)) in
        number_tail neg sig dropped long rest
      else None
  | [] => None
  end.

(** The reader WITH the [float_roundtrip] feature: integers are classified as before; a float is the
    CORRECTLY ROUNDED value of all its digits (the long paths keep every digit in the scratch buffer
    and hand them to lexical), an infinite result is NumberOutOfRange. *)
Definition number_int (neg : bool) (m : Z) (rest : bytes) : option (json * bytes) :=
  if (u64_max <? m)%Z then
    let b := f64_of_dec neg m 0%Z in
    if f64_is_finite b then Some (JF64 b, rest) else None
  else if negb neg then Some (JU64 m, rest)
  else if (m =? 0)%Z then Some (JF64 (f64_with_sign true 0), rest)
  else if (m <=? 2 ^ 63)%Z then Some (JI64 (- m), rest)
  else Some (JF64 (f64_with_sign true (f64_of_nat_int m)), rest).

Definition number_float (neg : bool) (m e10 : Z) (rest : bytes) : option (json * bytes) :=
  let b := f64_of_dec neg m e10 in
  if f64_is_finite b then Some (JF64 b, rest) else None.

(** after the mantissa: optional exponent; [nfrac] fraction digits were folded into [m] *)
Definition number_exp_rt (neg : bool) (m nfrac : Z) (rest : bytes) : option (json * bytes) :=
  match rest with
  | c :: r =>
      if is_e c then
        let '(epos, s1) := match r with
                           | 43 :: x => (true, x)
                           | 45 :: x => (false, x)
                           | _ => (true, r)
                           end in
        match s1 with
        | d :: r1 =>
            if is_digit d then
              match exp_digits r1 (Z.of_N (digit_val d)) with
              | (Some e, rest') => number_float neg m ((if epos then e else - e) - nfrac)%Z rest'
              | (None, rest') =>
                  if negb (m =? 0)%Z && epos then None
                  else Some (JF64 (f64_with_sign neg 0), rest')
              end
            else None
        | [] => None
        end
      else number_float neg m (- nfrac)%Z rest
  | [] => number_float neg m (- nfrac)%Z rest
  end.

Definition number_body_rt (neg : bool) (s : bytes) : option (json * bytes) :=
  let '(m1, _, r1) := span_digits s 0%Z 0%Z in
  match r1 with
  | 46 :: r =>
      let '(m2, n2, r2) := span_digits r m1 0%Z in
      if (n2 =? 0)%Z then None else number_exp_rt neg m2 n2 r2
  | c :: _ => if is_e c then number_exp_rt neg m1 0%Z r1 else number_int neg m1 r1
  | [] => number_int neg m1 r1
  end.

Definition parse_number_rt (neg : bool) (s : bytes) : option (json * bytes) :=
  match s with
  | c :: r =>
      if c =? 48 then
        match r with
        | d :: _ => if is_digit d then None else number_body_rt neg s
        | [] => number_body_rt neg s
        end
      else if is_digit c then number_body_rt neg s
      else None
  | [] => None
  end.

(** which reader the build uses is read from Cargo.toml (Gen/Params.v) *)
Definition parse_number (neg : bool) (s : bytes) : option (json * bytes) :=
  if value_serde_float_roundtrip then parse_number_rt neg s else parse_number_legacy neg s.

(** ---- strings ---- *)
Definition hex_val (c : N) : option N :=
  if is_digit c then Some (c - 48)
  else if (97 <=? c) && (c <=? 102) then Some (c - 87)
  else if (65 <=? c) && (c <=? 70) then Some (c - 55)
  else None.
Definition hex4 (s : bytes) : option (N * bytes) :=
  match s with
  | a :: b :: c :: d :: r =>
      match hex_val a, hex_val b, hex_val c, hex_val d with
      | Some x, Some y, Some z, Some w => Some (x * 4096 + y * 256 + z * 16 + w, r)
      | _, _, _, _ => None
      end
  | _ => None
  end.
Definition utf8_encode (n : N) : bytes :=
  if n <? 0x80 then [n]
  else if n <? 0x800 then [0xC0 + n / 64; 0x80 + n mod 64]
  else if n <? 0x10000 then [0xE0 + n / 4096; 0x80 + (n / 64) mod 64; 0x80 + n mod 64]
  else [0xF0 + n / 262144; 0x80 + (n / 4096) mod 64; 0x80 + (n / 64) mod 64; 0x80 + n mod 64].

(** after the opening quote; returns the decoded string (UTF-8) and the rest after the closing quote.
    Raw control characters are rejected; lone surrogates are rejected. *)
Fixpoint parse_string_fuel (fuel : nat) (s : bytes) (acc : bytes) : option (bytes * bytes) :=
  match fuel with
  | O => None
  | S f =>
      match s with
      | [] => None
      | c :: r =>
          if c =? 34 then Some (rev acc, r)
          else if c <? 32 then None
          else if c =? 92 then
            match r with
            | e :: r2 =>
                if e =? 34 then parse_string_fuel f r2 (34 :: acc)
                else if e =? 92 then parse_string_fuel f r2 (92 :: acc)
                else if e =? 47 then parse_string_fuel f r2 (47 :: acc)
                else if e =? 98 then parse_string_fuel f r2 (8 :: acc)
                else if e =? 102 then parse_string_fuel f r2 (12 :: acc)
                else if e =? 110 then parse_string_fuel f r2 (10 :: acc)
                else if e =? 114 then parse_string_fuel f r2 (13 :: acc)
                else if e =? 116 then parse_string_fuel f r2 (9 :: acc)
                else if e =? 117 then
                  match hex4 r2 with
                  | Some (n, r3) =>
                      if (0xDC00 <=? n) && (n <=? 0xDFFF) then None
                      else if (0xD800 <=? n) && (n <=? 0xDBFF) then
                        match r3 with
                        | 92 :: 117 :: r4 =>
                            match hex4 r4 with
                            | Some (n2, r5) =>
                                if (0xDC00 <=? n2) && (n2 <=? 0xDFFF) then
                                  let cp := (n - 0xD800) * 1024 + (n2 - 0xDC00) + 0x10000 in
                                  parse_string_fuel f r5 (rev (utf8_encode cp) ++ acc)
                                else None
                            | None => None
                            end
                        | _ => None
                        end
                      else parse_string_fuel f r3 (rev (utf8_encode n) ++ acc)
                  | None => None
                  end
                else None
            | [] => None
            end
          else parse_string_fuel f r (c :: acc)
      end
  end.
Definition parse_string (s : bytes) : option (bytes * bytes) := parse_string_fuel (S (length s)) s [].

(** ---- values ---- *)
Definition is_json_ws (c : N) : bool := (c =? 32) || (c =? 9) || (c =? 10) || (c =? 13).
Definition skip_ws (s : bytes) : bytes := drop_while is_json_ws s.

Fixpoint strip_prefix (p s : bytes) : option bytes :=
  match p, s with
  | [], _ => Some s
  | a :: p', b :: s' => if a =? b then strip_prefix p' s' else None
  | _ :: _, [] => None
  end.

(** BTreeMap insert: sorted by key bytes, replaces an equal key *)
Fixpoint obj_insert (k : bytes) (v : json) (l : list (bytes * json)) : list (bytes * json) :=
  match l with
  | [] => [(k, v)]
  | (k', v') :: r =>
      match bytes_cmp k k' with
      | Lt => (k, v) :: l
      | Eq => (k, v) :: r
      | Gt => (k', v') :: obj_insert k v r
      end
  end.

Definition recursion_limit : nat := 128.

(** [depth] = serde's remaining_depth. *)
Fixpoint pvalue (fuel : nat) (depth : nat) (s : bytes) : option (json * bytes) :=
  match fuel with
  | O => None
  | S f =>
      match skip_ws s with
      | [] => None
      | c :: r =>
          if c =? 110 then match strip_prefix [117; 108; 108] r with Some x => Some (JNull, x) | None => None end
          else if c =? 116 then match strip_prefix [114; 117; 101] r with Some x => Some (JBool true, x) | None => None end
          else if c =? 102 then match strip_prefix [97; 108; 115; 101] r with Some x => Some (JBool false, x) | None => None end
          else if c =? 34 then match parse_string r with Some (str, x) => Some (JStr str, x) | None => None end
          else if c =? 45 then parse_number true r
          else if is_digit c then parse_number false (c :: r)
          else if c =? 91 then
            match depth with
            | S (S d) =>
                match skip_ws r with
                | 93 :: x => Some (JArr [], x)
                | _ => match pelems f (S d) r [] with Some (l, x) => Some (JArr l, x) | None => None end
                end
            | _ => None
            end
          else if c =? 123 then
            match depth with
            | S (S d) =>
                match skip_ws r with
                | 125 :: x => Some (JObj [], x)
                | _ => match pmembers f (S d) r [] with Some (l, x) => Some (JObj l, x) | None => None end
                end
            | _ => None
            end
          else None
      end
  end
with pelems (fuel : nat) (depth : nat) (s : bytes) (acc : list json) : option (list json * bytes) :=
  match fuel with
  | O => None
  | S f =>
      match pvalue f depth s with
      | Some (v, r) =>
          match skip_ws r with
          | 44 :: x => pelems f depth x (v :: acc)
          | 93 :: x => Some (rev (v :: acc), x)
          | _ => None
          end
      | None => None
      end
  end
with pmembers (fuel : nat) (depth : nat) (s : bytes) (acc : list (bytes * json)) : option (list (bytes * json) * bytes) :=
  match fuel with
  | O => None
  | S f =>
      match skip_ws s with
      | 34 :: r =>
          match parse_string r with
          | Some (k, r1) =>
              match skip_ws r1 with
              | 58 :: r2 =>
                  match pvalue f depth r2 with
                  | Some (v, r3) =>
                      match skip_ws r3 with
                      | 44 :: x => pmembers f depth x (obj_insert k v acc)
                      | 125 :: x => Some (obj_insert k v acc, x)
                      | _ => None
                      end
                  | None => None
                  end
              | _ => None
              end
          | None => None
          end
      | _ => None
      end
  end.

(** [serde_json::from_str::<Value>(s)] *)
Definition parse_json (s : bytes) : option json :=
  match pvalue (2 * length s + 4) recursion_limit s with
  | Some (v, r) => match skip_ws r with [] => Some v | _ => None end
  | None => None
  end.
