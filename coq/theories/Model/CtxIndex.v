(** C08 part C: the context index ([ZoneIndex], src/engine/core/zone/zone_index.rs) as it is
    filled by [ZoneWriter::write_all] (src/engine/core/zone/zone_writer.rs) and asked by
    [ZoneIndex::find_candidate_zones] (what [IndexZoneSelector] uses for `FOR <context>` /
    `context_id = ...`).

    A zone plan is reduced to what the index is built from: its id, its event type and the
    context ids of its rows in row order.  [BTreeMap<String, V>] is an association list looked
    up by byte equality (the iteration order of the map is irrelevant to every answer; the
    OCaml printer sorts the dump).  The file round trip ([write_to_path_async] /
    [load_from_path]) is the identity in the model and is exercised by the Rust probe.
    Executable definitions only. *)
From Coq Require Import NArith List Bool.
From Snel Require Import Base.Bytes.
Import ListNotations.
Open Scope N_scope.

Record zplan := { zp_id : N; zp_evt : bytes; zp_ctxs : list bytes }.

(** * [BTreeMap<String, A>] *)
Fixpoint sm_get {A : Type} (k : bytes) (m : list (bytes * A)) : option A :=
  match m with
  | [] => None
  | (k', v) :: r => if bytes_eqb k k' then Some v else sm_get k r
  end.

(** [*map.entry(k).or_default() = f (old value)] *)
Fixpoint sm_upd {A : Type} (k : bytes) (f : option A -> A) (m : list (bytes * A)) : list (bytes * A) :=
  match m with
  | [] => [(k, f None)]
  | (k', v) :: r => if bytes_eqb k k' then (k', f (Some v)) :: r else (k', v) :: sm_upd k f r
  end.

(** event type -> context id -> zone ids (a [Vec<u32>]: one entry per insertion) *)
Definition cindex := list (bytes * list (bytes * list N)).

Definition or_nil {A : Type} (o : option (list A)) : list A :=
  match o with Some l => l | None => [] end.

(** [ZoneIndex::insert]:
    [self.index.entry(event_type).or_default().entry(context_id).or_default().push(id)] *)
Definition insert (et ctx : bytes) (z : N) (ix : cindex) : cindex :=
  sm_upd et (fun o => sm_upd ctx (fun oz => or_nil oz ++ [z]) (or_nil o)) ix.

(** [ZoneWriter::write_all]:
    [for zp in zone_plans { for ev in &zp.events { index.insert(&zp.event_type, &ev.context_id, zp.id) } }] *)
Definition insert_rows (et : bytes) (z : N) (cs : list bytes) (ix : cindex) : cindex :=
  fold_left (fun ix c => insert et c z ix) cs ix.
Definition insert_zone (ix : cindex) (zp : zplan) : cindex :=
  insert_rows (zp_evt zp) (zp_id zp) (zp_ctxs zp) ix.
Definition build (zps : list zplan) : cindex := fold_left insert_zone zps [].

(** [sort_unstable] + [dedup] of the collected zone ids: a strictly increasing list *)
Fixpoint zins (z : N) (s : list N) : list N :=
  match s with
  | [] => [z]
  | x :: r => if z <? x then z :: s else if z =? x then s else x :: zins z r
  end.
Definition sort_dedup (l : list N) : list N := fold_right zins [] l.

(** the zone list stored under (event type, context) *)
Definition zones_of (ix : cindex) (et c : bytes) : list N :=
  or_nil (sm_get c (or_nil (sm_get et ix))).

(** [ZoneIndex::find_candidate_zones(event_type, context_id, _)]: unknown event type -> nothing;
    [Some ctx]: the zones listed under that context (nothing if it has no entry);
    [None]: the union over all contexts of the event type. *)
Definition find (ix : cindex) (et : bytes) (ctx : option bytes) : list N :=
  match sm_get et ix with
  | None => []
  | Some cm =>
      match ctx with
      | Some c => match sm_get c cm with None => [] | Some zs => sort_dedup zs end
      | None => sort_dedup (concat (map snd cm))
      end
  end.

(** The whole index as the probe prints it: per event type, per context, the zone set. *)
Definition dump (ix : cindex) : list (bytes * list (bytes * list N)) :=
  map (fun e => (fst e, map (fun c => (fst c, sort_dedup (snd c))) (snd e))) ix.

(** Brute-force statement of "zone [z] holds a row of context [c] for event type [et]". *)
Definition zone_holds (zps : list zplan) (et c : bytes) (z : N) : Prop :=
  exists zp, In zp zps /\ zp_id zp = z /\ zp_evt zp = et /\ In c (zp_ctxs zp).
