(** C02 — the row filter sneldb builds and evaluates.  Executable definitions only.

    Rust sources:
    * src/engine/core/filter/condition_evaluator_builder.rs [add_where_clause]: the literal of a
      comparison becomes a [ScalarValue]; a string is first tried as a time
      ([TimeParser::parse_str_to_epoch_seconds], DateTime then Date) and then as an i64
      ([as_i64]) — both give a NUMERIC condition with an i64 threshold —, otherwise it is a string
      condition; any other literal (f64, bool) has neither [as_i64] nor [as_str] and the comparison
      is DROPPED (nothing is pushed).  AND/OR/NOT build a [LogicalCondition] over whatever the
      sub-builders produced, so a dropped operand silently disappears (and NOT over nothing
      indexes [conditions[0]] of an empty vector: a panic).
    * src/engine/core/filter/condition.rs: [NumericCondition], [StringCondition],
      [InNumericCondition], [InStringCondition], [LogicalCondition] — [evaluate_event_direct] for an
      in-memory event ([DirectEventAccessor]: i64 view = [Int64] or an i64-parsable [Utf8]; string
      view = [Event::get_field_value]: absent -> "", Null -> "null") and [evaluate_at] for a row of a
      hydrated zone (typed column blocks: u64 first — with the "negative threshold => false"
      shortcut —, then i64, then f64 against [threshold as f64]; var-bytes columns are parsed as i64).
    * src/engine/core/filter/condition_evaluator.rs [evaluate_zones_with_limit]: a NumericCondition
      that sits at the TOP of the evaluator's list takes [evaluate_numeric_simd], whose u64 and i64
      buffers exist for every column — on an f64 (or bool) column the i64 buffer is all-invalid, so
      every row is rejected and the f64 branch is never reached.
    * src/engine/core/write/column_group_builder.rs, column_writer.rs: physical type per declared
      kind (int/datetime -> I64, u64 -> U64, float -> F64, bool -> Bool, string/enum -> var-bytes);
      a cell that does not parse is a null bit, var-bytes have no nulls (null/absent -> "");
      a zone in which the field is absent from EVERY row gets no block at all. *)
From Coq Require Import ZArith NArith List Bool.
From Snel Require Import Base.Bytes Gen.Params Model.Time Model.Value Model.Expr Model.Sem.
Import ListNotations.

(** ** What is kept in memory ([ScalarValue] of the payload map) and what is stored in a column *)
Inductive mval := MInt (z : Z) | MFloat (bits : N) (disp : bytes) | MStr (s : bytes) | MBool (b : bool) | MNull | MAbsent.

Inductive cell :=
| CI64 (o : option Z) | CU64 (o : option N) | CF64 (o : option N) | CBool (o : option bool) | CStr (s : bytes).

(** [ScalarValue::from(serde_json::Value)]: a u64 above i64::MAX is kept as its decimal text. *)
Definition to_mem (v : value) : mval :=
  match v with
  | VInt z | VTime z => MInt z
  | VU64 n => if (Z.of_N n <=? i64_max)%Z then MInt (Z.of_N n) else MStr (dec_of_N n)
  | VFloat b d => MFloat b d
  | VStr s | VEnum s => MStr s
  | VBool b => MBool b
  | VNull => MNull
  | VAbsent => MAbsent
  end.

Definition to_cell (k : kind) (v : value) : cell :=
  match k with
  | KInt | KTime => CI64 (match v with VInt z | VTime z => Some z | _ => None end)
  | KU64 => CU64 (match v with VU64 n => Some n | _ => None end)
  | KFloat => CF64 (match v with VFloat b _ => Some b | _ => None end)
  | KBool => CBool (match v with VBool b => Some b | _ => None end)
  | KStr | KEnum _ => CStr (match v with VStr s | VEnum s => s | _ => [] end)
  end.

Definition mem_get (sch : schema) (r : row) (f : bytes) : mval :=
  match lookup sch r f with Some (_, v) => to_mem v | None => MAbsent end.
(** [hollow f]: the field is absent from every row of the zone — the flush then writes no column
    block for it in that zone and every accessor answers None (a null or an absent cell in a zone
    that has the column reads as null / ""). *)
Definition seg_get (sch : schema) (hollow : bytes -> bool) (r : row) (f : bytes) : option cell :=
  if hollow f then None
  else match lookup sch r f with Some (d, v) => Some (to_cell (f_kind d) v) | None => None end.
Definition is_absent (sch : schema) (r : row) (f : bytes) : bool :=
  match lookup sch r f with Some (_, VAbsent) => true | _ => false end.
Definition hollow_in (sch : schema) (rows : list event) (f : bytes) : bool :=
  forallb (fun ev => is_absent sch (ev_row ev) f) rows.

(** ** The conditions [add_where_clause] builds *)
Inductive lop := LAnd | LOr | LNot.
Inductive cond :=
| CNum (f : bytes) (op : cmp) (v : Z)
| CStrC (f : bytes) (op : cmp) (s : bytes)
| CInNum (f : bytes) (vs : list Z)
| CInStr (f : bytes) (ss : list bytes)
| CLogic (o : lop) (cs : list cond).

(** [str::parse::<i64>] *)
Definition parse_i64 (s : bytes) : option Z :=
  match parse_int_str s with
  | Some z => if in_i64 z then Some z else None
  | None => None
  end.

Inductive blit := BNum (z : Z) | BStr (s : bytes) | BDrop.
Definition build_lit (l : lit) : blit :=
  match l with
  | LStr s =>
      match parse_str_to_epoch_seconds s with
      | Some z => BNum z
      | None => match parse_i64 s with Some z => BNum z | None => BStr s end
      end
  | LInt z => BNum z
  | LFloat _ _ | LBool _ => BDrop
  end.

(** the numeric view of an IN member: temporal string, else [as_i64] *)
Definition lit_num (l : lit) : option Z :=
  match build_lit l with BNum z => Some z | _ => None end.
(** [as_str] or the JSON text of the value *)
Definition lit_text (l : lit) : bytes :=
  match l with
  | LStr s => s
  | LInt z => dec_of_Z z
  | LFloat _ j => j
  | LBool b => if b then b_true else b_false
  end.
Fixpoint all_nums (ls : list lit) : option (list Z) :=
  match ls with
  | [] => Some []
  | l :: ls' => match lit_num l, all_nums ls' with
                | Some z, Some zs => Some (z :: zs)
                | _, _ => None
                end
  end.

Fixpoint build (e : expr) : list cond :=
  match e with
  | ECmp f op l =>
      match build_lit l with
      | BNum z => [CNum f op z]
      | BStr s => [CStrC f op s]
      | BDrop => []
      end
  | EIn f ls =>
      match all_nums ls with
      | Some (z :: zs) => [CInNum f (z :: zs)]
      | _ => [CInStr f (map lit_text ls)]
      end
  | EAnd a b => [CLogic LAnd (build a ++ build b)]
  | EOr a b => [CLogic LOr (build a ++ build b)]
  | ENot a => [CLogic LNot (build a)]
  end.

(** ** Evaluation on an in-memory event *)
Definition m_as_i64 (m : mval) : option Z :=
  match m with MInt z => Some z | MStr s => parse_i64 s | _ => None end.
Definition b_null : bytes := [110; 117; 108; 108]%N.
Definition m_to_string (m : mval) : bytes :=
  match m with
  | MStr s => s
  | MBool b => if b then b_true else b_false
  | MInt z => dec_of_Z z
  | MFloat _ d => d
  | MNull => b_null
  | MAbsent => []
  end.
Definition cmpZ (op : cmp) (a b : Z) : bool := cmp_holds op (Z.compare a b).
Fixpoint memZ (z : Z) (l : list Z) : bool :=
  match l with [] => false | x :: l' => (z =? x)%Z || memZ z l' end.
Definition str_op (op : cmp) (t s : bytes) : bool :=
  match op with CEq => bytes_eqb t s | CNe => negb (bytes_eqb t s) | _ => false end.

(** [NumericCondition::evaluate_event_direct]; [query_mem_f64_view] (Gen/Params.v, read from the
    Rust text) says whether a Float64 cell is compared at all. *)
Definition mem_num (m : mval) (op : cmp) (v : Z) : bool :=
  match m_as_i64 m with
  | Some z => cmpZ op z v
  | None => match m with
            | MFloat b _ => if query_mem_f64_view
                            then cmp_holds op (Z.compare (f64_scaled b) (i64_as_f64_scaled v)) else false
            | _ => false
            end
  end.

(** [None] = the evaluation panics (NOT over an empty condition list). AND/OR short-circuit like
    [Iterator::all]/[any]. *)
Fixpoint eval_mem (g : bytes -> mval) (c : cond) {struct c} : option bool :=
  match c with
  | CNum f op v => Some (mem_num (g f) op v)
  | CStrC f op s => Some (str_op op (m_to_string (g f)) s)
  | CInNum f vs => Some (match m_as_i64 (g f) with Some z => memZ z vs | None => false end)
  | CInStr f ss => Some (mem_bytes (m_to_string (g f)) ss)
  | CLogic o cs =>
      match o with
      | LAnd => (fix all (l : list cond) : option bool :=
                   match l with
                   | [] => Some true
                   | x :: l' => match eval_mem g x with Some true => all l' | r => r end
                   end) cs
      | LOr => (fix any (l : list cond) : option bool :=
                  match l with
                  | [] => Some false
                  | x :: l' => match eval_mem g x with Some false => any l' | r => r end
                  end) cs
      | LNot => match cs with [] => None | x :: _ => option_map negb (eval_mem g x) end
      end
  end.

(** ** Evaluation on a row of a hydrated zone *)
Definition round_half_away_scaled (F : Z) : Z :=
  let a := Z.abs F in
  let q := (a / 2 ^ 1074)%Z in
  let rem := (a mod 2 ^ 1074)%Z in
  let r := if (2 ^ 1074 <=? 2 * rem)%Z then (q + 1)%Z else q in
  if (F <? 0)%Z then (- r)%Z else r.
Definition sat_i64 (z : Z) : Z := Z.max i64_min (Z.min i64_max z).

(** [NumericCondition::evaluate_at] *)
Definition num_at (c : option cell) (op : cmp) (v : Z) : bool :=
  match c with
  | Some (CU64 (Some n)) =>
      if (v <? 0)%Z
      then (if query_u64_neg_rejects_all then false
            else match op with CGt | CGe | CNe => true | _ => false end)
      else cmpZ op (Z.of_N n) v
  | Some (CI64 (Some z)) => cmpZ op z v
  | Some (CF64 (Some b)) => cmp_holds op (Z.compare (f64_scaled b) (i64_as_f64_scaled v))
  | Some (CStr s) => match parse_i64 s with Some z => cmpZ op z v | None => false end
  | _ => false
  end.
(** [evaluate_numeric_simd]: a top-level numeric condition never reaches the f64 branch while the
    i64 buffer claims every column ([query_i64_buffer_claims_all]) *)
Definition num_simd (c : option cell) (op : cmp) (v : Z) : bool :=
  match c with
  | Some (CF64 _) => if query_i64_buffer_claims_all then false else num_at c op v
  | _ => num_at c op v
  end.
(** [get_str_at]: var-bytes; a typed Bool block has a textual view only if [query_bool_block_str_view] *)
Definition cell_str (c : option cell) : option bytes :=
  match c with
  | Some (CStr t) => Some t
  | Some (CBool (Some b)) => if query_bool_block_str_view then Some (if b then b_true else b_false) else None
  | _ => None
  end.
Definition str_at (c : option cell) (op : cmp) (s : bytes) : bool :=
  match cell_str c with Some t => str_op op t s | None => false end.
Definition in_num_at (c : option cell) (vs : list Z) : bool :=
  match c with
  | Some (CU64 (Some n)) => (Z.of_N n <=? i64_max)%Z && memZ (Z.of_N n) vs
  | Some (CI64 (Some z)) => memZ z vs
  | Some (CF64 (Some b)) =>
      let F := f64_scaled b in
      let r := sat_i64 (round_half_away_scaled F) in
      (Z.abs (F - i64_as_f64_scaled r) <? 2 ^ 1022)%Z && memZ r vs
  | Some (CStr s) => match parse_i64 s with Some z => memZ z vs | None => false end
  | _ => false
  end.
Definition in_str_at (c : option cell) (ss : list bytes) : bool :=
  match cell_str c with Some t => mem_bytes t ss | None => false end.

Fixpoint eval_at (g : bytes -> option cell) (c : cond) {struct c} : option bool :=
  match c with
  | CNum f op v => Some (num_at (g f) op v)
  | CStrC f op s => Some (str_at (g f) op s)
  | CInNum f vs => Some (in_num_at (g f) vs)
  | CInStr f ss => Some (in_str_at (g f) ss)
  | CLogic o cs =>
      match o with
      | LAnd => (fix all (l : list cond) : option bool :=
                   match l with
                   | [] => Some true
                   | x :: l' => match eval_at g x with Some true => all l' | r => r end
                   end) cs
      | LOr => (fix any (l : list cond) : option bool :=
                  match l with
                  | [] => Some false
                  | x :: l' => match eval_at g x with Some false => any l' | r => r end
                  end) cs
      | LNot => match cs with [] => None | x :: _ => option_map negb (eval_at g x) end
      end
  end.

(** a condition at the top of the evaluator's list *)
Definition eval_seg_top (g : bytes -> option cell) (c : cond) : option bool :=
  match c with
  | CNum f op v => Some (num_simd (g f) op v)
  | _ => eval_at g c
  end.

(** The evaluator's list is a conjunction evaluated left to right with a keep-mask: a later
    condition is only evaluated on rows that are still kept. *)
Fixpoint all_conds (ev : cond -> option bool) (cs : list cond) : option bool :=
  match cs with
  | [] => Some true
  | c :: cs' => match ev c with Some true => all_conds ev cs' | r => r end
  end.

(** the complete row filters of a query ([build_from_plan]: WHERE conditions, then
    [context_id = ctx] when FOR is present; the event-type condition is constant in this model) *)
Definition ctx_ok (q : query) (ev : event) : bool :=
  match q_ctx q with Some c => bytes_eqb (ev_ctx ev) c | None => true end.
Definition where_conds (q : query) : list cond :=
  match q_where q with Some e => build e | None => [] end.

Definition filter_mem (sch : schema) (q : query) (ev : event) : option bool :=
  match all_conds (eval_mem (mem_get sch (ev_row ev))) (where_conds q) with
  | Some true => Some (ctx_ok q ev)
  | r => r
  end.
Definition filter_seg (sch : schema) (q : query) (zrows : list event) (ev : event) : option bool :=
  match all_conds (eval_seg_top (seg_get sch (hollow_in sch zrows) (ev_row ev))) (where_conds q) with
  | Some true => Some (ctx_ok q ev)
  | r => r
  end.
