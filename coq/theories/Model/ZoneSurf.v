(** Model of the per-zone succinct range filter: the builder
    [ZoneSurfFilter::build_all_filtered] with its numeric-consistency gate
    ([is_field_numeric_consistent]) in src/engine/core/filter/zone_surf_filter.rs, the probes
    [zones_overlapping_ge] / [zones_overlapping_le], and the pruner
    [RangePruner::apply_surf_only] in src/engine/core/zone/selector/pruner/range_pruner.rs
    (operator dispatch, ">90 % of >10 zones => None").  Executable definitions only.

    A column is a list of zones [(zone id, field value of each event of the zone)]; the value
    is [None] when the event's payload does not have the key.  One event type (uid) and one
    field; the file save/load round trip (bincode + lz4) is taken as the identity.
    [prune] returns [None] where the code returns [None] (the caller then scans every zone). *)
From Coq Require Import ZArith NArith List Bool.
From Snel Require Import Base.Bytes Gen.Params Model.SurfEnc Model.Trie.
Import ListNotations.
Open Scope N_scope.

Definition zone : Type := N * list (option sval).

(** ---- is_field_numeric_consistent ---- *)
Inductive kind := KI | KU | KF.
Definition kind_eqb (a b : kind) : bool :=
  match a, b with KI, KI | KU, KU | KF, KF => true | _, _ => false end.

Definition kind_of (v : sval) : option kind :=
  match v with
  | VInt _ | VTs _ => Some KI
  | VFloat _ => Some KF
  | VStr s h =>
      match parse_i64 s with
      | Some _ => Some KI
      | None =>
          match parse_u64 s with
          | Some _ => Some KU
          | None => match h with Some _ => Some KF | None => None end
          end
      end
  | _ => None
  end.

(** state [Some None] = Unknown, [Some (Some k)] = kind k, [None] = "return false" *)
Fixpoint gate_rows (rows : list (option sval)) (st : option (option kind)) : option (option kind) :=
  match rows with
  | [] => st
  | r :: rest =>
      match st with
      | None => None
      | Some k =>
          match r with
          | None => gate_rows rest st
          | Some v =>
              match kind_of v with
              | None => None
              | Some this =>
                  match k with
                  | None => gate_rows rest (Some (Some this))
                  | Some k0 => if kind_eqb k0 this then gate_rows rest st else None
                  end
              end
          end
      end
  end.

Fixpoint gate_zones (zs : list zone) (st : option (option kind)) : option (option kind) :=
  match zs with
  | [] => st
  | z :: rest => gate_zones rest (gate_rows (snd z) st)
  end.

Definition gate (zs : list zone) : bool :=
  match gate_zones zs (Some None) with
  | Some (Some _) => true
  | _ => false
  end.

(** ---- values.sort(); values.dedup() ---- *)
Fixpoint key_insert (k : bytes) (l : list bytes) : list bytes :=
  match l with
  | [] => [k]
  | x :: r => match bytes_cmp k x with Gt => x :: key_insert k r | _ => k :: l end
  end.
Definition key_sort (l : list bytes) : list bytes := fold_right key_insert [] l.
Fixpoint key_dedup (l : list bytes) : list bytes :=
  match l with
  | [] => []
  | x :: r =>
      match r with
      | y :: _ => if bytes_eqb x y then key_dedup r else x :: key_dedup r
      | [] => [x]
      end
  end.

Fixpoint present_keys (rows : list (option sval)) : list bytes :=
  match rows with
  | [] => []
  | Some v :: r => match encode_value v with Some b => b :: present_keys r | None => present_keys r end
  | None :: r => present_keys r
  end.

(** does [dynamic_keys] of the zone contain the field?  Pinned tree: the keys of the FIRST
    event only ([surf_keys_from_first_event] = true, read from the Rust text); otherwise the
    keys of every event. *)
Definition is_some {A} (o : option A) : bool := match o with Some _ => true | None => false end.
Definition zone_has_field (rows : list (option sval)) : bool :=
  if surf_keys_from_first_event then match rows with r :: _ => is_some r | [] => false end
  else existsb is_some rows.

(** one zone of [build_all_filtered]; zones without a value get no entry *)
Definition zone_entry (z : zone) : option (N * trie) :=
  if zone_has_field (snd z) then
    match present_keys (snd z) with
    | [] => None
    | vals => Some (fst z, t_build (key_dedup (key_sort vals)))
    end
  else None.

Fixpoint entries_of (zs : list zone) : list (N * trie) :=
  match zs with
  | [] => []
  | z :: r => match zone_entry z with Some e => e :: entries_of r | None => entries_of r end
  end.

(** entries.sort_by_key(|e| e.zone_id): stable *)
Fixpoint entry_insert (e : N * trie) (l : list (N * trie)) : list (N * trie) :=
  match l with
  | [] => [e]
  | x :: r => if fst e <? fst x then e :: l else x :: entry_insert e r
  end.
Definition entry_sort (l : list (N * trie)) : list (N * trie) :=
  fold_left (fun acc e => entry_insert e acc) l [].

(** the filter file of the field: [None] = no file is written *)
Definition build_filter (zs : list zone) : option (list (N * trie)) :=
  if gate zs then
    match entries_of zs with
    | [] => None
    | es => Some (entry_sort es)
    end
  else None.

(** ---- probes ---- *)
Inductive cmp_op := OEq | ONeq | OGt | OGte | OLt | OLte | OIn.

Fixpoint zones_overlapping_ge (es : list (N * trie)) (lower : bytes) (incl : bool) : list N :=
  match es with
  | [] => []
  | (id, t) :: r =>
      if may_overlap_ge t lower incl then id :: zones_overlapping_ge r lower incl
      else zones_overlapping_ge r lower incl
  end.
Fixpoint zones_overlapping_le (es : list (N * trie)) (upper : bytes) (incl : bool) : list N :=
  match es with
  | [] => []
  | (id, t) :: r =>
      if may_overlap_le t upper incl then id :: zones_overlapping_le r upper incl
      else zones_overlapping_le r upper incl
  end.

Definition nlen {A} (l : list A) : N := N.of_nat (length l).

(** zones.len() as f64 >= zones_total as f64 * MATCH_THRESHOLD, as exact fraction arithmetic
    (the f64 product is within 2^-55 relative error of num/den * total, the left side is an
    integer: the two tests agree for every count below 2^50) *)
Definition too_many (matched total : N) : bool :=
  (surf_min_zones <? total) && (surf_thr_num * total <=? surf_thr_den * matched).

(** [RangePruner::apply_surf_only] on the filter [fl] (as loaded; [None] = load error) *)
Definition apply_surf (fl : option (list (N * trie))) (op : cmp_op) (p : sval) : option (list N) :=
  match op with
  | OGt | OGte | OLt | OLte =>
      match fl with
      | None => None
      | Some es =>
          if nlen es =? 0 then None
          else
            match encode_value p with
            | None => None
            | Some b =>
                let zs :=
                  match op with
                  | OGt => zones_overlapping_ge es b false
                  | OGte => zones_overlapping_ge es b true
                  | OLt => zones_overlapping_le es b false
                  | _ => zones_overlapping_le es b true
                  end in
                if too_many (nlen zs) (nlen es) then None else Some zs
            end
      end
  | _ => None
  end.

(** builder then pruner *)
Definition prune (zs : list zone) (op : cmp_op) (p : sval) : option (list N) :=
  apply_surf (build_filter zs) op p.

(** ---- specification: which rows satisfy the probe (exact numeric comparison) ---- *)
Definition sat (op : cmp_op) (v p : sval) : bool :=
  match num_of v, num_of p with
  | Some a, Some b =>
      match op with
      | OGt => (b <? a)%Z
      | OGte => (b <=? a)%Z
      | OLt => (a <? b)%Z
      | OLte => (a <=? b)%Z
      | _ => false
      end
  | _, _ => false
  end.

(** ---- the known classes of false negatives ---- *)
Inductive kclass :=
| SurfFirstRowLacksField   (* the zone's first event has no value for the field *)
| SurfSaturatedFloat       (* row or probe is a double equal to 2^63 or >= 2^64 *)
| SurfCrossLane.           (* the satisfying row and the probe are encoded in different lanes *)

Definition known_class (rows : list (option sval)) (v p : sval) : option kclass :=
  if negb (zone_has_field rows) then Some SurfFirstRowLacksField
  else if saturates v || saturates p then Some SurfSaturatedFloat
  else
    match lane_of v, lane_of p with
    | Some a, Some b => if lane_eqb a b then None else Some SurfCrossLane
    | _, _ => None
    end.

(** audit of a result: every zone that holds a satisfying row but is missing from [res],
    with the known class of each satisfying row ([None] = no known class) *)
Fixpoint sat_classes (op : cmp_op) (p : sval) (all rows : list (option sval)) : list (option kclass) :=
  match rows with
  | [] => []
  | Some v :: r =>
      if sat op v p then known_class all v p :: sat_classes op p all r else sat_classes op p all r
  | None :: r => sat_classes op p all r
  end.

Definition n_mem (x : N) (l : list N) : bool := existsb (N.eqb x) l.

Fixpoint audit (zs : list zone) (op : cmp_op) (p : sval) (res : list N)
  : list (N * list (option kclass)) :=
  match zs with
  | [] => []
  | z :: r =>
      match sat_classes op p (snd z) (snd z) with
      | [] => audit r op p res
      | cl => if n_mem (fst z) res then audit r op p res else (fst z, cl) :: audit r op p res
      end
  end.
