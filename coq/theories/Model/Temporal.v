(** Model of the temporal pruning structures:
    - src/shared/datetime/time_bucketing.rs [naive_bucket_of] (hour / day),
    - src/engine/core/time/temporal_calendar_index.rs [TemporalCalendarIndex]
      (calendar_dir.rs [CalendarDir::add_zone_range] is the same loop),
    - src/engine/core/time/zone_temporal_index.rs [ZoneTemporalIndex] (stride as regenerated),
    - src/engine/core/time/temporal_builder.rs [build_for_zone_plans] (one temporal field),
    - src/engine/core/zone/selector/pruner/temporal_pruner.rs [apply_temporal_only]
      (as repaired by db7c428: signed probe instant, pre-1970 zones filed from bucket 0).
    Executable definitions only.

    Timestamps of a zone are [Z] in the i64 range (what [as_i64] / [u as i64] pushed).
    Bucket ids are the bucket start second truncated to [zidx_bucket_bits] bits. *)
From Coq Require Import NArith ZArith List Bool.
From Snel Require Import Base.Bytes Gen.Params Model.ZoneSel Model.Time.
Import ListNotations.

(** * Buckets *)
Open Scope N_scope.

Inductive gran := GHour | GDay.
Definition gran_secs (g : gran) : N := match g with GHour => zidx_hour_secs | GDay => zidx_day_secs end.
Definition gran_step (g : gran) : N := match g with GHour => zidx_hour_step | GDay => zidx_day_step end.

(** [naive_bucket_of(ts, gran)] = [(ts / s) * s] *)
Definition naive_bucket_of (g : gran) (ts : N) : N := (ts / gran_secs g) * gran_secs g.
(** [bucket_id]: [(start & u32::MAX) as u32] *)
Definition bucket_id (g : gran) (ts : N) : N := naive_bucket_of g ts mod 2 ^ zidx_bucket_bits.

Record calendar := { cal_hour : list (N * list N); cal_day : list (N * list N) }.
Definition cal_empty : calendar := {| cal_hour := []; cal_day := [] |}.

(** one [while t <= end { map[bucket_id(t)].insert(zone); t += step }] loop *)
Definition mark_body (g : gran) (z : N) (st : N * list (N * list N)) : N * list (N * list N) :=
  (fst st + gran_step g, am_add_zone (bucket_id g (fst st)) z (snd st)).
Definition mark_range (g : gran) (z lo hi : N) (m : list (N * list N)) : list (N * list N) :=
  let start := naive_bucket_of g lo in
  let stop := naive_bucket_of g hi in
  if stop <? start then m
  else snd (N.iter ((stop - start) / gran_step g + 1) (mark_body g z) (start, m)).

(** [add_zone_range(zone_id, min_ts, max_ts)] *)
Definition add_zone_range (c : calendar) (z lo hi : N) : calendar :=
  {| cal_hour := mark_range GHour z lo hi (cal_hour c);
     cal_day := mark_range GDay z lo hi (cal_day c) |}.

(** [zones_for_ts]: the hour bucket if it exists, else the day bucket, else nothing *)
Definition zones_for_ts (c : calendar) (ts : N) : list N :=
  match am_get (bucket_id GHour ts) (cal_hour c) with
  | Some s => s
  | None => match am_get (bucket_id GDay ts) (cal_day c) with Some s => s | None => [] end
  end.

Definition union_where (p : N -> bool) (m : list (N * list N)) : list N :=
  fold_right (fun e acc => if p (fst e) then zs_union (snd e) acc else acc) [] m.
(** [zones_for_ge] / [zones_for_le]: union of the day buckets whose (truncated) id is
    [>=] / [<=] the probe's day-bucket id *)
Definition zones_for_ge (c : calendar) (ts : N) : list N :=
  union_where (fun b => bucket_id GDay ts <=? b) (cal_day c).
Definition zones_for_le (c : calendar) (ts : N) : list N :=
  union_where (fun b => b <=? bucket_id GDay ts) (cal_day c).

(** [FieldIndex::zones_intersecting(op, v : i64)].  [In] is [unreachable!()] in Rust and
    never requested by the pruner; it is mapped to the empty set here. *)
Definition zones_intersecting (c : calendar) (op : cmp_op) (v : Z) : list N :=
  match op with
  | OEq => if (v <? 0)%Z then [] else zones_for_ts c (Z.to_N v)
  | OGt | OGte => if (v <? 0)%Z then [] else zones_for_ge c (Z.to_N v)
  | OLt | OLte => if (v <? 0)%Z then [] else zones_for_le c (Z.to_N v)
  | ONeq =>
      let all := union_where (fun _ => true) (cal_day c) in
      let eq := if (v <? 0)%Z then [] else zones_for_ts c (Z.to_N v) in
      zs_diff all eq
  | OIn => []
  end.

(** * Per-zone index *)
Open Scope Z_scope.

(** two's complement wrap of an i64 result (release arithmetic) *)
Definition to_i64 (z : Z) : Z := (z + 2 ^ 63) mod 2 ^ 64 - 2 ^ 63.

(** [sort_unstable(); dedup()] — insertion that drops duplicates *)
Fixpoint zins (t : Z) (s : list Z) : list Z :=
  match s with
  | [] => [t]
  | x :: r => if t <? x then t :: s else if t =? x then s else x :: zins t r
  end.
Definition sort_dedup (ts : list Z) : list Z := fold_right zins [] ts.

Record zti := { z_min : Z; z_max : Z; z_keys : list N }.

Definition key_of (mn t : Z) : N := Z.to_N (Z.max (Z.quot (to_i64 (t - mn)) zidx_stride) 0).

(** [ZoneTemporalIndex::from_timestamps(ts, stride, _)] (fences are never read) *)
Definition from_timestamps (ts : list Z) : zti :=
  let s := sort_dedup ts in
  let mn := hd 0 s in
  let mx := last s 0 in
  {| z_min := mn; z_max := mx; z_keys := map (key_of mn) s |}.

(** [contains_ts].  The binary search over [keys] is modelled as membership (the keys are
    strictly increasing whenever [max - min < 2^63], see [TemporalProofs.keys_sorted]). *)
Definition contains_ts (x : zti) (ts : Z) : bool :=
  if (ts <? z_min x) || (ts >? z_max x) then false
  else
    let off := to_i64 (ts - z_min x) in
    if (zidx_stride >? 1) && negb (Z.rem off zidx_stride =? 0) then false
    else existsb (N.eqb (Z.to_N (Z.max (Z.quot off zidx_stride) 0))) (z_keys x).

(** * Builder (one temporal field of one flush) *)
Record tindex := { t_cal : option calendar; t_ztis : list (N * zti) }.
Definition tindex_empty : tindex := {| t_cal := None; t_ztis := [] |}.

Definition zmin_list (l : list Z) : Z := fold_right Z.min (hd 0 l) l.
Definition zmax_list (l : list Z) : Z := fold_right Z.max (hd 0 l) l.

(** the calendar range registered for a zone with extreme values [mn], [mx] (i64).
    [mode] (regenerated per branch of the builder): 0 = only when [mn >= 0 && mx >= 0],
    else the zone is left out of the calendar; 1 = always, clamped at 0
    ([min_ts.max(0) as u64], [max_ts.max(0) as u64]). *)
Definition cal_range (mode : N) (mn mx : Z) : option (N * N) :=
  match mode with
  | 0%N => if (0 <=? mn) && (0 <=? mx) then Some (Z.to_N mn, Z.to_N mx) else None
  | _ => Some (Z.to_N (Z.max mn 0), Z.to_N (Z.max mx 0))
  end.

(** one zone: nothing when the zone has no value for the field; else a per-zone index
    and (see [cal_range]) a calendar range *)
Definition add_zone (mode : N) (ix : tindex) (zid : N) (vals : list Z) : tindex :=
  match vals with
  | [] => ix
  | _ =>
      let ztis := t_ztis ix ++ [(zid, from_timestamps vals)] in
      match cal_range mode (zmin_list vals) (zmax_list vals) with
      | Some (lo, hi) =>
          let c := match t_cal ix with Some c => c | None => cal_empty end in
          {| t_cal := Some (add_zone_range c zid lo hi); t_ztis := ztis |}
      | None => {| t_cal := t_cal ix; t_ztis := ztis |}
      end
  end.

Definition build (mode : N) (zones : list (N * list Z)) : tindex :=
  fold_left (fun ix zv => add_zone mode ix (fst zv) (snd zv)) zones tindex_empty.

(** The values the builder pushes for a payload cell: [as_i64] (Int64, Timestamp, a
    string that parses as i64), else [as_u64 as i64] (a string that parses as u64 only);
    Float64 / Boolean / Null / missing cells are skipped. *)
Inductive tcell := TCInt (z : Z) | TCStr (s : bytes) | TCOther.
Definition parse_i64 (s : bytes) : option Z :=
  match parse_int_str s with Some v => try_i64 v | None => None end.

(** [load_for_field]: the LAST directory entry with the zone id wins *)
Fixpoint zti_lookup (zid : N) (l : list (N * zti)) : option zti :=
  match l with
  | [] => None
  | (z, x) :: r =>
      match zti_lookup zid r with
      | Some y => Some y
      | None => if (z =? zid)%N then Some x else None
      end
  end.

(** * The pruner's literal handling *)
Inductive tlit :=
| TLInt (z : Z)                       (* ScalarValue::Int64 / Timestamp *)
| TLStr (s : bytes)                   (* ScalarValue::Utf8 *)
| TLFloat (num : Z) (den : positive)  (* ScalarValue::Float64 with value num/den *)
| TLOther.                            (* Boolean, Null, Binary *)

(** [str::parse::<u64>]: optional [+], at least one digit, digits only, below 2^64 *)
Definition parse_u64 (s : bytes) : option N :=
  let body := match s with 43%N :: r => r | _ => s end in
  match body with
  | [] => None
  | _ => match all_digits_val body 0 with
         | Some v => if v <? 2 ^ 64 then Some (Z.to_N v) else None
         | None => None
         end
  end.

Definition cell_ts (c : tcell) : option Z :=
  match c with
  | TCInt z => Some z
  | TCStr s =>
      match parse_i64 s with
      | Some v => Some v
      | None => match parse_u64 s with Some u => Some (to_i64 (Z.of_N u)) | None => None end
      end
  | TCOther => None
  end.
Definition zone_ts (cells : list tcell) : list Z :=
  flat_map (fun c => match cell_ts c with Some t => [t] | None => [] end) cells.
Definition build_cells (zones : list (N * list tcell)) : tindex :=
  build zidx_cal_mode_field (map (fun zc => (fst zc, zone_ts (snd zc))) zones).
(** the fixed [timestamp] column: [ev.timestamp as i64] *)
Definition build_fixed (zones : list (N * list N)) : tindex :=
  build zidx_cal_mode_ts (map (fun zc => (fst zc, map (fun n => to_i64 (Z.of_N n)) (snd zc))) zones).

(** the signed instant [ts : i64] the pruner probes the per-zone indexes with: an integer
    literal as is, a string through [TimeParser] and [i64::MIN] when it is not a time
    literal, any other kind 0 *)
Definition lit_ts (l : tlit) : Z :=
  match l with
  | TLInt z => z
  | TLStr s =>
      match parse_str_to_epoch_seconds s with
      | Some p => p
      | None => - 2 ^ 63
      end
  | TLFloat _ _ => 0
  | TLOther => 0
  end.

(** [cal_ts = ts.max(0)]: the calendar lookup is clamped at 0 *)
Definition cal_ts (v : Z) : Z := Z.max v 0.

Definition zone_overlaps (op : cmp_op) (x : zti) (v : Z) : bool :=
  match op with
  | OEq => contains_ts x v
  | OGt => z_max x >? v
  | OGte => z_max x >=? v
  | OLt => z_min x <? v
  | OLte => z_min x <=? v
  | _ => false
  end.

Definition op_answered (op : cmp_op) : bool :=
  match op with
  | OEq | OGt | OGte | OLt | OLte => true
  | ONeq => zidx_temporal_handles_neq
  | OIn => false
  end.

(** [TemporalPruner::apply_temporal_only].  A calendar that cannot be loaded gives
    [Some []] for the fixed [timestamp] column and [None] for any other column. *)
Definition apply_temporal_only (is_timestamp : bool) (ix : tindex) (op : cmp_op) (l : tlit)
  : option (list N) :=
  if negb (op_answered op) then None else
  let v := lit_ts l in
  match t_cal ix with
  | None => if is_timestamp then Some [] else None
  | Some c =>
      Some (filter (fun zid => match zti_lookup zid (t_ztis ix) with
                               | Some x => zone_overlaps op x v
                               | None => false
                               end)
                   (zones_intersecting c op (cal_ts v)))
  end.

(** What a query sees for strategies [TemporalEq] / [TemporalRange]. *)
Definition select_temporal (is_timestamp : bool) (ix : tindex) (all_zones : list N)
                           (op : cmp_op) (l : tlit) : list N :=
  select STemporal op false all_zones (apply_temporal_only is_timestamp ix op l).

(** * Brute-force meaning of a probe *)

(** the instant a literal denotes (None: no numeric meaning) *)
Inductive litval := LVInt (v : Z) | LVRat (num : Z) (den : positive).
Definition lit_value (l : tlit) : option litval :=
  match l with
  | TLInt z => Some (LVInt z)
  | TLStr s =>
      match parse_str_to_epoch_seconds s with
      | Some p => Some (LVInt p)
      | None => None      (* not a time literal: no instant *)
      end
  | TLFloat n d => Some (LVRat n d)
  | TLOther => None
  end.

Definition cmp_holds (op : cmp_op) (c : comparison) : bool :=
  match op, c with
  | OEq, Eq | OIn, Eq => true
  | ONeq, Lt | ONeq, Gt => true
  | OGt, Gt => true
  | OGte, Gt | OGte, Eq => true
  | OLt, Lt => true
  | OLte, Lt | OLte, Eq => true
  | _, _ => false
  end.

Definition row_matches (op : cmp_op) (t : Z) (v : litval) : bool :=
  match v with
  | LVInt x => cmp_holds op (t ?= x)
  | LVRat n d => cmp_holds op (t * Zpos d ?= n)
  end.
