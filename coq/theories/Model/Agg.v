(** Model of the aggregate path (C09) — executable definitions only.

    - [to_cells]: flow/operators/agg/column_converter.rs (a batch column is a typed
      i64 column iff all its values are Int64 or Null, else a string column in
      which every value is rendered as text and Null becomes "").
    - [upd]: aggregate/ops.rs [AggregatorImpl::update] over a [ColumnValues] cell
      ([get_i64_at] = the typed value or the parsed string, [get_str_at] = the text
      of a string column, nothing for a typed column); i64 arithmetic wraps (the
      harness profile has overflow checks off, like a release build).
    - [snapshot], [wire]: aggregate/partial.rs [snapshot_aggregator] and the
      row encoding of partial_converter.rs decoded by
      merge/aggregate_stream.rs [parse_aggregate_row].
    - [merge_state]: [AggState::merge]; [finalize]: [agg_state_to_scalar]
      (AVG kept as the (sum, count) pair).
    - [flow_rows]: sink/aggregate (group key = bucket x group strings, one
      aggregator vector per key) followed by [into_partial] and [build_row].
    - [coord_merge], [emit_groups]: merge/aggregate_stream.rs
      [merge_batch_into_groups] and the filtering / finalisation / LIMIT part of
      [emit_merged_groups]. *)
From Coq Require Import ZArith NArith List Bool.
From Snel Require Import Base.Bytes Base.OrdF64 Gen.Params Model.Order Model.Bucket.
Import ListNotations.
Open Scope Z_scope.

Definition wrap_i64 (z : Z) : Z := (z + two63) mod two64 - two63.

(** * Cells of a converted batch column *)
Inductive cell := CInt (z : Z) | CNull | CStr (s : bytes).

Definition col_typed (vs : list value) : bool :=
  forallb (fun v => match v with VInt _ | VNull => true | _ => false end) vs.

(** [create_string_column]: the text of every value (Binary and Null are empty) *)
Definition cell_string (v : value) : bytes :=
  match v with
  | VStr s => s
  | VInt z | VTs z => dec_of_Z z
  | VFloat _ r => r
  | VBool true => str_true
  | VBool false => str_false
  | VBin _ | VNull => []
  end.

Definition to_cells (vs : list value) : list cell :=
  if col_typed vs
  then map (fun v => match v with VInt z => CInt z | _ => CNull end) vs
  else map (fun v => CStr (cell_string v)) vs.

(** [ColumnValues::get_i64_at] / [get_str_at] *)
Definition cell_i64 (c : cell) : option Z :=
  match c with CInt z => Some z | CNull => None | CStr s => parse_i64 s end.
Definition cell_str (c : cell) : option bytes :=
  match c with CStr s => Some s | _ => None end.

(** * Aggregators *)
Inductive mkind := MCountAll | MCountField | MCountUnique | MTotal | MAvg | MMin | MMax.
Record metric := { m_kind : mkind; m_field : nat }.

(** aggregator and partial state share one shape *)
Inductive agg :=
| ACount (n : Z)
| AUnique (s : list bytes)          (* sorted by [bytes_cmp], duplicate free *)
| ASum (s : Z)
| AAvg (s c : Z)
| AMin (num : option Z) (str : option bytes)
| AMax (num : option Z) (str : option bytes).

Definition agg_init (k : mkind) : agg :=
  match k with
  | MCountAll | MCountField => ACount 0
  | MCountUnique => AUnique []
  | MTotal => ASum 0
  | MAvg => AAvg 0 0
  | MMin => AMin None None
  | MMax => AMax None None
  end.

Fixpoint set_insert (x : bytes) (l : list bytes) : list bytes :=
  match l with
  | [] => [x]
  | y :: r => match bytes_cmp x y with
              | Lt => x :: l
              | Eq => l
              | Gt => y :: set_insert x r
              end
  end.

Definition bytes_ltb (a b : bytes) : bool :=
  match bytes_cmp a b with Lt => true | _ => false end.

Definition min_z (a b : Z) : Z := if b <? a then b else a.
Definition max_z (a b : Z) : Z := if a <? b then b else a.
Definition min_b (a b : bytes) : bytes := if bytes_ltb b a then b else a.
Definition max_b (a b : bytes) : bytes := if bytes_ltb a b then b else a.

Definition opt_merge {A} (f : A -> A -> A) (a b : option A) : option A :=
  match a, b with
  | Some x, Some y => Some (f x y)
  | None, _ => b
  | _, None => a
  end.

(** one row: [update(row_idx, columns)] *)
Definition upd (k : mkind) (a : agg) (c : cell) : agg :=
  match k, a with
  | MCountAll, ACount n => ACount (wrap_i64 (n + 1))
  | MCountField, ACount n =>
      match c with CNull => a | _ => ACount (wrap_i64 (n + 1)) end
  | MCountUnique, AUnique s =>
      (* a typed i64 column has no string view: [agg_count_unique_typed_empty] (regenerated
         from ops.rs) says whether such a cell is counted as "" or as its decimal text
         (the latter since 6631182) *)
      AUnique (set_insert (match c with
                           | CStr x => x
                           | CInt z => if agg_count_unique_typed_empty then [] else dec_of_Z z
                           | CNull => []
                           end) s)
  | MTotal, ASum s =>
      match cell_i64 c with Some v => ASum (wrap_i64 (s + v)) | None => a end
  | MAvg, AAvg s n =>
      match cell_i64 c with Some v => AAvg (wrap_i64 (s + v)) (wrap_i64 (n + 1)) | None => a end
  | MMin, AMin num str =>
      match cell_i64 c with
      | Some v => AMin (opt_merge min_z num (Some v)) str
      | None => match cell_str c with
                | Some s => AMin num (opt_merge min_b str (Some s))
                | None => a
                end
      end
  | MMax, AMax num str =>
      match cell_i64 c with
      | Some v => AMax (opt_merge max_z num (Some v)) str
      | None => match cell_str c with
                | Some s => AMax num (opt_merge max_b str (Some s))
                | None => a
                end
      end
  | _, _ => a
  end.

(** [snapshot_aggregator]: MIN/MAX are finalised to text and re-parsed
    ([i64::to_string] followed by [parse::<i64>] is taken to be the identity) *)
Definition snap_minmax (num : option Z) (str : option bytes) : option Z * option bytes :=
  match num with
  | Some v => (Some v, None)
  | None =>
      match str with
      | Some s => match parse_i64 s with
                  | Some n => (Some n, None)
                  | None => (None, Some s)
                  end
      | None => (None, Some [])
      end
  end.

Definition snapshot (a : agg) : agg :=
  match a with
  | AMin num str => let '(n, s) := snap_minmax num str in AMin n s
  | AMax num str => let '(n, s) := snap_minmax num str in AMax n s
  | _ => a
  end.

(** partial row: MIN/MAX travel as Int64 or Utf8 (["" ] when empty) *)
Definition wire_minmax (num : option Z) (str : option bytes) : option Z * option bytes :=
  match num with
  | Some v => (Some v, None)
  | None => match str with Some s => (None, Some s) | None => (None, Some []) end
  end.

Definition wire (a : agg) : agg :=
  match snapshot a with
  | AMin num str => let '(n, s) := wire_minmax num str in AMin n s
  | AMax num str => let '(n, s) := wire_minmax num str in AMax n s
  | b => b
  end.

Definition set_union (a b : list bytes) : list bytes := fold_right set_insert a b.

(** [AggState::merge] *)
Definition merge_state (a b : agg) : agg :=
  match a, b with
  | ACount x, ACount y => ACount (wrap_i64 (x + y))
  | AUnique s, AUnique t => AUnique (set_union s t)
  | ASum x, ASum y => ASum (wrap_i64 (x + y))
  | AAvg s1 c1, AAvg s2 c2 => AAvg (wrap_i64 (s1 + s2)) (wrap_i64 (c1 + c2))
  | AMin n1 s1, AMin n2 s2 => AMin (opt_merge min_z n1 n2) (opt_merge min_b s1 s2)
  | AMax n1 s1, AMax n2 s2 => AMax (opt_merge max_z n1 n2) (opt_merge max_b s1 s2)
  | _, _ => a
  end.

(** [agg_state_to_scalar]; AVG stays a pair *)
Inductive fin := FInt (z : Z) | FStr (s : bytes) | FAvg (s c : Z).

Definition finalize (a : agg) : fin :=
  match a with
  | ACount n => FInt n
  | AUnique s => FInt (Z.of_nat (length s))
  | ASum s => FInt s
  | AAvg s c => FAvg s c
  | AMin (Some n) _ | AMax (Some n) _ => FInt n
  | AMin None (Some s) | AMax None (Some s) => FStr s
  | AMin None None | AMax None None => FStr []
  end.

(** * Rows, plans, group keys *)
Record row := { r_ts : value; r_groups : list value; r_fields : list value }.
Record crow := { c_ts : cell; c_groups : list cell; c_fields : list cell }.

Record plan := {
  p_metrics : list metric;
  p_gran : option gran;        (* PER *)
  p_by : bool;                 (* BY present *)
  p_calendar : bool;           (* use_calendar_bucketing *)
  p_week_start : Z             (* 0 = Monday *)
}.

(** column-wise conversion of a batch of rows *)
Definition column {A} (f : row -> list A) (d : A) (j : nat) (rows : list row) : list A :=
  map (fun r => nth j (f r) d) rows.

Fixpoint zip_rows (ts : list cell) (gs fs : list (list cell)) : list crow :=
  match ts with
  | [] => []
  | t :: ts' =>
      {| c_ts := t; c_groups := map (fun col => hd CNull col) gs; c_fields := map (fun col => hd CNull col) fs |}
      :: zip_rows ts' (map (@tl cell) gs) (map (@tl cell) fs)
  end.

Definition cells_of_batch (ng nf : nat) (rows : list row) : list crow :=
  zip_rows (to_cells (map r_ts rows))
           (map (fun j => to_cells (column r_groups VNull j rows)) (seq 0 ng))
           (map (fun j => to_cells (column r_fields VNull j rows)) (seq 0 nf)).

(** group value of a cell, as the text it is reported with.  The sink keeps
    [GroupValue::Int i] / [GroupValue::Str s] and renders them at the end; an
    [Int] renders as a decimal (always i64-parsable) and a [Str] is only built from
    text that is not i64-parsable, so two sink keys are equal iff their texts are. *)
Definition group_string (c : cell) : bytes :=
  match cell_i64 c with
  | Some i => dec_of_Z i
  | None => match cell_str c with Some s => s | None => [] end
  end.

Definition bucket_fn (p : plan) (ts : Z) (g : gran) : Z :=
  if p_calendar p then calendar_bucket_of (p_week_start p) ts g else naive_bucket_of ts g.

Definition gkey : Type := option Z * list bytes.

Definition row_key (p : plan) (r : crow) : gkey :=
  (match p_gran p with
   | None => None
   | Some g => match cell_i64 (c_ts r) with
               | Some ts => Some (bucket_fn p (i64_to_u64 ts) g)
               | None => None
               end
   end,
   map group_string (c_groups r)).

Fixpoint list_eqb {A} (e : A -> A -> bool) (a b : list A) : bool :=
  match a, b with
  | [], [] => true
  | x :: a', y :: b' => e x y && list_eqb e a' b'
  | _, _ => false
  end.

Definition gkey_eqb (a b : gkey) : bool :=
  match fst a, fst b with
  | None, None => true
  | Some x, Some y => x =? y
  | _, _ => false
  end && list_eqb bytes_eqb (snd a) (snd b).

(** association lists with insertion order *)
Fixpoint upsert {V} (k : gkey) (f : option V -> V) (st : list (gkey * V)) : list (gkey * V) :=
  match st with
  | [] => [(k, f None)]
  | (k', v) :: r => if gkey_eqb k k' then (k', f (Some v)) :: r else (k', v) :: upsert k f r
  end.

Fixpoint zip_with {A B C} (f : A -> B -> C) (a : list A) (b : list B) : list C :=
  match a, b with
  | x :: a', y :: b' => f x y :: zip_with f a' b'
  | _, _ => []
  end.

Definition upd_all (ms : list metric) (aggs : list agg) (r : crow) : list agg :=
  zip_with (fun m a => upd (m_kind m) a (nth (m_field m) (c_fields r) CNull)) ms aggs.

Definition init_all (ms : list metric) : list agg := map (fun m => agg_init (m_kind m)) ms.

(** the sink over the rows of one flow *)
Definition sink_step (p : plan) (st : list (gkey * list agg)) (r : crow) : list (gkey * list agg) :=
  upsert (row_key p r)
         (fun o => upd_all (p_metrics p) (match o with Some a => a | None => init_all (p_metrics p) end) r)
         st.

Definition sink_rows (p : plan) (rs : list crow) : list (gkey * list agg) :=
  fold_left (sink_step p) rs [].

(** bucket column of a partial row: [Int64(bucket as i64)] or [Int64(0)], read back
    with [scalar_to_u64] (negative -> None) *)
Definition wire_bucket (p : plan) (b : option Z) : option Z :=
  match p_gran p with
  | None => None
  | Some _ =>
      let v := match b with Some x => u64_to_i64 x | None => 0 end in
      if 0 <=? v then Some v else None
  end.

Definition wire_row (p : plan) (e : gkey * list agg) : gkey * list agg :=
  ((wire_bucket p (fst (fst e)), snd (fst e)), map wire (snd e)).

(** what one flow sends to the coordinator *)
Definition flow_rows (p : plan) (ng nf : nat) (batches : list (list row)) : list (gkey * list agg) :=
  map (wire_row p) (sink_rows p (concat (map (cells_of_batch ng nf) batches))).

(** ** The sink as it runs, batch by batch.  A batch takes the columnar path
    ([can_use_columnar_processing]) when every metric is COUNT / TOTAL / AVG and the
    TOTAL / AVG columns are typed i64.  Without BY / PER the columnar path files its
    aggregators under a key built with [prehash: 0] while the row path computes the
    real pre-hash: equal keys with different hashes are two map entries, and
    [into_partial] keeps only one of them (which one depends on the map's random
    iteration order).  [agg_columnar_default_prehash_zero] is regenerated from
    columnar.rs / group_key.rs by the translator; since d49da47 ([compute_prehash] returns 0 for
    the empty key) it is [false] and the columnar slot below is never used. *)
Definition ungrouped (p : plan) : bool :=
  negb (p_by p) && match p_gran p with None => true | Some _ => false end.

Definition batch_columnar (p : plan) (rows : list row) : bool :=
  forallb (fun m => match m_kind m with
                    | MCountAll => true
                    | MTotal | MAvg => col_typed (column r_fields VNull (m_field m) rows)
                    | _ => false
                    end) (p_metrics p).

Record sink_st := {
  sk_groups : list (gkey * list agg);   (* row-path entries (and all entries of grouped plans) *)
  sk_col : option (list agg);           (* the columnar path's ungrouped entry *)
  sk_all : list agg                     (* what a single ungrouped entry would hold *)
}.

Definition sink_batch (p : plan) (ng nf : nat) (st : sink_st) (rows : list row) : sink_st :=
  let crs := cells_of_batch ng nf rows in
  let all := fold_left (upd_all (p_metrics p)) crs (sk_all st) in
  if agg_columnar_default_prehash_zero && ungrouped p && batch_columnar p rows
  then {| sk_groups := sk_groups st;
          sk_col := Some (fold_left (upd_all (p_metrics p)) crs
                            (match sk_col st with Some a => a | None => init_all (p_metrics p) end));
          sk_all := all |}
  else {| sk_groups := fold_left (sink_step p) crs (sk_groups st); sk_col := sk_col st; sk_all := all |}.

(** the possible outputs of one flow.  When both ungrouped entries exist, [into_partial]
    keeps the row-path one or the columnar one; with probability about 1/128 the two
    hashes share hashbrown's 7-bit tag, the lookup finds the other entry (the keys are
    [Eq]) and there is a single entry holding all rows. *)
Definition flow_alts (p : plan) (ng nf : nat) (batches : list (list row))
  : list (list (gkey * list agg)) :=
  let st := fold_left (sink_batch p ng nf) batches
                      {| sk_groups := []; sk_col := None; sk_all := init_all (p_metrics p) |} in
  let main := map (wire_row p) (sk_groups st) in
  match sk_col st with
  | None => [main]
  | Some a =>
      let c := [((None, []), map wire a)] in
      match sk_groups st with
      | [] => [c]
      | _ => [main; c; [((None, []), map wire (sk_all st))]]
      end
  end.

(** coordinator: merge the rows of all flows by key *)
Definition coord_step (st : list (gkey * list agg)) (e : gkey * list agg) : list (gkey * list agg) :=
  upsert (fst e)
         (fun o => match o with
                   | None => snd e
                   | Some cur => if Nat.eqb (length cur) (length (snd e))
                                 then zip_with merge_state cur (snd e) else cur
                   end)
         st.

Definition coord_merge (rows : list (gkey * list agg)) : list (gkey * list agg) :=
  fold_left coord_step rows [].

(** groups with an empty group value are dropped when BY is present *)
Definition keep_group (p : plan) (k : gkey) : bool :=
  if p_by p
  then negb (match snd k with [] => true | _ => false end)
       && forallb (fun g => negb (match g with [] => true | _ => false end)) (snd k)
  else true.

Definition merged_groups (p : plan) (ng nf : nat) (flows : list (list (list row)))
  : list (gkey * list fin) :=
  map (fun e => (fst e, map finalize (snd e)))
      (filter (fun e => keep_group p (fst e))
              (coord_merge (concat (map (flow_rows p ng nf) flows)))).

Fixpoint choices {A} (alts : list (list A)) : list (list A) :=
  match alts with
  | [] => [[]]
  | a :: r => flat_map (fun x => map (fun rest => x :: rest) (choices r)) a
  end.

(** every possible result of the pipeline (one per choice of flow outputs) *)
Definition merged_groups_alts (p : plan) (ng nf : nat) (flows : list (list (list row)))
  : list (list (gkey * list agg)) :=
  map (fun ch => filter (fun e => keep_group p (fst e)) (coord_merge (concat ch)))
      (choices (map (flow_alts p ng nf) flows)).

(** the default output order (no ORDER BY): bucket, then the group strings, compared
    with [scalar_compare]; then OFFSET / LIMIT on groups *)
Fixpoint lex_cmp (a b : list value) : comparison :=
  match a, b with
  | x :: a', y :: b' => match scalar_compare x y with Eq => lex_cmp a' b' | c => c end
  | _, _ => Eq
  end.

Definition out_key (p : plan) (k : gkey) : list value :=
  match p_gran p with
  | None => []
  | Some _ => [match fst k with Some b => VInt (u64_to_i64 b) | None => VNull end]
  end ++ map VStr (snd k).

Definition emit_groups {V} (p : plan) (limit offset : option N) (groups : list (gkey * V))
  : list (gkey * V) :=
  take_opt limit
    (match offset with Some o => dropN o | None => fun x => x end
       (sort_by (fun a b => lex_cmp (out_key p (fst a)) (out_key p (fst b))) groups)).
