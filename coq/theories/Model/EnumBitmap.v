(** Model of src/engine/core/zone/enum_bitmap_index.rs ([EnumBitmapBuilder],
    [EnumBitmapIndex]), enum_zone_pruner.rs ([EnumZonePruner::prune]) and
    selector/pruner/enum_pruner.rs ([EnumPruner::attempt]/[apply]).
    Executable definitions only.

    A zone's column of an enum field is the list of the rows' string values
    ([Event::get_field_value], bytes).  One packed bitset per declared variant and
    zone; bit [i] of variant [v] is set when row [i] of the zone holds [v].  Values
    that are not a declared variant set no bit.  [bytes[byte] |= ..] panics when the
    row index lies beyond the allocated bitmap: the builder then yields [None]. *)
From Coq Require Import NArith ZArith List Bool.
From Snel Require Import Base.Bytes Gen.Params Model.ZoneSel.
Import ListNotations.
Open Scope N_scope.

(** [variants.iter().position(|v| v == val)] *)
Fixpoint position (vs : list bytes) (v : bytes) : option nat :=
  match vs with
  | [] => None
  | x :: r => if bytes_eqb x v then Some O
              else match position r v with Some k => Some (S k) | None => None end
  end.

(** [alloc_bitmap]: [(rows_per_zone + 7) / 8] zero bytes *)
Definition alloc_bitmap (rpz : N) : list N := repeat 0 (N.to_nat ((rpz + 7) / 8)).

(** [set_bit(bytes, idx)]: [bytes[idx / 8] |= 1 << (idx % 8)]; [None] = index out of bounds (panic) *)
Fixpoint set_bit_at (bs : list N) (byte : nat) (bit : N) : option (list N) :=
  match bs, byte with
  | [], _ => None
  | b :: r, O => Some (N.lor b (N.shiftl 1 bit) :: r)
  | b :: r, S k => match set_bit_at r k bit with Some r' => Some (b :: r') | None => None end
  end.
Definition set_bit (bs : list N) (idx : N) : option (list N) :=
  set_bit_at bs (N.to_nat (idx / 8)) (idx mod 8).

Fixpoint upd_nth {A : Type} (k : nat) (x : A) (l : list A) : list A :=
  match l, k with
  | [], _ => []
  | _ :: r, O => x :: r
  | y :: r, S k' => y :: upd_nth k' x r
  end.

(** the loop of [add_zone_values] from row index [i] on *)
Fixpoint add_rows (variants : list bytes) (vals : list bytes) (i : N)
                  (bitsets : list (list N)) : option (list (list N)) :=
  match vals with
  | [] => Some bitsets
  | v :: r =>
      match position variants v with
      | None => add_rows variants r (i + 1) bitsets
      | Some vid =>
          match nth_error bitsets vid with
          | None => None
          | Some bs =>
              match set_bit bs i with
              | None => None
              | Some bs' => add_rows variants r (i + 1) (upd_nth vid bs' bitsets)
              end
          end
      end
  end.

Definition add_zone_values (variants : list bytes) (rpz : N) (vals : list bytes)
  : option (list (list N)) :=
  add_rows variants vals 0 (repeat (alloc_bitmap rpz) (length variants)).

Record ebm := { e_variants : list bytes; e_rpz : N; e_zones : list (N * list (list N)) }.

(** [build_all] for one enum field: [rows_per_zone] is the row count of the FIRST zone
    plan, cast to u16; every zone is then added with [add_zone_values]. *)
Definition rows_per_zone_of (first_len : N) : N := first_len mod 2 ^ zidx_rpz_bits.

Fixpoint build_zones (variants : list bytes) (rpz : N) (zones : list (N * list bytes))
                     (acc : list (N * list (list N))) : option (list (N * list (list N))) :=
  match zones with
  | [] => Some acc
  | (zid, vals) :: r =>
      match add_zone_values variants rpz vals with
      | None => None
      | Some bitsets => build_zones variants rpz r (am_set zid bitsets acc)
      end
  end.

Definition build_with (variants : list bytes) (rpz : N) (zones : list (N * list bytes)) : option ebm :=
  match build_zones variants rpz zones [] with
  | Some zs => Some {| e_variants := variants; e_rpz := rpz; e_zones := zs |}
  | None => None
  end.

Definition build_all (variants : list bytes) (zones : list (N * list bytes)) : option ebm :=
  let rpz := match zones with
             | [] => 0
             | (_, vals) :: _ => rows_per_zone_of (N.of_nat (length vals))
             end in
  build_with variants rpz zones.

(** [bytes.iter().any(|b| *b != 0)] *)
Definition has_any (bs : list N) : bool := existsb (fun b => negb (b =? 0)) bs.

(** [EnumBitmapIndex::has_any(zone, variant)] *)
Definition index_has_any (ix : ebm) (zid : N) (vid : nat) : bool :=
  match am_get zid (e_zones ix) with
  | Some bitsets => match nth_error bitsets vid with Some bs => has_any bs | None => false end
  | None => false
  end.

(** the [Neq] loop: some bitset other than [variant_id] is non-empty *)
Fixpoint any_other (bitsets : list (list N)) (i vid : nat) : bool :=
  match bitsets with
  | [] => false
  | bs :: r => (negb (Nat.eqb i vid) && has_any bs) || any_other r (S i) vid
  end.

(** [EnumZonePruner::prune(op, variant_id)]; the result order follows a HashMap in
    Rust, here the ids are sorted. *)
Definition zone_included (op : cmp_op) (vid : nat) (bitsets : list (list N)) : bool :=
  match op with
  | OEq => match nth_error bitsets vid with Some bs => has_any bs | None => false end
  | ONeq => any_other bitsets O vid
  | _ => false
  end.
Definition prune (ix : ebm) (op : cmp_op) (vid : nat) : list N :=
  zs_of_list (map fst (filter (fun e => zone_included op vid (snd e)) (e_zones ix))).

(** [EnumPruner::attempt]: only [=] and [!=] (the latter as regenerated); a literal that
    is not a declared variant gives [None] (as regenerated). *)
Definition op_answered (op : cmp_op) : bool :=
  match op with
  | OEq => true
  | ONeq => zidx_enum_handles_neq
  | _ => false
  end.

Definition attempt (ix : option ebm) (op : cmp_op) (lit : bytes) : option (list N) :=
  if negb (op_answered op) then None else
  match ix with
  | None => None                      (* .ebm file could not be loaded *)
  | Some ix =>
      match position (e_variants ix) lit with
      | None => if zidx_enum_undeclared_none then None else Some []
      | Some vid => Some (prune ix op vid)
      end
  end.

(** [EnumPruner::apply]: the literal must be a [ScalarValue::Utf8] *)
Definition apply (ix : option ebm) (op : option cmp_op) (lit : option (option bytes)) : option (list N) :=
  match op, lit with
  | Some op, Some (Some s) => attempt ix op s
  | _, _ => None
  end.

(** What a query sees for strategy [EnumBitmap]. *)
Definition select_enum (ix : option ebm) (all_zones : list N) (op : cmp_op) (lit : bytes) : list N :=
  select SEnum op false all_zones (attempt ix op lit).

(** Brute-force meaning of a probe on one row value (string comparison). *)
Definition row_matches (op : cmp_op) (v lit : bytes) : bool :=
  match op with
  | OEq => bytes_eqb v lit
  | ONeq => negb (bytes_eqb v lit)
  | OGt => match bytes_cmp v lit with Gt => true | _ => false end
  | OGte => match bytes_cmp v lit with Lt => false | _ => true end
  | OLt => match bytes_cmp v lit with Lt => true | _ => false end
  | OLte => match bytes_cmp v lit with Gt => false | _ => true end
  | OIn => bytes_eqb v lit
  end.
