(** Model of the file-system protocol of [SegmentIndex::save]
    (src/engine/core/segment/segment_index.rs) and of what a restart loads after a
    crash at any point of it.  The steps are not written here: they are
    [Params.index_save_steps], regenerated from the Rust source on every run by
    tools/params/p25_index_save.py.

    Three names of the shard directory matter: the index file, the temporary file and
    "any other path" (e.g. a backup).  A file holds a complete content or is partially
    written.  Creating a file goes through the partial state (a crash can fall there);
    a rename is atomic (POSIX rename; trusted); a rename whose source is missing fails
    and [save] returns its error (modelled as: nothing changes).

    [load]: what [SegmentIndex::load] obtains from the index file: [Some c] when the
    file is there and complete, [None] when it is missing or unreadable - in that case
    the engine falls back to listing the directories, published or not (the fallback
    that C11 is about: an unpublished directory becomes live). *)
From Coq Require Import List Arith Bool.
Import ListNotations.
From Snel Require Import Gen.Params.

Inductive fname := Idx | Tmp | Aux.
Inductive fs_step :=
| Trunc (a : fname)            (* the file is created / truncated: partially written *)
| Fill (a : fname)             (* its content is complete (written, flushed, synced) *)
| Rename (a b : fname)
| Remove (a : fname)
| Copy (a b : fname).

Definition fname_of (n : nat) : fname :=
  match n with 0 => Idx | 1 => Tmp | _ => Aux end.

Definition steps_of (t : nat * nat * nat) : list fs_step :=
  let '(op, a, b) := t in
  match op with
  | 0 => [Trunc (fname_of a); Fill (fname_of a)]
  | 1 => [Rename (fname_of a) (fname_of b)]
  | 2 => [Remove (fname_of a)]
  | _ => [Trunc (fname_of b); Copy (fname_of a) (fname_of b)]
  end.

Definition save_steps : list fs_step := flat_map steps_of index_save_steps.

Section FS.
  Variable C : Type.

  Inductive cont := Full (c : C) | Partial.

  Record fs := mkFs { f_idx : option cont; f_tmp : option cont; f_aux : option cont }.

  Definition get (a : fname) (s : fs) : option cont :=
    match a with Idx => f_idx s | Tmp => f_tmp s | Aux => f_aux s end.

  Definition set (a : fname) (v : option cont) (s : fs) : fs :=
    match a with
    | Idx => mkFs v (f_tmp s) (f_aux s)
    | Tmp => mkFs (f_idx s) v (f_aux s)
    | Aux => mkFs (f_idx s) (f_tmp s) v
    end.

  Definition fname_eqb (a b : fname) : bool :=
    match a, b with Idx, Idx | Tmp, Tmp | Aux, Aux => true | _, _ => false end.

  (** one step of a save that writes the content [new] *)
  Definition exec1 (new : C) (s : fs) (st : fs_step) : fs :=
    match st with
    | Trunc a => set a (Some Partial) s
    | Fill a => set a (Some (Full new)) s
    | Rename a b =>
        match get a s with
        | Some c => if fname_eqb a b then s else set a None (set b (Some c) s)
        | None => s
        end
    | Remove a => set a None s
    | Copy a b =>
        match get a s with
        | Some c => set b (Some c) s
        | None => s
        end
    end.

  (** every state the directory passes through: a crash can stop the save after any
      prefix of its steps *)
  Fixpoint states (new : C) (s : fs) (l : list fs_step) : list fs :=
    match l with
    | [] => [s]
    | st :: l' => s :: states new (exec1 new s st) l'
    end.

  Definition final (new : C) (s : fs) (l : list fs_step) : fs := fold_left (exec1 new) l s.

  Definition load (s : fs) : option C :=
    match f_idx s with Some (Full c) => Some c | _ => None end.
End FS.

Arguments Full {C}. Arguments Partial {C}.
Arguments mkFs {C}. Arguments load {C}. Arguments states {C}. Arguments final {C}. Arguments exec1 {C}.
Arguments f_idx {C}. Arguments f_tmp {C}. Arguments f_aux {C}.

(** the variant that keeps a backup: the index is moved away before the new file is
    renamed into place (used by the sensitivity theorem) *)
Definition backup_first_steps : list fs_step :=
  [Trunc Tmp; Fill Tmp; Rename Idx Aux; Rename Tmp Idx].
(** writing the index in place *)
Definition in_place_steps : list fs_step := [Trunc Idx; Fill Idx].
