(** Model of the WAL archive path of sneldb — executable definitions only.

    Rust sources: src/engine/core/wal/{wal_cleaner,wal_archiver,wal_archive,
    wal_archive_recovery}.rs, src/engine/types/mod.rs (ScalarValue serde),
    src/bin/wal_archive_manager.rs (calls [archive_log] / [recover_all]) and the call
    [WalCleaner::new(shard).cleanup_up_to(segment_id + 1)] in flush_worker.rs.

    A directory is an association list name -> object (names are byte strings).  WAL lines are
    classified, not parsed: JSON number/float parsing of serde_json is outside the model, the
    classification of a raw line is supplied with the case (and checked against the real code by the
    differential run).  Everything that happens *after* a line has been recognised — the mapping of
    JSON values to [ScalarValue], the BTreeMap, the MessagePack round trip, file naming, the fault
    behaviour of the archive directory, deletion, recovery order — is modelled here. *)
From Coq Require Import NArith ZArith List Bool.
From Snel Require Import Base.Bytes Gen.Params.
Import ListNotations.
Open Scope N_scope.

(** ** Values *)

(** A JSON value as serde_json delivers it to [ScalarValue::from]: integers are those that fit
    i64 or u64 ([JInt z] with -2^63 <= z < 2^64), every other number is an f64 (bit pattern),
    arrays/objects are carried as the text [serde_json::to_string] prints for them. *)
Inductive jvalue :=
| JNull | JBool (b : bool) | JInt (z : Z) | JFloat (bits : N) | JStr (s : bytes) | JNested (canon : bytes).

(** [ScalarValue] *)
Inductive scalar :=
| SNull | SBool (b : bool) | SInt (z : Z) | SFloat (bits : N) | STimestamp (z : Z)
| SUtf8 (s : bytes) | SBinary (b : bytes).

Definition i64_max : Z := (2 ^ 63 - 1)%Z.

(** [impl From<JsonValue> for ScalarValue] — the lossy step of reading a WAL line:
    u64 above i64::MAX becomes its decimal text, arrays/objects become their JSON text. *)
Definition scalar_of_json (v : jvalue) : scalar :=
  match v with
  | JNull => SNull
  | JBool b => SBool b
  | JInt z => if (z <=? i64_max)%Z then SInt z else SUtf8 (dec_of_Z z)
  | JFloat bits => SFloat bits
  | JStr s => SUtf8 s
  | JNested c => SUtf8 c
  end.

(** standard base64 with padding ([BASE64_STANDARD.encode]) *)
Definition b64_char (i : N) : N :=
  if i <? 26 then 65 + i else if i <? 52 then 97 + (i - 26) else if i <? 62 then 48 + (i - 52)
  else if i =? 62 then 43 else 47.
Fixpoint base64 (b : bytes) : bytes :=
  match b with
  | [] => []
  | [x] => [b64_char (x / 4); b64_char ((x mod 4) * 16); 61; 61]
  | [x; y] => [b64_char (x / 4); b64_char ((x mod 4) * 16 + y / 16); b64_char ((y mod 16) * 4); 61]
  | x :: y :: z :: r =>
      b64_char (x / 4) :: b64_char ((x mod 4) * 16 + y / 16) :: b64_char ((y mod 16) * 4 + z / 64)
      :: b64_char (z mod 64) :: base64 r
  end.

(** finite f64 bit pattern: exponent field not all ones *)
Definition f64_finite (bits : N) : bool := negb (((bits / 2 ^ 52) mod 2 ^ 11) =? 2047).

(** One trip through the archive encoding: [impl Serialize for ScalarValue] into MessagePack, then
    [impl Deserialize] = [serde_json::Value::deserialize] followed by [ScalarValue::from].
    Timestamp -> Int64, Binary -> base64 text, NaN/inf -> Null (serde_json's [visit_f64]). *)
Definition mp_roundtrip (v : scalar) : scalar :=
  match v with
  | SNull => SNull
  | SBool b => SBool b
  | SInt z => SInt z
  | SFloat bits => if f64_finite bits then SFloat bits else SNull
  | STimestamp z => SInt z
  | SUtf8 s => SUtf8 s
  | SBinary b => SUtf8 (base64 b)
  end.

(** ** Entries *)

Record entry := mkEntry {
  e_ts : N; e_ctx : bytes; e_type : bytes; e_payload : list (bytes * scalar); e_id : N }.

(** the fields of a recognised WAL line, payload pairs in line order *)
Record jentry := mkJEntry {
  j_ts : N; j_ctx : bytes; j_type : bytes; j_payload : list (bytes * jvalue); j_id : N }.

(** [BTreeMap::insert]: sorted by key bytes, a later duplicate replaces the value *)
Fixpoint map_insert {A} (k : bytes) (v : A) (m : list (bytes * A)) : list (bytes * A) :=
  match m with
  | [] => [(k, v)]
  | (k', v') :: r =>
      match bytes_cmp k k' with
      | Lt => (k, v) :: m
      | Eq => (k, v) :: r
      | Gt => (k', v') :: map_insert k v r
      end
  end.
Definition build_map {A} (ps : list (bytes * A)) : list (bytes * A) :=
  fold_left (fun m p => map_insert (fst p) (snd p) m) ps [].

Definition entry_of_json (j : jentry) : entry :=
  mkEntry (j_ts j) (j_ctx j) (j_type j)
          (build_map (map (fun p => (fst p, scalar_of_json (snd p))) (j_payload j))) (j_id j).

Definition mp_entry (e : entry) : entry :=
  mkEntry (e_ts e) (e_ctx e) (e_type e) (map (fun p => (fst p, mp_roundtrip (snd p))) (e_payload e)) (e_id e).

(** A line of a WAL file as [WalArchive::from_wal_file] sees it. *)
Inductive line :=
| LBadUtf8              (* not valid UTF-8: [BufRead::lines] yields Err, the whole read fails *)
| LBlank                (* [line.trim().is_empty()]: skipped *)
| LJunk                 (* does not deserialize as a WalEntry (torn tail, foreign text): skipped *)
| LEntry (j : jentry).

Fixpoint parse_lines (ls : list line) : option (list entry) :=
  match ls with
  | [] => Some []
  | LBadUtf8 :: _ => None
  | LBlank :: r => parse_lines r
  | LJunk :: r => parse_lines r
  | LEntry j :: r => match parse_lines r with Some es => Some (entry_of_json j :: es) | None => None end
  end.

(** ** Directories *)

Inductive wobj := WFile (ls : list line) | WDir.

Record afile := mkAFile {
  a_log_id : N; a_start : N; a_end : N; a_count : N; a_entries : list entry }.
Inductive aobj :=
| AFile (f : afile)     (* a decodable archive *)
| AGarbage              (* a regular file that does not decode (truncated / foreign) *)
| ADirEnt.              (* a directory occupying the name *)

Definition wdir := list (bytes * wobj).
Definition adir := list (bytes * aobj).

(** state of the shard's archive directory path *)
Inductive aroot := RMissing | RNotDir | RDir (d : adir).

Fixpoint lookup {A} (n : bytes) (d : list (bytes * A)) : option A :=
  match d with
  | [] => None
  | (n', o) :: r => if bytes_eqb n n' then Some o else lookup n r
  end.

(** create or replace the object under a name *)
Fixpoint put {A} (n : bytes) (o : A) (d : list (bytes * A)) : list (bytes * A) :=
  match d with
  | [] => [(n, o)]
  | (n', o') :: r => if bytes_eqb n n' then (n, o) :: r else (n', o') :: put n o r
  end.

(** ** File names *)

Fixpoint strip_prefix (p s : bytes) : option bytes :=
  match p, s with
  | [], _ => Some s
  | x :: p', y :: s' => if x =? y then strip_prefix p' s' else None
  | _ :: _, [] => None
  end.
Definition strip_suffix (q s : bytes) : option bytes :=
  match strip_prefix (rev q) (rev s) with Some r => Some (rev r) | None => None end.

Definition u64_max : N := 2 ^ 64 - 1.

(** value of a run of ASCII digits; [None] on a non-digit or when the value passes u64::MAX *)
Fixpoint digits_val (s : bytes) (acc : N) : option N :=
  match s with
  | [] => Some acc
  | c :: r =>
      if is_digit c then
        let acc' := acc * 10 + digit_val c in
        if acc' <=? u64_max then digits_val r acc' else None
      else None
  end.

(** [str::parse::<u64>]: optional '+', at least one digit, no overflow *)
Definition parse_u64 (s : bytes) : option N :=
  let ds := match s with c :: r => if c =? 43 then r else s | [] => s end in
  match ds with [] => None | _ => digits_val ds 0 end.

(** the id a directory scan assigns to a name ("wal-<u64>.log"), if any *)
Definition parse_log_name (n : bytes) : option N :=
  match strip_prefix walarch_log_prefix n with
  | None => None
  | Some s => match strip_suffix walarch_log_suffix s with None => None | Some num => parse_u64 num end
  end.

(** [format!("{:0w}", n)] *)
Definition pad_dec (w : nat) (n : N) : bytes :=
  if n <? 10 ^ N.of_nat w then pad_digits w n else dec_of_N n.

(** the file [archive_log id] opens: "wal-{:05}.log" *)
Definition log_name (id : N) : bytes :=
  walarch_log_prefix ++ pad_dec walarch_pad_width id ++ walarch_log_suffix.

(** What a directory scan (archiver and cleaner use the same one) makes of a name: the id, when the name
    parses as "wal-<u64>.log", the id is below [keep] and — since fix 1c3fa90, flag read from the Rust
    text — the name is exactly the canonical name [archive_log] opens for that id. *)
Definition scan_id (n : bytes) (keep : N) : option N :=
  match parse_log_name n with
  | Some id =>
      if walarch_eligible id keep && (negb walarch_scan_canonical_only || bytes_eqb n (log_name id))
      then Some id else None
  | None => None
  end.

(** [generate_filename]: "wal-{:05}-{start}-{end}.wal.zst" *)
Definition archive_name (id s e : N) : bytes :=
  walarch_arch_prefix ++ pad_dec walarch_arch_pad_width id ++ walarch_arch_sep1 ++ dec_of_N s
  ++ walarch_arch_sep2 ++ dec_of_N e ++ walarch_arch_suffix.

(** [Path::extension() == "zst"]: ends with ".zst" and something precedes the dot *)
Definition has_ext (n : bytes) : bool :=
  match strip_suffix walarch_ext n with Some (_ :: _) => true | _ => false end.

(** ** Building an archive ([from_wal_file]) *)

Definition ts_min (es : list entry) : N := fold_left (fun a e => N.min a (e_ts e)) es u64_max.
Definition ts_max (es : list entry) : N := fold_left (fun a e => N.max a (e_ts e)) es 0.

(** The header of the archive of [es]; the body that a later read returns is the MessagePack
    round trip of the entries. *)
Definition make_archive (id : N) (es : list entry) : afile :=
  let n := N.of_nat (length es) in
  mkAFile id (if n =? 0 then 0 else ts_min es) (ts_max es) n (map mp_entry es).

Definition afile_name (f : afile) : bytes := archive_name (a_log_id f) (a_start f) (a_end f).

(** ** Faults *)

(** outcome of the I/O of one archive write, chosen by the environment per log id:
    [IoFailEarly]: fails before the archive file is created (serialisation/compression, open);
    [IoFailLate]: [File::create] succeeded (truncating whatever was there) and the write failed. *)
Inductive io_outcome := IoOk | IoFailEarly | IoFailLate.

Record faults := mkFaults {
  f_io : N -> io_outcome;        (* per log id *)
  f_del_ok : bytes -> bool }.    (* per WAL file name: does [remove_file] succeed *)

(** ** The archiver *)

(** [WalArchiver::archive_log]: result [Some name] = Ok(path), [None] = Err. *)
Definition archive_log (io : N -> io_outcome) (wal : wdir) (root : aroot) (id : N) : aroot * option bytes :=
  match lookup (log_name id) wal with
  | None => (root, None)                         (* "WAL file not found" *)
  | Some WDir => (root, None)                    (* open succeeds, reading fails (EISDIR) *)
  | Some (WFile ls) =>
      match parse_lines ls with
      | None => (root, None)                     (* invalid UTF-8 in a line *)
      | Some es =>
          let f := make_archive id es in
          match root with
          | RNotDir => (RNotDir, None)           (* create_dir_all fails *)
          | _ =>
              let d := match root with RDir d => d | _ => [] end in
              let nm := afile_name f in
              match lookup nm d with
              | Some ADirEnt => (RDir d, None)   (* File::create: is a directory *)
              | _ =>
                  match io id with
                  | IoFailEarly => (RDir d, None)
                  | IoFailLate => (RDir (if walarch_create_truncates then put nm AGarbage d else d), None)
                  | IoOk => (RDir (put nm (AFile f) d), Some nm)
                  end
              end
          end
      end
  end.

(** [WalArchiver::archive_logs_up_to]: one [archive_log] per directory entry the scan accepts
    (in directory order; the results do not depend on it). *)
Fixpoint archive_scan (io : N -> io_outcome) (wal : wdir) (todo : list (bytes * wobj)) (root : aroot)
         (keep : N) : aroot * list (option bytes) :=
  match todo with
  | [] => (root, [])
  | (n, _) :: r =>
      match scan_id n keep with
      | Some id =>
          let (root1, res) := archive_log io wal root id in
          let (root2, rs) := archive_scan io wal r root1 keep in
          (root2, res :: rs)
      | None => archive_scan io wal r root keep
      end
  end.
Definition archive_logs_up_to (io : N -> io_outcome) (wal : wdir) (root : aroot) (keep : N) :=
  archive_scan io wal wal root keep.

(** ** The cleaner *)

Definition is_none {A} (o : option A) : bool := match o with None => true | Some _ => false end.
Definition is_wfile (o : wobj) : bool := match o with WFile _ => true | WDir => false end.

(** the deletion loop: [remove_file] on every entry the scan accepts
    (fails on a directory, or when the environment says so) *)
Definition delete_hits (del_ok : bytes -> bool) (keep : N) (p : bytes * wobj) : bool :=
  match scan_id (fst p) keep with
  | Some _ => is_wfile (snd p) && del_ok (fst p)
  | None => false
  end.
Definition delete_pass (del_ok : bytes -> bool) (keep : N) (d : wdir) : wdir :=
  filter (fun p => negb (delete_hits del_ok keep p)) d.

(** The world the cleaner acts on.  [w_wal] is the WAL directory of the configuration (what
    [WalArchiver::new] reads).  [w_cwal = None]: the cleaner was built by [WalCleaner::new] and works on
    that same directory (the production path); [Some d]: it was built by [with_wal_dir] on another
    directory [d].  Since fix db8e58e (flag read from the Rust text) the cleaner's archiver reads the
    directory the cleaner deletes from. *)
Record world := mkWorld { w_wal : wdir; w_cwal : option wdir; w_root : aroot }.

Definition cleaner_dir (w : world) : wdir := match w_cwal w with Some d => d | None => w_wal w end.
Definition set_cleaner_dir (w : world) (d : wdir) (root : aroot) : world :=
  match w_cwal w with
  | Some _ => mkWorld (w_wal w) (Some d) root
  | None => mkWorld d None root
  end.

(** the directory the cleaner's archive pass reads *)
Definition archiver_dir (w : world) : wdir :=
  if walarch_cleaner_archives_own_dir then cleaner_dir w else w_wal w.

(** [WalCleaner::cleanup_up_to]; second component: the archive results ([]) in plain mode). *)
Definition cleanup_up_to (conservative : bool) (fl : faults) (w : world) (keep : N)
  : world * list (option bytes) :=
  if conservative then
    let (root1, res) := archive_logs_up_to (f_io fl) (archiver_dir w) (w_root w) keep in
    if walarch_abort_on_failure && existsb is_none res
    then (mkWorld (w_wal w) (w_cwal w) root1, res)
    else (set_cleaner_dir w (delete_pass (f_del_ok fl) keep (cleaner_dir w)) root1, res)
  else (set_cleaner_dir w (delete_pass (f_del_ok fl) keep (cleaner_dir w)) (w_root w), []).

(** ** Recovery *)

(** [str::split(sep)] *)
Fixpoint split_on (c : N) (s : bytes) : list bytes :=
  match s with
  | [] => [[]]
  | x :: r =>
      if x =? c then [] :: split_on c r
      else match split_on c r with h :: t => (x :: h) :: t | [] => [[x]] end
  end.

Definition key_max : N * N * N := (u64_max, u64_max, u64_max).

(** [archive_sort_key]: (id, start, end) parsed from "wal-{id}-{start}-{end}.wal.zst", anything else last *)
Definition archive_sort_key (n : bytes) : N * N * N :=
  match strip_prefix walarch_key_prefix n with
  | None => key_max
  | Some s =>
      match strip_suffix walarch_key_suffix s with
      | None => key_max
      | Some m =>
          match split_on walarch_key_sep m with
          | [a; b; c] =>
              match parse_u64 a, parse_u64 b, parse_u64 c with
              | Some x, Some y, Some z => (x, y, z)
              | _, _, _ => key_max
              end
          | _ => key_max
          end
      end
  end.

Definition key_cmp (k1 k2 : N * N * N) : comparison :=
  let '(a1, b1, c1) := k1 in
  let '(a2, b2, c2) := k2 in
  match a1 ?= a2 with
  | Eq => match b1 ?= b2 with Eq => c1 ?= c2 | o => o end
  | o => o
  end.

(** the order [list_archives] sorts by: plain path order before fix 06752f6, since then the numeric key
    with the path as tie-break (flag read from the Rust text) *)
Definition name_leb (a b : bytes * aobj) : bool :=
  let by_path := match bytes_cmp (fst a) (fst b) with Gt => false | _ => true end in
  if walarch_recovery_numeric_sort then
    match key_cmp (archive_sort_key (fst a)) (archive_sort_key (fst b)) with
    | Lt => true
    | Gt => false
    | Eq => by_path
    end
  else by_path.

Fixpoint insert_by {A} (leb : A -> A -> bool) (x : A) (l : list A) : list A :=
  match l with
  | [] => [x]
  | y :: r => if leb x y then x :: l else y :: insert_by leb x r
  end.
Definition isort_by {A} (leb : A -> A -> bool) (l : list A) : list A :=
  fold_right (insert_by leb) [] l.

(** [list_archives]: [None] = Err (the path exists but cannot be listed) *)
Definition list_archives (root : aroot) : option adir :=
  match root with
  | RMissing => Some []
  | RNotDir => None
  | RDir d => Some (isort_by name_leb (filter (fun p => has_ext (fst p)) d))
  end.

Definition entries_of (o : aobj) : list entry :=
  match o with AFile f => a_entries f | _ => [] end.

(** [recover_all]: archives in name order, undecodable ones skipped *)
Definition recover_all (root : aroot) : option (list entry) :=
  match list_archives root with
  | Some l => Some (flat_map (fun p => entries_of (snd p)) l)
  | None => None
  end.

(** ** Histories: a sequence of cleanups, the WAL directory being whatever the writer left
    between them, the archive directory persisting. *)
Record round := mkRound { r_wal : wdir; r_keep : N; r_faults : faults }.

Definition run_round (root : aroot) (r : round) : aroot * wdir * list (option bytes) :=
  let (w', res) := cleanup_up_to true (r_faults r) (mkWorld (r_wal r) None root) (r_keep r) in
  (w_root w', w_wal w', res).

Fixpoint run_history (root : aroot) (h : list round) : aroot :=
  match h with
  | [] => root
  | r :: h' => run_history (fst (fst (run_round root r))) h'
  end.

(** ** Decidable description of the one known failing input class that is left *)

(** the archive name a log of this round would be written under *)
Definition round_archive_names (wal : wdir) (keep : N) : list bytes :=
  flat_map (fun p =>
    match scan_id (fst p) keep with
    | Some id =>
        match lookup (log_name id) wal with
        | Some (WFile ls) =>
            match parse_lines ls with Some es => [afile_name (make_archive id es)] | None => [] end
        | _ => []
        end
    | None => []
    end) wal.
Definition name_reused (nm : bytes) (wal : wdir) (keep : N) : bool :=
  existsb (bytes_eqb nm) (round_archive_names wal keep).

(** ** From the bytes of a log file to its lines, and which lines are entries

    Both readers of a log file — [WalArchive::from_wal_file] and [WalRecovery::replay_log_file] — iterate
    [BufReader::lines()]: every piece that ends in "\n" is a line (one "\r" before the "\n" is dropped
    with it), and what follows the last "\n" is a line too unless it is empty.  In particular a last
    line WITHOUT a trailing newline is a line like any other: the WAL writer emits the JSON text and the
    "\n" as two writes, so a crash between them leaves exactly that — a complete entry that replay
    accepts.  A line is an entry iff it deserializes as a WalEntry ([LEntry]); surrounding whitespace
    (including a "\r" kept on an unterminated last line) does not matter to serde_json. *)

(** drop one trailing "\r" *)
Definition strip_cr (p : bytes) : bytes :=
  match rev_append p [] with      (* the linear-time reverse: lines can be long *)
  | c :: t => if c =? 13 then rev_append t [] else p
  | [] => p
  end.

(** the pieces between "\n"s: all but the last were terminated *)
Fixpoint lines_of_pieces (ps : list bytes) : list bytes :=
  match ps with
  | [] => []
  | [last] => match last with [] => [] | _ => [last] end
  | p :: r => strip_cr p :: lines_of_pieces r
  end.

(** [BufRead::lines] on the content of a file *)
Definition split_lines (content : bytes) : list bytes := lines_of_pieces (split_on 10 content).

(** the reader's view of a file whose raw lines are classified by [cls] *)
Definition file_lines (cls : bytes -> line) (content : bytes) : list line := map cls (split_lines content).

(** [WalRecovery::replay_log_file]: the entries WAL replay restores from the lines of one file, in
    order — a line that is not UTF-8, blank or not a WalEntry is skipped and replay goes on.
    (Replay aborts at an entry whose context id or event type is blank; not modelled, the archive keeps
    such an entry.) *)
Fixpoint replay_entries (ls : list line) : list entry :=
  match ls with
  | [] => []
  | LEntry j :: r => entry_of_json j :: replay_entries r
  | _ :: r => replay_entries r
  end.

(** the order in which [MemTable::iter] returns replayed events: by context id, insertion order within *)
Definition ctx_leb (a b : entry) : bool :=
  match bytes_cmp (e_ctx a) (e_ctx b) with Gt => false | _ => true end.
Definition memtable_order (es : list entry) : list entry := isort_by ctx_leb es.
