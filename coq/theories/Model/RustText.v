(** Text functions of the Rust standard library that the value path relies on — executable
    definitions only: [str::trim] (Unicode White_Space, on UTF-8 bytes), [str::parse::<u64>],
    [str::parse::<i64>], [str::parse::<f64>] (correctly rounded; grammar of core::num::dec2flt),
    [eq_ignore_ascii_case].  Strings are UTF-8 byte lists. *)
From Coq Require Import ZArith NArith List Bool.
From Snel Require Import Base.Bytes Model.Float64.
Import ListNotations.
Open Scope N_scope.

Definition u64_max : Z := (2 ^ 64 - 1)%Z.
Definition i64_max : Z := (2 ^ 63 - 1)%Z.
Definition i64_min : Z := (- 2 ^ 63)%Z.

(** ---- Unicode White_Space (char::is_whitespace) on UTF-8 ----
    U+0009..U+000D, U+0020, U+0085, U+00A0, U+1680, U+2000..U+200A, U+2028, U+2029, U+202F,
    U+205F, U+3000. *)
Definition ws3 (a b c : N) : bool :=
  ((a =? 0xE1) && (b =? 0x9A) && (c =? 0x80))
  || ((a =? 0xE2) && (b =? 0x80) &&
        (((0x80 <=? c) && (c <=? 0x8A)) || (c =? 0xA8) || (c =? 0xA9) || (c =? 0xAF)))
  || ((a =? 0xE2) && (b =? 0x81) && (c =? 0x9F))
  || ((a =? 0xE3) && (b =? 0x80) && (c =? 0x80)).
Definition ws2 (a b : N) : bool := (a =? 0xC2) && ((b =? 0x85) || (b =? 0xA0)).

(** length in bytes of a whitespace character at the start of [s] (0 = none) *)
Definition ws_len_start (s : bytes) : nat :=
  match s with
  | a :: r =>
      if is_ascii_ws a then 1%nat else
      match r with
      | b :: r2 =>
          if ws2 a b then 2%nat else
          match r2 with
          | c :: _ => if ws3 a b c then 3%nat else 0%nat
          | [] => 0%nat
          end
      | [] => 0%nat
      end
  | [] => 0%nat
  end.
(** the same at the end; [rs] is the reversed string *)
Definition ws_len_end (rs : bytes) : nat :=
  match rs with
  | c :: r =>
      if is_ascii_ws c then 1%nat else
      match r with
      | b :: r2 =>
          if ws2 b c then 2%nat else
          match r2 with
          | a :: _ => if ws3 a b c then 3%nat else 0%nat
          | [] => 0%nat
          end
      | [] => 0%nat
      end
  | [] => 0%nat
  end.

Fixpoint utrim_start_fuel (fuel : nat) (s : bytes) : bytes :=
  match fuel with
  | O => s
  | S f => match ws_len_start s with
           | O => s
           | n => utrim_start_fuel f (skipn n s)
           end
  end.
Fixpoint utrim_end_fuel (fuel : nat) (rs : bytes) : bytes :=
  match fuel with
  | O => rs
  | S f => match ws_len_end rs with
           | O => rs
           | n => utrim_end_fuel f (skipn n rs)
           end
  end.
Definition utrim_start (s : bytes) : bytes := utrim_start_fuel (length s) s.
Definition utrim_end (s : bytes) : bytes := rev (utrim_end_fuel (length s) (rev s)).
(** [str::trim] *)
Definition utrim (s : bytes) : bytes := utrim_end (utrim_start s).

(** ---- integers ---- *)
Fixpoint all_digits (s : bytes) : bool :=
  match s with [] => true | c :: r => is_digit c && all_digits r end.
Fixpoint digits_val (s : bytes) (acc : Z) : Z :=
  match s with
  | [] => acc
  | c :: r => digits_val r (acc * 10 + Z.of_N (digit_val c))%Z
  end.
Definition digits_opt (s : bytes) : option Z :=
  match s with
  | [] => None
  | _ => if all_digits s then Some (digits_val s 0%Z) else None
  end.

(** [s.parse::<u64>()]: optional '+', at least one ASCII digit, no overflow. *)
Definition parse_u64 (s : bytes) : option Z :=
  let body := match s with 43 :: r => r | _ => s end in
  match digits_opt body with
  | Some v => if (v <=? u64_max)%Z then Some v else None
  | None => None
  end.
(** [s.parse::<i64>()]: optional '+' or '-'. *)
Definition parse_i64 (s : bytes) : option Z :=
  match s with
  | 45 :: r => match digits_opt r with
               | Some v => if (v <=? 2 ^ 63)%Z then Some (- v)%Z else None
               | None => None
               end
  | _ =>
      let body := match s with 43 :: r => r | _ => s end in
      match digits_opt body with
      | Some v => if (v <=? i64_max)%Z then Some v else None
      | None => None
      end
  end.

(** ---- floats: [Sign? ( inf | infinity | nan | Number )], Number = (D+ | D+ '.' D* | D* '.' D+) Exp?,
    Exp = [eE] Sign? D+ ; case-insensitive keywords.  Result: bit pattern. *)
Fixpoint span_digits (s : bytes) (acc : Z) (cnt : Z) : Z * Z * bytes :=
  match s with
  | c :: r => if is_digit c then span_digits r (acc * 10 + Z.of_N (digit_val c))%Z (cnt + 1)%Z
              else (acc, cnt, s)
  | [] => (acc, cnt, s)
  end.
Definition lower (s : bytes) : bytes := map to_lower s.
Definition f64_nan : Z := (2047 * two52 + 2 ^ 51)%Z.

Definition split_sign (s : bytes) : bool * bytes :=
  match s with
  | 45 :: r => (true, r)
  | 43 :: r => (false, r)
  | _ => (false, s)
  end.
Definition kw_inf : bytes := [105; 110; 102].
Definition kw_infinity : bytes := [105; 110; 102; 105; 110; 105; 116; 121].
Definition kw_nan : bytes := [110; 97; 110].

(** the part after the optional sign *)
Definition parse_f64_unsigned (neg : bool) (body : bytes) : option Z :=
  match body with
  | [] => None
  | _ =>
    let lb := lower body in
    if bytes_eqb lb kw_inf || bytes_eqb lb kw_infinity then Some (f64_with_sign neg f64_inf)
    else if bytes_eqb lb kw_nan then Some (f64_with_sign neg f64_nan)
    else
      let '(m1, n1, r1) := span_digits body 0%Z 0%Z in
      let '(m2, n2, r2) := match r1 with
                           | 46 :: r => span_digits r m1 0%Z
                           | _ => (m1, 0%Z, r1)
                           end in
      if (n1 + n2 =? 0)%Z then None else
      match r2 with
      | [] => Some (f64_of_dec neg m2 (- n2)%Z)
      | c :: r =>
          if (c =? 101) || (c =? 69) then
            let '(eneg, r') := split_sign r in
            match digits_opt r' with
            | Some e => Some (f64_of_dec neg m2 ((if eneg then - e else e) - n2)%Z)
            | None => None
            end
          else None
      end
  end.
Definition parse_f64 (s : bytes) : option Z :=
  let '(neg, body) := split_sign s in parse_f64_unsigned neg body.

(** [a.eq_ignore_ascii_case(b)] *)
Definition eq_ignore_case (a b : bytes) : bool := bytes_eqb (lower a) (lower b).
