(** C02 — where the events of one type are stored, and what a query returns.
    Executable definitions only.

    A layout is the memtable (active + passive buffers: in-memory events) plus the published
    segments, each a list of zones of rows.  Flush, compaction and restart only change the layout
    (C03, C05, C01); this file says what QUERY returns from a given one
    (src/engine/core/read/flow/shard_pipeline.rs: memtable flow ‖ segment flow;
    read/memtable_query.rs; read/segment_query_runner.rs + zone/zone_hydrator.rs:
    candidate zones -> hydrate -> row filter).

    A flow whose row filter panics (NOT over a dropped comparison) delivers nothing. *)
From Coq Require Import ZArith NArith List Bool.
From Snel Require Import Base.Bytes Model.Value Model.Expr Model.Sem Model.Cond Model.Prune.
Import ListNotations.

Record zone := mk_zone { z_id : zid; z_rows : list event }.
Definition segment := list zone.
Record layout := mk_layout { l_mem : list event; l_segs : list segment }.

Definition seg_events (s : segment) : list event := flat_map z_rows s.
Definition events (L : layout) : list event := l_mem L ++ flat_map seg_events (l_segs L).

(** filter with a predicate that may panic: [None] as soon as an evaluated row panics *)
Fixpoint filter_opt {A} (p : A -> option bool) (l : list A) : option (list A) :=
  match l with
  | [] => Some []
  | x :: l' =>
      match p x, filter_opt p l' with
      | Some b, Some r => Some (if b then x :: r else r)
      | _, _ => None
      end
  end.

Definition zone_ids (s : segment) : list zid := map z_id s.

Section Run.
  Variable sch : schema.
  (** [ans i l]: what the pruning structure of segment number [i] answers for leaf [l] *)
  Variable ans : nat -> leaf -> option (list zid).

  Definition seg_candidates (q : query) (i : nat) (s : segment) : list zid :=
    candidates sch (ans i) (zone_ids s) (q_where q).

  (** rows of the candidate zones of one segment, before the row filter *)
  Definition seg_read (q : query) (i : nat) (s : segment) : list event :=
    flat_map (fun z => if memN (z_id z) (seg_candidates q i s) then z_rows z else []) s.

  Fixpoint segs_read (q : query) (i : nat) (ss : list segment) : list event :=
    match ss with
    | [] => []
    | s :: ss' => seg_read q i s ++ segs_read q (S i) ss'
    end.

  Definition run_query (L : layout) (q : query) : list event :=
    (match filter_opt (filter_mem sch q) (l_mem L) with Some r => r | None => [] end)
    ++ (match filter_opt (filter_seg sch q) (segs_read q 0 (l_segs L)) with Some r => r | None => [] end).
End Run.

(** The ideal pruning structure: exactly the zones holding a row that satisfies the leaf under the
    specification (used for the closed witnesses and as evidence that the soundness hypothesis of
    the theorems is satisfiable). *)
Definition ideal_ans (sch : schema) (s : segment) (l : leaf) : option (list zid) :=
  Some (map z_id (filter (fun z => existsb (fun ev => sat_atom sch (ev_row ev) (l_field l) (l_op l) (l_lit l)) (z_rows z)) s)).
