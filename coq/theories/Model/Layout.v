(** C02 — where the events of one type are stored, and what a query returns.
    Executable definitions only.

    A layout is the memtable (active + passive buffers: in-memory events) plus the published
    segments, each a list of zones of rows.  Flush, compaction and restart only change the layout
    (C03, C05, C01); this file says what QUERY returns from a given one
    (src/engine/core/read/flow/shard_pipeline.rs: memtable flow ‖ segment flow;
    read/memtable_query.rs; read/segment_query_runner.rs + zone/zone_hydrator.rs:
    candidate zones -> hydrate -> row filter).

    A flow whose row filter panics (NOT over a dropped comparison) delivers nothing. *)
From Coq Require Import ZArith NArith List Bool.
From Snel Require Import Base.Bytes Gen.Params Model.Value Model.Expr Model.Sem Model.Cond Model.Prune.
Import ListNotations.

Record zone := mk_zone { z_id : zid; z_rows : list event }.
Definition segment := list zone.
Record layout := mk_layout { l_mem : list event; l_segs : list segment }.

Definition seg_events (s : segment) : list event := flat_map z_rows s.
Definition events (L : layout) : list event := l_mem L ++ flat_map seg_events (l_segs L).

(** filter with a predicate that may panic: [None] as soon as an evaluated row panics *)
Fixpoint filter_opt {A} (p : A -> option bool) (l : list A) : option (list A) :=
  match l with
  | [] => Some []
  | x :: l' =>
      match p x, filter_opt p l' with
      | Some b, Some r => Some (if b then x :: r else r)
      | _, _ => None
      end
  end.

Definition zone_ids (s : segment) : list zid := map z_id s.

Section Run.
  Variable sch : schema.
  (** [ans i l]: what the pruning structure of segment number [i] answers for leaf [l] *)
  Variable ans : nat -> leaf -> option (list zid).

  Definition seg_candidates (q : query) (i : nat) (s : segment) : list czone :=
    candidates sch (ans i) (zone_ids s) (q_where q).

  Fixpoint all_candidates (q : query) (i : nat) (ss : list segment) : list (list czone) :=
    match ss with
    | [] => []
    | s :: ss' => seg_candidates q i s :: all_candidates q (S i) ss'
    end.

  (** zone_hydrator.rs: when at least one candidate zone (of any segment) carries a uid, only the
      uid-carrying candidates are hydrated; the others stay without columns and are skipped
      ([query_hydrate_tagged_only], Gen/Params.v: false once bare zones are tagged before hydration). *)
  Definition any_tagged (cs : list (list czone)) : bool :=
    existsb (fun l => existsb (fun z => snd z) l) cs.
  Definition hydrated (only_tagged : bool) (cand : list czone) (z : zone) : bool :=
    match ctag (z_id z) cand with
    | Some t => if only_tagged then t else true
    | None => false
    end.

  (** rows of the hydrated candidate zones of one segment, before the row filter; each row comes
      with the rows of its zone (the row filter sees the zone's column blocks) *)
  Definition seg_read (only_tagged : bool) (cand : list czone) (s : segment) : list (list event * event) :=
    flat_map (fun z => if hydrated only_tagged cand z then map (fun ev => (z_rows z, ev)) (z_rows z) else []) s.

  Fixpoint segs_read (only_tagged : bool) (cs : list (list czone)) (ss : list segment) : list (list event * event) :=
    match cs, ss with
    | c :: cs', s :: ss' => seg_read only_tagged c s ++ segs_read only_tagged cs' ss'
    | _, _ => []
    end.

  Definition read_rows (L : layout) (q : query) : list (list event * event) :=
    let cs := all_candidates q 0 (l_segs L) in
    segs_read (query_hydrate_tagged_only && any_tagged cs) cs (l_segs L).

  Definition run_query (L : layout) (q : query) : list event :=
    (match filter_opt (filter_mem sch q) (l_mem L) with Some r => r | None => [] end)
    ++ (match filter_opt (fun ze => filter_seg sch q (fst ze) (snd ze)) (read_rows L q) with
        | Some r => map snd r
        | None => []
        end).

  (** the candidate list mixes uid-carrying and bare zones: the bare ones are not read *)
  Definition mixed_provenance (L : layout) (q : query) : bool :=
    let cs := all_candidates q 0 (l_segs L) in
    query_hydrate_tagged_only && any_tagged cs && existsb (fun l => existsb (fun z => negb (snd z)) l) cs.

  (** some leaf of the query does not list a zone of some segment that holds a row satisfying the
      leaf (the pruning structure, or the dispatch around it, is not a superset there) *)
  Fixpoint fg_leaves (g : fg) : list leaf :=
    match g with
    | FLeaf l => [l]
    | FAnd a b | FOr a b => fg_leaves a ++ fg_leaves b
    | FNot a => fg_leaves a
    end.
  Definition leaf_holds (l : leaf) (z : zone) : bool :=
    existsb (fun ev => sat_atom sch (ev_row ev) (l_field l) (l_op l) (l_lit l)) (z_rows z).
  Definition seg_leaf_sound (i : nat) (s : segment) (l : leaf) : bool :=
    forallb (fun z => negb (leaf_holds l z) || cmem (z_id z) (leaf_zones sch (ans i) (zone_ids s) l)) s.
  Fixpoint segs_leaves_sound (ls : list leaf) (i : nat) (ss : list segment) : bool :=
    match ss with
    | [] => true
    | s :: ss' => forallb (seg_leaf_sound i s) ls && segs_leaves_sound ls (S i) ss'
    end.
  Definition leaves_sound (L : layout) (q : query) : bool :=
    match q_where q with
    | None => true
    | Some e => match build_fg e with
                | Some g => segs_leaves_sound (fg_leaves g) 0 (l_segs L)
                | None => true
                end
    end.
End Run.

(** The ideal pruning structure: exactly the zones holding a row that satisfies the leaf under the
    specification (used for the closed witnesses and as evidence that the soundness hypothesis of
    the theorems is satisfiable). *)
Definition ideal_ans (sch : schema) (s : segment) (l : leaf) : option (list zid) :=
  Some (map z_id (filter (fun z => existsb (fun ev => sat_atom sch (ev_row ev) (l_field l) (l_op l) (l_lit l)) (z_rows z)) s)).
