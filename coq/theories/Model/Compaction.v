(** Compaction on top of Model/Shard.v: one batch of the k-way policy at a time.
    Source: src/engine/core/compaction/{policy,segment_batch,compaction_worker,
    multi_uid_compactor,handover}.rs, src/engine/core/segment/segment_index.rs.
    Definitions only.

    The planner iterates hash maps, so the order of batches and the assignment of
    output ids is unspecified; the model therefore takes a batch (output id, input
    labels, uids) as a label and checks that it is one the policy can produce
    ([batch_ok]); the step functions then do what process_batch / commit_batch /
    reclaim do. *)
From Coq Require Import NArith List Bool.
From Snel Require Import Gen.Params Model.Shard.
Import ListNotations.
Open Scope N_scope.

Record batch := mkBatch { b_out : N; b_inputs : list N; b_uids : list N }.

Definition level_of (id : N) : N := id / level_span.

Definition index_labels (ix : list (N * list N)) : list N := map fst ix.

Fixpoint index_uids (ix : list (N * list N)) (id : N) : list N :=
  match ix with
  | [] => []
  | (i, us) :: r => if i =? id then us else index_uids r id
  end.

(** labels of one level that list [u], sorted *)
Definition labels_of_uid (ix : list (N * list N)) (lvl u : N) : list N :=
  sort_n (map fst (filter (fun e => (level_of (fst e) =? lvl) && memb u (snd e)) ix)).

Fixpoint chunks_fuel (fuel : nat) (k : nat) (l : list N) : list (list N) :=
  match fuel with
  | O => []
  | S f => match l with
           | [] => []
           | _ => firstn k l :: chunks_fuel f k (skipn k l)
           end
  end.
Definition chunks (k : nat) (l : list N) : list (list N) := chunks_fuel (S (length l)) k l.

Fixpoint list_eqb (a b : list N) : bool :=
  match a, b with
  | [], [] => true
  | x :: a', y :: b' => (x =? y) && list_eqb a' b'
  | _, _ => false
  end.

(** the input lists the policy plans for one uid at one level:
    fewer than [thr] labels: none; [thr <= n < k]: all of them (forced);
    otherwise the full chunks of [k] (a short last chunk is left over). *)
Definition planned_inputs (ix : list (N * list N)) (k : N) (lvl u : N) : list (list N) :=
  let labels := labels_of_uid ix lvl u in
  let n := len labels in
  let thr := N.max 1 ((k * 2) / 3) in
  if n <? thr then []
  else if n <? k then [labels]
  else filter (fun c => len c =? k) (chunks (N.to_nat k) labels).

(** [next_for_level] of an allocator seeded from the index labels *)
Definition next_out (ix : list (N * list N)) (lvl : N) : N :=
  lvl * level_span +
  fold_left (fun m i => if level_of i =? lvl then N.max m (N.succ (i mod level_span)) else m)
            (index_labels ix) 0.

(** A batch the policy can produce on index [ix] with fan-in [k]: every uid of
    the batch has exactly these inputs as one of its planned chunks, the inputs
    sit on one level, the output id is on the next level at or above the
    allocator's next free id (several plans of one round take consecutive ids;
    all uids of a batch share the FIRST plan's id). *)
Definition batch_ok (ix : list (N * list N)) (k : N) (b : batch) : bool :=
  match b_inputs b with
  | [] => false
  | i0 :: _ =>
      let lvl := level_of i0 in
      negb (is_empty (b_uids b))
      && forallb (fun i => level_of i =? lvl) (b_inputs b)
      && forallb (fun u => existsb (list_eqb (b_inputs b)) (planned_inputs ix k lvl u)) (b_uids b)
      && (level_of (b_out b) =? N.succ lvl)
      && (next_out ix (N.succ lvl) <=? b_out b)
  end.

(** ** merge: rows of one uid from all inputs, ordered by context id.
    The implementation's heap compares context ids only, so the order of equal
    contexts coming from different inputs is not specified; the model uses the
    stable order (inputs in label order). *)
Definition rows_of (ds : list segdir) (id : N) : list event :=
  concat (map srows (filter (fun d => sid d =? id) ds)).

Definition merge_rows (ds : list segdir) (inputs : list N) (u : N) : list event :=
  flush_order (concat (map (fun i => of_uid u (rows_of ds i)) inputs)).

Definition batch_rows (ds : list segdir) (b : batch) : list event :=
  concat (map (merge_rows ds (b_inputs b)) (b_uids b)).

(** ** the three visible steps of one batch *)

(** process_batch: the output directory is written (files of the batch's uids;
    an existing directory of that name keeps the files of other uids). *)
Definition cp_write (s : shard) (b : batch) : shard :=
  let keep := filter (fun e => negb (memb (euid e) (b_uids b))) (rows_of (dirs s) (b_out b)) in
  let others := filter (fun d => negb (sid d =? b_out b)) (dirs s) in
  mkShard (cap s) (mem s) (passives s) (inflight s) (live s)
          (others ++ [mkSeg (b_out b) (keep ++ batch_rows (dirs s) b)]) (index s)
          (walq s) (walfiles s) (wcur s) (wcnt s) (wunlinked s) (alloc0 s) (jobs s) (wlost s).

(** commit_batch, index part: retire the uids from the input entries, entries
    left without uids are drained (removed), the output entry is inserted. *)
Definition retire (ix : list (N * list N)) (b : batch) : list (N * list N) :=
  map (fun e => if memb (fst e) (b_inputs b)
                then (fst e, filter (fun u => negb (memb u (b_uids b))) (snd e)) else e) ix.

Definition drained (ix : list (N * list N)) (b : batch) : list N :=
  map fst (filter (fun e => memb (fst e) (b_inputs b) && is_empty (snd e)) (retire ix b)).

Definition cp_index (s : shard) (b : batch) : shard :=
  let ix1 := filter (fun e => negb (memb (fst e) (b_inputs b) && is_empty (snd e))) (retire (index s) b) in
  let ix2 := filter (fun e => negb (fst e =? b_out b)) ix1 ++ [(b_out b, b_uids b)] in
  mkShard (cap s) (mem s) (passives s) (inflight s) (live s) (dirs s) ix2
          (walq s) (walfiles s) (wcur s) (wcnt s) (wunlinked s) (alloc0 s) (jobs s) (wlost s).

(** commit_batch, live list part: drained labels leave, the output joins, sorted. *)
Definition cp_live (s : shard) (b : batch) (dr : list N) : shard :=
  mkShard (cap s) (mem s) (passives s) (inflight s)
          (sort_n (filter (fun i => negb (memb i dr)) (live s) ++ [b_out b])) (dirs s) (index s)
          (walq s) (walfiles s) (wcur s) (wcnt s) (wunlinked s) (alloc0 s) (jobs s) (wlost s).

(** reclaim: drained directories are removed as a whole. *)
Definition cp_reclaim (s : shard) (dr : list N) : shard :=
  mkShard (cap s) (mem s) (passives s) (inflight s) (live s)
          (filter (fun d => negb (memb (sid d) dr)) (dirs s)) (index s)
          (walq s) (walfiles s) (wcur s) (wcnt s) (wunlinked s) (alloc0 s) (jobs s) (wlost s).

Inductive clabel :=
| CBase (l : label)
| CWrite (b : batch)          (* output written *)
| CIndex (b : batch)          (* segments.idx replaced *)
| CLive (b : batch) (dr : list N)   (* live list updated *)
| CReclaim (dr : list N).

Definition cstep (s : shard) (l : clabel) : shard :=
  match l with
  | CBase x => step s x
  | CWrite b => cp_write s b
  | CIndex b => cp_index s b
  | CLive b dr => cp_live s b dr
  | CReclaim dr => cp_reclaim s dr
  end.

Definition crun (s : shard) (ls : list clabel) : shard := fold_left cstep ls s.

(** one complete batch, as compaction_worker + handover run it *)
Definition batch_steps (s : shard) (b : batch) : list clabel :=
  [CWrite b; CIndex b; CLive b (drained (index s) b)].

(** ** output ids within one process lifetime

    [KWayCountPolicy::plan] seeds its allocator from the labels the index holds at
    the start of the planning round; with [Params.compaction_ids_fresh_in_lifetime]
    (regenerated from policy.rs: the seed is [remember_labels(..)], i.e. also every
    label an earlier planning round of this process saw in the index) the allocator
    starts above every label of this and of every earlier round start of the
    lifetime, and inside a round it hands out consecutive ids.  The bookkeeping of
    one lifetime is [labels] - the index labels at every round start so far, empty
    when the process starts (a crash / restart resets it) - and [routs], the output
    ids already taken in the CURRENT round.  An output id whose batch did not
    reach its index entry (an error between output write and index save, without a
    crash) is in neither list at the next round and can be handed out again. *)
Definition seen_round_start (labels : list N) (ix : list (N * list N)) : list N := index_labels ix ++ labels.
Definition seen_batch (routs : list N) (b : batch) : list N := b_out b :: routs.

(** [seen] = [routs ++ labels] *)
Definition batch_ok_fresh (seen : list N) (ix : list (N * list N)) (k : N) (b : batch) : bool :=
  batch_ok ix k b && (if compaction_ids_fresh_in_lifetime then negb (memb (b_out b) seen) else true).
