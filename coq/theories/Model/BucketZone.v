(** PER buckets under a configured time zone whose UTC offset CHANGES (daylight saving, political
    changes): the zone is given by its initial offset and the ascending list of transitions
    (instant, new offset) - the rows of the tz database for the years of interest, supplied by the
    case generator.

    [CalendarTimeBucketer::bucket_of] (src/shared/datetime/time_bucketing.rs) converts the instant to
    wall-clock time with the offset in force, truncates the wall-clock time to the unit and maps the
    truncated wall-clock time back with [and_local_timezone]: chrono answers [Single] when exactly
    one instant shows that wall-clock time, [None] when none does (the wall clock jumped over it) and
    [Ambiguous] when two do (the wall clock was set back over it).  Which of the two shapes the code
    has is read by the translator ([Params.bucket_local_unwrap]): with [.unwrap()] the last two cases
    panic ([bucket_zone] = [None]); with [resolve_start] an hour bucket takes the occurrence the
    instant lies in, the other units the first occurrence, and a skipped start stands for the first
    instant after the gap.

    The aggregate sink (src/engine/core/read/sink/aggregate/time_bucketing.rs [bucket_of]) must answer
    this function for EVERY row, whatever it answered before: the model of a sequence of rows is
    [bucket_zone_seq], the map of the pure function over the sequence. *)
From Coq Require Import ZArith List Bool.
From Snel Require Import Gen.Params Base.Civil Model.Bucket Model.BucketTz.
Import ListNotations.
Open Scope Z_scope.
Open Scope bool_scope.

Definition zone := (Z * list (Z * Z))%type.

Fixpoint offset_from (cur : Z) (trs : list (Z * Z)) (t : Z) : Z :=
  match trs with
  | [] => cur
  | (a, o) :: r => if t <? a then cur else offset_from o r t
  end.

Definition offset_at (zn : zone) (t : Z) : Z := offset_from (fst zn) (snd zn) t.

Definition zone_offsets (zn : zone) : list Z := fst zn :: map snd (snd zn).

(** the instants at which the wall clock of the zone shows [l] *)
Definition resolve_local (zn : zone) (l : Z) : list Z :=
  nodup Z.eq_dec (filter (fun t => offset_at zn t =? l - t) (map (fun o => l - o) (zone_offsets zn))).

(** first transition whose jump skips the wall-clock time [l]: [a + old <= l < a + new] *)
Fixpoint gap_end (cur : Z) (trs : list (Z * Z)) (l : Z) : option Z :=
  match trs with
  | [] => None
  | (a, o) :: r => if (a + cur <=? l) && (l <? a + o) then Some a else gap_end o r l
  end.

Definition is_hour (g : gran) : bool := match g with GHour => true | _ => false end.

Definition bucket_zone_with (strict : bool) (week_start : Z) (zn : zone) (secs : Z) (g : gran) : option Z :=
  let lb := calendar_bucket_secs week_start (secs + offset_at zn secs) g in
  match resolve_local zn lb with
  | [t] => Some t
  | [] => if strict then None else gap_end (fst zn) (snd zn) lb
  | t1 :: t2 :: _ =>
      if strict then None
      else let first := Z.min t1 t2 in let second := Z.max t1 t2 in
           Some (if is_hour g && (second <=? secs) then second else first)
  end.

Definition bucket_zone : Z -> zone -> Z -> gran -> option Z := bucket_zone_with Params.bucket_local_unwrap.

(** [Params.sink_bucket_is_pure]: the translator found the sink's [bucket_of] to be the config switch, the
    cached bucketer and the delegation, with no state between calls - which is what makes the model of
    a sequence the map of the function. *)
Definition bucket_zone_seq (week_start : Z) (zn : zone) (g : gran) (l : list Z) : list (option Z) :=
  if Params.sink_bucket_is_pure then map (fun secs => bucket_zone week_start zn secs g) l else [].
