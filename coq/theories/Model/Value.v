(** C02 — typed cell values, schemas, events.  Executable definitions only.

    A field of an event type has a [kind] (what DEFINE accepts: src/engine/schema/types.rs
    [FieldType]) and may be optional.  A [value] is what a STOREd payload cell *means*
    (the specification's view); [Model/Cond.v] derives from it what the engine keeps in memory
    ([ScalarValue]) and what it writes into a typed column block.

    Doubles are their IEEE-754 bit pattern ([N] below 2^64).  [f64_scaled] is the exact real
    value of a finite double multiplied by 2^1074 (an integer for every finite double), so all
    comparisons between doubles and integers below are exact integer comparisons. *)
From Coq Require Import ZArith NArith List Bool.
From Snel Require Import Base.Bytes.
Import ListNotations.

Inductive kind :=
| KInt | KU64 | KFloat | KStr | KBool | KEnum (variants : list bytes) | KTime.

Record fdecl := mk_fdecl { f_name : bytes; f_kind : kind; f_opt : bool }.
Definition schema := list fdecl.

(** [VFloat bits disp]: [disp] is the text Rust's [Display] prints for the double (only the
    in-memory string conditions look at it; the specification ignores it). *)
Inductive value :=
| VInt (z : Z) | VU64 (n : N) | VFloat (bits : N) (disp : bytes) | VStr (s : bytes) | VBool (b : bool)
| VEnum (s : bytes) | VTime (z : Z) | VNull | VAbsent.

(** A row is aligned with the schema (one value per declared field, [VAbsent] when the optional
    field was left out of the payload). *)
Definition row := list value.
Record event := mk_event { ev_ctx : bytes; ev_row : row }.

Fixpoint lookup (sch : schema) (r : row) (f : bytes) : option (fdecl * value) :=
  match sch, r with
  | d :: sch', v :: r' => if bytes_eqb (f_name d) f then Some (d, v) else lookup sch' r' f
  | _, _ => None
  end.

Fixpoint find_decl (sch : schema) (f : bytes) : option fdecl :=
  match sch with
  | [] => None
  | d :: sch' => if bytes_eqb (f_name d) f then Some d else find_decl sch' f
  end.

Definition i64_min : Z := (- 2 ^ 63)%Z.
Definition i64_max : Z := (2 ^ 63 - 1)%Z.
Definition in_i64 (z : Z) : bool := ((i64_min <=? z) && (z <=? i64_max))%Z.

Fixpoint mem_bytes (s : bytes) (l : list bytes) : bool :=
  match l with
  | [] => false
  | x :: l' => bytes_eqb s x || mem_bytes s l'
  end.

(** ** Doubles *)
Open Scope N_scope.
Definition f64_sign (bits : N) : bool := N.testbit bits 63.
Definition f64_exp (bits : N) : N := (bits / 2 ^ 52) mod 2 ^ 11.
Definition f64_man (bits : N) : N := bits mod 2 ^ 52.
Definition f64_finite (bits : N) : bool := negb (f64_exp bits =? 2047).
Close Scope N_scope.

Open Scope Z_scope.
(** value * 2^1074, exact, for finite doubles (subnormals: e = 0). *)
Definition f64_scaled (bits : N) : Z :=
  let e := f64_exp bits in
  let m := f64_man bits in
  let mag := if (e =? 0)%N then Z.of_N m else (2 ^ 52 + Z.of_N m) * 2 ^ (Z.of_N e - 1) in
  if f64_sign bits then - mag else mag.

Definition scale_int (z : Z) : Z := z * 2 ^ 1074.

(** [v as f64] for an i64 [v] (round to nearest, ties to even), as a scaled integer. *)
Definition i64_as_f64_scaled (v : Z) : Z :=
  let a := Z.abs v in
  let r :=
    if a <? 2 ^ 53 then a
    else
      let sh := Z.log2 a - 52 in
      let q := a / 2 ^ sh in
      let rem := a mod 2 ^ sh in
      let half := 2 ^ (sh - 1) in
      let q' := if (half <? rem) || ((rem =? half) && Z.odd q) then q + 1 else q in
      q' * 2 ^ sh in
  scale_int (if v <? 0 then - r else r).

(** A value conforms to a declared field. *)
Definition conforms (d : fdecl) (v : value) : bool :=
  match v with
  | VNull | VAbsent => f_opt d
  | VInt z => match f_kind d with KInt => in_i64 z | _ => false end
  | VU64 n => match f_kind d with KU64 => (Z.of_N n <? 2 ^ 64) | _ => false end
  | VFloat b _ => match f_kind d with KFloat => (Z.of_N b <? 2 ^ 64) && f64_finite b | _ => false end
  | VStr _ => match f_kind d with KStr => true | _ => false end
  | VBool _ => match f_kind d with KBool => true | _ => false end
  | VEnum s => match f_kind d with KEnum vs => mem_bytes s vs | _ => false end
  | VTime z => match f_kind d with KTime => in_i64 z | _ => false end
  end.
Close Scope Z_scope.

Fixpoint row_conforms (sch : schema) (r : row) : bool :=
  match sch, r with
  | [], [] => true
  | d :: sch', v :: r' => conforms d v && row_conforms sch' r'
  | _, _ => false
  end.
