(** Model of src/frontend/http/json_command.rs: the body of POST /command/json, decoded to a JSON
    tree (the decoding itself - sonic_rs / serde - is not modelled), is deserialised into
    [JsonCommand] (internally tagged by "type"; [JsonExpr] is untagged: Compare, then In, then
    Logical) and converted into a [Command].  Executable definitions only.

    Not decided by the model ([JUn]): objects with a repeated key, the sequence forms serde also
    accepts for structs, numbers with an exponent, values that are null / arrays / objects. *)
From Coq Require Import NArith ZArith List Bool.
From Snel Require Import Base.Bytes Model.Tokenizer Model.Parser Model.Command.
Import ListNotations.
Open Scope N_scope.

Inductive json :=
| JNull
| JBool (b : bool)
| JInt (z : Z)                          (* a number without fraction or exponent *)
| JDec (neg : bool) (d fd : bytes)      (* -?digits.digits *)
| JOdd                                  (* any other number form (exponent) *)
| JStr (s : bytes)
| JArr (l : list json)
| JObj (l : list (bytes * json)).

Inductive jres (A : Type) := JOk (a : A) | JErr | JUn.
Arguments JOk {A} a.
Arguments JErr {A}.
Arguments JUn {A}.

Fixpoint jget (k : bytes) (l : list (bytes * json)) : option json :=
  match l with
  | [] => None
  | (k', v) :: r => if bytes_eqb k k' then Some v else jget k r
  end.

Fixpoint has_dup (l : list (bytes * json)) : bool :=
  match l with
  | [] => false
  | (k, _) :: r => existsb (fun kv => bytes_eqb (fst kv) k) r || has_dup r
  end.

(** keys *)
Definition S_type : bytes := [116; 121; 112; 101].
Definition S_field : bytes := [102; 105; 101; 108; 100].
Definition S_op : bytes := [111; 112].
Definition S_value : bytes := [118; 97; 108; 117; 101].
Definition S_in : bytes := [105; 110].
Definition S_and : bytes := [97; 110; 100].
Definition S_or : bytes := [111; 114].
Definition S_not : bytes := [110; 111; 116].
Definition S_event_type : bytes := [101; 118; 101; 110; 116; 95; 116; 121; 112; 101].
Definition S_context_id : bytes := [99; 111; 110; 116; 101; 120; 116; 95; 105; 100].
Definition S_since : bytes := [115; 105; 110; 99; 101].
Definition S_time_field : bytes := [116; 105; 109; 101; 95; 102; 105; 101; 108; 100].
Definition S_where_clause : bytes := [119; 104; 101; 114; 101; 95; 99; 108; 97; 117; 115; 101].
Definition S_where : bytes := [119; 104; 101; 114; 101].
Definition S_limit : bytes := [108; 105; 109; 105; 116].
Definition S_offset : bytes := [111; 102; 102; 115; 101; 116].
Definition S_order_by : bytes := [111; 114; 100; 101; 114; 95; 98; 121].
Definition S_desc : bytes := [100; 101; 115; 99].
Definition S_payload : bytes := [112; 97; 121; 108; 111; 97; 100].
Definition S_version : bytes := [118; 101; 114; 115; 105; 111; 110].
Definition S_schema : bytes := [115; 99; 104; 101; 109; 97].
Definition S_fields : bytes := [102; 105; 101; 108; 100; 115].
Definition T_Query : bytes := [81; 117; 101; 114; 121].
Definition T_Ping : bytes := [80; 105; 110; 103].
Definition T_Flush : bytes := [70; 108; 117; 115; 104].
Definition T_Replay : bytes := [82; 101; 112; 108; 97; 121].
Definition T_Store : bytes := [83; 116; 111; 114; 101].
Definition T_Define : bytes := [68; 101; 102; 105; 110; 101].
Definition T_Batch : bytes := [66; 97; 116; 99; 104].

(** [match op.as_str()]: an unknown operator becomes Eq *)
Definition op_of (o : bytes) : cmpop :=
  let is l := existsb (bytes_eqb o) l in
  if is [[110; 101; 113]; [33; 61]; [60; 62]] then OpNeq
  else if is [[103; 116; 101]; [62; 61]] then OpGte
  else if is [[108; 116; 101]; [60; 61]] then OpLte
  else if is [[103; 116]; [62]] then OpGt
  else if is [[108; 116]; [60]] then OpLt
  else OpEq.

(** a [serde_json::Value] that the command AST of the model can hold *)
Definition conv_val (j : json) : jres jval :=
  match j with
  | JStr s => JOk (VStr s)
  | JInt z => if ((- 9223372036854775808 <=? z) && (z <=? 18446744073709551615))%Z then JOk (VInt z) else JUn
  | JDec neg d fd => if float_overflows d fd then JUn else JOk (VFloat neg d fd)
  | JBool b => JOk (VBool b)
  | _ => JUn
  end.

(** all results of a list: an error anywhere is an error; otherwise an undecided one makes it undecided *)
Fixpoint jall {A} (l : list (jres A)) : jres (list A) :=
  match l with
  | [] => JOk []
  | x :: r =>
      match x, jall r with
      | JErr, _ | _, JErr => JErr
      | JUn, _ | _, JUn => JUn
      | JOk a, JOk r' => JOk (a :: r')
      end
  end.

(** the conversion of a non-empty operand list: [into_iter().reduce(|a, b| And(a, b))], a left fold *)
Definition join (mk : expr -> expr -> expr) (xs : list expr) : option expr :=
  match xs with
  | [] => None
  | x :: r => Some (fold_left mk r x)
  end.

Definition false_compare : expr := ECmp [] OpEq (VBool false).

(** [JsonExpr] (untagged: Compare, In, Logical in this order) and [From<JsonExpr> for Expr] *)

(** the Compare and In attempts; None when neither shape matches *)
Definition conv_leaf (l : list (bytes * json)) : option (jres expr) :=
  match jget S_field l, jget S_op l, jget S_value l with
  | Some (JStr fl), Some (JStr o), Some v =>
      Some match conv_val v with
           | JOk v' => JOk (ECmp fl (op_of o) v')
           | JErr => JErr | JUn => JUn
           end
  | _, _, _ =>
      match jget S_field l, jget S_in l with
      | Some (JStr fl), Some (JArr vs) =>
          Some match jall (map conv_val vs) with
               | JOk vs' => JOk (EIn fl vs')
               | JErr => JErr | JUn => JUn
               end
      | _, _ => None
      end
  end.

(** Logical: every key is optional; and / or must be arrays of expressions, not an expression or null *)
Definition conv_operands (rec : json -> jres expr) (k : bytes) (l : list (bytes * json)) : jres (list expr) :=
  match jget k l with
  | None => JOk []
  | Some (JArr xs) => jall (map rec xs)
  | Some _ => JErr
  end.

Definition conv_not (rec : json -> jres expr) (l : list (bytes * json)) : jres (option expr) :=
  match jget S_not l with
  | None | Some JNull => JOk None
  | Some x => match rec x with JOk e => JOk (Some e) | JErr => JErr | JUn => JUn end
  end.

Definition logical_of (a o : list expr) (n : option expr) : expr :=
  match join EAnd a with
  | Some e => e
  | None =>
      match join EOr o with
      | Some e => e
      | None => match n with Some e => ENot e | None => false_compare end
      end
  end.

Definition conv_logical (rec : json -> jres expr) (l : list (bytes * json)) : jres expr :=
  match conv_operands rec S_and l, conv_operands rec S_or l, conv_not rec l with
  | JErr, _, _ | _, JErr, _ | _, _, JErr => JErr
  | JUn, _, _ | _, JUn, _ | _, _, JUn => JUn
  | JOk a, JOk o, JOk n => JOk (logical_of a o n)
  end.

Fixpoint conv_expr (fuel : nat) (j : json) : jres expr :=
  match fuel with
  | O => JUn
  | S f =>
      match j with
      | JObj l =>
          if has_dup l then JUn else
          match conv_leaf l with
          | Some r => r
          | None => conv_logical (conv_expr f) l
          end
      | JArr _ => JUn          (* serde also accepts the sequence form of a struct *)
      | _ => JErr
      end
  end.

Fixpoint jsize (j : json) : nat :=
  match j with
  | JArr l => S (fold_right (fun x a => jsize x + a)%nat 0%nat l)
  | JObj l => S (fold_right (fun kv a => jsize (snd kv) + a)%nat 0%nat l)
  | _ => 1%nat
  end.

(** optional string: absent or null is None *)
Definition opt_str (k : bytes) (l : list (bytes * json)) : jres (option bytes) :=
  match jget k l with
  | None | Some JNull => JOk None
  | Some (JStr s) => JOk (Some s)
  | Some _ => JErr
  end.
Definition req_str (k : bytes) (l : list (bytes * json)) : jres bytes :=
  match jget k l with
  | Some (JStr s) => JOk s
  | _ => JErr
  end.
Definition opt_u32 (k : bytes) (l : list (bytes * json)) : jres (option N) :=
  match jget k l with
  | None | Some JNull => JOk None
  | Some (JInt z) => if ((0 <=? z) && (z <? 4294967296))%Z then JOk (Some (Z.to_N z)) else JErr
  | Some _ => JErr
  end.

Inductive jcommand :=
| JC (c : command)
| JCStore (et ctx : bytes) (payload : json).     (* the payload is any JSON value *)

Definition conv_query (l : list (bytes * json)) : jres jcommand :=
  match req_str S_event_type l, opt_str S_context_id l, opt_str S_since l, opt_str S_time_field l,
        opt_u32 S_limit l, opt_u32 S_offset l with
  | JOk et, JOk ctx, JOk since, JOk tf, JOk lim, JOk off =>
      let wh : jres (option expr) :=
        match jget S_where_clause l, jget S_where l with
        | Some _, Some _ => JErr                                  (* the alias names the same field twice *)
        | None, None => JOk None
        | Some JNull, None | None, Some JNull => JOk None
        | Some x, None | None, Some x =>
            match conv_expr (jsize x) x with JOk e => JOk (Some e) | JErr => JErr | JUn => JUn end
        end in
      let ord : jres (option (bytes * bool)) :=
        match jget S_order_by l with
        | None | Some JNull => JOk None
        | Some (JObj o) =>
            if has_dup o then JUn else
            match jget S_field o, jget S_desc o with
            | Some (JStr fl), Some (JBool d) => JOk (Some (fl, d))
            | _, _ => JErr
            end
        | Some (JArr _) => JUn
        | Some _ => JErr
        end in
      match wh, ord with
      | JErr, _ | _, JErr => JErr
      | JUn, _ | _, JUn => JUn
      | JOk w, JOk o =>
          JOk (JC (CQuery (mkQuery et ctx since tf None w lim off o None None None None None [])))
      end
  | JErr, _, _, _, _, _ | _, JErr, _, _, _, _ | _, _, JErr, _, _, _ | _, _, _, JErr, _, _
  | _, _, _, _, JErr, _ | _, _, _, _, _, JErr => JErr
  | _, _, _, _, _, _ => JUn
  end.

Definition conv_fieldspec (j : json) : jres fieldspec :=
  match j with
  | JStr s => JOk (FPrim s)
  | JArr xs =>
      match jall (map (fun x => match x with JStr s => JOk s | _ => @JErr bytes end) xs) with
      | JOk l => JOk (FEnum l)
      | JErr => JErr | JUn => JUn
      end
  | _ => JErr
  end.

Definition conv_command (j : json) : jres jcommand :=
  match j with
  | JObj l =>
      if has_dup l then JUn else
      match jget S_type l with
      | Some (JStr t) =>
          if bytes_eqb t T_Query then conv_query l
          else if bytes_eqb t T_Ping then JOk (JC CPing)
          else if bytes_eqb t T_Flush then JOk (JC CFlush)
          else if bytes_eqb t T_Replay then
            match opt_str S_event_type l, req_str S_context_id l, opt_str S_since l, opt_str S_time_field l with
            | JOk et, JOk ctx, JOk since, JOk tf => JOk (JC (CReplay et ctx since tf None))
            | _, _, _, _ => JErr
            end
          else if bytes_eqb t T_Store then
            match req_str S_event_type l, req_str S_context_id l, jget S_payload l with
            | JOk et, JOk ctx, Some p => JOk (JCStore et ctx p)
            | _, _, _ => JErr
            end
          else if bytes_eqb t T_Define then
            match req_str S_event_type l, opt_u32 S_version l, jget S_schema l with
            | JOk et, JOk v, Some (JObj sc) =>
                if has_dup sc then JUn else
                match jget S_fields sc with
                | Some (JObj fs) =>
                    if has_dup fs then JUn else
                    match jall (map (fun kv => match conv_fieldspec (snd kv) with
                                               | JOk sp => JOk (fst kv, sp) | JErr => JErr | JUn => JUn end) fs) with
                    | JOk fields => JOk (JC (CDefine et v fields))
                    | JErr => JErr | JUn => JUn
                    end
                | Some (JArr _) => JUn
                | _ => JErr
                end
            | JOk _, JOk _, Some (JArr _) => JUn
            | _, _, _ => JErr
            end
          else JErr           (* Batch is a tuple variant of an internally tagged enum: never deserialises; unknown tags *)
      | _ => JErr
      end
  | JArr _ => JUn
  | _ => JErr
  end.
