(** Model of src/shared/time.rs ([TimeParser]) — executable definitions only.
    chrono's [DateTime::parse_from_rfc3339] and [NaiveDate::parse_from_str "%Y-%m-%d"]
    (chrono 0.4.40) are modelled at byte level. *)
From Coq Require Import ZArith NArith List Bool.
From Snel Require Import Base.Bytes Base.Civil Gen.Params.
Import ListNotations.
Open Scope Z_scope.

Definition i64_min : Z := - 2 ^ 63.
Definition i64_max : Z := 2 ^ 63 - 1.
Definition try_i64 (z : Z) : option Z :=
  if (i64_min <=? z) && (z <=? i64_max) then Some z else None.

(** [num_digits_u128]: loop [while x > 0 { x /= 10; c += 1 }]; fuel 40 covers u128. *)
Fixpoint num_digits_fuel (fuel : nat) (x : N) (c : N) : N :=
  match fuel with
  | O => c
  | S f => if (x =? 0)%N then c else num_digits_fuel f (x / 10)%N (N.succ c)
  end.
Definition num_digits (x : N) : N :=
  if (x =? 0)%N then 1%N else num_digits_fuel 40 x 0%N.

(** [normalize_integer_epoch]; the bands, divisors and the division operator
    ([Z.quot] for Rust [/], [Z.div] for [div_euclid] with a positive divisor)
    come from the regenerated [Params]. *)
Definition normalize_integer_epoch (n : Z) : option Z :=
  let d := num_digits (Z.abs_N n) in
  if (d <=? time_band_s_hi)%N then try_i64 n
  else if (d <=? time_band_ms_hi)%N then try_i64 (time_div n time_div_ms)
  else if (d <=? time_band_us_hi)%N then try_i64 (time_div n time_div_us)
  else if (d <=? time_band_ns_hi)%N then try_i64 (time_div n time_div_ns)
  else None.

(** ---- scanning helpers (chrono::format::scan) ---- *)

(** [number s min max]: between [min] and [max] leading digits. *)
Fixpoint scan_number_aux (s : bytes) (min max : nat) (acc : Z) : option (Z * bytes) :=
  match max with
  | O => match min with O => Some (acc, s) | S _ => None end
  | S max' =>
      match s with
      | c :: r =>
          if is_digit c then
            scan_number_aux r (pred min) max' (acc * 10 + Z.of_N (digit_val c))
          else match min with O => Some (acc, s) | S _ => None end
      | [] => match min with O => Some (acc, s) | S _ => None end
      end
  end.
Definition scan_number (s : bytes) (min max : nat) : option (Z * bytes) :=
  scan_number_aux s min max 0.

(** unbounded digit run (at least one); chrono fails with OUT_OF_RANGE on i64 overflow. *)
Fixpoint scan_digits_all (s : bytes) (acc : Z) (seen : bool) : option (Z * bytes) :=
  match s with
  | c :: r =>
      if is_digit c then
        let acc' := acc * 10 + Z.of_N (digit_val c) in
        if acc' >? i64_max then None else scan_digits_all r acc' true
      else if seen then Some (acc, s) else None
  | [] => if seen then Some (acc, s) else None
  end.

Definition scan_char (s : bytes) (c : N) : option bytes :=
  match s with
  | x :: r => if (x =? c)%N then Some r else None
  | [] => None
  end.

(** fractional seconds: 1..9 digits scaled to nanoseconds, further digits skipped *)
Fixpoint scan_frac_aux (s : bytes) (n : nat) (acc : Z) (cnt : nat) : Z * nat * bytes :=
  match n with
  | O => (acc, cnt, s)
  | S n' =>
      match s with
      | c :: r => if is_digit c
                  then scan_frac_aux r n' (acc * 10 + Z.of_N (digit_val c)) (S cnt)
                  else (acc, cnt, s)
      | [] => (acc, cnt, s)
      end
  end.
Definition scan_nanosecond (s : bytes) : option (Z * bytes) :=
  let '(v, cnt, r) := scan_frac_aux s 9 0 O in
  match cnt with
  | O => None
  | _ => Some (v * 10 ^ (9 - Z.of_nat cnt), drop_while is_digit r)
  end.

(** [timezone_offset s colon allow_zulu=true allow_missing_minutes=false minus_sign=true] *)
Definition scan_offset (s : bytes) : option (Z * bytes) :=
  match s with
  | 90%N :: r | 122%N :: r => Some (0, r)
  | _ =>
      let sign_rest :=
        match s with
        | 43%N :: r => Some (false, r)
        | 45%N :: r => Some (true, r)
        | 226%N :: 136%N :: 146%N :: r => Some (true, r)   (* U+2212 *)
        | _ => None
        end in
      match sign_rest with
      | None => None
      | Some (neg, r) =>
          match r with
          | h1 :: h2 :: r1 =>
              if is_digit h1 && is_digit h2 then
                match scan_char r1 58 with
                | None => None
                | Some r2 =>
                    match r2 with
                    | m1 :: m2 :: r3 =>
                        if is_digit m1 && is_digit m2 && (m1 <=? 53)%N then
                          let secs := Z.of_N (digit_val h1 * 10 + digit_val h2) * 3600
                                      + Z.of_N (digit_val m1 * 10 + digit_val m2) * 60 in
                          Some (if neg then - secs else secs, r3)
                        else None
                    | _ => None
                    end
                end
              else None
          | _ => None
          end
      end
  end.

Definition max_rfc3339_offset : Z := (23 * 60 + 59) * 60.

(** [DateTime::parse_from_rfc3339(s)] followed by [.with_timezone(&Utc).timestamp()] *)
Definition parse_rfc3339 (s : bytes) : option Z :=
  match scan_number s 4 4 with None => None | Some (y, s) =>
  match scan_char s 45 with None => None | Some s =>
  match scan_number s 2 2 with None => None | Some (mo, s) =>
  match scan_char s 45 with None => None | Some s =>
  match scan_number s 2 2 with None => None | Some (d, s) =>
  match s with
  | sep :: s =>
    if (sep =? 84)%N || (sep =? 116)%N || (sep =? 32)%N then
      match scan_number s 2 2 with None => None | Some (h, s) =>
      match scan_char s 58 with None => None | Some s =>
      match scan_number s 2 2 with None => None | Some (mi, s) =>
      match scan_char s 58 with None => None | Some s =>
      match scan_number s 2 2 with None => None | Some (sec, s) =>
      let frac :=
        match s with
        | 46%N :: r => match scan_nanosecond r with
                       | None => None
                       | Some (_, r') => Some r'
                       end
        | _ => Some s
        end in
      match frac with None => None | Some s =>
      match scan_offset s with None => None | Some (off, s) =>
        match s with
        | [] =>
            if valid_ymd y mo d && (h <? 24) && (mi <? 60) && (sec <=? 60)
               && (Z.abs off <=? max_rfc3339_offset) then
              Some (days_from_civil y mo d * 86400 + h * 3600 + mi * 60
                    + Z.min sec 59 - off)
            else None
        | _ => None
        end
      end end end end end end end
    else None
  | [] => None
  end end end end end end.

(** [NaiveDate::parse_from_str(s, "%Y-%m-%d")], midnight UTC *)
Definition naive_year_min : Z := -262143.
Definition naive_year_max : Z := 262142.

Definition scan_year (s : bytes) : option (Z * bytes) :=
  let s := trim_start s in
  match s with
  | 45%N :: r => match scan_digits_all r 0 false with
                 | Some (v, r') => Some (- v, r') | None => None end
  | 43%N :: r => scan_digits_all r 0 false
  | _ => scan_number s 1 4
  end.

Definition parse_date_only (s : bytes) : option Z :=
  match scan_year s with None => None | Some (y, s) =>
  match scan_char s 45 with None => None | Some s =>
  match scan_number (trim_start s) 1 2 with None => None | Some (mo, s) =>
  match scan_char s 45 with None => None | Some s =>
  match scan_number (trim_start s) 1 2 with None => None | Some (d, s) =>
  match s with
  | [] =>
      if valid_ymd y mo d && (naive_year_min <=? y) && (y <=? naive_year_max)
      then Some (days_from_civil y mo d * 86400) else None
  | _ => None
  end end end end end end.

(** [str::parse::<i128>]: optional sign, at least one digit, nothing else.
    Overflow of i128 cannot matter: such values have more than 19 digits. *)
Fixpoint all_digits_val (s : bytes) (acc : Z) : option Z :=
  match s with
  | [] => Some acc
  | c :: r => if is_digit c then all_digits_val r (acc * 10 + Z.of_N (digit_val c)) else None
  end.
Definition parse_int_str (s : bytes) : option Z :=
  match s with
  | 45%N :: (_ :: _) as r => option_map Z.opp (all_digits_val r 0)
  | 43%N :: (_ :: _) as r => all_digits_val r 0
  | _ :: _ => all_digits_val s 0
  | [] => None
  end.

(** [TimeParser::parse_str_to_epoch_seconds] — both [TimeKind]s behave alike. *)
Definition parse_str_to_epoch_seconds (input : bytes) : option Z :=
  let s := trim input in
  match parse_rfc3339 s with
  | Some v => Some v
  | None =>
      match parse_date_only s with
      | Some v => Some v
      | None =>
          match parse_int_str s with
          | Some n => normalize_integer_epoch n
          | None => None
          end
      end
  end.

(** JSON numbers as serde_json sees them. A float is given exactly as
    [mant * 10^exp10]; [f.floor() as i64] saturates. *)
Inductive jnum :=
| JInt (z : Z)                 (* fits u64 or i64 *)
| JDec (mant : Z) (exp10 : Z). (* anything serde_json keeps as f64 *)

Definition sat_i64 (z : Z) : Z := Z.max i64_min (Z.min i64_max z).

Definition floor_dec (mant exp10 : Z) : Z :=
  if 0 <=? exp10 then mant * 10 ^ exp10 else mant / 10 ^ (- exp10).

(** [time_float_checks_i64_range] (regenerated from src/shared/time.rs): a float outside
    [-2^63, 2^63) is rejected; without the check [as i64] saturates. *)
Definition normalize_json_number (n : jnum) : option Z :=
  match n with
  | JInt z => normalize_integer_epoch z
  | JDec m e =>
      if time_float_checks_i64_range then try_i64 (floor_dec m e)
      else Some (sat_i64 (floor_dec m e))
  end.
