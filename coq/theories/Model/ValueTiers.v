(** C07 — the value path of one payload cell through every storage tier — executable definitions only.

    JSON (as parsed by the STORE command)  --[ScalarValue::from]-->  scalar (memtable)
      --[WalEntry serde round trip, only after a restart]-->  scalar
      --[ColumnGroupBuilder: string form -> typed block chosen by the schema]-->  cell
      --[compaction: values_to_scalar -> string form -> typed block]-->  cell
      --[ConditionEvaluator / EventSink -> EventBuilder]-->  scalar
      --[ScalarValue::to_json, JSON renderer]-->  JSON.

    Sources: src/engine/types/mod.rs, src/engine/core/event/event_builder.rs,
    src/engine/core/write/{column_writer,column_group_builder}.rs,
    src/engine/core/column/column_block_snapshot.rs, src/engine/core/read/sink/event_sink.rs,
    src/engine/core/filter/condition_evaluator.rs, src/engine/core/read/flow/shard_pipeline.rs,
    src/command/handlers/store.rs (type_allows_value). *)
From Coq Require Import ZArith NArith List Bool.
From Snel Require Import Base.Bytes Model.Float64 Model.RustText Model.JsonV7 Gen.Params.
Import ListNotations.
Open Scope Z_scope.

(** ScalarValue as it occurs in a payload (Timestamp and Binary never do). *)
Inductive scalar : Type :=
| SNull
| SBool (b : bool)
| SInt (z : Z)          (* Int64 *)
| SFloat (bits : Z)     (* Float64 *)
| SUtf8 (s : bytes).

(** ---- rendering helpers ---- *)
(** the keywords of add_payload_field, read from the Rust text by tools/params/p50_value.py *)
Definition kw_true : bytes := value_kw_true.
Definition kw_false : bytes := value_kw_false.
Definition kw_null : bytes := value_kw_null.

Definition hex_digit (n : N) : N := if (n <? 10)%N then (48 + n)%N else (87 + n)%N.
(** serde_json's string escaping *)
Definition escape_byte (c : N) : bytes :=
  if (c =? 34)%N then [92; 34]%N
  else if (c =? 92)%N then [92; 92]%N
  else if (c =? 8)%N then [92; 98]%N
  else if (c =? 12)%N then [92; 102]%N
  else if (c =? 10)%N then [92; 110]%N
  else if (c =? 13)%N then [92; 114]%N
  else if (c =? 9)%N then [92; 116]%N
  else if (c <? 32)%N then [92; 117; 48; 48; hex_digit (c / 16); hex_digit (c mod 16)]%N
  else [c].
Definition quote (s : bytes) : bytes := (34%N :: flat_map escape_byte s) ++ [34%N].

Fixpoint zeros (n : nat) : bytes := match n with O => [] | S k => 48%N :: zeros k end.

(** Rust [Display] for f64: shortest round-trip digits, positional, never an exponent. *)
Definition display_f64 (b : Z) : bytes :=
  let m := f64_mag b in
  let sgn := if f64_neg b then [45%N] else [] in
  if f64_inf <? m then [78; 97; 78]%N
  else if m =? f64_inf then sgn ++ [105; 110; 102]%N
  else if m =? 0 then sgn ++ [48%N]
  else
    let '(c, e) := shortest_digits m in
    let ds := dec_of_Z c in
    if 0 <=? e then sgn ++ ds ++ zeros (Z.to_nat e)
    else
      let n := Z.of_nat (length ds) in
      if - e <? n then
        sgn ++ firstn (Z.to_nat (n + e)) ds ++ [46%N] ++ skipn (Z.to_nat (n + e)) ds
      else sgn ++ [48; 46]%N ++ zeros (Z.to_nat (- e - n)) ++ ds.

(** ryu's [format64] as serde_json's reader sees it: (significand, exponent) of the printed text.
    Only the "integral value below 10^16" layout differs from the shortest digits: it prints
    [digits ++ zeros ++ ".0"], which the reader accumulates as [c * 10^(k+1)] with exponent -1. *)
Definition ryu_parts (m : Z) : Z * Z :=
  let '(c, k) := shortest_digits m in
  let kk := ndigits c + k in
  if (0 <=? k) && (kk <=? 16) then (c * 10 ^ (k + 1), -1) else (c, k).

(** ryu's [format64] (what serde_json::to_string writes for a finite f64) *)
Definition ryu_text (b : Z) : bytes :=
  let m := f64_mag b in
  let sgn := if f64_neg b then [45%N] else [] in
  if m =? 0 then sgn ++ [48; 46; 48]%N
  else
    let '(c, k) := shortest_digits m in
    let ds := dec_of_Z c in
    let len := Z.of_nat (length ds) in
    let kk := len + k in
    if (0 <=? k) && (kk <=? 16) then sgn ++ ds ++ zeros (Z.to_nat k) ++ [46; 48]%N
    else if (0 <? kk) && (kk <=? 16) then
      sgn ++ firstn (Z.to_nat kk) ds ++ [46%N] ++ skipn (Z.to_nat kk) ds
    else if (-5 <? kk) && (kk <=? 0) then sgn ++ [48; 46]%N ++ zeros (Z.to_nat (- kk)) ++ ds
    else if len =? 1 then sgn ++ ds ++ [101%N] ++ dec_of_Z (kk - 1)
    else sgn ++ firstn 1 ds ++ [46%N] ++ skipn 1 ds ++ [101%N] ++ dec_of_Z (kk - 1).

(** compact JSON text of a value ([serde_json::to_string]) — only reached for array/object payload
    values, which no schema type accepts. *)
Fixpoint json_text (v : json) : bytes :=
  match v with
  | JNull => kw_null
  | JBool true => kw_true
  | JBool false => kw_false
  | JU64 n => dec_of_Z n
  | JI64 z => dec_of_Z z
  | JF64 b => ryu_text b
  | JStr s => quote s
  | JArr l =>
      (91%N :: (fix go (l : list json) (first : bool) : bytes :=
                  match l with
                  | [] => []
                  | x :: r => (if first then [] else [44%N]) ++ json_text x ++ go r false
                  end) l true) ++ [93%N]
  | JObj l =>
      (123%N :: (fix go (l : list (bytes * json)) (first : bool) : bytes :=
                   match l with
                   | [] => []
                   | (k, x) :: r => (if first then [] else [44%N]) ++ quote k ++ [58%N] ++ json_text x ++ go r false
                   end) l true) ++ [125%N]
  end.

(** ---- ScalarValue::from(JsonValue) / to_json ---- *)
Definition scalar_of_json (v : json) : scalar :=
  match v with
  | JNull => SNull
  | JBool b => SBool b
  | JU64 n => if n <=? i64_max then SInt n else SUtf8 (dec_of_Z n)
  | JI64 z => SInt z
  | JF64 b => SFloat b
  | JStr s => SUtf8 s
  | JArr _ | JObj _ => SUtf8 (json_text v)
  end.

(** The Utf8 re-parsing rule of [to_json]: a string that parses (serde_json::from_str) to an array,
    an object, or an unsigned integer above i64::MAX is returned PARSED. *)
Definition json_of_utf8 (t : bytes) : json :=
  match parse_json t with
  | Some (JObj l) => JObj l
  | Some (JArr l) => JArr l
  | Some (JU64 n) => if value_tojson_u64_threshold <? n then JU64 n else JStr t
  | _ => JStr t
  end.
Definition json_of_scalar (s : scalar) : json :=
  match s with
  | SNull => JNull
  | SBool b => JBool b
  | SInt z => if z <? 0 then JI64 z else JU64 z
  | SFloat b => if f64_is_finite b then JF64 b else JNull
  | SUtf8 t => json_of_utf8 t
  end.

(** ---- the STORE command's JSON reader (sonic-rs into serde_json::Value) for one scalar token:
    same classification as serde_json, but floats are CORRECTLY rounded and a negative zero
    (-0, -0.0) comes out as +0.0. ---- *)
Definition json_trim (s : bytes) : bytes :=
  rev (drop_while is_json_ws (rev (drop_while is_json_ws s))).
Definition store_parse (s : bytes) : option json :=
  match parse_json s with
  | Some (JF64 _) =>
      match parse_f64 (json_trim s) with
      | Some b => if f64_is_finite b then Some (JF64 (if f64_is_zero b then 0 else b)) else None
      | None => None
      end
  | other => other
  end.

(** ---- WAL: serde_json::to_string then serde_json::from_str ----
    [wal_float_legacy]: serde_json WITHOUT float_roundtrip re-reads ryu's digits with [f64_from_parts]
    (not correctly rounded).  With the feature (read from Cargo.toml into Gen/Params.v) the reader is
    correctly rounded and ryu's shortest digits read back as the same double (the defining property of
    shortest round-trip printing; assumed like Display/parse, tied by the value_wal probe). *)
Definition wal_float_legacy (b : Z) : scalar :=
  if negb (f64_is_finite b) then SNull
  else
    let m := f64_mag b in
    if m =? 0 then SFloat b                      (* "0.0" / "-0.0" *)
    else
      let '(sig, e) := ryu_parts m in
      match f64_from_parts (f64_neg b) sig e with
      | Some r => SFloat r
      | None => SNull                             (* unreachable for finite input *)
      end.
Definition wal_float (b : Z) : scalar :=
  if value_serde_float_roundtrip then (if f64_is_finite b then SFloat b else SNull)
  else wal_float_legacy b.
Definition wal_scalar (s : scalar) : scalar :=
  match s with
  | SFloat b => wal_float b
  | _ => s
  end.

(** ---- schema types ---- *)
Inductive ftype : Type :=
| TStr | TU64 | TI64 | TF64 | TBool | TTime | TDate
| TEnum (variants : list bytes)
| TOpt (inner : ftype).

Inductive phys : Type := PVar | PI64 | PU64 | PF64 | PBool.

(** column_writer.rs [write_all]: the physical type of a payload column; the arms are read from
    the Rust text (Gen/Params.v, codes 0 VarBytes, 1 I64, 2 U64, 3 F64, 4 Bool). *)
Definition phys_of_code (c : N) : phys :=
  match c with
  | 1%N => PI64 | 2%N => PU64 | 3%N => PF64 | 4%N => PBool | _ => PVar
  end.
Definition phys_base (t : ftype) : phys :=
  phys_of_code (match t with
                | TStr => value_phys_string | TU64 => value_phys_u64 | TI64 => value_phys_i64
                | TF64 => value_phys_f64 | TBool => value_phys_bool | TTime => value_phys_timestamp
                | TDate => value_phys_date | TEnum _ => value_phys_enum
                | TOpt _ => 0%N
                end).
Definition phys_opt (inner : ftype) : phys :=
  phys_of_code (match inner with
                | TStr => value_phys_opt_string | TU64 => value_phys_opt_u64 | TI64 => value_phys_opt_i64
                | TF64 => value_phys_opt_f64 | TBool => value_phys_opt_bool | TTime => value_phys_opt_timestamp
                | TDate => value_phys_opt_date | TEnum _ => value_phys_opt_enum
                | TOpt _ => value_phys_opt_optional
                end).
Definition phys_of (t : ftype) : phys :=
  match t with
  | TOpt inner => phys_opt inner
  | _ => phys_base t
  end.

Fixpoint mem_bytes (s : bytes) (l : list bytes) : bool :=
  match l with [] => false | x :: r => bytes_eqb s x || mem_bytes s r end.

(** store.rs [type_allows_value] on the payload AFTER time normalisation: logical times are
    epoch seconds (i64). *)
Fixpoint allows (t : ftype) (v : json) : bool :=
  match t with
  | TStr => match v with JStr _ => true | _ => false end
  | TU64 => match v with JU64 _ => true | _ => false end
  | TI64 | TTime | TDate => match v with JU64 n => n <=? i64_max | JI64 _ => true | _ => false end
  | TF64 => match v with JU64 _ | JI64 _ | JF64 _ => true | _ => false end
  | TBool => match v with JBool _ => true | _ => false end
  | TEnum vs => match v with JStr s => mem_bytes s vs | _ => false end
  | TOpt i => match v with JNull => true | _ => allows i v end
  end.

(** well-formed JSON numbers of the model (what a parser can produce) *)
Definition wf_json (v : json) : bool :=
  match v with
  | JU64 n => (0 <=? n) && (n <=? u64_max)
  | JI64 z => (i64_min <=? z) && (z <? 0)
  | JF64 b => (0 <=? b) && (b <? 2 ^ 64) && f64_is_finite b
  | _ => true
  end.

(** ---- column write: every cell goes through its STRING FORM ---- *)
Definition text_of_scalar (s : scalar) : bytes :=
  match s with
  | SUtf8 t => t
  | SInt z => dec_of_Z z
  | SFloat b => display_f64 b
  | SBool true => kw_true
  | SBool false => kw_false
  | SNull => []
  end.

(** one cell of a typed block; [None] = null-bitmap bit set. Var-bytes blocks have no bitmap. *)
Inductive cell : Type :=
| CVar (s : bytes)
| CI64 (o : option Z)
| CU64 (o : option Z)
| CF64 (o : option Z)
| CBool (o : option bool).

Definition parse_bool_ci (t : bytes) : option bool :=
  if eq_ignore_case t kw_true then Some true
  else if eq_ignore_case t kw_false then Some false
  else None.

(** ColumnGroupBuilder::finish. For an F64 block the text of a Float64 is Rust's [Display], and
    [Display] followed by [parse::<f64>] is the identity (std guarantee, assumed). *)
Definition write_cell (p : phys) (s : scalar) : cell :=
  match p with
  | PVar => CVar (text_of_scalar s)
  | PI64 => CI64 (parse_i64 (text_of_scalar s))
  | PU64 => CU64 (parse_u64 (text_of_scalar s))
  | PF64 => CF64 (match s with
                  | SFloat b => Some b
                  | _ => parse_f64 (text_of_scalar s)
                  end)
  | PBool => CBool (parse_bool_ci (text_of_scalar s))
  end.

(** ---- EventBuilder ---- *)
Definition u64_scalar (u : Z) : scalar :=
  if u <=? i64_max then SInt u else SUtf8 (dec_of_Z u).

(** [add_payload_field]: trim (Unicode), keywords, integers, finite floats, else the ORIGINAL text *)
Definition add_payload_field (v : bytes) : scalar :=
  let t := utrim v in
  if bytes_eqb t kw_true then SBool true
  else if bytes_eqb t kw_false then SBool false
  else if bytes_eqb t kw_null then SNull
  else
    let ints :=
      match t with
      | 45%N :: _ => match parse_i64 t with Some i => Some (SInt i) | None => None end
      | _ => match parse_u64 t with
             | Some u => Some (u64_scalar u)
             | None => match parse_i64 t with Some i => Some (SInt i) | None => None end
             end
      end in
    match ints with
    | Some r => r
    | None =>
        match parse_f64 t with
        | Some b => if f64_is_finite b then SFloat b else SUtf8 v
        | None => SUtf8 v
        end
    end.

(** the scalar the read path builds from a cell (condition_evaluator.rs / event_sink.rs) *)
Definition read_cell (c : cell) : scalar :=
  match c with
  | CI64 (Some z) => SInt z
  | CU64 (Some u) => u64_scalar u
  | CF64 (Some b) => if f64_is_finite b then SFloat b else SNull
  | CBool (Some b) => SBool b
  | CI64 None | CU64 None | CF64 None | CBool None => SNull
  | CVar s => add_payload_field s
  end.

(** EventSink's var-bytes order: [get_i64_at] (fast_parse_i64, untrimmed) first, then the string *)
Definition read_cell_sink (c : cell) : scalar :=
  match c with
  | CVar s => match parse_i64 s with Some z => SInt z | None => add_payload_field s end
  | _ => read_cell c
  end.

(** ---- compaction: ColumnBlockSnapshot::values_to_scalar, then the writer again ---- *)
Definition scan_cell (c : cell) : scalar :=
  match c with
  | CI64 (Some z) => SInt z
  | CU64 (Some u) => u64_scalar u
  | CF64 (Some b) => SFloat b
  | CBool (Some b) => SBool b
  | CI64 None | CU64 None | CF64 None | CBool None => SNull
  | CVar s => SUtf8 s
  end.
Definition compact_cell (p : phys) (c : cell) : cell := write_cell p (scan_cell c).

Fixpoint iter_compact (n : nat) (p : phys) (c : cell) : cell :=
  match n with O => c | S k => iter_compact k p (compact_cell p c) end.

(** ---- layouts ---- *)
Record layout : Type := {
  via_wal : bool;            (* the event was recovered from the WAL by a restart *)
  in_seg : option nat        (* Some n: flushed to a segment, then compacted n times *)
}.
Definition in_memory (l : layout) : bool := match in_seg l with None => true | Some _ => false end.

(** A stored payload entry: [None] = the key is absent from the payload (optional fields only). *)
Definition stored := option json.

Definition mem_scalar (v : stored) : scalar :=
  match v with Some j => scalar_of_json j | None => SNull end.

(** [col_present]: some row of the zone carries the key (WriteJob::build collects the union of the
    payload keys per zone; a column that no row of the zone carries is not written and reads as
    null). *)
Definition tier_scalar (t : ftype) (l : layout) (col_present : bool) (v : stored) : scalar :=
  let s0 := mem_scalar v in
  let s1 := if via_wal l then wal_scalar s0 else s0 in
  match in_seg l with
  | None => s1
  | Some n =>
      if col_present then read_cell (iter_compact n (phys_of t) (write_cell (phys_of t) s1))
      else SNull
  end.

(** what QUERY / REPLAY return for the cell *)
Definition returned (t : ftype) (l : layout) (col_present : bool) (v : stored) : json :=
  json_of_scalar (tier_scalar t l col_present v).

(** what the property demands: the stored value; an absent key reads as null *)
Definition expected (v : stored) : json := match v with Some j => j | None => JNull end.

(** ---- equality of returned and stored values: numbers numerically (a float equals an integer
    iff it has exactly that value), floats among themselves bit-wise, everything else structurally ---- *)
Definition float_is_int (b : Z) (z : Z) : bool :=
  let m := f64_mag b in
  if negb (f64_is_finite b) then false
  else
    let '(n, d) := mag_frac m in
    let v := if f64_neg b then - n else n in
    (v =? z * d).

Fixpoint json_eqb (a b : json) : bool :=
  match a, b with
  | JNull, JNull => true
  | JBool x, JBool y => Bool.eqb x y
  | JU64 x, JU64 y => x =? y
  | JI64 x, JI64 y => x =? y
  | JU64 x, JI64 y | JI64 x, JU64 y => x =? y
  | JF64 x, JF64 y => x =? y
  | JF64 x, JU64 y | JF64 x, JI64 y => float_is_int x y
  | JU64 y, JF64 x | JI64 y, JF64 x => float_is_int x y
  | JStr x, JStr y => bytes_eqb x y
  | JArr x, JArr y =>
      (fix go (x y : list json) : bool :=
         match x, y with
         | [], [] => true
         | p :: x', q :: y' => json_eqb p q && go x' y'
         | _, _ => false
         end) x y
  | JObj x, JObj y =>
      (fix go (x y : list (bytes * json)) : bool :=
         match x, y with
         | [], [] => true
         | (k, p) :: x', (k', q) :: y' => bytes_eqb k k' && json_eqb p q && go x' y'
         | _, _ => false
         end) x y
  | _, _ => false
  end.

(** ---- the known classes, one per mechanism (decidable) ---- *)

(** to_json re-parses a Utf8: arrays, objects and integers above i64::MAX come back parsed, in
    every tier. *)
Definition utf8_reparsed (s : bytes) : bool :=
  match parse_json s with
  | Some (JObj _) | Some (JArr _) => true
  | Some (JU64 n) => value_tojson_u64_threshold <? n
  | _ => false
  end.

(** add_payload_field re-types a var-bytes cell: after [str::trim] the text is one of the keywords
    or reads as an integer (u64 or i64) or a FINITE float under Rust's grammar. *)
Definition is_some {A : Type} (o : option A) : bool := match o with Some _ => true | None => false end.
Definition retype_candidate (s : bytes) : bool :=
  let t := utrim s in
  bytes_eqb t kw_true || bytes_eqb t kw_false || bytes_eqb t kw_null
  || is_some (parse_u64 t) || is_some (parse_i64 t)
  || match parse_f64 t with Some b => f64_is_finite b | None => false end.

(** the re-typing is visible: the cell does not come back as the same scalar *)
Definition scalar_eqb (a b : scalar) : bool :=
  match a, b with
  | SNull, SNull => true
  | SBool x, SBool y => Bool.eqb x y
  | SInt x, SInt y => x =? y
  | SFloat x, SFloat y => x =? y
  | SUtf8 x, SUtf8 y => bytes_eqb x y
  | _, _ => false
  end.
Definition string_retyped (s : bytes) : bool := negb (scalar_eqb (add_payload_field s) (SUtf8 s)).

(** an integer that a double cannot hold exactly *)
Definition int_inexact_as_f64 (z : Z) : bool := negb (float_is_int (f64_of_int z) z).

(** (fixed in 32b7370: the former class FloatWalReparsedInexact, floats changed by the WAL reader) *)
Definition float_wal_inexact_legacy (b : Z) : bool := negb (scalar_eqb (wal_float_legacy b) (SFloat b)).

Inductive known_class : Type :=
| Utf8ReparsedOnRender
| StringRetyped
| NullStringBecomesEmpty
| IntegerInFloatFieldRounded.

(** Does the input belong to the class?  (field type, layout, column present, stored value) *)
Definition in_class (k : known_class) (t : ftype) (l : layout) (col_present : bool) (v : stored) : bool :=
  match k with
  | Utf8ReparsedOnRender =>
      match v with Some (JStr s) => utf8_reparsed s | _ => false end
  | StringRetyped =>
      negb (in_memory l) && col_present &&
      match phys_of t, v with PVar, Some (JStr s) => string_retyped s | _, _ => false end
  | NullStringBecomesEmpty =>
      negb (in_memory l) && col_present &&
      match phys_of t, v with PVar, Some JNull | PVar, None => true | _, _ => false end
  | IntegerInFloatFieldRounded =>
      negb (in_memory l) && col_present &&
      match phys_of t, v with
      | PF64, Some (JU64 n) => int_inexact_as_f64 n
      | PF64, Some (JI64 z) => int_inexact_as_f64 z
      | _, _ => false
      end
  end.

Definition all_classes : list known_class :=
  [Utf8ReparsedOnRender; StringRetyped; NullStringBecomesEmpty; IntegerInFloatFieldRounded].
Definition known (t : ftype) (l : layout) (cp : bool) (v : stored) : bool :=
  existsb (fun k => in_class k t l cp v) all_classes.

(** a stored entry that the STORE handler accepts for a field of type [t] *)
Definition conforming (t : ftype) (v : stored) : bool :=
  match v with
  | Some j => allows t j && wf_json j
  | None => match t with TOpt _ => true | _ => false end
  end.

(** ---- zones: a column block is the list of its cells; the codec is the identity ---- *)
Definition zone_col_present (vs : list stored) : bool :=
  existsb (fun v => match v with Some _ => true | None => false end) vs.

Definition write_zone (p : phys) (vs : list scalar) : list cell := map (write_cell p) vs.
Definition read_zone (cs : list cell) : list scalar := map read_cell cs.
Definition compact_zone (p : phys) (cs : list cell) : list cell := map (compact_cell p) cs.

(** a whole zone column through a layout *)
Definition returned_zone (t : ftype) (l : layout) (vs : list stored) : list json :=
  let s1 := map (fun v => let s0 := mem_scalar v in if via_wal l then wal_scalar s0 else s0) vs in
  match in_seg l with
  | None => map json_of_scalar s1
  | Some n =>
      if zone_col_present vs then
        map json_of_scalar
          (read_zone (Nat.iter n (compact_zone (phys_of t)) (write_zone (phys_of t) s1)))
      else map (fun _ => JNull) vs
  end.

(** ---- projection: compute_return_projection (shard_pipeline.rs) ---- *)
Definition core_fields : list bytes :=
  [[99;111;110;116;101;120;116;95;105;100];       (* context_id *)
   [101;118;101;110;116;95;116;121;112;101];      (* event_type *)
   [116;105;109;101;115;116;97;109;112];          (* timestamp *)
   [101;118;101;110;116;95;105;100]]%N.           (* event_id *)

Fixpoint position_from (i : nat) (name : bytes) (cols : list bytes) : option nat :=
  match cols with
  | [] => None
  | c :: r => if bytes_eqb c name then Some i else position_from (S i) name r
  end.
Definition position (name : bytes) (cols : list bytes) : option nat := position_from 0 name cols.

Definition add_core (cols : list bytes) (acc : list nat) (f : bytes) : list nat :=
  match position f cols with Some i => acc ++ [i] | None => acc end.
Definition add_return (cols schema_fields : list bytes) (acc : list nat) (f : bytes) : list nat :=
  if mem_bytes f schema_fields then
    match position f cols with
    | Some i => if existsb (Nat.eqb i) acc then acc else acc ++ [i]
    | None => acc
    end
  else acc.

(** indices of the input columns that form the output, in output order *)
Definition projection (cols : list bytes) (ret : option (list bytes)) (schema_fields : list bytes) : list nat :=
  match ret with
  | None | Some [] => seq 0 (length cols)
  | Some fs =>
      fold_left (add_return cols schema_fields) fs (fold_left (add_core cols) core_fields [])
  end.

Definition project_row {A : Type} (d : A) (idx : list nat) (row : list A) : list A :=
  map (fun i => nth i row d) idx.
Definition project_cols (idx : list nat) (cols : list bytes) : list bytes := project_row [] idx cols.

(** ---- which columns a selection loads: SelectionProjection::compute (projection/strategies.rs)
    and ProjectionColumns (first occurrence wins) ---- *)
Fixpoint dedup_acc (seen : list bytes) (l : list bytes) : list bytes :=
  match l with
  | [] => []
  | x :: r => if mem_bytes x seen then dedup_acc seen r else x :: dedup_acc (x :: seen) r
  end.
Definition dedup (l : list bytes) : list bytes := dedup_acc [] l.
Definition event_id_name : bytes := nth 3 core_fields [].
Definition is_core (f : bytes) : bool := mem_bytes f core_fields.

(** the RETURN entries that are core or schema fields; the code collects them into a HashSet *)
Definition requested (ret fields : list bytes) : list bytes :=
  filter (fun f => is_core f || mem_bytes f fields) ret.

(** With a non-empty RETURN list: core fields, the filter columns (sorted), then the requested
    names in the ITERATION ORDER OF A HashSet — [hash_order], some arrangement of the distinct
    requested names, different on every call — then event_id. *)
Definition selection_columns (filter_cols hash_order : list bytes) : list bytes :=
  dedup (core_fields ++ filter_cols ++ hash_order ++ [event_id_name]).
(** without RETURN: all schema fields, sorted — deterministic *)
Definition selection_columns_all (filter_cols fields_sorted : list bytes) : list bytes :=
  dedup (core_fields ++ filter_cols ++ fields_sorted ++ [event_id_name]).

(** One output row of a flow.  The source fills the row in [cols_src] order; the batch schema that
    names the columns and feeds compute_return_projection is [cols_schema].  The segment flow
    computes the column list once ([cols_src = cols_schema]); the memtable flow computes it twice
    (build_memtable_flow, then MemTableSource::run). *)
Definition flow_row {A : Type} (d : A) (cols_schema cols_src : list bytes) (ret : option (list bytes))
           (fields : list bytes) (ev : bytes -> A) : list (bytes * A) :=
  let idx := projection cols_schema ret fields in
  combine (project_cols idx cols_schema) (project_row d idx (map ev cols_src)).

(** The order in which the requested names are appended: the RETURN order when the code collects them
    into a Vec ([value_return_order_stable], read from strategies.rs; fix f2ae870), otherwise the
    iteration order [hash_order] of a HashSet, different on every call. *)
Definition appended_order (ret fields hash_order : list bytes) : list bytes :=
  if value_return_order_stable then requested ret fields else hash_order.
Definition selection_columns_ret (filter_cols ret fields hash_order : list bytes) : list bytes :=
  selection_columns filter_cols (appended_order ret fields hash_order).

(** a row of the memtable flow under a RETURN list: the column list is computed twice, with whatever
    HashSet orders [o1], [o2] the two calls would see *)
Definition memtable_flow_row {A : Type} (d : A) (filter_cols ret fields o1 o2 : list bytes) (ev : bytes -> A)
  : list (bytes * A) :=
  flow_row d (selection_columns_ret filter_cols ret fields o1) (selection_columns_ret filter_cols ret fields o2)
           (Some ret) fields ev.

(** ---- the core string fields (context_id, event_type) are values too ----
    Event::get_field_scalar gives [Utf8 text] and the renderer applies [to_json] (so the re-parsing rule of
    [json_of_utf8] applies to them as well).  In a segment they are var-bytes columns; the flusher writes the
    text, the compactor reads it with [into_strings] and writes it back, and
    ConditionEvaluator::evaluate_zones_with_limit hands the TEXT to [EventBuilder::add_field], which stores it
    verbatim for these two names.  EventSink (not on the QUERY/REPLAY path) asks [get_i64_at] first and
    [add_field_i64] falls back to [add_field (n.to_string())]: an integer-looking text would come back in its
    canonical decimal spelling ("00123" -> "123", "+7" -> "7", "-0" -> "0"). *)
Definition core_write (s : bytes) : bytes := s.               (* ColumnGroupBuilder, var-bytes *)
Definition core_compact (s : bytes) : bytes := core_write s.   (* into_strings, then the writer *)
Definition core_read (s : bytes) : bytes := s.                 (* add_field "context_id" text *)
Definition core_read_sink (s : bytes) : bytes :=
  match parse_i64 s with Some z => dec_of_Z z | None => s end.

Fixpoint iter_core_compact (n : nat) (s : bytes) : bytes :=
  match n with O => s | S k => iter_core_compact k (core_compact s) end.

(** the text of a core string field as the layout holds it (the WAL line is a JSON string: identity) *)
Definition core_tier_text (l : layout) (s : bytes) : bytes :=
  match in_seg l with
  | None => s
  | Some n => core_read (iter_core_compact n (core_write s))
  end.
(** what QUERY / REPLAY return in the context_id / event_type column *)
Definition returned_core (l : layout) (s : bytes) : json := json_of_utf8 (core_tier_text l s).

(** FOR <ctx> is a string-equality condition on context_id (condition_evaluator_builder.rs) evaluated on the
    text of the layout: does the read FOR [q] return an event stored under [ctx]? *)
Definition for_selects (l : layout) (q ctx : bytes) : bool := bytes_eqb (core_tier_text l ctx) q.
