(** Model of the routing hash of src/engine/shard/manager.rs ([ShardManager::get_shard]):
    [DefaultHasher::new()] = SipHash-1-3 with keys (0,0); [str::hash] writes the bytes of the
    string followed by the byte 0xff; [finish() as usize % shards.len()].
    Executable definitions only; all arithmetic is modulo 2^64. *)
From Coq Require Import NArith List Bool.
From Snel Require Import Base.Bytes Gen.Params.
Import ListNotations.
Open Scope N_scope.

Definition m64 : N := 2 ^ 64.
Definition add64 (a b : N) : N := (a + b) mod m64.
(** [rotate_left] on u64 (0 < r < 64, x < 2^64) *)
Definition rotl64 (x r : N) : N := N.lor (N.shiftl x r mod m64) (N.shiftr x (64 - r)).

Record sip := mkSip { v0 : N; v1 : N; v2 : N; v3 : N }.

Definition sipround (s : sip) : sip :=
  let v0 := add64 (v0 s) (v1 s) in
  let v1 := rotl64 (v1 s) 13 in
  let v1 := N.lxor v1 v0 in
  let v0 := rotl64 v0 32 in
  let v2 := add64 (v2 s) (v3 s) in
  let v3 := rotl64 (v3 s) 16 in
  let v3 := N.lxor v3 v2 in
  let v0 := add64 v0 v3 in
  let v3 := rotl64 v3 21 in
  let v3 := N.lxor v3 v0 in
  let v2 := add64 v2 v1 in
  let v1 := rotl64 v1 17 in
  let v1 := N.lxor v1 v2 in
  let v2 := rotl64 v2 32 in
  mkSip v0 v1 v2 v3.

Fixpoint rounds (n : nat) (s : sip) : sip :=
  match n with O => s | S n' => rounds n' (sipround s) end.

(** "somepseudorandomlygeneratedbytes" xor the key halves *)
Definition sip_init (k0 k1 : N) : sip :=
  mkSip (N.lxor k0 8317987319222330741) (N.lxor k1 7237128888997146477)
        (N.lxor k0 7816392313619706465) (N.lxor k1 8387220255154660723).

(** little-endian value of a byte list (bytes are reduced mod 256) *)
Fixpoint le_word (bs : list N) : N :=
  match bs with
  | [] => 0
  | b :: r => b mod 256 + 256 * le_word r
  end.

(** one message word: v3 ^= m; c rounds; v0 ^= m *)
Definition absorb (c : nat) (s : sip) (m : N) : sip :=
  let s1 := rounds c (mkSip (v0 s) (v1 s) (v2 s) (N.lxor (v3 s) m)) in
  mkSip (N.lxor (v0 s1) m) (v1 s1) (v2 s1) (v3 s1).

(** all complete 8-byte words; returns the state and the remaining (< 8) bytes *)
Fixpoint sip_blocks (c : nat) (s : sip) (bs : list N) : sip * list N :=
  match bs with
  | b0 :: b1 :: b2 :: b3 :: b4 :: b5 :: b6 :: b7 :: rest =>
      sip_blocks c (absorb c s (le_word [b0; b1; b2; b3; b4; b5; b6; b7])) rest
  | _ => (s, bs)
  end.

(** SipHash-c-d of a byte string under key (k0,k1) *)
Definition siphash (c d : nat) (k0 k1 : N) (msg : list N) : N :=
  let '(s, tail) := sip_blocks c (sip_init k0 k1) msg in
  let b := (N.of_nat (length msg) mod 256) * 2 ^ 56 + le_word tail in
  let s := absorb c s b in
  let s := rounds d (mkSip (v0 s) (v1 s) (N.lxor (v2 s) 255) (v3 s)) in
  N.lxor (N.lxor (v0 s) (v1 s)) (N.lxor (v2 s) (v3 s)).

(** [DefaultHasher::new()] is SipHash-1-3 under the key (0,0); [str::hash] = [write_str] feeds the
    bytes of the string and then the single byte 0xff (facts of the pinned std library). *)
Definition default_hash_str (ctx : bytes) : N :=
  siphash 1 3 0 0 (ctx ++ [255]).

(** [get_shard]: index of the shard, [None] when there are no shards (the [%] panics).
    [as usize] truncates to the pointer width of the target. *)
Definition route (ctx : bytes) (n : N) : option N :=
  if n =? 0 then None else Some ((default_hash_str ctx mod 2 ^ route_usize_bits) mod n).
