(** Model of [parse_command] (src/command/parser/command.rs): trim, tokenize + validate, the
    switch on the first word, and the per-command parsers that are modelled:
    QUERY/FIND (Model/Parser.v), REPLAY and STORE (peg grammars), REMEMBER (string slicing
    around the last ' AS '), and the token parsers PING, FLUSH, LIST USERS, SHOW,
    SHOW PERMISSIONS, REVOKE KEY, GRANT, REVOKE, CREATE USER.
    Not modelled (result [PUnmodelled]): DEFINE (serde_json + regex), BATCH (re-renders f64
    tokens), PLOT.  Also the dispatch table of src/command/dispatcher.rs, from Gen/Params.v.
    Executable definitions only. *)
From Coq Require Import NArith ZArith List Bool.
From Snel Require Import Base.Bytes Model.Tokenizer Model.Parser Model.PlotQL Gen.Params.
Import ListNotations.
Open Scope N_scope.

(** * [str::trim]: Unicode White_Space, as UTF-8 byte sequences *)

Definition uws_seqs : list bytes :=
  [ [194; 133]; [194; 160]; [225; 154; 128];
    [226; 128; 128]; [226; 128; 129]; [226; 128; 130]; [226; 128; 131]; [226; 128; 132];
    [226; 128; 133]; [226; 128; 134]; [226; 128; 135]; [226; 128; 136]; [226; 128; 137];
    [226; 128; 138]; [226; 128; 168]; [226; 128; 169]; [226; 128; 175]; [226; 129; 159];
    [227; 128; 128] ].

Fixpoint strip_prefix (p s : bytes) : option bytes :=
  match p, s with
  | [], _ => Some s
  | x :: p', y :: s' => if x =? y then strip_prefix p' s' else None
  | _ :: _, [] => None
  end.

Fixpoint strip_any (ps : list bytes) (s : bytes) : option bytes :=
  match ps with
  | [] => None
  | p :: ps' => match strip_prefix p s with Some r => Some r | None => strip_any ps' s end
  end.

Fixpoint utrim_start_fuel (fuel : nat) (s : bytes) : bytes :=
  match fuel with
  | O => s
  | S f =>
      match s with
      | [] => []
      | c :: r =>
          if is_ascii_ws c then utrim_start_fuel f r
          else match strip_any uws_seqs s with
               | Some r' => utrim_start_fuel f r'
               | None => s
               end
      end
  end.
Definition utrim_start (s : bytes) : bytes := utrim_start_fuel (length s) s.
(** trimming from the end must match the reversed byte sequences *)
Fixpoint utrim_end_fuel (fuel : nat) (rs : bytes) : bytes :=
  match fuel with
  | O => rs
  | S f =>
      match rs with
      | [] => []
      | c :: r =>
          if is_ascii_ws c then utrim_end_fuel f r
          else match strip_any (map (@frev N) uws_seqs) rs with
               | Some r' => utrim_end_fuel f r'
               | None => rs
               end
      end
  end.
Definition utrim_e (s : bytes) : bytes := frev (utrim_end_fuel (length s) (frev s)).
Definition utrim (s : bytes) : bytes := utrim_e (utrim_start s).

(** * Commands *)

Inductive command :=
| CQuery (q : query)
| CReplay (et : option bytes) (ctx : bytes) (since tf : option bytes) (ret : option (list bytes))
| CStore (et ctx json : bytes)   (* json = the balanced-brace slice; its JSON validity is decided outside the model *)
| CRemember (name : bytes) (q : query)
| CShowMat (name : bytes)
| CPing | CFlush | CListUsers
| CCreateUser (u : bytes) (key : option bytes) (roles : option (list bytes))
| CRevokeKey (u : bytes)
| CGrant (perms evs : list bytes) (u : bytes)
| CRevokePerm (perms evs : list bytes) (u : bytes)
| CShowPerm (u : bytes)
| CCompare (qs : list query)                       (* PLOT ... VS ... *)
| CDefine (et : bytes) (version : option N) (fields : list (bytes * fieldspec))   (* fields in source order; a later duplicate key wins *)
| CBatch (cs : list command)
with fieldspec := FPrim (s : bytes) | FEnum (l : list bytes).

(** what the model leaves undecided: DEFINE with a word / string token whose content would need JSON
    escaping or a version number outside the simple decimal forms; BATCH with a number token that is not
    a small integer (the Rust code re-renders the f64) *)
Inductive unmodelled := UDefine | UBatch.

Inductive presult :=
| POk (c : command)
| PErr
| PPanic (k : numsite)
| POOF
| PDomain                    (* non-ASCII outside a string literal: Unicode tables not modelled *)
| PUnmodelled (u : unmodelled).

Definition of_res {A} (f : A -> command) (r : res A) : presult :=
  match r with Ok a => POk (f a) | Err => PErr | Panic k => PPanic k | OOF => POOF end.

(** * REPLAY (replay.rs) *)

Definition is_replay_ident_char (c : N) : bool := is_ident_char c || (c =? 58).
Definition rident := ident_with is_replay_ident_char.

Inductive rclause := RSince (s : bytes) | RReturn (l : list bytes) | RUsing (f : bytes).

Definition K_REPLAY : bytes := [82; 69; 80; 76; 65; 89]. (* REPLAY *)
Definition K_STORE : bytes := [83; 84; 79; 82; 69]. (* STORE *)
Definition K_PAYLOAD : bytes := [80; 65; 89; 76; 79; 65; 68]. (* PAYLOAD *)

Definition rclause_p : P rclause :=
  alt (let* _ := kw K_SINCE in let* _ := skip in let* ts := strp in ret (RSince ts))
 (alt (let* _ := kw K_RETURN in let* _ := skip in
       let* _ := sym 91 in let* _ := skip in
       let* fields := sep_list (alt (lift rident) strp) comma_sep in
       let* _ := skip in
       let* _ := sym 93 in
       ret (RReturn fields))
      (let* _ := kw K_USING in let* _ := skip in let* f := lift rident in ret (RUsing f))).

(** [event_type_opt = !ci("FOR") i:ident() _ { Some(i) } / { None }] *)
Definition event_type_opt : P (option bytes) :=
  alt (let* _ := notp (ci K_FOR) in let* i := lift rident in let* _ := skip in ret (Some i))
      (ret None).

Definition apply_rclause (acc : option bytes * option (list bytes) * option bytes) (c : rclause) :=
  let '(since, retf, tf) := acc in
  match c with
  | RSince v => (Some v, retf, tf)
  | RReturn v => (since, Some v, tf)
  | RUsing v => (since, retf, Some v)
  end.

Definition replay_rule : P command :=
  let* _ := skip in
  let* _ := kw K_REPLAY in
  let* _ := skip in
  let* et := event_type_opt in
  let* _ := kw K_FOR in
  let* _ := skip in
  let* ctx := alt strp (lift rident) in
  let* clauses := (fun s => many (S (length s)) (let* _ := skip in rclause_p) s) in
  let* _ := skip in
  let* _ := eof in
  let '(since, retf, tf) := fold_left apply_rclause clauses (None, None, None) in
  ret (CReplay et ctx since tf retf).

Definition parse_replay (s : bytes) : presult :=
  match replay_rule s with
  | Ok (c, _) => POk c
  | Err => PErr | Panic k => PPanic k | OOF => POOF
  end.

(** * STORE (store.rs)

    [balanced_braces = $( '{' (balanced_braces() / json_string() / (!'}' [_]))* '}' )] with
    [json_string = DQ ('\\' [_] / (![DQ | '\\'] [_]))* DQ] (DQ = the double quote; since fced25a; before it the
    [json_string] alternative was absent — [Params.store_skips_strings], read from the Rust text).
    A nested [balanced_braces] can fail only by reaching the end of the input, and then the
    enclosing loop, re-scanning the same text one level up, reaches the end too (every rule is a
    function of the position); so the rule matches exactly when a depth counter started at the
    first '{' returns to zero, and it ends there.  A double quote that starts a terminated string literal
    (backslash escapes one character) skips the literal; an unterminated one is an ordinary
    character.  The model is that counter (linear); the peg code re-scans (exponential in the
    number of unclosed braces - a finding of the correspondence run). *)

(** after an opening quote: the rest after the closing quote, if there is one *)
Fixpoint json_str_end (s : bytes) : option bytes :=
  match s with
  | [] => None
  | c :: r =>
      if c =? 34 then Some r
      else if c =? 92 then match r with [] => None | _ :: r' => json_str_end r' end
      else json_str_end r
  end.

(** after the first '{': the rest after the brace that closes it *)
Fixpoint brace_end (fuel : nat) (s : bytes) (depth : nat) : option bytes :=
  match fuel with
  | O => None
  | S f =>
      match s with
      | [] => None
      | c :: r =>
          if c =? 123 then brace_end f r (S depth)
          else if c =? 125 then
            match depth with
            | O => Some r
            | S d => brace_end f r d
            end
          else if store_skips_strings && (c =? 34) then
            match json_str_end r with
            | Some r' => brace_end f r' depth
            | None => brace_end f r depth
            end
          else brace_end f r depth
      end
  end.

Definition balanced_braces (s : bytes) : option (bytes * bytes) :=
  match s with
  | c :: r =>
      if c =? 123 then
        match brace_end (length r) r 0 with
        | Some rest => Some (firstn (length s - length rest) s, rest)
        | None => None
        end
      else None
  | [] => None
  end.

Definition store_rule : P command :=
  let* _ := skip in
  let* _ := kw K_STORE in let* _ := skip in
  let* et := identp in let* _ := skip in
  let* _ := kw K_FOR in let* _ := skip in
  let* ctx := alt identp strp in let* _ := skip in
  let* _ := kw K_PAYLOAD in let* _ := skip in
  let* _ := skip in
  let* json := lift balanced_braces in
  let* _ := skip in
  let* _ := eof in
  ret (CStore et ctx json).

Definition parse_store (s : bytes) : presult :=
  match store_rule s with
  | Ok (c, _) => POk c
  | Err => PErr | Panic k => PPanic k | OOF => POOF
  end.

(** * REMEMBER (remember.rs) *)

Definition K_REMEMBER : bytes := [82; 69; 77; 69; 77; 66; 69; 82]. (* REMEMBER *)
Definition AS_PAT : bytes := [32; 65; 83; 32]. (* AS *)

Fixpoint starts_with_ci (p s : bytes) : bool :=
  match p, s with
  | [], _ => true
  | x :: p', y :: s' => (to_upper x =? to_upper y) && starts_with_ci p' s'
  | _ :: _, [] => false
  end.

(** [upper.rfind(" AS ")]: index of the last occurrence *)
Fixpoint rfind_as (s : bytes) (i : nat) (best : option nat) : option nat :=
  match s with
  | [] => best
  | _ :: r => rfind_as r (S i) (if starts_with_ci AS_PAT s then Some i else best)
  end.

Definition is_alias_char (c : N) : bool := is_alnum c || (c =? 95) || (c =? 45).

Definition parse_remember (fx : bool) (input : bytes) : presult :=
  let remainder := utrim_start (skipn 8 input) in
  match remainder with
  | [] => PErr
  | _ =>
      match rfind_as remainder 0 None with
      | None => PErr
      | Some i =>
          let query_part := utrim (firstn i remainder) in
          let alias_part := utrim (skipn (i + 4) remainder) in
          match query_part with
          | [] => PErr
          | _ =>
              if negb (starts_with_ci K_QUERY query_part) then PErr
              else match alias_part with
                   | [] => PErr
                   | _ =>
                       if negb (forallb is_alias_char alias_part) then PErr
                       else of_res (CRemember alias_part) (parse_query fx query_part)
                   end
          end
      end
  end.

(** * Token parsers *)

Definition word_is (k : bytes) (t : token) : bool :=
  match t with TWord w => ci_eqb w k | _ => false end.
Definition name_of (t : token) : option bytes :=
  match t with TWord w => Some w | TStr s => Some s | _ => None end.
Definition is_comma (t : token) : bool := match t with TSym 44 => true | _ => false end.

Definition K_PING : bytes := [80; 73; 78; 71]. (* PING *)
Definition K_FLUSH : bytes := [70; 76; 85; 83; 72]. (* FLUSH *)
Definition K_LIST : bytes := [76; 73; 83; 84]. (* LIST *)
Definition K_USERS : bytes := [85; 83; 69; 82; 83]. (* USERS *)
Definition K_SHOW : bytes := [83; 72; 79; 87]. (* SHOW *)
Definition K_PERMISSIONS : bytes := [80; 69; 82; 77; 73; 83; 83; 73; 79; 78; 83]. (* PERMISSIONS *)
Definition K_REVOKE : bytes := [82; 69; 86; 79; 75; 69]. (* REVOKE *)
Definition K_KEY : bytes := [75; 69; 89]. (* KEY *)
Definition K_GRANT : bytes := [71; 82; 65; 78; 84]. (* GRANT *)
Definition K_READ : bytes := [82; 69; 65; 68]. (* READ *)
Definition K_WRITE : bytes := [87; 82; 73; 84; 69]. (* WRITE *)
Definition K_ON : bytes := [79; 78]. (* ON *)
Definition K_TO : bytes := [84; 79]. (* TO *)
Definition K_FROM : bytes := [70; 82; 79; 77]. (* FROM *)
Definition K_CREATE : bytes := [67; 82; 69; 65; 84; 69]. (* CREATE *)
Definition K_USER : bytes := [85; 83; 69; 82]. (* USER *)
Definition K_WITH : bytes := [87; 73; 84; 72]. (* WITH *)
Definition K_ROLES : bytes := [82; 79; 76; 69; 83]. (* ROLES *)
Definition K_DEFINE : bytes := [68; 69; 70; 73; 78; 69]. (* DEFINE *)
Definition K_BATCH : bytes := [66; 65; 84; 67; 72]. (* BATCH *)
Definition K_PLOT : bytes := [80; 76; 79; 84]. (* PLOT *)
Definition W_read : bytes := [114; 101; 97; 100]. (* read *)
Definition W_write : bytes := [119; 114; 105; 116; 101]. (* write *)

(** ping.rs / flush.rs: the first token was matched by the switch; nothing may follow *)
Definition parse_nullary (c : command) (ts : list token) : presult :=
  match ts with
  | [_] => POk c
  | _ => PErr
  end.

Definition parse_list_users (ts : list token) : presult :=
  match ts with
  | [_; t] => if word_is K_USERS t then POk CListUsers else PErr
  | _ => PErr
  end.

(** show.rs: exactly one argument, a word or a string, non-empty, alias characters only *)
Definition parse_show (ts : list token) : presult :=
  match ts with
  | [_; t] =>
      match name_of t with
      | Some [] => PErr
      | Some a => if forallb is_alias_char a then POk (CShowMat a) else PErr
      | None => PErr
      end
  | _ => PErr
  end.

Definition parse_show_permissions (ts : list token) : presult :=
  match ts with
  | [_; _; f; u] =>
      if word_is K_FOR f then match name_of u with Some n => POk (CShowPerm n) | None => PErr end else PErr
  | _ => PErr
  end.

Definition parse_revoke_key (ts : list token) : presult :=
  match ts with
  | [_; _; u] => match name_of u with Some n => POk (CRevokeKey n) | None => PErr end
  | _ => PErr
  end.

(** grant_permission.rs / revoke_permission.rs: the permission loop.
    Result: [None] = error (a word other than READ/WRITE); else permissions (reversed) and rest. *)
Fixpoint perm_loop (fuel : nat) (ts : list token) (acc : list bytes) : option (list bytes * list token) :=
  match fuel with
  | O => Some (acc, ts)
  | S f =>
      match ts with
      | TWord w :: r =>
          if ci_eqb w K_READ || ci_eqb w K_WRITE then
            let acc' := (if ci_eqb w K_READ then W_read else W_write) :: acc in
            match r with
            | t :: r' => if is_comma t then perm_loop f r' acc' else Some (acc', r)
            | [] => Some (acc', r)
            end
          else None
      | _ => Some (acc, ts)
      end
  end.

(** the event-type loop: [None] = error (a token that is neither word nor string) *)
Fixpoint evtype_loop (fuel : nat) (ts : list token) (acc : list bytes) : option (list bytes * list token) :=
  match fuel with
  | O => Some (acc, ts)
  | S f =>
      match ts with
      | [] => Some (acc, [])
      | t :: r =>
          match name_of t with
          | Some n =>
              match r with
              | t2 :: r' => if is_comma t2 then evtype_loop f r' (n :: acc) else Some (n :: acc, r)
              | [] => Some (n :: acc, r)
              end
          | None => None
          end
      end
  end.

Definition parse_grant_like (is_grant : bool) (ts : list token) : presult :=
  match ts with
  | _ :: r0 =>
      match perm_loop (S (length r0)) r0 [] with
      | None => PErr
      | Some (perms, r1) =>
          if is_grant && (match perms with [] => true | _ => false end) then PErr else
          match r1 with
          | t_on :: r2 =>
              if negb (word_is K_ON t_on) then PErr else
              match evtype_loop (S (length r2)) r2 [] with
              | None => PErr
              | Some ([], _) => PErr
              | Some (evs, r3) =>
                  match r3 with
                  | [t_to; u] =>
                      if word_is (if is_grant then K_TO else K_FROM) t_to then
                        match name_of u with
                        | Some n => POk ((if is_grant then CGrant else CRevokePerm) (frev perms) (frev evs) n)
                        | None => PErr
                        end
                      else PErr
                  | _ => PErr
                  end
              end
          | [] => PErr
          end
      end
  | [] => PErr
  end.

(** create_user.rs: the ROLES array loop: words/strings are roles, commas are skipped *)
Fixpoint roles_loop (ts : list token) (acc : list bytes) : option (list bytes * list token) :=
  match ts with
  | [] => None
  | TRSq :: r => Some (frev acc, r)
  | t :: r =>
      match name_of t with
      | Some n => roles_loop r (n :: acc)
      | None => if is_comma t then roles_loop r acc else None
      end
  end.

Fixpoint with_loop (fuel : nat) (ts : list token) (key : option bytes) (roles : option (list bytes))
  : option (option bytes * option (list bytes) * list token) :=
  match fuel with
  | O => Some (key, roles, ts)
  | S f =>
      match ts with
      | TWord w :: r =>
          if ci_eqb w K_WITH then
            match r with
            | TWord k :: r1 =>
                if ci_eqb k K_KEY then
                  match r1 with
                  | t :: r2 => match name_of t with Some n => with_loop f r2 (Some n) roles | None => None end
                  | [] => None
                  end
                else if ci_eqb k K_ROLES then
                  match r1 with
                  | TLSq :: r2 =>
                      match roles_loop r2 [] with
                      | Some (l, r3) => with_loop f r3 key (Some l)
                      | None => None
                      end
                  | _ => None
                  end
                else None
            | _ => None
            end
          else Some (key, roles, ts)
      | _ => Some (key, roles, ts)
      end
  end.

Definition parse_create_user (ts : list token) : presult :=
  match ts with
  | _ :: t_user :: u :: r =>
      if negb (word_is K_USER t_user) then PErr else
      match name_of u with
      | None => PErr
      | Some n =>
          match with_loop (S (length r)) r None None with
          | Some (key, roles, []) => POk (CCreateUser n key roles)
          | _ => PErr
          end
      end
  | _ => PErr
  end.

(** * PLOT (plotql.rs; Model/PlotQL.v) *)
Definition parse_plot_cmd (s : bytes) : presult :=
  match parse_plot s with
  | Ok (PlotQuery q) => POk (CQuery q)
  | Ok (PlotCompare qs) => POk (CCompare qs)
  | Err => PErr | Panic k => PPanic k | OOF => POOF
  end.

(** * DEFINE (define.rs)

    The FIELDS block is rebuilt from the tokens as JSON text (words and strings re-quoted without
    escaping, symbols and brackets copied, numbers re-rendered, ';' '(' ')' dropped) and parsed by
    serde_json; the object must map each key to a string or to a non-empty array of strings.  With
    token contents that need no escaping ("plain": no quote, backslash or control character) that is
    exactly: '{' [ name ':' spec { ',' name ':' spec } ] '}' with spec = name | '[' name { ',' name } ']'
    over the word / string tokens; any number token or other symbol makes the result an error. *)

Definition is_plain_char (c : N) : bool := negb (c =? 34) && negb (c =? 92) && negb (c <? 32).
Definition plain (s : bytes) : bool := forallb is_plain_char s.

Definition K_FIELDS : bytes := [70; 73; 69; 76; 68; 83].
Definition K_AS : bytes := [65; 83].

(** [^[a-zA-Z][a-zA-Z0-9_]{0,99}$] *)
Definition valid_event_type (w : bytes) : bool :=
  match w with
  | c :: r => is_alpha c && forallb (fun x => is_alnum x || (x =? 95)) r && (length r <=? 99)%nat
  | [] => false
  end.

(** a number token that is a plain integer below 2^53 re-renders ([f64::to_string]) as that integer *)
Definition small_int_text (raw : bytes) : option bytes :=
  match integer raw with
  | Some ((neg, d), []) =>
      let v := digits_val d 0 in
      if v <? 9007199254740992 then Some ((if neg then [45] else []) ++ dec_of_N v) else None
  | _ => None
  end.

(** the items of the block that matter; [DNum] is a number token that re-renders as a plain integer (a valid
    JSON number); [DOdd] is a number token in any other form (undecided) *)
Inductive ditem := DName (s : bytes) | DColon | DComma | DLSq | DRSq | DNum | DOdd | DBad.

(** tokens up to the closing brace -> items (None: nested '{' or no closing brace), and the rest *)
Fixpoint define_items (ts : list token) (acc : list ditem) : option (list ditem * list token) :=
  match ts with
  | [] => None
  | t :: r =>
      match t with
      | TLBrace => None
      | TRBrace => Some (frev acc, r)
      | TLSq => define_items r (DLSq :: acc)
      | TRSq => define_items r (DRSq :: acc)
      | TWord w => define_items r (DName w :: acc)
      | TStr w => define_items r (DName w :: acc)
      | TSym c => define_items r ((if c =? 58 then DColon else if c =? 44 then DComma else DBad) :: acc)
      | TNum raw => define_items r ((match small_int_text raw with Some _ => DNum | None => DOdd end) :: acc)
      | _ => define_items r acc
      end
  end.

(** a JSON value over the items: a name (string), a number, or an array of values.  [Some (Some spec)] when it
    is a string or a non-empty array of strings; [Some None] for any other valid value (rejected later by the
    type check, if its key survives) *)
Definition jv := option fieldspec.
Fixpoint define_value (fuel : nat) (is : list ditem) : option (jv * option bytes * list ditem) :=
  (* the middle component: Some s when the value is the string s *)
  match fuel with
  | O => None
  | S f =>
      match is with
      | DName n :: r => Some (Some (FPrim n), Some n, r)
      | DNum :: r => Some (None, None, r)
      | DLSq :: DRSq :: r => Some (None, None, r)
      | DLSq :: r =>
          (fix elems (k : nat) (is' : list ditem) (acc : list bytes) (allstr : bool) : option (jv * option bytes * list ditem) :=
             match k with
             | O => None
             | S k' =>
                 match define_value f is' with
                 | Some (_, so, r1) =>
                     let acc' := match so with Some x => x :: acc | None => acc end in
                     let allstr' := allstr && match so with Some _ => true | None => false end in
                     match r1 with
                     | DRSq :: r2 => Some ((if allstr' then Some (FEnum (frev acc')) else None), None, r2)
                     | DComma :: r2 => elems k' r2 acc' allstr'
                     | _ => None
                     end
                 | None => None
                 end
             end) (S (length r)) r [] true
      | _ => None
      end
  end.

Fixpoint define_members (fuel : nat) (is : list ditem) (acc : list (bytes * jv)) : option (list (bytes * jv)) :=
  match fuel with
  | O => None
  | S f =>
      match is with
      | DName k :: DColon :: r =>
          match define_value (S (length r)) r with
          | Some (v, _, r') =>
              match r' with
              | [] => Some (frev ((k, v) :: acc))
              | DComma :: r'' => define_members f r'' ((k, v) :: acc)
              | _ => None
              end
          | None => None
          end
      | _ => None
      end
  end.

(** serde_json keeps the last value of a repeated key; then every remaining value must have a good type *)
Fixpoint last_wins (l : list (bytes * jv)) : list (bytes * jv) :=
  match l with
  | [] => []
  | (k, v) :: r => if existsb (fun kv => bytes_eqb (fst kv) k) r then last_wins r else (k, v) :: last_wins r
  end.
Fixpoint good_fields (l : list (bytes * jv)) : option (list (bytes * fieldspec)) :=
  match l with
  | [] => Some []
  | (k, Some sp) :: r => match good_fields r with Some r' => Some ((k, sp) :: r') | None => None end
  | (_, None) :: _ => None
  end.

(** number tokens are re-rendered without separators, so two adjacent ones (or one next to a stray symbol)
    could fuse into one JSON number: undecided *)
Fixpoint items_decided (is : list ditem) : bool :=
  match is with
  | [] => true
  | DOdd :: _ => false
  | DNum :: DNum :: _ | DNum :: DBad :: _ | DBad :: DNum :: _ => false
  | _ :: r => items_decided r
  end.

Definition tok_plain (t : token) : bool :=
  match t with TWord w | TStr w => plain w | _ => true end.

(** [Some(Number(n)) if n >= 0.0 => n as u32] on the scanned text: only the forms [-]digits[.digits]
    with at most 15 significant digits in total are decided *)
Definition strip_zeros (d : bytes) : bytes := drop_while (fun c => c =? 48) d.
Definition version_of_num (raw : bytes) : option (option N) :=   (* None: undecided; Some None: error; Some (Some v) *)
  match number_text raw with
  | Some ((neg, d, fo), []) =>
      let fd := match fo with Some x => x | None => [] end in
      let iv := digits_val d 0 in
      let zero := (iv =? 0) && (digits_val fd 0 =? 0) in
      if neg && negb zero then Some None
      else if match fo with None => true | Some _ => (length (strip_zeros d) + length fd <=? 15)%nat end
      then Some (Some (if 4294967295 <=? iv then 4294967295 else iv))
      else None
  | _ => None
  end.

Definition parse_define (ts : list token) : presult :=
  match ts with
  | _ :: TWord et :: r0 =>
      if negb (valid_event_type et) then PErr else
      let after_version (version : option N) (r : list token) : presult :=
        match r with
        | TWord f :: TLBrace :: r1 =>
            if negb (ci_eqb f K_FIELDS) then PErr else
            match define_items r1 [] with
            | None => PErr
            | Some (items, rest) =>
                if negb (forallb tok_plain (firstn (length r1 - length rest) r1)) || negb (items_decided items)
                then PUnmodelled UDefine else
                match items with
                | [] => PErr                                           (* {} : EmptySchema *)
                | _ =>
                    match define_members (S (length items)) items [] with
                    | Some members =>
                        match good_fields (last_wins members) with
                        | Some fields => match rest with [] => POk (CDefine et version fields) | _ => PErr end
                        | None => PErr
                        end
                    | None => PErr
                    end
                end
            end
        | _ => PErr
        end in
      match r0 with
      | TWord a :: r1 =>
          if ci_eqb a K_AS then
            match r1 with
            | TNum raw :: r2 =>
                match version_of_num raw with
                | Some (Some v) => after_version (Some v) r2
                | Some None => PErr
                | None => PUnmodelled UDefine
                end
            | _ => PErr        (* a word never parses as u32 (it starts with a letter or '_'); anything else is an error *)
            end
          else after_version None r0
      | _ => after_version None r0
      end
  | _ => PErr
  end.

(** * BATCH (batch.rs): the commands between '[' and ']' are re-assembled from the tokens into one text,
    split at ';', trimmed and parsed one by one *)

(** the buffer is accumulated in reverse ([rbuf]); a word / string / number is preceded by a space unless
    the buffer is empty *)
Definition push_spaced (rbuf piece : bytes) : bytes :=
  match rbuf with [] => rev_append piece [] | _ => rev_append piece (32 :: rbuf) end.

(** result: None = error; Some (None) = undecided; Some (Some text) *)
Fixpoint batch_buffer (ts : list token) (depth : nat) (rbuf : bytes) (undecided : bool) : option (option bytes) :=
  match ts with
  | [] => None                                                     (* missing ']' *)
  | t :: r =>
      match t with
      | TLBrace => batch_buffer r (S depth) (123 :: rbuf) undecided
      | TRBrace => match depth with O => None | S d => batch_buffer r d (125 :: rbuf) undecided end
      | TRSq => match depth with O => Some (if undecided then None else Some (frev rbuf)) | S _ => None end
      | TWord w => batch_buffer r depth (push_spaced rbuf w) undecided
      | TStr w => batch_buffer r depth (push_spaced rbuf (34 :: w ++ [34])) undecided
      | TNum raw =>
          match small_int_text raw with
          | Some txt => batch_buffer r depth (push_spaced rbuf txt) undecided
          | None => batch_buffer r depth rbuf true
          end
      | TSym c => batch_buffer r depth (c :: rbuf) undecided
      | TSemi => batch_buffer r depth (59 :: rbuf) undecided
      | _ => batch_buffer r depth rbuf undecided
      end
  end.

Fixpoint split_semi (s : bytes) (cur : bytes) : list bytes :=
  match s with
  | [] => [frev cur]
  | c :: r => if c =? 59 then frev cur :: split_semi r [] else split_semi r (c :: cur)
  end.

(** * [parse_command] *)

(** every head except BATCH; [batch] is what a BATCH head does with the tokens *)
Definition parse_command_with (batch : list token -> presult) (fx : bool) (raw : bytes) : presult :=
  let input := utrim raw in
  let ts := tokenize input in
  if negb (tokens_in_domain ts) then PDomain
  else if negb (tokens_valid ts) then PErr
  else
    match ts with
    | TWord w :: rest =>
        if ci_eqb w K_DEFINE then parse_define ts
        else if ci_eqb w K_STORE then parse_store input
        else if ci_eqb w K_REMEMBER then parse_remember fx input
        else if ci_eqb w K_QUERY || ci_eqb w K_FIND then of_res CQuery (parse_query fx input)
        else if ci_eqb w K_REPLAY then parse_replay input
        else if ci_eqb w K_BATCH then batch ts
        else if ci_eqb w K_PING then parse_nullary CPing ts
        else if ci_eqb w K_FLUSH then parse_nullary CFlush ts
        else if ci_eqb w K_PLOT then parse_plot_cmd input
        else if ci_eqb w K_CREATE then parse_create_user ts
        else if ci_eqb w K_REVOKE then
          match rest with
          | t :: _ => if word_is K_KEY t then parse_revoke_key ts else parse_grant_like false ts
          | [] => parse_grant_like false ts
          end
        else if ci_eqb w K_LIST then parse_list_users ts
        else if ci_eqb w K_GRANT then parse_grant_like true ts
        else if ci_eqb w K_SHOW then
          match rest with
          | t :: _ => if word_is K_PERMISSIONS t then parse_show_permissions ts else parse_show ts
          | [] => parse_show ts
          end
        else PErr
    | _ => PErr
    end.

(** a part of a BATCH that is itself a BATCH is an error: the re-assembled text contains no '[' right after
    the word (brackets are dropped, a string starts with its quote) *)
Definition parse_command_core (fx : bool) (raw : bytes) : presult := parse_command_with (fun _ => PErr) fx raw.

Fixpoint batch_parts (fx : bool) (parts : list bytes) (acc : list command) (undecided : option presult) : presult :=
  match parts with
  | [] => match undecided with
          | Some u => u
          | None => match acc with [] => PErr | _ => POk (CBatch (frev acc)) end
          end
  | p :: r =>
      match utrim p with
      | [] => batch_parts fx r acc undecided
      | _ =>
          match parse_command_core fx p with
          | POk c => batch_parts fx r (c :: acc) undecided
          | PErr => PErr
          | PPanic k => PPanic k            (* parts are parsed in order: nothing after a panic runs *)
          | POOF => POOF
          | other => batch_parts fx r acc (match undecided with Some u => Some u | None => Some other end)
          end
      end
  end.

Definition parse_batch (fx : bool) (ts : list token) : presult :=
  match ts with
  | _ :: TLSq :: r =>
      match batch_buffer r 0 [] false with
      | None => PErr
      | Some None => PUnmodelled UBatch
      | Some (Some buf) =>
          (* an error in any part is an error of the whole, whatever the undecided parts are *)
          batch_parts fx (split_semi buf []) [] None
      end
  | _ => PErr
  end.

Definition parse_command (fx : bool) (raw : bytes) : presult := parse_command_with (parse_batch fx) fx raw.

(** [parse_command] in the mode the Rust text is in (tools/params/p31_query_numeric.py reads whether
    the conversions in query.rs [unwrap()] or are fallible [{? }] actions) *)
Definition parse_command_cur (raw : bytes) : presult := parse_command query_numeric_fallible raw.

(** When the input has non-ASCII text outside string literals ([PDomain]) the Rust tokenizer either
    rejects it (the character is not alphanumeric) or lets it through; for the heads that hand the
    raw text to a peg grammar the result is then the grammar's.  [peg_fallback] is that result:
    the implementation must answer either an error or this. *)
Definition peg_fallback (fx : bool) (raw : bytes) : option presult :=
  let input := utrim raw in
  match tokenize input with
  | TWord w :: _ =>
      if ci_eqb w K_STORE then Some (parse_store input)
      else if ci_eqb w K_REMEMBER then Some (parse_remember fx input)
      else if ci_eqb w K_QUERY || ci_eqb w K_FIND then Some (of_res CQuery (parse_query fx input))
      else if ci_eqb w K_REPLAY then Some (parse_replay input)
      else if ci_eqb w K_PLOT then Some (parse_plot_cmd input)
      else None
  | _ => None
  end.

(** * Dispatch (src/command/dispatcher.rs): which [Command] variants have an arm before the
    catch-all [unreachable!()]; the table is regenerated from the Rust text (tools/params/p30_dispatch.py). *)

Inductive ckind :=
| KDefine | KStore | KQuery | KRememberQuery | KShowMaterialized | KReplay | KPing | KFlush
| KBatch | KCompare | KCreateUser | KRevokeKey | KListUsers | KGrantPermission
| KRevokePermission | KShowPermissions.

Definition all_kinds : list ckind :=
  [KDefine; KStore; KQuery; KRememberQuery; KShowMaterialized; KReplay; KPing; KFlush; KBatch;
   KCompare; KCreateUser; KRevokeKey; KListUsers; KGrantPermission; KRevokePermission; KShowPermissions].

Definition dispatch_handled (k : ckind) : bool :=
  match k with
  | KDefine => dispatch_arm_Define | KStore => dispatch_arm_Store | KQuery => dispatch_arm_Query
  | KRememberQuery => dispatch_arm_RememberQuery | KShowMaterialized => dispatch_arm_ShowMaterialized
  | KReplay => dispatch_arm_Replay | KPing => dispatch_arm_Ping | KFlush => dispatch_arm_Flush
  | KBatch => dispatch_arm_Batch | KCompare => dispatch_arm_Compare
  | KCreateUser => dispatch_arm_CreateUser | KRevokeKey => dispatch_arm_RevokeKey
  | KListUsers => dispatch_arm_ListUsers | KGrantPermission => dispatch_arm_GrantPermission
  | KRevokePermission => dispatch_arm_RevokePermission | KShowPermissions => dispatch_arm_ShowPermissions
  end.

Definition kind_of (c : command) : ckind :=
  match c with
  | CQuery _ => KQuery | CReplay _ _ _ _ _ => KReplay | CStore _ _ _ => KStore
  | CRemember _ _ => KRememberQuery | CShowMat _ => KShowMaterialized
  | CPing => KPing | CFlush => KFlush | CListUsers => KListUsers
  | CCreateUser _ _ _ => KCreateUser | CRevokeKey _ => KRevokeKey
  | CGrant _ _ _ => KGrantPermission | CRevokePerm _ _ _ => KRevokePermission
  | CShowPerm _ => KShowPermissions
  | CCompare _ => KCompare | CDefine _ _ _ => KDefine | CBatch _ => KBatch
  end.
