(** Model of src/engine/core/event/event_id.rs ([EventIdGenerator::next], [wait_next_millis]),
    of the id handling of WAL recovery (src/engine/core/wal/wal_recovery.rs) and of the
    synthetic row id of src/engine/core/filter/condition_evaluator.rs.
    Executable definitions only.  All numbers are [N]; every place where the Rust code
    truncates ([as u16], [<<] on u64), saturates ([saturating_sub]) or masks is explicit.
    Bit widths, epoch and cast widths come from the regenerated [Gen.Params]. *)
From Coq Require Import NArith List Bool.
From Snel Require Import Gen.Params.
Import ListNotations.
Open Scope N_scope.

(** ---- constants of event_id.rs ---- *)
Definition seq_mask : N := N.ones id_seq_bits.          (* (1 << SEQUENCE_BITS) - 1 *)
Definition shard_mask : N := N.ones id_shard_bits.      (* (1 << SHARD_ID_BITS) - 1 *)
Definition ts_mask : N := N.ones id_ts_bits.            (* (1 << TIMESTAMP_BITS) - 1 *)
Definition u64_wrap (x : N) : N := x mod 2 ^ 64.
Definition u16_cast (x : N) : N := x mod 2 ^ id_shard_cast_bits.   (* [self.id as u16] *)

(** [N] subtraction is truncated at zero, which is [u64::saturating_sub]. *)
Definition ts_component (millis : N) : N := N.land (millis - id_epoch_ms) ts_mask.
Definition shard_component (shard : N) : N := N.land (u16_cast shard) shard_mask.

(** The raw id: [(ts << (SHARD+SEQ)) | (shard << SEQ) | seq] in u64 arithmetic. *)
Definition pack (millis shard seq : N) : N :=
  N.lor (N.lor (u64_wrap (N.shiftl (ts_component millis) (id_shard_bits + id_seq_bits)))
               (u64_wrap (N.shiftl (shard_component shard) id_seq_bits)))
        seq.

(** Field extraction (what a reader of an id sees). *)
Definition id_seq (id : N) : N := N.land id seq_mask.
Definition id_shard (id : N) : N := N.land (N.shiftr id id_seq_bits) shard_mask.
Definition id_ts (id : N) : N := N.shiftr id (id_shard_bits + id_seq_bits).

(** ---- generator ---- *)
Record gen := mkGen { last_millis : N; sequence : N }.
Definition gen0 : gen := mkGen 0 0.                      (* [EventIdGenerator::default()] *)

(** The clock is an oracle: the list of readings [current_millis] will return, in order.
    [wait_next_millis last]: read until a reading exceeds [last]; [None] when the oracle is
    exhausted first (the real loop would keep spinning). *)
Fixpoint wait_next_millis (last : N) (rs : list N) : option (N * list N) :=
  match rs with
  | [] => None
  | now :: rs' => if now <=? last then wait_next_millis last rs' else Some (now, rs')
  end.

(** [sequence.wrapping_add(1) & SEQUENCE_MASK] on a u16. *)
Definition seq_succ (s : N) : N := N.land ((s + 1) mod 2 ^ 16) seq_mask.

(** One call of [EventIdGenerator::next(shard)]: the issued id, the new generator state and
    the remaining clock readings. *)
Definition gen_next (g : gen) (shard : N) (rs : list N) : option (N * gen * list N) :=
  match rs with
  | [] => None
  | r :: rs1 =>
      let millis := if r <? last_millis g then last_millis g else r in
      if millis =? last_millis g then
        let s := seq_succ (sequence g) in
        if s =? 0 then
          match wait_next_millis (last_millis g) rs1 with
          | None => None
          | Some (m, rs2) => Some (pack m shard s, mkGen m s, rs2)
          end
        else Some (pack millis shard s, mkGen millis s, rs1)
      else Some (pack millis shard 0, mkGen millis 0, rs1)
  end.

(** [k] consecutive calls (stops early when the clock oracle runs dry). *)
Fixpoint issue (k : nat) (g : gen) (shard : N) (rs : list N) : list N * gen * list N :=
  match k with
  | O => ([], g, rs)
  | S k' =>
      match gen_next g shard rs with
      | None => ([], g, rs)
      | Some (id, g', rs') =>
          let '(ids, g'', rs'') := issue k' g' shard rs' in (id :: ids, g'', rs'')
      end
  end.

Definition issued (k : nat) (g : gen) (shard : N) (rs : list N) : list N :=
  fst (fst (issue k g shard rs)).
Definition gen_after (k : nat) (g : gen) (shard : N) (rs : list N) : gen :=
  snd (fst (issue k g shard rs)).

(** The clock window in which the timestamp component is exact. *)
Definition in_window (r : N) : bool :=
  (id_epoch_ms <=? r) && (r <? id_epoch_ms + 2 ^ id_ts_bits).

(** ---- WAL recovery (wal_recovery.rs [replay_log_file]) ----
    Every parsed entry is inserted with its stored id; only a zero id is replaced by a
    fresh one from the (new, not re-seeded) generator of the recovering shard. *)
Fixpoint recover (g : gen) (shard : N) (rs : list N) (stored : list N)
  : list N * gen * list N :=
  match stored with
  | [] => ([], g, rs)
  | id :: rest =>
      if id =? 0 then
        match gen_next g shard rs with
        | None => ([], g, rs)
        | Some (id', g', rs') =>
            let '(ids, g'', rs'') := recover g' shard rs' rest in (id' :: ids, g'', rs'')
        end
      else
        let '(ids, g'', rs'') := recover g shard rs rest in (id :: ids, g'', rs'')
  end.

(** One process lifetime of a shard: recover the WAL ids, then apply [k] new STOREs.
    Result: the recovered ids and the new ids (memtable = recovered ++ new, in apply order)
    and the final generator state. *)
Definition lifetime (shard : N) (stored : list N) (k : nat) (rs : list N)
  : list N * list N * gen :=
  let '(rec_ids, g1, rs1) := recover gen0 shard rs stored in
  let '(new_ids, g2, _) := issue k g1 shard rs1 in
  (rec_ids, new_ids, g2).

(** Two lifetimes of one shard with a restart in between, as ids in apply order. *)
Definition two_lifetimes (shard : N) (k1 : nat) (rs1 : list N) (k2 : nat) (rs2 : list N)
  : list N :=
  issued k1 gen0 shard rs1 ++ issued k2 gen0 shard rs2.

(** What the shard holds after: a first lifetime of [k1] STOREs, a restart that recovers every
    id of the first lifetime from the WAL, and [k2] further STOREs. *)
Definition restart_history (shard : N) (k1 : nat) (rs1 : list N) (k2 : nat) (rs2 : list N)
  : list N :=
  let '(_, ids1, _) := lifetime shard [] k1 rs1 in
  let '(rec_ids, new_ids, _) := lifetime shard ids1 k2 rs2 in
  rec_ids ++ new_ids.

(** Known failing class across a restart: the first clock reading of the new lifetime does
    not exceed the last millisecond the previous lifetime used. *)
Definition restart_clock_not_advanced (g_before : gen) (rs2 : list N) : bool :=
  match rs2 with
  | [] => false
  | r :: _ => r <=? last_millis g_before
  end.

(** ---- synthetic row id (condition_evaluator.rs [evaluate_zones_with_limit]) ----
    [(zone.zone_id as u64) << 32 | (i as u64)] replaces the id of a materialised row when
    the zone has no event_id column or the stored id is zero.  The segment the zone
    belongs to is not an input. *)
Definition synthetic_id (zone row : N) : N :=
  N.lor (u64_wrap (N.shiftl (zone mod 2 ^ 32) id_synth_shift)) (u64_wrap row).

(** Known class: the row gets a synthetic id. *)
Definition synthetic_row (id_column_missing : bool) (stored : N) : bool :=
  id_column_missing || (stored =? 0).

Definition row_id (segment zone row : N) (id_column_missing : bool) (stored : N) : N :=
  if synthetic_row id_column_missing stored then synthetic_id zone row else stored.

(** ---- response de-duplication (query/streaming/response_writer.rs [seen_ids]) ----
    A row whose event id was already written to the response is skipped.  Rows are
    (payload key, event id) pairs in the order they reach the writer. *)
Fixpoint dedup_ids (seen : list N) (rows : list (N * N)) : list (N * N) :=
  match rows with
  | [] => []
  | (x, id) :: r =>
      if existsb (N.eqb id) seen then dedup_ids seen r
      else (x, id) :: dedup_ids (id :: seen) r
  end.

(** Rows a QUERY shows after [restart_history]: the i-th applied event has payload key i. *)
Definition number_rows (ids : list N) : list (N * N) :=
  combine (map N.of_nat (seq 0 (length ids))) ids.

Definition visible_after_restart (shard : N) (k1 : nat) (rs1 : list N) (k2 : nat) (rs2 : list N)
  : list (N * N) :=
  dedup_ids [] (number_rows (restart_history shard k1 rs1 k2 rs2)).
