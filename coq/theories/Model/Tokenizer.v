(** Model of src/command/parser/tokenizer.rs ([tokenize]) at byte level — executable
    definitions only.

    The Rust tokenizer works on [char]s; the model works on the UTF-8 bytes.  Inside a
    string literal every char is copied, so bytes and chars agree.  Outside string
    literals the model covers ASCII only: a byte >= 128 there yields [TNonAscii] (the
    Rust code consults Unicode tables — [char::is_alphanumeric], [char::is_numeric] —
    which are not modelled); a result containing [TNonAscii] is 'out of the model's
    domain'. *)
From Coq Require Import NArith List Bool.
From Snel Require Import Base.Bytes Gen.Params.
Import ListNotations.
Open Scope N_scope.

Inductive token :=
| TWord (w : bytes)          (* Token::Word *)
| TNum (raw : bytes)         (* Token::Number; the model keeps the scanned text, not the f64 *)
| TStr (s : bytes)           (* Token::StringLiteral, escapes resolved *)
| TSym (c : N)               (* Token::Symbol: one of Params.tokenizer_symbol_chars *)
| TLBrace | TRBrace | TSemi | TLSq | TRSq | TLPar | TRPar
| TInvalid                   (* Token::Word('<INVALID>') *)
| TNonAscii.                 (* byte >= 128 outside a string literal: not modelled *)

(** linear-time reverse ([List.rev] is quadratic); [frev l = rev l] by [List.rev_alt] *)
Definition frev {A} (l : list A) : list A := rev_append l [].

Fixpoint span (p : N -> bool) (s : bytes) : bytes * bytes :=
  match s with
  | c :: r => if p c then let '(a, b) := span p r in (c :: a, b) else ([], s)
  | [] => ([], [])
  end.

Definition is_alnum (c : N) : bool := is_alpha c || is_digit c.

(** [' ' | '\t' | '\n' | '\r'] — the tokenizer's (and the PEG grammars') whitespace. *)
Definition is_tws (c : N) : bool := (c =? 32) || (c =? 9) || (c =? 10) || (c =? 13).

(** [parse_number]: chars that are numeric, '.' or '-'. *)
Definition is_numchar (c : N) : bool := is_digit c || (c =? 46) || (c =? 45).
(** [parse_word]: alphanumeric, '_' or '-'. *)
Definition is_wordchar (c : N) : bool := is_alnum c || (c =? 95) || (c =? 45).
(** [Token::Symbol] characters: the arm of the tokenizer's match is read from the Rust text
    (tools/params/p32_tokenizer_symbols.py; ':' ',' '=' '>' '<' '!' '.' and, since b3737c8, '+'). *)
Definition is_symchar (c : N) : bool := existsb (N.eqb c) tokenizer_symbol_chars.

Definition unescape (e : N) : N :=
  if e =? 110 then 10 else if e =? 116 then 9 else if e =? 114 then 13 else e.

(** [parse_string_literal] after the opening quote: content (reversed accumulator) and rest.
    A backslash takes the next char verbatim (or as \n \t \r); an unterminated literal
    runs to the end of the input. *)
Fixpoint scan_string (s : bytes) (acc : bytes) : bytes * bytes :=
  match s with
  | [] => (frev acc, [])
  | c :: r =>
      if c =? 34 then (frev acc, r)
      else if c =? 92 then
        match r with
        | [] => (frev acc, [])
        | e :: r' => scan_string r' (unescape e :: acc)
        end
      else scan_string r (c :: acc)
  end.

(** One token from a non-empty input: the token (or [None] for skipped whitespace) and the rest. *)
Definition next_token (c : N) (r : bytes) : option token * bytes :=
  if is_tws c then (None, r)
  else if c =? 123 then (Some TLBrace, r)
  else if c =? 125 then (Some TRBrace, r)
  else if c =? 59 then (Some TSemi, r)
  else if c =? 34 then let '(str, r') := scan_string r [] in (Some (TStr str), r')
  else if is_digit c || (c =? 45) then
    let '(a, r') := span is_numchar r in (Some (TNum (c :: a)), r')
  else if is_symchar c then (Some (TSym c), r)
  else if c =? 91 then (Some TLSq, r)
  else if c =? 93 then (Some TRSq, r)
  else if c =? 40 then (Some TLPar, r)
  else if c =? 41 then (Some TRPar, r)
  else if 128 <=? c then (Some TNonAscii, r)
  else if is_wordchar c then
    let '(a, r') := span is_wordchar r in (Some (TWord (c :: a)), r')
  else (Some TInvalid, r).

Fixpoint tokenize_fuel (fuel : nat) (s : bytes) : list token :=
  match fuel with
  | O => []
  | S f =>
      match s with
      | [] => []
      | c :: r =>
          let '(t, r') := next_token c r in
          match t with
          | Some t => t :: tokenize_fuel f r'
          | None => tokenize_fuel f r'
          end
      end
  end.

(** Every step consumes at least one byte, so [length s] steps suffice
    (proved: [TokenizerProofs.tokenize_fuel_enough]). *)
Definition tokenize (s : bytes) : list token := tokenize_fuel (length s) s.

Definition is_invalid (t : token) : bool := match t with TInvalid => true | _ => false end.
Definition is_nonascii (t : token) : bool := match t with TNonAscii => true | _ => false end.

(** [validate_tokens]: any [<INVALID>] word rejects the command. *)
Definition tokens_valid (ts : list token) : bool := negb (existsb is_invalid ts).
Definition tokens_in_domain (ts : list token) : bool := negb (existsb is_nonascii ts).

(** [str::eq_ignore_ascii_case]. *)
Definition ci_eqb (a b : bytes) : bool := bytes_eqb (map to_upper a) (map to_upper b).
