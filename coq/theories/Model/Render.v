(** Model of the response encodings of sneldb — executable definitions only.

    Rust sources:
      src/command/handlers/query/streaming/response_writer.rs  (QueryResponseWriter)
      src/command/handlers/show/streaming/response_writer.rs   (ShowResponseWriter)
      src/shared/response/{render,json,unix,arrow,types}.rs    (renderers, ArrowStreamEncoder)
      src/engine/core/read/flow/batch.rs                       (ColumnBatch::to_record_batch)
      src/engine/types/mod.rs                                  (ScalarValue::{to_json,to_string_repr,as_u64})
      src/frontend/http/dispatcher.rs                          (extract_http_status_from_response)

    What a client *decodes* from each encoding is modelled, not the bytes: a JSON/text stream is a
    list of frames whose cells are JSON values, an Arrow IPC stream is a schema and record batches
    whose cells are typed array slots.  Three library behaviours are inputs of the model rather than
    modelled (they are in the trusted base, DESIGN §4): whether serde_json reads a string as an
    object/array (and which one), the f64 Rust parses from a string, and the text Rust prints for
    an f64.  They travel with the value ([SUtf8 s doc fl], [SFloat bits disp]).

    The sets of runtime kinds each Arrow builder accepts are read from the Rust text by
    tools/params/p50_render.py ([render_w_*] for the whole-batch path in batch.rs, [render_r_*] for
    the row-index path in arrow.rs), as is the logical-type -> Arrow-type table of both files. *)
From Coq Require Import NArith ZArith List Bool.
From Snel Require Import Base.Bytes Gen.Params.
Import ListNotations.
Open Scope N_scope.

(** ** Values *)

(** [ScalarValue].  [SFloat bits disp]: [disp] is the text of [f64::to_string].
    [SUtf8 s doc fl]: [doc = Some c] iff [serde_json::from_str::<Value>(s)] is an object or an
    array, [c] its canonical compact text; [fl] is [s.parse::<f64>().ok()] as a bit pattern. *)
Inductive scalar :=
| SNull
| SBool (b : bool)
| SInt (z : Z)
| SFloat (bits : N) (disp : bytes)
| STs (z : Z)
| SUtf8 (s : bytes) (doc : option bytes) (fl : option N)
| SBin (b : bytes).

Definition i64_min : Z := (- 2 ^ 63)%Z.
Definition i64_max : Z := (2 ^ 63 - 1)%Z.
Definition u64_max : Z := (2 ^ 64 - 1)%Z.

(** standard base64 with padding ([BASE64_STANDARD.encode]) *)
Definition b64_char (i : N) : N :=
  if i <? 26 then 65 + i else if i <? 52 then 97 + (i - 26) else if i <? 62 then 48 + (i - 52)
  else if i =? 62 then 43 else 47.
Fixpoint base64 (b : bytes) : bytes :=
  match b with
  | [] => []
  | [x] => [b64_char (x / 4); b64_char ((x mod 4) * 16); 61; 61]
  | [x; y] => [b64_char (x / 4); b64_char ((x mod 4) * 16 + y / 16); b64_char ((y mod 16) * 4); 61]
  | x :: y :: z :: r =>
      b64_char (x / 4) :: b64_char ((x mod 4) * 16 + y / 16) :: b64_char ((y mod 16) * 4 + z / 64)
      :: b64_char (z mod 64) :: base64 r
  end.

(** finite f64 bit pattern: exponent field not all ones *)
Definition f64_finite (bits : N) : bool := negb (((bits / 2 ^ 52) mod 2 ^ 11) =? 2047).

(** *** Rust integer parsing ([str::parse::<i64>], [str::parse::<u64>]) *)

(** value of a non-empty all-digit string; [None] on any other byte or the empty string *)
Fixpoint digits_val_acc (s : bytes) (acc : N) : option N :=
  match s with
  | [] => Some acc
  | c :: r => if is_digit c then digits_val_acc r (acc * 10 + digit_val c) else None
  end.
Definition digits_val (s : bytes) : option N :=
  match s with [] => None | _ => digits_val_acc s 0 end.

(** [s.parse::<i64>().ok()]: optional '+' or '-', at least one digit, value in range *)
Definition parse_i64 (s : bytes) : option Z :=
  match s with
  | 45 :: r => match digits_val r with
               | Some n => if (Z.of_N n <=? 2 ^ 63)%Z then Some (- Z.of_N n)%Z else None
               | None => None end
  | 43 :: r => match digits_val r with
               | Some n => if (Z.of_N n <=? i64_max)%Z then Some (Z.of_N n) else None
               | None => None end
  | _ => match digits_val s with
         | Some n => if (Z.of_N n <=? i64_max)%Z then Some (Z.of_N n) else None
         | None => None end
  end.

(** [s.parse::<u64>().ok()]: optional '+', at least one digit, value below 2^64 *)
Definition parse_u64 (s : bytes) : option N :=
  let body := match s with 43 :: r => r | _ => s end in
  match digits_val body with
  | Some n => if n <? 2 ^ 64 then Some n else None
  | None => None
  end.

(** [ScalarValue::as_u64] (the event id the writers de-duplicate on) *)
Definition as_u64 (v : scalar) : option N :=
  match v with
  | SInt z => if (0 <=? z)%Z then Some (Z.to_N z) else None
  | STs z => if (0 <=? z)%Z then Some (Z.to_N z) else None
  | SUtf8 s _ _ => parse_u64 s
  | _ => None
  end.

(** *** The Utf8 re-parsing rule of [ScalarValue::to_json] *)

(** JSON whitespace *)
Definition is_json_ws (c : N) : bool := (c =? 32) || (c =? 9) || (c =? 10) || (c =? 13).

(** [s] is a JSON document that serde_json reads as an unsigned integer: optional whitespace,
    ["0"] or a digit run without leading zero, optional whitespace; value below 2^64 (larger
    ones become f64).  Returns the value. *)
Definition json_uint (s : bytes) : option N :=
  let t := rev (drop_while is_json_ws (rev (drop_while is_json_ws s))) in
  match t with
  | [] => None
  | 48 :: _ :: _ => None
  | _ => match digits_val t with
         | Some n => if n <? 2 ^ 64 then Some n else None
         | None => None
         end
  end.

(** the number branch: only a u64 above [i64::MAX] leaves the string form *)
Definition big_u64 (s : bytes) : option N :=
  match json_uint s with
  | Some n => if (render_json_big_threshold <? n) then Some n else None
  | None => None
  end.

(** ** Decoded cells *)

(** What a reader obtains for one cell.  [DDoc c]: a JSON array/object (canonical text [c]). *)
Inductive dcell :=
| DNull | DBool (b : bool) | DInt (z : Z) | DFloat (bits : N) | DStr (s : bytes) | DDoc (c : bytes).

(** [ScalarValue::to_json] as decoded from the frame by a JSON reader.  Non-finite floats have no
    JSON number ([Number::from_f64] is [None]) and become [null]. *)
Definition json_cell (v : scalar) : dcell :=
  match v with
  | SNull => DNull
  | SBool b => DBool b
  | SInt z => DInt z
  | SFloat bits _ => if f64_finite bits then DFloat bits else DNull
  | STs z => DInt z
  | SUtf8 s (Some c) _ => DDoc c
  | SUtf8 s None _ => match big_u64 s with Some n => DInt (Z.of_N n) | None => DStr s end
  | SBin b => DStr (base64 b)
  end.

(** the line-oriented text renderer (unix.rs) calls the same [to_json] on every cell *)
Definition text_cell (v : scalar) : dcell := json_cell v.

(** [ScalarValue::to_string_repr] *)
Definition true_s : bytes := [116; 114; 117; 101].
Definition false_s : bytes := [102; 97; 108; 115; 101].
Definition to_string_repr (v : scalar) : bytes :=
  match v with
  | SNull => []
  | SBool b => if b then true_s else false_s
  | SInt z => dec_of_Z z
  | SFloat _ disp => disp
  | STs z => dec_of_Z z
  | SUtf8 s _ _ => s
  | SBin b => base64 b
  end.

(** *** Arrow *)

Inductive atype := AInt64 | AFloat64 | ABool | ATsMs | ALargeUtf8.

Definition atype_of_code (c : N) : atype :=
  match c with 0 => AInt64 | 1 => AFloat64 | 2 => ABool | 3 => ATsMs | _ => ALargeUtf8 end.

Fixpoint is_prefix (p s : bytes) : bool :=
  match p, s with
  | [], _ => true
  | x :: p', y :: s' => (x =? y) && is_prefix p' s'
  | _ :: _, [] => false
  end.

Fixpoint lookup_exact (tbl : list (bytes * N)) (s : bytes) : option N :=
  match tbl with
  | [] => None
  | (k, c) :: r => if bytes_eqb k s then Some c else lookup_exact r s
  end.
Fixpoint lookup_prefix (tbl : list (bytes * N)) (s : bytes) : option N :=
  match tbl with
  | [] => None
  | (k, c) :: r => if is_prefix k s then Some c else lookup_prefix r s
  end.

(** [logical_to_arrow_type] — the two copies (arrow.rs for the stream schema and the row-index
    path, batch.rs for the whole-batch arrays) are regenerated separately. *)
Definition ltype_lookup (exact pref : list (bytes * N)) (dflt : N) (lt : bytes) : atype :=
  atype_of_code
    match lookup_exact exact lt with
    | Some c => c
    | None => match lookup_prefix pref lt with Some c => c | None => dflt end
    end.
Definition arrow_type_schema (lt : bytes) : atype :=
  ltype_lookup render_ltype_exact_arrow render_ltype_prefix_arrow render_ltype_default_arrow lt.
Definition arrow_type_batch (lt : bytes) : atype :=
  ltype_lookup render_ltype_exact_batch render_ltype_prefix_batch render_ltype_default_batch lt.

(** [i64 as f64]: round to nearest, ties to even *)
Definition f64_of_Z (z : Z) : N :=
  if (z =? 0)%Z then 0 else
  let sign := if (z <? 0)%Z then 2 ^ 63 else 0 in
  let m := Z.abs_N z in
  let e := N.log2 m in
  if e <=? 52 then sign + (e + 1023) * 2 ^ 52 + (m * 2 ^ (52 - e) - 2 ^ 52)
  else
    let sh := e - 52 in
    let q := m / 2 ^ sh in
    let r := m mod 2 ^ sh in
    let half := 2 ^ (sh - 1) in
    let q' := if (half <? r) || ((r =? half) && N.odd q) then q + 1 else q in
    sign + (e + 1023) * 2 ^ 52 + (q' - 2 ^ 52).

(** the boolean words of the whole-batch Boolean builder ([to_ascii_lowercase]) *)
Definition bool_word (s : bytes) : option bool :=
  let l := map to_lower s in
  if bytes_eqb l true_s || bytes_eqb l [49] then Some true
  else if bytes_eqb l false_s || bytes_eqb l [48] then Some false
  else None.

Definition opt_int (o : option Z) : dcell := match o with Some z => DInt z | None => DNull end.

(** Whole-batch path: [ColumnBatch::to_record_batch] (batch.rs [build_*_array_from_scalars]). *)
Definition arrow_cell_whole (t : atype) (v : scalar) : dcell :=
  match t with
  | AInt64 =>
      match v with
      | SInt z => if render_w_int_int64 then DInt z else DNull
      | STs z => if render_w_int_ts then DInt z else DNull
      | SUtf8 s _ _ => if render_w_int_utf8 then opt_int (parse_i64 s) else DNull
      | _ => DNull
      end
  | AFloat64 =>
      match v with
      | SFloat bits _ => if render_w_float_float then DFloat bits else DNull
      | SInt z => if render_w_float_int64 then DFloat (f64_of_Z z) else DNull
      | SUtf8 _ _ fl => if render_w_float_utf8 then match fl with Some b => DFloat b | None => DNull end else DNull
      | _ => DNull
      end
  | ABool =>
      match v with
      | SBool b => if render_w_bool_bool then DBool b else DNull
      | SUtf8 s _ _ => if render_w_bool_utf8 then match bool_word s with Some b => DBool b | None => DNull end else DNull
      | SInt z => if render_w_bool_int64 then DBool (negb (z =? 0)%Z) else DNull
      | _ => DNull
      end
  | ATsMs =>
      match v with
      | STs z => if render_w_ts_ts then DInt z else DNull
      | SInt z => if render_w_ts_int64 then DInt z else DNull
      | SUtf8 s _ _ => if render_w_ts_utf8 then opt_int (parse_i64 s) else DNull
      | _ => DNull
      end
  | ALargeUtf8 =>
      match v with
      | SNull => DNull
      | _ => DStr (to_string_repr v)
      end
  end.

(** Row-index path: [build_record_batch] with [Some(indices)] (arrow.rs). *)
Definition arrow_cell_row (t : atype) (v : scalar) : dcell :=
  match t with
  | AInt64 =>
      match v with
      | SInt z => if render_r_int_int64 then DInt z else DNull
      | STs z => if render_r_int_ts then DInt z else DNull
      | SUtf8 s _ _ => if render_r_int_utf8 then opt_int (parse_i64 s) else DNull
      | _ => DNull
      end
  | AFloat64 =>
      match v with
      | SFloat bits _ => if render_r_float_float then DFloat bits else DNull
      | SInt z => if render_r_float_int64 then DFloat (f64_of_Z z) else DNull
      | SUtf8 _ _ fl => if render_r_float_utf8 then match fl with Some b => DFloat b | None => DNull end else DNull
      | _ => DNull
      end
  | ABool =>
      match v with
      | SBool b => if render_r_bool_bool then DBool b else DNull
      | SUtf8 s _ _ => if render_r_bool_utf8 then match bool_word s with Some b => DBool b | None => DNull end else DNull
      | SInt z => if render_r_bool_int64 then DBool (negb (z =? 0)%Z) else DNull
      | _ => DNull
      end
  | ATsMs =>
      match v with
      | STs z => if render_r_ts_ts then DInt z else DNull
      | SInt z => if render_r_ts_int64 then DInt z else DNull
      | SUtf8 s _ _ => if render_r_ts_utf8 then opt_int (parse_i64 s) else DNull
      | _ => DNull
      end
  | ALargeUtf8 =>
      match v with
      | SNull => DNull
      | _ => DStr (to_string_repr v)
      end
  end.

Inductive apath := PWhole | PRow.

(** The whole-batch path types its arrays with batch.rs's table, the row-index path with
    arrow.rs's (the announced stream schema always comes from arrow.rs). *)
Definition arrow_cell (p : apath) (lt : bytes) (v : scalar) : dcell :=
  match p with
  | PWhole => arrow_cell_whole (arrow_type_batch lt) v
  | PRow => arrow_cell_row (arrow_type_schema lt) v
  end.

(** ** Agreement of decoded cells *)

(** the integer a finite f64 equals, if any *)
Definition f64_int_value (bits : N) : option Z :=
  if negb (f64_finite bits) then None else
  let neg := 2 ^ 63 <=? bits in
  let ex := (bits / 2 ^ 52) mod 2 ^ 11 in
  let frac := bits mod 2 ^ 52 in
  let m := if ex =? 0 then frac else 2 ^ 52 + frac in
  let e := if ex =? 0 then 1 else ex in
  (* value = m * 2^(e - 1075) *)
  let mag :=
    if 1075 <=? e then Some (m * 2 ^ (e - 1075))
    else if m mod 2 ^ (1075 - e) =? 0 then Some (m / 2 ^ (1075 - e)) else None in
  match mag with
  | Some a => Some (if neg then (- Z.of_N a)%Z else Z.of_N a)
  | None => None
  end.

Definition f64_is_nan (bits : N) : bool :=
  (((bits / 2 ^ 52) mod 2 ^ 11) =? 2047) && negb (bits mod 2 ^ 52 =? 0).
Definition f64_is_zero (bits : N) : bool := (bits mod 2 ^ 63) =? 0.

(** numeric equality of two f64 (IEEE [==]) *)
Definition f64_eq (a b : N) : bool :=
  negb (f64_is_nan a) && negb (f64_is_nan b) && ((a =? b) || (f64_is_zero a && f64_is_zero b)).

(** "numbers numerically equal, nulls as nulls, strings byte-identical" *)
Definition cell_agree (a b : dcell) : bool :=
  match a, b with
  | DNull, DNull => true
  | DBool x, DBool y => Bool.eqb x y
  | DInt x, DInt y => (x =? y)%Z
  | DInt x, DFloat f | DFloat f, DInt x =>
      match f64_int_value f with Some y => (x =? y)%Z | None => false end
  | DFloat x, DFloat y => f64_eq x y
  | DStr x, DStr y => bytes_eqb x y
  | DDoc x, DDoc y => bytes_eqb x y
  | _, _ => false
  end.

(** all decodings of one cell agree: JSON (= text), Arrow whole-batch, Arrow row-index *)
Definition cell_all_agree (lt : bytes) (v : scalar) : bool :=
  cell_agree (json_cell v) (arrow_cell PWhole lt v) &&
  cell_agree (json_cell v) (arrow_cell PRow lt v) &&
  cell_agree (arrow_cell PWhole lt v) (arrow_cell PRow lt v) &&
  cell_agree (json_cell v) (text_cell v).

(** an integer that [as f64] represents exactly *)
Definition int_exact_in_f64 (z : Z) : bool :=
  match f64_int_value (f64_of_Z z) with Some y => (y =? z)%Z | None => false end.

(** ** Known classes of disagreeing cells *)

Inductive kclass :=
| Utf8BigU64AsNumber          (* Utf8 holding a u64 above i64::MAX: JSON number, Arrow null / string / float *)
| Utf8JsonDocReparsed         (* Utf8 holding an array/object text: JSON array/object, Arrow string or null *)
| NonFiniteFloatAsNull        (* NaN / inf in a Float or String column: JSON null, Arrow NaN / inf / text *)
| NonIntegerInIntegerColumn   (* Boolean, finite Float64, Utf8 or Binary cell in an Int64 column *)
| NonTimestampInTimestampColumn
| NonFloatInFloatColumn       (* Boolean, Timestamp, Utf8 or Binary cell, or an Int64 that f64 cannot hold exactly, in a Float64 column *)
| NonBooleanInBooleanColumn   (* Int64, Timestamp, finite Float64, Utf8 or Binary cell in a Boolean column *)
| NonStringInStringColumn.    (* Boolean, Int64, Timestamp or finite Float64 cell in a LargeUtf8 column *)

Definition mismatch_class (t : atype) : kclass :=
  match t with
  | AInt64 => NonIntegerInIntegerColumn
  | ATsMs => NonTimestampInTimestampColumn
  | AFloat64 => NonFloatInFloatColumn
  | ABool => NonBooleanInBooleanColumn
  | ALargeUtf8 => NonStringInStringColumn
  end.

(** The class of a cell, [None] when the cell is outside every known class.  The declared type is
    the Arrow type of the column (both tables agree on it, see [Proofs]). *)
Definition known_class_t (t : atype) (v : scalar) : option kclass :=
  match v with
  | SNull => None
  | SUtf8 s (Some _) _ => Some Utf8JsonDocReparsed
  | SUtf8 s None _ =>
      match big_u64 s with
      | Some _ => Some Utf8BigU64AsNumber
      | None => match t with ALargeUtf8 => None | _ => Some (mismatch_class t) end
      end
  | SFloat bits _ =>
      if f64_finite bits then match t with AFloat64 => None | _ => Some (mismatch_class t) end
      else match t with AFloat64 | ALargeUtf8 => Some NonFiniteFloatAsNull | _ => None end
  | SBool _ => match t with ABool => None | _ => Some (mismatch_class t) end
  | SInt z =>
      match t with
      | AInt64 | ATsMs => None
      | AFloat64 =>
          (* both Arrow conversions write [z as f64] when their builders take Int64 cells (after fix
             fba8206); that agrees with the JSON integer exactly when the conversion is exact *)
          if render_w_float_int64 && render_r_float_int64 && int_exact_in_f64 z then None
          else Some NonFloatInFloatColumn
      | _ => Some (mismatch_class t)
      end
  | STs _ => match t with AInt64 | ATsMs => None | _ => Some (mismatch_class t) end
  | SBin _ => match t with ALargeUtf8 => None | _ => Some (mismatch_class t) end
  end.
Definition known_class (lt : bytes) (v : scalar) : option kclass := known_class_t (arrow_type_schema lt) v.

(** "the runtime kind matches the declared type" *)
Definition kind_matches (t : atype) (v : scalar) : bool :=
  match v, t with
  | SNull, _ => true
  | (SInt _ | STs _), (AInt64 | ATsMs) => true
  | SFloat _ _, AFloat64 => true
  | SBool _, ABool => true
  | (SUtf8 _ _ _ | SBin _), ALargeUtf8 => true
  | _, _ => false
  end.
(** the three value-dependent exceptions inside matching kinds *)
Definition reparsed_or_nonfinite (v : scalar) : bool :=
  match v with
  | SUtf8 s (Some _) _ => true
  | SUtf8 s None _ => match big_u64 s with Some _ => true | None => false end
  | SFloat bits _ => negb (f64_finite bits)
  | _ => false
  end.

(** ** The response writers *)

Definition row := list scalar.
Definition batch := list row.           (* row-major; every row has one cell per column *)

Record column := mkColumn { c_name : bytes; c_type : bytes }.

Inductive wkind :=
| WQuery
| WShow (materialized_frames : N) (watermark : bool).

Record wcfg := mkCfg {
  w_limit : option N;
  w_offset : option N;
  w_batch_size : N;          (* CONFIG.query.streaming_batch_size: 0 = one frame per row *)
  w_kind : wkind }.

Record wstate := mkState {
  st_seen : list N;
  st_skipped : N;
  st_emitted : N;
  st_done : bool;            (* limit_reached / done *)
  st_batches : N }.          (* ShowResponseWriter.batch_count *)

Definition st0 : wstate := mkState [] 0 0 false 0.

Definition mem_N (x : N) (l : list N) : bool := existsb (N.eqb x) l.

Definition event_id_name : bytes := [101; 118; 101; 110; 116; 95; 105; 100].

Fixpoint index_of_name (cols : list column) (i : N) : option N :=
  match cols with
  | [] => None
  | c :: r => if bytes_eqb (c_name c) event_id_name then Some i else index_of_name r (N.succ i)
  end.
Definition event_id_idx (cols : list column) : option N := index_of_name cols 0.

Definition row_event_id (idx : option N) (r : row) : option N :=
  match idx with
  | Some i => match nth_error r (N.to_nat i) with Some v => as_u64 v | None => None end
  | None => None
  end.

(** how the de-duplication set treats the rows of the current batch *)
Inductive dedup_mode := DedupOn | DedupInsertOnly | DedupOff.

Definition dedup_mode_of (k : wkind) (batches_seen : N) : dedup_mode :=
  match k with
  | WQuery => DedupOn
  | WShow mfc wm => if wm then DedupOff else if batches_seen <? mfc then DedupInsertOnly else DedupOn
  end.

(** One row through [try_accept_row] (QueryResponseWriter) / the inlined loop body
    (ShowResponseWriter): de-duplicate, then OFFSET, then LIMIT.  Returns the new state and
    whether the row is accepted. *)
Definition accept_row (cfg : wcfg) (mode : dedup_mode) (st : wstate) (eid : option N) : wstate * bool :=
  let dup :=
    match mode, eid with
    | DedupOn, Some id => mem_N id (st_seen st)
    | _, _ => false
    end in
  let seen' :=
    match mode, eid with
    | (DedupOn | DedupInsertOnly), Some id => if mem_N id (st_seen st) then st_seen st else id :: st_seen st
    | _, _ => st_seen st
    end in
  let st1 := mkState seen' (st_skipped st) (st_emitted st) (st_done st) (st_batches st) in
  if dup then (st1, false)
  else
    let skip := match w_offset cfg with Some off => st_skipped st <? off | None => false end in
    if skip then (mkState seen' (N.succ (st_skipped st)) (st_emitted st) (st_done st) (st_batches st), false)
    else
      let full := match w_limit cfg with Some lim => lim <=? st_emitted st | None => false end in
      if full then (mkState seen' (st_skipped st) (st_emitted st) true (st_batches st), false)
      else (mkState seen' (st_skipped st) (N.succ (st_emitted st)) (st_done st) (st_batches st), true).

(** the row loop of one batch: stops at the row that hits the limit *)
Fixpoint accept_rows (cfg : wcfg) (mode : dedup_mode) (idx : option N) (st : wstate)
         (rows : list row) (i : N) : wstate * list N :=
  match rows with
  | [] => (st, [])
  | r :: rest =>
      let '(st1, ok) := accept_row cfg mode st (row_event_id idx r) in
      if st_done st1 then (st1, if ok then [i] else [])
      else
        let '(st2, l) := accept_rows cfg mode idx st1 rest (N.succ i) in
        (st2, if ok then i :: l else l)
  end.

(** The batch loop shared by [write_json] and [write_arrow]: per received batch the list of
    accepted row indices ([None] for a batch that produces no frame).  The loop stops receiving
    once the limit was hit. *)
Fixpoint run_batches (cfg : wcfg) (idx : option N) (st : wstate) (bs : list batch)
  : wstate * list (batch * list N) :=
  match bs with
  | [] => (st, [])
  | b :: rest =>
      if st_done st then (st, [])
      else
        match b with
        | [] => run_batches cfg idx st rest          (* is_empty: skipped, not counted *)
        | _ =>
            let mode := dedup_mode_of (w_kind cfg) (st_batches st) in
            let '(st1, sel) := accept_rows cfg mode idx st b 0 in
            let st2 := mkState (st_seen st1) (st_skipped st1) (st_emitted st1) (st_done st1)
                               (N.succ (st_batches st1)) in
            let '(st3, out) := run_batches cfg idx st2 rest in
            (st3, match sel with [] => out | _ => (b, sel) :: out end)
        end
  end.

Definition select_rows (b : batch) (sel : list N) : list row :=
  flat_map (fun i => match nth_error b (N.to_nat i) with Some r => [r] | None => [] end) sel.

(** *** Frames as a reader decodes them *)

Inductive jframe :=
| JSchema (cols : list (bytes * bytes))            (* name, logical type *)
| JBatch (rows : list (list dcell))                (* {"type":"batch","rows":[[..],..]} *)
| JRow (cells : list (bytes * dcell))              (* {"type":"row","values":{name:value,..}} *)
| JEnd (row_count : N).

Definition json_row (r : row) : list dcell := map json_cell r.

Definition json_frames_of (cfg : wcfg) (cols : list column) (b : batch) (sel : list N) : list jframe :=
  let rows := select_rows b sel in
  if 0 <? w_batch_size cfg then [JBatch (map json_row rows)]
  else map (fun r => JRow (combine (map c_name cols) (json_row r))) rows.

(** [write_json] with the JSON or the text renderer *)
Definition write_json (cfg : wcfg) (cols : list column) (bs : list batch) : list jframe :=
  let '(st, out) := run_batches cfg (event_id_idx cols) st0 bs in
  JSchema (map (fun c => (c_name c, c_type c)) cols)
  :: flat_map (fun p => json_frames_of cfg cols (fst p) (snd p)) out
  ++ [JEnd (st_emitted st)].

Inductive aframe :=
| ASchema (fields : list (bytes * atype))
| ABatch (rows : list (list dcell)).

(** [valid_row_indices.len() == batch.len()] and contiguous from 0 *)
Fixpoint is_iota (sel : list N) (i : N) : bool :=
  match sel with
  | [] => true
  | x :: r => (x =? i) && is_iota r (N.succ i)
  end.
Definition whole_batch (b : batch) (sel : list N) : bool :=
  (N.of_nat (length sel) =? N.of_nat (length b)) && is_iota sel 0.

Definition arrow_row (p : apath) (cols : list column) (r : row) : list dcell :=
  map (fun cv => arrow_cell p (c_type (fst cv)) (snd cv)) (combine cols r).

Definition arrow_frame_of (cols : list column) (b : batch) (sel : list N) : aframe :=
  if whole_batch b sel then ABatch (map (arrow_row PWhole cols) b)
  else ABatch (map (arrow_row PRow cols) (select_rows b sel)).

(** [write_arrow]: schema message, one record batch per batch with accepted rows, end marker.
    The Arrow stream carries no row count of its own. *)
Definition write_arrow (cfg : wcfg) (cols : list column) (bs : list batch) : list aframe :=
  let '(_, out) := run_batches cfg (event_id_idx cols) st0 bs in
  ASchema (map (fun c => (c_name c, arrow_type_schema (c_type c))) cols)
  :: map (fun p => arrow_frame_of cols (fst p) (snd p)) out.

(** *** What the reader reconstructs *)

Definition jframe_rows (f : jframe) : list (list dcell) :=
  match f with
  | JBatch rows => rows
  | JRow cells => [map snd cells]
  | _ => []
  end.
Definition json_rows (fs : list jframe) : list (list dcell) := flat_map jframe_rows fs.
Fixpoint json_announced (fs : list jframe) : option N :=
  match fs with
  | [] => None
  | JEnd n :: _ => Some n
  | _ :: r => json_announced r
  end.
Definition json_names (fs : list jframe) : list bytes :=
  match fs with JSchema cols :: _ => map fst cols | _ => [] end.

Definition aframe_rows (f : aframe) : list (list dcell) :=
  match f with ABatch rows => rows | _ => [] end.
Definition arrow_rows (fs : list aframe) : list (list dcell) := flat_map aframe_rows fs.
Definition arrow_names (fs : list aframe) : list bytes :=
  match fs with ASchema fields :: _ => map fst fields | _ => [] end.

(** the source rows the writer hands to any renderer *)
Definition accepted_rows (cfg : wcfg) (cols : list column) (bs : list batch) : list row :=
  flat_map (fun p => select_rows (fst p) (snd p)) (snd (run_batches cfg (event_id_idx cols) st0 bs)).

Fixpoint rows_agree (a b : list (list dcell)) : bool :=
  match a, b with
  | [], [] => true
  | x :: a', y :: b' =>
      (Nat.eqb (length x) (length y)) && forallb (fun p => cell_agree (fst p) (snd p)) (combine x y)
      && rows_agree a' b'
  | _, _ => false
  end.

(** the JSON stream and the Arrow stream of the same result decode alike *)
Definition responses_agree (cfg : wcfg) (cols : list column) (bs : list batch) : bool :=
  let j := write_json cfg cols bs in
  let a := write_arrow cfg cols bs in
  forallb (fun p => bytes_eqb (fst p) (snd p)) (combine (json_names j) (arrow_names a))
  && Nat.eqb (length (json_names j)) (length (arrow_names a))
  && rows_agree (json_rows j) (arrow_rows a)
  && match json_announced j with Some n => n =? N.of_nat (length (json_rows j)) | None => false end.

(** *** Reference semantics of the writer (for the functional theorem) *)

(** keep the first row of every event id; rows without an id are all kept *)
Fixpoint dedup_first (idx : option N) (seen : list N) (rows : list row) : list row :=
  match rows with
  | [] => []
  | r :: rest =>
      match row_event_id idx r with
      | Some id => if mem_N id seen then dedup_first idx seen rest
                   else r :: dedup_first idx (id :: seen) rest
      | None => r :: dedup_first idx seen rest
      end
  end.

Definition opt_skip (o : option N) (l : list row) : list row :=
  match o with Some n => skipn (N.to_nat n) l | None => l end.
Definition opt_take (o : option N) (l : list row) : list row :=
  match o with Some n => firstn (N.to_nat n) l | None => l end.

(** QUERY: LIMIT (OFFSET (dedup rows)) *)
Definition writer_spec (cfg : wcfg) (cols : list column) (bs : list batch) : list row :=
  opt_take (w_limit cfg) (opt_skip (w_offset cfg) (dedup_first (event_id_idx cols) [] (concat bs))).

(** ** Error responses *)

(** [StatusCode] in declaration order *)
Inductive status := StOk | StBadRequest | StUnauthorized | StForbidden | StNotFound | StInternal | StUnavailable.
Definition status_index (s : status) : N :=
  match s with StOk => 0 | StBadRequest => 1 | StUnauthorized => 2 | StForbidden => 3
             | StNotFound => 4 | StInternal => 5 | StUnavailable => 6 end.
Definition status_code (s : status) : N := nth (N.to_nat (status_index s)) render_status_codes 0.

Inductive encoding := EJson | EText | EArrow.

(** JSON string escaping as serde_json and sonic-rs write it (input is valid UTF-8) *)
Definition hex_digit (n : N) : N := if n <? 10 then 48 + n else 87 + n.
Definition json_escape_byte (c : N) : bytes :=
  if c =? 34 then [92; 34]
  else if c =? 92 then [92; 92]
  else if c =? 8 then [92; 98]
  else if c =? 12 then [92; 102]
  else if c =? 10 then [92; 110]
  else if c =? 13 then [92; 114]
  else if c =? 9 then [92; 116]
  else if c <? 32 then [92; 117; 48; 48; hex_digit (c / 16); hex_digit (c mod 16)]
  else [c].
Definition json_string (s : bytes) : bytes := 34 :: flat_map json_escape_byte s ++ [34].

Definition lit (s : list N) : bytes := s.
(* {"count":0,"status": *)
Definition js_head : bytes :=
  [123;34;99;111;117;110;116;34;58;48;44;34;115;116;97;116;117;115;34;58].
(* ,"message": *)
Definition js_message : bytes := [44;34;109;101;115;115;97;103;101;34;58].
(* ,"results":[]} *)
Definition js_results_end : bytes := [44;34;114;101;115;117;108;116;115;34;58;91;93;125].
(* {"count":0,"message": *)
Definition ar_head : bytes :=
  [123;34;99;111;117;110;116;34;58;48;44;34;109;101;115;115;97;103;101;34;58].
(* ,"results":[],"status": *)
Definition ar_results_status : bytes :=
  [44;34;114;101;115;117;108;116;115;34;58;91;93;44;34;115;116;97;116;117;115;34;58].

(** [Renderer::render(&Response::error(status, msg))]: the bytes each renderer produces.
    JsonRenderer: struct field order count,status,message,results; ArrowRenderer: a
    [serde_json::Map] (sorted keys) count,message,results,status; UnixRenderer: "<code> <msg>\n". *)
Definition render_error (e : encoding) (s : status) (msg : bytes) : bytes :=
  match e with
  | EJson => js_head ++ dec_of_N (status_code s) ++ js_message ++ json_string msg ++ js_results_end ++ [10]
  | EArrow => ar_head ++ json_string msg ++ ar_results_status ++ dec_of_N (status_code s) ++ [125; 10]
  | EText => dec_of_N (status_code s) ++ [32] ++ msg ++ [10]
  end.

(** the status a reader of the body finds: the "status" member, or the number that starts the
    first line of the text rendering *)
Fixpoint leading_number (s : bytes) (acc : N) (seen : bool) : option N :=
  match s with
  | c :: r => if is_digit c then leading_number r (acc * 10 + digit_val c) true
              else if seen then Some acc else None
  | [] => if seen then Some acc else None
  end.
Definition body_status (e : encoding) (s : status) (msg : bytes) : option N :=
  match e with
  | EText => leading_number (render_error EText s msg) 0 false
  | _ => Some (status_code s)      (* the member written by the renderer; the JSON reader is not modelled *)
  end.

(** [extract_http_status_from_response] on those bytes (frontend/http/dispatcher.rs).
    A body that does not start with '{': the status is read from a leading "<3 digits> " when
    [render_http_text_header] (fix c214409), else 200.  A body that starts with '{' is parsed only if
    it shows the word "status" — inside a fixed window ([render_http_sniff_window = Some w], the
    pinned tree) or inside the part that would be parsed ([None], after the fix) — and is shorter
    than [render_http_parse_full_below] bytes (of a longer body only the first
    [render_http_parse_prefix] bytes are parsed, never a complete document); everything else is
    answered with 200. *)
Definition status_word : bytes := [115; 116; 97; 116; 117; 115].
Fixpoint has_window (w : bytes) (s : bytes) (fuel : nat) : bool :=
  match fuel with
  | O => false
  | S f => match s with
           | [] => false
           | _ :: r => (Nat.leb (length w) (length s) && is_prefix w s) || has_window w r f
           end
  end.
Definition map_http (code : N) : N :=
  if mem_N code render_http_known_codes then code else 200.
Definition three_digit_header (out : bytes) : option N :=
  match out with
  | a :: b :: c :: d :: _ =>
      if is_digit a && is_digit b && is_digit c && (d =? 32)
      then Some (100 * digit_val a + 10 * digit_val b + digit_val c) else None
  | _ => None
  end.
Definition http_status_of_error (e : encoding) (s : status) (msg : bytes) : N :=
  let out := render_error e s msg in
  match out with
  | c :: _ =>
      if negb (c =? 123) then
        (if render_http_text_header
         then match three_digit_header out with Some code => map_http code | None => 200 end
         else 200)
      else
        let len := N.of_nat (length out) in
        let parse_len := if len <? render_http_parse_full_below then len else N.min len render_http_parse_prefix in
        let head := firstn (N.to_nat (match render_http_sniff_window with Some w => w | None => parse_len end)) out in
        if negb (has_window status_word head (length head)) then 200
        else if len <? render_http_parse_full_below then map_http (status_code s)
        else 200
  | [] => 200
  end.

(** the HTTP statuses of the three encodings of one error differ (the known class of the
    error clause) *)
Definition http_status_same (s : status) (msg : bytes) : bool :=
  (http_status_of_error EJson s msg =? http_status_of_error EText s msg) &&
  (http_status_of_error EJson s msg =? http_status_of_error EArrow s msg).
(** KnownClass of the error clause after fix c214409 (HttpStatusLongErrorBodyUnparsed): an error
    (status other than 200) whose JSON / Arrow-fallback body reaches the full-parse limit *)
Definition http_known (s : status) (msg : bytes) : bool :=
  match s with
  | StOk => false
  | _ => (render_http_parse_full_below <=? N.of_nat (length (render_error EJson s msg)))
         || (render_http_parse_full_below <=? N.of_nat (length (render_error EArrow s msg)))
  end.
