(** Model of the membership-filter keys:
    - src/shared/hash.rs [stable_hash64] = rustc-hash 1.1.0 [FxHasher] (64-bit) over
      [str::hash] ([write(bytes)] then [write_u8(0xff)]),
    - src/engine/core/zone/zone_xor_index.rs [value_to_string], [build_for_field],
      [zones_maybe_containing],
    - src/engine/core/filter/field_xor_filter.rs [FieldXorFilter::new], [contains_value]
      (builder side: [ZonePlan::collect_field_values] -> [Event::get_field_value] ->
      [Event::scalar_to_string]),
    - src/engine/core/zone/selector/pruner/xor_pruner.rs.
    The binary-fuse filter itself ([xorf::BinaryFuse8]) is ABSTRACT: a type with a
    (possibly failing) constructor from a key list and a membership test; nothing else
    is assumed here.  Executable definitions only. *)
From Coq Require Import NArith ZArith List Bool.
From Snel Require Import Base.Bytes Gen.Params Model.ZoneSel.
Import ListNotations.
Open Scope N_scope.

(** * FxHasher (64-bit) *)
Definition fx_k : N := 5871781006564002453.   (* 0x517cc1b727220a95 *)
Definition two64 : N := 18446744073709551616.
(** [rotate_left(5)] of a value below 2^64 *)
Definition rotl5 (h : N) : N := (h * 32) mod two64 + h / 576460752303423488.
(** [add_to_hash]: [hash = (hash.rotate_left(5) ^ i).wrapping_mul(K)] *)
Definition fx_add (h i : N) : N := (N.lxor (rotl5 h) i * fx_k) mod two64.

Fixpoint le_val (bs : list N) : N :=
  match bs with [] => 0 | b :: r => b + 256 * le_val r end.

(** [Hasher::write]: 8-byte little-endian words, then one 4-, 2-, 1-byte tail *)
Fixpoint fx_write (fuel : nat) (h : N) (bs : bytes) : N :=
  match fuel with
  | O => h
  | S f =>
      match bs with
      | b0 :: b1 :: b2 :: b3 :: b4 :: b5 :: b6 :: b7 :: r =>
          fx_write f (fx_add h (le_val [b0; b1; b2; b3; b4; b5; b6; b7])) r
      | _ =>
          let '(h, bs) := match bs with
                          | b0 :: b1 :: b2 :: b3 :: r => (fx_add h (le_val [b0; b1; b2; b3]), r)
                          | _ => (h, bs) end in
          let '(h, bs) := match bs with
                          | b0 :: b1 :: r => (fx_add h (le_val [b0; b1]), r)
                          | _ => (h, bs) end in
          match bs with
          | b0 :: _ => fx_add h b0
          | [] => h
          end
      end
  end.

(** [stable_hash64(&String)] *)
Definition stable_hash64 (s : bytes) : N := fx_add (fx_write (S (length s)) 0 s) 255.

(** * Cells and their canonical strings *)
Inductive scalar :=
| SNull
| SBool (b : bool)
| SInt (z : Z)            (* Int64 *)
| STs (z : Z)             (* Timestamp *)
| SFloat (disp : bytes)   (* Float64, identified by Rust's [f64::to_string] *)
| SUtf8 (s : bytes).
(** [ScalarValue::Binary] cannot be produced from a JSON payload and is left out. *)

Definition bool_str (b : bool) : bytes :=
  if b then [116; 114; 117; 101] else [102; 97; 108; 115; 101].

(** [value_to_string] of zone_xor_index.rs = [FieldXorFilter::value_to_string] *)
Definition value_to_string (v : scalar) : option bytes :=
  match v with
  | SUtf8 s => Some s
  | SInt z => Some (dec_of_Z z)
  | STs z => Some (dec_of_Z z)
  | SFloat d => Some d
  | SBool b => Some (bool_str b)
  | SNull => None
  end.

(** [Event::scalar_to_string] *)
Definition scalar_to_string (v : scalar) : bytes :=
  match v with
  | SUtf8 s => s
  | SBool b => bool_str b
  | SInt z => dec_of_Z z
  | SFloat d => d
  | STs z => dec_of_Z z
  | SNull => [110; 117; 108; 108]
  end.

(** [Event::get_field_value] for a payload field; [None] = the row has no such key *)
Definition get_field_value (c : option scalar) : bytes :=
  match c with Some v => scalar_to_string v | None => [] end.

(** the key the probe side derives from a literal *)
Definition probe_key (l : scalar) : option N := option_map stable_hash64 (value_to_string l).

Fixpoint dedup_keys (l : list N) : list N :=
  match l with
  | [] => []
  | x :: r => if existsb (N.eqb x) r then dedup_keys r else x :: dedup_keys r
  end.

(** zone-level builder: the strings pushed for one zone *)
Definition zone_strings (cells : list (option scalar)) : list bytes :=
  flat_map (fun c => match c with
                     | Some v => match value_to_string v with Some s => [s] | None => [] end
                     | None => [] end) cells.
(** ... and the key set handed to the filter constructor (a [HashSet<u64>]) *)
Definition zone_keys (cells : list (option scalar)) : list N :=
  dedup_keys (map stable_hash64 (zone_strings cells)).

(** field-level builder ([ZonePlan::collect_field_values]): a zone in which some row has
    the key contributes [get_field_value] of EVERY row (missing -> ""); a zone in which
    no row has the key contributes nothing *)
Definition zone_has_key (cells : list (option scalar)) : bool :=
  existsb (fun c => match c with Some _ => true | None => false end) cells.
Definition field_strings (zones : list (N * list (option scalar))) : list bytes :=
  flat_map (fun z => if zone_has_key (snd z) then map get_field_value (snd z) else []) zones.
Definition field_keys (zones : list (N * list (option scalar))) : list N :=
  dedup_keys (map stable_hash64 (field_strings zones)).

Section Fuse.
  (** the abstract binary-fuse filter *)
  Variable fuse : Type.
  Variable fbuild : list N -> option fuse.      (* [BinaryFuse8::try_from_iterator] *)
  Variable fcontains : fuse -> N -> bool.       (* [Filter::contains] *)

  (** [ZoneXorFilterIndex::build_for_field]: zones without a convertible value are
      skipped, zones whose construction fails are skipped; no filter at all -> [None]
      (no .zxf file is written) *)
  Fixpoint build_zone_filters (zones : list (N * list (option scalar)))
                              (acc : list (N * fuse)) : list (N * fuse) :=
    match zones with
    | [] => acc
    | (zid, cells) :: r =>
        match zone_strings cells with
        | [] => build_zone_filters r acc
        | _ => match fbuild (zone_keys cells) with
               | Some f => build_zone_filters r (am_set zid f acc)
               | None => build_zone_filters r acc
               end
        end
    end.
  Definition build_for_field (zones : list (N * list (option scalar))) : option (list (N * fuse)) :=
    match build_zone_filters zones [] with
    | [] => None
    | fs => Some fs
    end.

  (** [zones_maybe_containing] (sorted here; HashMap order in Rust) *)
  Definition zones_maybe_containing (ix : list (N * fuse)) (l : scalar) : list N :=
    match probe_key l with
    | None => []
    | Some h => zs_of_list (map fst (filter (fun e => fcontains (snd e) h) ix))
    end.

  Definition op_answered (op : cmp_op) : bool :=
    match op with
    | OEq => true
    | ONeq => zidx_xor_handles_neq
    | _ => false
    end.

  (** [XorPruner::apply_zone_index_only] *)
  Definition apply_zone_index_only (ix : option (list (N * fuse))) (op : cmp_op) (l : scalar)
    : option (list N) :=
    if negb (op_answered op) then None else
    match ix with
    | None => None
    | Some ix => Some (zones_maybe_containing ix l)
    end.

  (** [FieldXorFilter::new] on the collected values ([Err] on an empty set or a failed
      construction: no .xf file) *)
  Definition build_field_filter (zones : list (N * list (option scalar))) : option fuse :=
    match field_keys zones with
    | [] => None
    | ks => fbuild ks
    end.

  (** [contains_value] *)
  Definition contains_value (f : fuse) (l : scalar) : bool :=
    match probe_key l with Some h => fcontains f h | None => false end.

  (** [XorPruner::apply_presence_only] *)
  Definition apply_presence_only (f : option fuse) (all_zones : list N) (op : cmp_op) (l : scalar)
    : option (list N) :=
    if negb (op_answered op) then None else
    match f with
    | None => None
    | Some f => if contains_value f l then Some all_zones else Some []
    end.

  (** What a query sees for strategies [ZoneXorIndex] / [XorPresence]. *)
  Definition select_zxf (ix : option (list (N * fuse))) (inflight : bool) (all_zones : list N)
                        (op : cmp_op) (l : scalar) : list N :=
    select SZoneXor op inflight all_zones (apply_zone_index_only ix op l).
  Definition select_xf (f : option fuse) (all_zones : list N) (op : cmp_op) (l : scalar) : list N :=
    select SXorPresence op false all_zones (apply_presence_only f all_zones op l).
End Fuse.

(** The exact key set as a filter (no false positives): used to run the model. *)
Definition exact_build (ks : list N) : option (list N) := Some ks.
Definition exact_contains (f : list N) (k : N) : bool := existsb (N.eqb k) f.
