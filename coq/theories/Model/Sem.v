(** C02 — the SPECIFICATION: which stored events a WHERE clause selects.
    Written from the property text and the declared field types only — nothing here looks at how
    sneldb evaluates or prunes.  Executable definitions only.

    * A comparison on a cell that is null or absent is false (so is IN); NOT flips, AND/OR as usual.
    * Numbers compare as numbers: an integer cell against an integer or decimal literal, a double
      cell against either, exactly (no rounding: [f64_scaled]).
    * A datetime cell holds epoch seconds; a string literal on a datetime field denotes the instant
      the time parser assigns to it (C16), an integer literal denotes itself.
    * Strings compare bytewise (lexicographic for the order operators).
    * Booleans and enum variants support = and != only; the literal of a boolean is [true]/[false].
    [well_typed] says which (field, operator, literal) combinations the property quantifies over. *)
From Coq Require Import ZArith NArith List Bool.
From Snel Require Import Base.Bytes Model.Time Model.Value Model.Expr.
Import ListNotations.

Definition b_true : bytes := [116; 114; 117; 101]%N.
Definition b_false : bytes := [102; 97; 108; 115; 101]%N.

(** numeric meaning of a literal on a numeric/time column, scaled by 2^1074 *)
Definition lit_scaled (k : kind) (l : lit) : option Z :=
  match l with
  | LInt z => Some (scale_int z)
  | LFloat b _ => Some (f64_scaled b)
  | LStr s => match k with
              | KTime => option_map scale_int (parse_str_to_epoch_seconds s)
              | _ => None
              end
  | LBool _ => None
  end.

Definition sat_cmp (k : kind) (v : value) (op : cmp) (l : lit) : bool :=
  match v with
  | VNull | VAbsent => false
  | VInt z | VTime z =>
      match lit_scaled k l with Some c => cmp_holds op (Z.compare (scale_int z) c) | None => false end
  | VU64 n =>
      match lit_scaled k l with Some c => cmp_holds op (Z.compare (scale_int (Z.of_N n)) c) | None => false end
  | VFloat b _ =>
      match lit_scaled k l with Some c => cmp_holds op (Z.compare (f64_scaled b) c) | None => false end
  | VStr s | VEnum s =>
      match l with LStr t => cmp_holds op (bytes_cmp s t) | _ => false end
  | VBool b =>
      match l with
      | LBool c => cmp_holds op (if Bool.eqb b c then Eq else Lt)
      | LStr t => if bytes_eqb t b_true then cmp_holds op (if b then Eq else Lt)
                  else if bytes_eqb t b_false then cmp_holds op (if b then Lt else Eq)
                  else false
      | _ => false
      end
  end.

Definition sat_atom (sch : schema) (r : row) (f : bytes) (op : cmp) (l : lit) : bool :=
  match lookup sch r f with
  | Some (d, v) => sat_cmp (f_kind d) v op l
  | None => false
  end.

Fixpoint sat (sch : schema) (e : expr) (r : row) : bool :=
  match e with
  | ECmp f op l => sat_atom sch r f op l
  | EIn f ls => existsb (fun l => sat_atom sch r f CEq l) ls
  | EAnd a b => sat sch a r && sat sch b r
  | EOr a b => sat sch a r || sat sch b r
  | ENot a => negb (sat sch a r)
  end.

Definition sat_query (sch : schema) (q : query) (ev : event) : bool :=
  (match q_ctx q with Some c => bytes_eqb (ev_ctx ev) c | None => true end)
  && (match q_where q with Some e => sat sch e (ev_row ev) | None => true end).

(** ** Well-typed predicates *)
Definition wt_atom (k : kind) (op : cmp) (l : lit) : bool :=
  match k with
  | KInt | KU64 | KFloat => match l with LInt _ | LFloat _ _ => true | _ => false end
  | KTime => match l with
             | LInt _ | LFloat _ _ => true
             | LStr s => match parse_str_to_epoch_seconds s with Some _ => true | None => false end
             | LBool _ => false
             end
  | KStr => match l with LStr _ => true | _ => false end
  | KEnum _ => match l with LStr _ => negb (is_range op) | _ => false end
  | KBool => match l with
             | LBool _ => negb (is_range op)
             | LStr t => (bytes_eqb t b_true || bytes_eqb t b_false) && negb (is_range op)
             | _ => false
             end
  end.

Fixpoint well_typed (sch : schema) (e : expr) : bool :=
  match e with
  | ECmp f op l => match find_decl sch f with Some d => wt_atom (f_kind d) op l | None => false end
  | EIn f ls => match find_decl sch f with
                | Some d => forallb (wt_atom (f_kind d) CEq) ls && negb (match ls with [] => true | _ => false end)
                | None => false
                end
  | EAnd a b | EOr a b => well_typed sch a && well_typed sch b
  | ENot a => well_typed sch a
  end.
