(** Model of the command parser (src/command/parser/command.rs and the per-command
    parsers) — executable definitions only.

    The QUERY/FIND, REPLAY and STORE grammars are [peg] grammars; they are modelled as
    recursive descent over bytes with PEG semantics: ordered choice ([alt]), greedy
    possessive repetition ([many], [sep_list]), syntactic predicates, and semantic
    actions that run as soon as their sequence has matched.  A Rust [unwrap()] on a
    failed numeric conversion inside an action is the result [Panic site]: it aborts
    the whole parse, no alternative is tried.  The flag [fx] selects the *repaired*
    grammar (fixes/C17-numeric-terminals.diff), in which the same conversions fail the
    rule ([Err]) instead.  [OOF] (out of fuel) never occurs with the fuel the entry
    points supply (ParserProofs.parse_command_fuel_enough).

    The peg crate does not memoise: [x:and_expr() _ ci('OR') _ y:or_expr() / and_expr()]
    parses [and_expr] twice when no OR follows.  Rules are deterministic functions of the
    position, so the model evaluates the common prefix once; the *result* is the same,
    the running time is not (the implementation is exponential in the parenthesis depth —
    that is a finding of the correspondence run, not something the model can exhibit). *)
From Coq Require Import NArith ZArith List Bool.
From Snel Require Import Base.Bytes Model.Tokenizer.
Import ListNotations.
Open Scope N_scope.

(** * Results *)

Inductive numsite := SiteLimit | SiteOffset | SiteInt | SiteFloat.

Inductive res (A : Type) :=
| Ok (a : A)
| Err                      (* the rule does not match here *)
| Panic (site : numsite)   (* an [unwrap()] in a grammar action fails *)
| OOF.                     (* out of fuel: excluded by [fuel_enough] *)
Arguments Ok {A} a.
Arguments Err {A}.
Arguments Panic {A} site.
Arguments OOF {A}.

Definition P (A : Type) := bytes -> res (A * bytes).

Definition ret {A} (a : A) : P A := fun s => Ok (a, s).
Definition bind {A B} (p : P A) (f : A -> P B) : P B :=
  fun s => match p s with
           | Ok (a, r) => f a r
           | Err => Err | Panic k => Panic k | OOF => OOF
           end.
(** ordered choice *)
Definition alt {A} (p q : P A) : P A :=
  fun s => match p s with Err => q s | x => x end.
(** [e?] *)
Definition opt {A} (p : P A) : P (option A) :=
  fun s => match p s with
           | Ok (a, r) => Ok (Some a, r)
           | Err => Ok (None, s)
           | Panic k => Panic k | OOF => OOF
           end.
(** a terminal that cannot panic *)
Definition lift {A} (t : bytes -> option (A * bytes)) : P A :=
  fun s => match t s with Some x => Ok x | None => Err end.
(** negative lookahead [!e] *)
Definition notp {A} (t : bytes -> option A) : P unit :=
  fun s => match t s with Some _ => Err | None => Ok (tt, s) end.

Notation "'let*' x ':=' c1 'in' c2" := (bind c1 (fun x => c2))
  (at level 61, x pattern, c1 at next level, right associativity).

(** [e*]: repeat until [p] fails. *)
Fixpoint many {A} (fuel : nat) (p : P A) (s : bytes) : res (list A * bytes) :=
  match fuel with
  | O => OOF
  | S f =>
      match p s with
      | Ok (a, r) =>
          match many f p r with
          | Ok (l, r') => Ok (a :: l, r')
          | Err => Err | Panic k => Panic k | OOF => OOF
          end
      | Err => Ok ([], s)
      | Panic k => Panic k
      | OOF => OOF
      end
  end.

(** [e ** sep] (zero or more) and [e ++ sep] (one or more): a separator that is not followed
    by an element is not consumed. *)
Definition sep_list {A} (p : P A) (sep : bytes -> option bytes) : P (list A) :=
  fun s => match p s with
           | Ok (a, r) =>
               match many (S (length r)) (fun s1 => match sep s1 with Some s2 => p s2 | None => Err end) r with
               | Ok (l, r') => Ok (a :: l, r')
               | Err => Err | Panic k => Panic k | OOF => OOF
               end
           | Err => Ok ([], s)
           | Panic k => Panic k
           | OOF => OOF
           end.
Definition sep_list1 {A} (p : P A) (sep : bytes -> option bytes) : P (list A) :=
  fun s => match sep_list p sep s with
           | Ok ([], _) => Err
           | x => x
           end.

(** * Terminals *)


(** [rule _()] *)
Definition ws (s : bytes) : bytes := drop_while is_tws s.

(** [rule ci(s)]: the maximal alphabetic run must equal the keyword ignoring ASCII case. *)
Definition ci (kw : bytes) (s : bytes) : option bytes :=
  let '(w, r) := span is_alpha s in
  match w with
  | [] => None
  | _ => if ci_eqb w kw then Some r else None
  end.
Definition kw (k : bytes) : P unit := fun s => match ci k s with Some r => Ok (tt, r) | None => Err end.

Definition lit (c : N) (s : bytes) : option bytes :=
  match s with x :: r => if x =? c then Some r else None | [] => None end.
Definition sym (c : N) : P unit := fun s => match lit c s with Some r => Ok (tt, r) | None => Err end.
Definition skip : P unit := fun s => Ok (tt, ws s).

Definition is_ident_start (c : N) : bool := is_alpha c || (c =? 95).
Definition is_ident_char (c : N) : bool := is_alpha c || is_digit c || (c =? 95) || (c =? 45).

(** the ident rule, with the set of continuation characters as a parameter
    (REPLAY's ident additionally accepts ':') *)
Definition ident_with (cont : N -> bool) (s : bytes) : option (bytes * bytes) :=
  match s with
  | c :: r => if is_ident_start c then let '(a, r') := span cont r in Some (c :: a, r') else None
  | [] => None
  end.
Definition ident := ident_with is_ident_char.

(** [rule field() = i:ident() '.' j:ident() / i:ident()] *)
Definition field (s : bytes) : option (bytes * bytes) :=
  match ident s with
  | Some (i, r) =>
      match r with
      | c :: r1 =>
          if c =? 46 then
            match ident r1 with
            | Some (j, r2) => Some (i ++ 46 :: j, r2)
            | None => Some (i, r)
            end
          else Some (i, r)
      | [] => Some (i, r)
      end
  | None => None
  end.

(** [rule string_literal() = ''' chars:$((!''' [_])* ) '''] — no escapes. *)
Definition string_lit (s : bytes) : option (bytes * bytes) :=
  match s with
  | c :: r =>
      if c =? 34 then
        let '(a, r') := span (fun c => negb (c =? 34)) r in
        match r' with
        | q :: r'' => if q =? 34 then Some (a, r'') else None
        | [] => None
        end
      else None
  | [] => None
  end.

(** [rule integer() = $(('-')? ['0'..='9']+)]: sign flag and digit string. *)
Definition integer (s : bytes) : option ((bool * bytes) * bytes) :=
  let '(neg, r) := match s with
                   | c :: r => if c =? 45 then (true, r) else (false, s)
                   | [] => (false, s)
                   end in
  let '(d, r') := span is_digit r in
  match d with [] => None | _ => Some ((neg, d), r') end.

(** the text matched by [number]: integer part and optional fraction digits *)
Definition number_text (s : bytes) : option ((bool * bytes * option bytes) * bytes) :=
  match integer s with
  | Some ((neg, d), r) =>
      match r with
      | c :: r1 =>
          if c =? 46 then
            let '(fd, r2) := span is_digit r1 in
            match fd with
            | [] => Some ((neg, d, None), r)
            | _ => Some ((neg, d, Some fd), r2)
            end
          else Some ((neg, d, None), r)
      | [] => Some ((neg, d, None), r)
      end
  | None => None
  end.

Fixpoint digits_val (d : bytes) (acc : N) : N :=
  match d with
  | [] => acc
  | c :: r => digits_val r (acc * 10 + digit_val c)
  end.

(** * Numeric conversions inside grammar actions *)

Definition numfail {A} (fx : bool) (site : numsite) : res A := if fx then Err else Panic site.

(** [n.parse::<u32>().unwrap()]: an unsigned parse rejects a leading '-' (even '-0'). *)
Definition conv_u32 (fx : bool) (site : numsite) (neg : bool) (d : bytes) : res N :=
  if neg then numfail fx site
  else let v := digits_val d 0 in
       if v <? 4294967296 then Ok v else numfail fx site.

(** [n.parse::<i64>().unwrap()] *)
Definition conv_i64 (fx : bool) (neg : bool) (d : bytes) : res Z :=
  let v := Z.of_N (digits_val d 0) in
  let z := if neg then (- v)%Z else v in
  if ((- 9223372036854775808 <=? z) && (z <=? 9223372036854775807))%Z then Ok z else numfail fx SiteInt.

(** [Number::from_f64(n.parse::<f64>().unwrap()).unwrap()]: the decimal parse always succeeds
    for this syntax; [from_f64] is [None] exactly when the correctly rounded value is infinite,
    i.e. when the decimal is >= 2^1024 - 2^970 (half an ulp above the largest double). *)
Definition f64_overflow_threshold : N := 2 ^ 1024 - 2 ^ 970.
Definition float_overflows (d fd : bytes) : bool :=
  f64_overflow_threshold * 10 ^ (N.of_nat (length fd)) <=? digits_val (d ++ fd) 0.

(** * AST *)

Inductive jval :=
| VStr (s : bytes)
| VInt (z : Z)
| VFloat (neg : bool) (d fd : bytes)   (* decimal literal text; the f64 is computed outside the model *)
| VBool (v : bool).

Inductive cmpop := OpEq | OpNeq | OpGt | OpGte | OpLt | OpLte.

Inductive expr :=
| ECmp (f : bytes) (op : cmpop) (v : jval)
| EIn (f : bytes) (vs : list jval)
| EAnd (x y : expr)
| EOr (x y : expr)
| ENot (x : expr).

Inductive agg :=
| ACount (uniq : option bytes)
| ACountField (f : bytes)
| ATotal (f : bytes) | AAvg (f : bytes) | AMin (f : bytes) | AMax (f : bytes).

Inductive gran := GHour | GDay | GWeek | GMonth | GYear.
Inductive seqlink := FollowedBy | PrecededBy.

Inductive clause :=
| ClFor (s : bytes) | ClSince (s : bytes) | ClReturn (l : list bytes) | ClLink (s : bytes)
| ClWhere (e : expr) | ClUsing (f : bytes) | ClUsingTime (f : bytes) | ClAggs (l : list agg)
| ClTime (g : gran) (u : option bytes) | ClGroup (l : list bytes) (u : option bytes)
| ClLimit (n : N) | ClOffset (n : N) | ClOrder (f : bytes) (desc : bool).

Record query := mkQuery {
  q_event : bytes;
  q_ctx : option bytes;
  q_since : option bytes;
  q_time_field : option bytes;
  q_seq_time_field : option bytes;
  q_where : option expr;
  q_limit : option N;
  q_offset : option N;
  q_order : option (bytes * bool);
  q_return : option (list bytes);
  q_link : option bytes;
  q_aggs : option (list agg);
  q_bucket : option gran;
  q_group : option (list bytes);
  q_seq : list (seqlink * bytes)        (* links after the head; [] = no sequence *)
}.

(** * Keywords *)

Definition K_QUERY : bytes := [81; 85; 69; 82; 89]. (* QUERY *)
Definition K_FIND : bytes := [70; 73; 78; 68]. (* FIND *)
Definition K_FOLLOWED : bytes := [70; 79; 76; 76; 79; 87; 69; 68]. (* FOLLOWED *)
Definition K_PRECEDED : bytes := [80; 82; 69; 67; 69; 68; 69; 68]. (* PRECEDED *)
Definition K_BY : bytes := [66; 89]. (* BY *)
Definition K_PER : bytes := [80; 69; 82]. (* PER *)
Definition K_USING : bytes := [85; 83; 73; 78; 71]. (* USING *)
Definition K_SINCE : bytes := [83; 73; 78; 67; 69]. (* SINCE *)
Definition K_LIMIT : bytes := [76; 73; 77; 73; 84]. (* LIMIT *)
Definition K_OFFSET : bytes := [79; 70; 70; 83; 69; 84]. (* OFFSET *)
Definition K_ORDER : bytes := [79; 82; 68; 69; 82]. (* ORDER *)
Definition K_RETURN : bytes := [82; 69; 84; 85; 82; 78]. (* RETURN *)
Definition K_LINKED : bytes := [76; 73; 78; 75; 69; 68]. (* LINKED *)
Definition K_WHERE : bytes := [87; 72; 69; 82; 69]. (* WHERE *)
Definition K_FOR : bytes := [70; 79; 82]. (* FOR *)
Definition K_TIME : bytes := [84; 73; 77; 69]. (* TIME *)
Definition K_COUNT : bytes := [67; 79; 85; 78; 84]. (* COUNT *)
Definition K_UNIQUE : bytes := [85; 78; 73; 81; 85; 69]. (* UNIQUE *)
Definition K_TOTAL : bytes := [84; 79; 84; 65; 76]. (* TOTAL *)
Definition K_AVG : bytes := [65; 86; 71]. (* AVG *)
Definition K_MIN : bytes := [77; 73; 78]. (* MIN *)
Definition K_MAX : bytes := [77; 65; 88]. (* MAX *)
Definition K_HOUR : bytes := [72; 79; 85; 82]. (* HOUR *)
Definition K_DAY : bytes := [68; 65; 89]. (* DAY *)
Definition K_WEEK : bytes := [87; 69; 69; 75]. (* WEEK *)
Definition K_MONTH : bytes := [77; 79; 78; 84; 72]. (* MONTH *)
Definition K_YEAR : bytes := [89; 69; 65; 82]. (* YEAR *)
Definition K_ASC : bytes := [65; 83; 67]. (* ASC *)
Definition K_DESC : bytes := [68; 69; 83; 67]. (* DESC *)
Definition K_OR : bytes := [79; 82]. (* OR *)
Definition K_AND : bytes := [65; 78; 68]. (* AND *)
Definition K_NOT : bytes := [78; 79; 84]. (* NOT *)
Definition K_IN : bytes := [73; 78]. (* IN *)

(** * The WHERE expression grammar (query.rs: expr / or_expr / and_expr / factor) *)

(** * The expression grammar, generic in its leaves

    [expr = or_expr], [or_expr = x:and_expr() y:( _ ci('OR') _ y:or_expr() )?] (or the re-parsing form
    with the same result), [and_expr] likewise over [factor],
    [factor = ci('NOT') _ factor / '(' _ expr _ ')' / <leaves>].  query.rs and plotql.rs each carry a
    copy of these rules over their own leaves ([lf]). *)
Section ExprG.
Variable lf : P expr.

Fixpoint or_expr_g (fuel : nat) (s : bytes) {struct fuel} : res (expr * bytes) :=
  match fuel with
  | O => OOF
  | S f =>
      (* x:and_expr() _ ci('OR') _ y:or_expr() / and_expr() *)
      match and_expr_g f s with
      | Ok (x, r) =>
          match ci K_OR (ws r) with
          | Some r1 =>
              match or_expr_g f (ws r1) with
              | Ok (y, r2) => Ok (EOr x y, r2)
              | Err => Ok (x, r)
              | Panic k => Panic k
              | OOF => OOF
              end
          | None => Ok (x, r)
          end
      | other => other
      end
  end
with and_expr_g (fuel : nat) (s : bytes) {struct fuel} : res (expr * bytes) :=
  match fuel with
  | O => OOF
  | S f =>
      (* x:factor() _ ci('AND') _ y:and_expr() / factor() *)
      match factor_g f s with
      | Ok (x, r) =>
          match ci K_AND (ws r) with
          | Some r1 =>
              match and_expr_g f (ws r1) with
              | Ok (y, r2) => Ok (EAnd x y, r2)
              | Err => Ok (x, r)
              | Panic k => Panic k
              | OOF => OOF
              end
          | None => Ok (x, r)
          end
      | other => other
      end
  end
with factor_g (fuel : nat) (s : bytes) {struct fuel} : res (expr * bytes) :=
  match fuel with
  | O => OOF
  | S f =>
      (* ci('NOT') _ x:factor() / '(' _ e:expr() _ ')' / comparison() / in_expr() / atom() *)
      let rest_alts (_ : unit) :=
        match (match lit 40 s with
               | Some r1 =>
                   match or_expr_g f (ws r1) with
                   | Ok (e, r2) =>
                       match lit 41 (ws r2) with
                       | Some r3 => Ok (e, r3)
                       | None => Err
                       end
                   | other => other
                   end
               | None => Err
               end) with
        | Err => lf s
        | other => other
        end in
      match ci K_NOT s with
      | Some r1 =>
          match factor_g f (ws r1) with
          | Ok (x, r2) => Ok (ENot x, r2)
          | Err => rest_alts tt
          | Panic k => Panic k
          | OOF => OOF
          end
      | None => rest_alts tt
      end
  end.

End ExprG.

Section Grammar.
Variable fx : bool.   (* false: the grammar as it is; true: numeric conversions fail the rule *)

(** [rule number()] *)
Definition number : P jval :=
  fun s => match number_text s with
           | Some ((neg, d, None), r) =>
               match conv_i64 fx neg d with
               | Ok z => Ok (VInt z, r)
               | Err => Err | Panic k => Panic k | OOF => OOF
               end
           | Some ((neg, d, Some fd), r) =>
               if float_overflows d fd then numfail fx SiteFloat else Ok (VFloat neg d fd, r)
           | None => Err
           end.

(** [rule value() = string_literal / number / ident] *)
Definition value : P jval :=
  alt (fun s => match string_lit s with Some (a, r) => Ok (VStr a, r) | None => Err end)
      (alt number
           (fun s => match ident s with Some (a, r) => Ok (VStr a, r) | None => Err end)).

(** [rule cmp_op()] — ordered: '!=' '>=' '<=' '=' '>' '<' *)
Definition cmp_op1 (c : N) (r : bytes) : option (cmpop * bytes) :=
  if c =? 61 then Some (OpEq, r) else if c =? 62 then Some (OpGt, r) else if c =? 60 then Some (OpLt, r) else None.
Definition cmp_op (s : bytes) : option (cmpop * bytes) :=
  match s with
  | c :: r =>
      match r with
      | d :: r' =>
          if (c =? 33) && (d =? 61) then Some (OpNeq, r')
          else if (c =? 62) && (d =? 61) then Some (OpGte, r')
          else if (c =? 60) && (d =? 61) then Some (OpLte, r')
          else cmp_op1 c r
      | [] => cmp_op1 c r
      end
  | [] => None
  end.

(** the separator [_ ',' _] *)
Definition comma_sep (s : bytes) : option bytes :=
  match lit 44 (ws s) with Some r => Some (ws r) | None => None end.

(** [rule comparison() = f:field() _ op:cmp_op() _ v:value()] *)
Definition comparison : P expr :=
  let* f := lift field in
  let* _ := skip in
  let* op := lift cmp_op in
  let* _ := skip in
  let* v := value in
  ret (ECmp f op v).

(** [rule in_expr() = f:field() _ ci('IN') _ '(' _ values:(value() ** (_ ',' _)) _ ')'] *)
Definition in_expr : P expr :=
  let* f := lift field in
  let* _ := skip in
  let* _ := kw K_IN in
  let* _ := skip in
  let* _ := sym 40 in
  let* _ := skip in
  let* vs := sep_list value comma_sep in
  let* _ := skip in
  let* _ := sym 41 in
  ret (EIn f vs).

(** [rule atom() = f:field()] : a bare field means [field = true] *)
Definition atom : P expr :=
  let* f := lift field in ret (ECmp f OpEq (VBool true)).

Definition leaf : P expr := alt comparison (alt in_expr atom).

(** the three rule levels over this grammar's leaves (generic part: [or_expr_g] above the section) *)
Definition or_expr := or_expr_g leaf.
Definition and_expr := and_expr_g leaf.
Definition factor := factor_g leaf.

(** fuel that always suffices: three rule levels per consumed byte *)
Definition expr_fuel (s : bytes) : nat := 3 * length s + 3.
Definition parse_expr_at : P expr := fun s => or_expr (expr_fuel s) s.

(** * Clauses (query.rs: clause and its alternatives) *)

Definition fieldp : P bytes := lift field.
Definition identp : P bytes := lift ident.
Definition strp : P bytes := lift string_lit.

Definition for_clause : P clause :=
  let* _ := kw K_FOR in let* _ := skip in
  let* id := alt identp strp in ret (ClFor id).

Definition since_clause : P clause :=
  let* _ := kw K_SINCE in let* _ := skip in
  let* ts := strp in ret (ClSince ts).

Definition return_item : P bytes := alt fieldp strp.

Definition return_clause : P clause :=
  let* _ := kw K_RETURN in let* _ := skip in
  let* _ := sym 91 in let* _ := skip in
  let* fields := sep_list return_item comma_sep in
  let* _ := skip in
  let* _ := sym 93 in
  ret (ClReturn fields).

Definition linked_clause : P clause :=
  let* _ := kw K_LINKED in let* _ := skip in
  let* _ := kw K_BY in let* _ := skip in
  let* id := identp in ret (ClLink id).

Definition where_clause : P clause :=
  let* _ := kw K_WHERE in let* _ := skip in
  let* e := parse_expr_at in ret (ClWhere e).

Definition using_time_clause : P clause :=
  let* _ := kw K_USING in let* _ := skip in
  let* _ := kw K_TIME in let* _ := skip in
  let* f := fieldp in ret (ClUsingTime f).

Definition using_clause : P clause :=
  let* _ := kw K_USING in let* _ := skip in
  let* f := fieldp in ret (ClUsing f).

(** [rule clause_start()] (used only under [!]) *)
Definition clause_start (s : bytes) : option unit :=
  let is k := match ci k s with Some _ => true | None => false end in
  if is K_PER || is K_BY || is K_USING || is K_SINCE || is K_LIMIT || is K_OFFSET
     || (match ci K_ORDER s with Some r => match ci K_BY (ws r) with Some _ => true | None => false end | None => false end)
     || is K_RETURN || is K_LINKED || is K_WHERE || is K_FOR || is K_FOLLOWED || is K_PRECEDED
  then Some tt else None.

(** [KW _ !(clause_start()) fld:field()] *)
Definition agg_field (k : bytes) (mk : bytes -> agg) : P agg :=
  let* _ := kw k in let* _ := skip in
  let* _ := notp clause_start in
  let* f := fieldp in ret (mk f).

Definition agg_spec : P agg :=
  alt (let* _ := kw K_COUNT in let* _ := skip in
       let* _ := kw K_UNIQUE in let* _ := skip in
       let* _ := notp clause_start in
       let* f := fieldp in ret (ACount (Some f)))
 (alt (agg_field K_COUNT ACountField)
 (alt (let* _ := kw K_COUNT in ret (ACount None))
 (alt (agg_field K_TOTAL ATotal)
 (alt (agg_field K_AVG AAvg)
 (alt (agg_field K_MIN AMin)
      (agg_field K_MAX AMax)))))).

Definition agg_clause : P clause :=
  let* specs := sep_list1 agg_spec comma_sep in
  ret (ClAggs specs).

Definition granularity : P gran :=
  alt (let* _ := kw K_HOUR in ret GHour)
 (alt (let* _ := kw K_DAY in ret GDay)
 (alt (let* _ := kw K_WEEK in ret GWeek)
 (alt (let* _ := kw K_MONTH in ret GMonth)
      (let* _ := kw K_YEAR in ret GYear)))).

(** [(ci('USING') _ f:field() { f })?] *)
Definition opt_using : P (option bytes) :=
  opt (let* _ := kw K_USING in let* _ := skip in fieldp).

Definition time_clause : P clause :=
  let* _ := kw K_PER in let* _ := skip in
  let* tg := granularity in
  let* _ := skip in
  let* u := opt_using in
  ret (ClTime tg u).

(** [ci('BY') _ first:field() rest:( _ ',' _ f:field() )* using:(...)?] *)
Definition group_clause : P clause :=
  let* _ := kw K_BY in let* _ := skip in
  let* first := fieldp in
  let* rest := (fun s => many (S (length s))
                              (fun s1 => match comma_sep s1 with Some s2 => fieldp s2 | None => Err end) s) in
  let* u := opt_using in
  ret (ClGroup (first :: rest) u).

Definition intp : P (bool * bytes) := lift integer.

(** the action of limit_clause / offset_clause: [n.parse::<u32>().unwrap()] *)
Definition conv_clause (site : numsite) (mk : N -> clause) (n : bool * bytes) : P clause :=
  fun s => match conv_u32 fx site (fst n) (snd n) with
           | Ok v => Ok (mk v, s)
           | Err => Err | Panic k => Panic k | OOF => OOF
           end.

Definition limit_clause : P clause :=
  let* _ := kw K_LIMIT in let* _ := skip in
  let* n := intp in conv_clause SiteLimit ClLimit n.

Definition offset_clause : P clause :=
  let* _ := kw K_OFFSET in let* _ := skip in
  let* n := intp in conv_clause SiteOffset ClOffset n.

(** [ci('ORDER') _ ci('BY') _ f:field() _ d:$(ci('ASC') / ci('DESC'))?] *)
Definition order_clause : P clause :=
  let* _ := kw K_ORDER in let* _ := skip in
  let* _ := kw K_BY in let* _ := skip in
  let* f := fieldp in
  let* _ := skip in
  let* d := opt (alt (let* _ := kw K_ASC in ret false) (let* _ := kw K_DESC in ret true)) in
  ret (ClOrder f (match d with Some dd => dd | None => false end)).

Definition clause_p : P clause :=
  alt for_clause (alt since_clause (alt return_clause (alt linked_clause (alt where_clause
 (alt using_time_clause (alt using_clause (alt agg_clause (alt time_clause (alt group_clause
 (alt limit_clause (alt offset_clause order_clause))))))))))).

(** [QueryParts::apply_clause]: the last clause of a kind wins; PER/BY with USING also set the time field. *)
Definition empty_query (ev : bytes) (links : list (seqlink * bytes)) : query :=
  mkQuery ev None None None None None None None None None None None None None links.

Definition apply_clause (q : query) (c : clause) : query :=
  let 'mkQuery ev ctx since tf stf wh lim off ord retf link aggs tb gb sq := q in
  match c with
  | ClFor v => mkQuery ev (Some v) since tf stf wh lim off ord retf link aggs tb gb sq
  | ClSince v => mkQuery ev ctx (Some v) tf stf wh lim off ord retf link aggs tb gb sq
  | ClReturn v => mkQuery ev ctx since tf stf wh lim off ord (Some v) link aggs tb gb sq
  | ClLink v => mkQuery ev ctx since tf stf wh lim off ord retf (Some v) aggs tb gb sq
  | ClWhere e => mkQuery ev ctx since tf stf (Some e) lim off ord retf link aggs tb gb sq
  | ClUsing f => mkQuery ev ctx since (Some f) stf wh lim off ord retf link aggs tb gb sq
  | ClUsingTime f => mkQuery ev ctx since tf (Some f) wh lim off ord retf link aggs tb gb sq
  | ClAggs a => mkQuery ev ctx since tf stf wh lim off ord retf link (Some a) tb gb sq
  | ClTime g u =>
      mkQuery ev ctx since (match u with Some f => Some f | None => tf end) stf wh lim off ord retf link aggs (Some g) gb sq
  | ClGroup g u =>
      mkQuery ev ctx since (match u with Some f => Some f | None => tf end) stf wh lim off ord retf link aggs tb (Some g) sq
  | ClLimit n => mkQuery ev ctx since tf stf wh (Some n) off ord retf link aggs tb gb sq
  | ClOffset n => mkQuery ev ctx since tf stf wh lim (Some n) ord retf link aggs tb gb sq
  | ClOrder f d => mkQuery ev ctx since tf stf wh lim off (Some (f, d)) retf link aggs tb gb sq
  end.

(** [rule seq_link()] *)
Definition seq_link : P seqlink :=
  alt (let* _ := kw K_FOLLOWED in let* _ := skip in let* _ := kw K_BY in ret FollowedBy)
      (let* _ := kw K_PRECEDED in let* _ := skip in let* _ := kw K_BY in ret PrecededBy).

(** [rule event_sequence() = head:ident() tail:( _ l:seq_link() _ t:ident() )*] *)
Definition event_sequence : P (bytes * list (seqlink * bytes)) :=
  let* head := identp in
  let* tail := (fun s => many (S (length s))
                              (let* _ := skip in let* l := seq_link in let* _ := skip in
                               let* t := identp in ret (l, t)) s) in
  ret (head, tail).

Definition eof : P unit := fun s => match s with [] => Ok (tt, []) | _ => Err end.

(** [pub rule query() = _ query_kw() _ head:event_sequence() _ clauses:( _ c:clause() )* _] then end of input *)
Definition query_rule : P query :=
  let* _ := skip in
  let* _ := alt (kw K_QUERY) (kw K_FIND) in
  let* _ := skip in
  let* hd := event_sequence in
  let* _ := skip in
  let* clauses := (fun s => many (S (length s)) (let* _ := skip in clause_p) s) in
  let* _ := skip in
  let* _ := eof in
  ret (fold_left apply_clause clauses (empty_query (fst hd) (snd hd))).

Definition parse_query (s : bytes) : res query :=
  match query_rule s with
  | Ok (q, _) => Ok q
  | Err => Err | Panic k => Panic k | OOF => OOF
  end.

End Grammar.

(** the WHERE grammar on a whole string (used by the round-trip theorems) *)
Definition parse_expr (fx : bool) (s : bytes) : res expr :=
  match parse_expr_at fx s with
  | Ok (e, []) => Ok e
  | Ok (_, _ :: _) => Err
  | Err => Err | Panic k => Panic k | OOF => OOF
  end.
