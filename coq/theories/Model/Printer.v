(** A printer for the command ASTs of Model/Parser.v and the well-formedness predicates under
    which printing then parsing is the identity (Proofs/ParserProofs.v).  The printer has no
    counterpart in the Rust code; it is the specification side of "the parser preserves
    structure" and the generator of the round-trip test inputs.  Executable definitions only.

    Keywords are printed through a speller [sp : bytes -> bytes]; the round-trip theorems hold
    for every speller that only changes letter case, which is the statement "keywords are
    case-insensitive". *)
From Coq Require Import NArith ZArith List Bool.
From Snel Require Import Base.Bytes Model.Tokenizer Model.Parser.
Import ListNotations.
Open Scope N_scope.

(** * Well-formedness *)

(** every keyword of the QUERY grammar *)
Definition keywords : list bytes :=
  [K_QUERY; K_FIND; K_FOLLOWED; K_PRECEDED; K_BY; K_PER; K_USING; K_SINCE; K_LIMIT; K_OFFSET;
   K_ORDER; K_RETURN; K_LINKED; K_WHERE; K_FOR; K_TIME; K_COUNT; K_UNIQUE; K_TOTAL; K_AVG;
   K_MIN; K_MAX; K_HOUR; K_DAY; K_WEEK; K_MONTH; K_YEAR; K_ASC; K_DESC; K_OR; K_AND; K_NOT; K_IN].

Definition is_keyword (w : bytes) : bool := existsb (ci_eqb w) keywords.

(** an identifier of the grammar whose leading alphabetic run is not a keyword
    ([ci] compares the maximal alphabetic run, so [not_found] *is* read as NOT + [_found]) *)
Definition ident_syntax (i : bytes) : bool :=
  match i with
  | c :: r => is_ident_start c && forallb is_ident_char r
  | [] => false
  end.
Definition wf_ident (i : bytes) : bool :=
  ident_syntax i && negb (is_keyword (fst (span is_alpha i))).

(** [field]: ident or ident.ident *)
Fixpoint split_dot (f : bytes) : bytes * option bytes :=
  match f with
  | [] => ([], None)
  | c :: r => if c =? 46 then ([], Some r)
              else let '(a, o) := split_dot r in (c :: a, o)
  end.
Definition wf_field (f : bytes) : bool :=
  match split_dot f with
  | (a, None) => wf_ident a
  | (a, Some b2) => wf_ident a && ident_syntax b2
  end.

Definition no_quote (s : bytes) : bool := forallb (fun c => negb (c =? 34)) s.
Definition all_digits (d : bytes) : bool := forallb is_digit d.

Definition wf_val (v : jval) : bool :=
  match v with
  | VStr s => no_quote s
  | VInt z => ((- 9223372036854775808 <=? z) && (z <=? 9223372036854775807))%Z
  | VFloat _ d fd =>
      all_digits d && all_digits fd
      && negb (match d with [] => true | _ => false end)
      && negb (match fd with [] => true | _ => false end)
      && negb (float_overflows d fd)
  | VBool _ => false     (* booleans only arise from the bare-field atom, see [wf_expr] *)
  end.

Fixpoint wf_expr (e : expr) : bool :=
  match e with
  | ECmp f OpEq (VBool true) => wf_field f
  | ECmp f _ v => wf_field f && wf_val v
  | EIn f vs => wf_field f && forallb wf_val vs
  | EAnd x y => wf_expr x && wf_expr y
  | EOr x y => wf_expr x && wf_expr y
  | ENot x => wf_expr x
  end.

(** * Printing *)

Section Printer.
Variable sp : bytes -> bytes.    (* keyword speller *)

Definition print_val (v : jval) : bytes :=
  match v with
  | VStr s => 34 :: s ++ [34]
  | VInt z => dec_of_Z z
  | VFloat neg d fd => (if neg then [45] else []) ++ d ++ 46 :: fd
  | VBool v => if v then [116; 114; 117; 101] else [102; 97; 108; 115; 101]
  end.

Definition print_op (o : cmpop) : bytes :=
  match o with
  | OpEq => [61] | OpNeq => [33; 61] | OpGt => [62] | OpGte => [62; 61] | OpLt => [60] | OpLte => [60; 61]
  end.

(** comma-separated list *)
Definition sep_print {A} (pr : A -> bytes) (l : list A) : bytes :=
  match l with
  | [] => []
  | x :: r => pr x ++ flat_map (fun y => 44 :: 32 :: pr y) r
  end.

Definition print_vals (vs : list jval) : bytes := sep_print print_val vs.

(** [lvl]: 0 = or_expr position, 1 = and_expr position, 2 = factor position.  Parentheses
    are printed only where the grammar needs them. *)
Fixpoint print_expr_at (lvl : nat) (e : expr) : bytes :=
  let paren (need : bool) (s : bytes) := if need then 40 :: s ++ [41] else s in
  match e with
  | ECmp f OpEq (VBool true) => f
  | ECmp f o v => f ++ 32 :: print_op o ++ 32 :: print_val v
  | EIn f vs => f ++ 32 :: sp K_IN ++ 32 :: 40 :: print_vals vs ++ [41]
  | EOr x y =>
      paren (Nat.ltb 0 lvl) (print_expr_at 1 x ++ 32 :: sp K_OR ++ 32 :: print_expr_at 0 y)
  | EAnd x y =>
      paren (Nat.ltb 1 lvl) (print_expr_at 2 x ++ 32 :: sp K_AND ++ 32 :: print_expr_at 1 y)
  | ENot x => sp K_NOT ++ 32 :: print_expr_at 2 x
  end.

Definition print_expr (e : expr) : bytes := print_expr_at 0 e.

(** ** Queries *)

Definition quoted (s : bytes) : bytes := 34 :: s ++ [34].

Definition print_list (pr : bytes -> bytes) (l : list bytes) : bytes := sep_print pr l.

Definition print_agg (a : agg) : bytes :=
  match a with
  | ACount None => sp K_COUNT
  | ACount (Some f) => sp K_COUNT ++ 32 :: sp K_UNIQUE ++ 32 :: f
  | ACountField f => sp K_COUNT ++ 32 :: f
  | ATotal f => sp K_TOTAL ++ 32 :: f
  | AAvg f => sp K_AVG ++ 32 :: f
  | AMin f => sp K_MIN ++ 32 :: f
  | AMax f => sp K_MAX ++ 32 :: f
  end.

Definition print_aggs (l : list agg) : bytes := sep_print print_agg l.

Definition gran_kw (g : gran) : bytes :=
  match g with GHour => K_HOUR | GDay => K_DAY | GWeek => K_WEEK | GMonth => K_MONTH | GYear => K_YEAR end.

Definition print_link (l : seqlink * bytes) : bytes :=
  32 :: sp (match fst l with FollowedBy => K_FOLLOWED | PrecededBy => K_PRECEDED end)
     ++ 32 :: sp K_BY ++ 32 :: snd l.

Definition opt_clause {A} (o : option A) (pr : A -> bytes) : bytes :=
  match o with Some a => 32 :: pr a | None => [] end.

(** clause order: FOR, SINCE, USING, USING TIME, WHERE, RETURN, LINKED BY, aggregates, PER, BY,
    ORDER BY, LIMIT, OFFSET (the parser accepts any order; the last clause of a kind wins) *)
Definition print_query (q : query) : bytes :=
  sp K_QUERY ++ 32 :: q_event q
  ++ concat (map print_link (q_seq q))
  ++ opt_clause (q_ctx q) (fun c => sp K_FOR ++ 32 :: quoted c)
  ++ opt_clause (q_since q) (fun c => sp K_SINCE ++ 32 :: quoted c)
  ++ opt_clause (q_time_field q) (fun f => sp K_USING ++ 32 :: f)
  ++ opt_clause (q_seq_time_field q) (fun f => sp K_USING ++ 32 :: sp K_TIME ++ 32 :: f)
  ++ opt_clause (q_where q) (fun e => sp K_WHERE ++ 32 :: print_expr e)
  ++ opt_clause (q_return q) (fun l => sp K_RETURN ++ 32 :: 91 :: print_list quoted l ++ [93])
  ++ opt_clause (q_link q) (fun f => sp K_LINKED ++ 32 :: sp K_BY ++ 32 :: f)
  ++ opt_clause (q_aggs q) print_aggs
  ++ opt_clause (q_bucket q) (fun g => sp K_PER ++ 32 :: sp (gran_kw g))
  ++ opt_clause (q_group q) (fun l => sp K_BY ++ 32 :: print_list (fun f => f) l)
  ++ opt_clause (q_order q) (fun o => sp K_ORDER ++ 32 :: sp K_BY ++ 32 :: fst o ++ 32 :: sp (if snd o then K_DESC else K_ASC))
  ++ opt_clause (q_limit q) (fun n => sp K_LIMIT ++ 32 :: dec_of_N n)
  ++ opt_clause (q_offset q) (fun n => sp K_OFFSET ++ 32 :: dec_of_N n).

End Printer.

(** spellers used by the generators: 0 = upper case, 1 = lower case, 2 = alternating *)
Fixpoint alternate (up : bool) (w : bytes) : bytes :=
  match w with
  | [] => []
  | c :: r => (if up then to_upper c else to_lower c) :: alternate (negb up) r
  end.
Definition speller (mode : N) (w : bytes) : bytes :=
  if mode =? 0 then w else if mode =? 1 then map to_lower w else alternate false w.

(** a speller may change nothing but letter case *)
Definition speller_ok (sp : bytes -> bytes) : Prop :=
  forall w, map to_upper (sp w) = map to_upper w.

(** well-formed queries: identifiers are non-keyword identifiers, strings contain no quote,
    numbers fit u32, aggregate and group lists are non-empty *)
Definition wf_agg (a : agg) : bool :=
  match a with
  | ACount None => true
  | ACount (Some f) | ACountField f | ATotal f | AAvg f | AMin f | AMax f => wf_field f
  end.

Definition wf_opt {A} (p : A -> bool) (o : option A) : bool :=
  match o with Some a => p a | None => true end.

Definition wf_query (q : query) : bool :=
  wf_ident (q_event q)
  && forallb (fun l => wf_ident (snd l)) (q_seq q)
  && wf_opt no_quote (q_ctx q)
  && wf_opt no_quote (q_since q)
  && wf_opt wf_field (q_time_field q)
  && wf_opt wf_field (q_seq_time_field q)
  && wf_opt wf_expr (q_where q)
  && wf_opt (forallb no_quote) (q_return q)
  && wf_opt wf_ident (q_link q)
  && wf_opt (fun l => negb (match l with [] => true | _ => false end) && forallb wf_agg l) (q_aggs q)
  && wf_opt (fun l => negb (match l with [] => true | _ => false end) && forallb wf_field l) (q_group q)
  && wf_opt (fun o => wf_field (fst o)) (q_order q)
  && wf_opt (fun n => n <? 4294967296) (q_limit q)
  && wf_opt (fun n => n <? 4294967296) (q_offset q).

(** ** through the public entry point
    [parse_command] first tokenizes the whole input and rejects it if a character is not a token
    character; the tokenizer honours backslash escapes in string literals, the peg grammars do
    not, so both agree on where a literal ends only when strings contain no backslash. *)
Definition no_backslash (s : bytes) : bool := forallb (fun c => negb (c =? 92)) s.
Definition clean_val (v : jval) : bool := match v with VStr s => no_backslash s | _ => true end.
Fixpoint clean_expr (e : expr) : bool :=
  match e with
  | ECmp _ _ v => clean_val v
  | EIn _ vs => forallb clean_val vs
  | EAnd x y | EOr x y => clean_expr x && clean_expr y
  | ENot x => clean_expr x
  end.
Definition clean_query (q : query) : bool :=
  wf_opt no_backslash (q_ctx q) && wf_opt no_backslash (q_since q) && wf_opt clean_expr (q_where q)
  && wf_opt (forallb no_backslash) (q_return q).

