(** C02 — the WHERE clause as the parser produces it (src/command/parser/commands/query.rs,
    src/command/types.rs [Expr]).  Executable definitions only.

    Literals as [value()] of the grammar yields them: a quoted string or bare identifier is a JSON
    string ([LStr] — so the barewords [true]/[false] are strings), digits without a dot are an i64
    ([LInt]), digits with a dot are an f64 ([LFloat bits json], [json] = the text serde_json prints
    for the number, needed only where the code turns the literal back into text), and the bare-field
    atom [WHERE b] is [ECmp b CEq (LBool true)]. *)
From Coq Require Import ZArith NArith List Bool.
From Snel Require Import Base.Bytes.
Import ListNotations.

Inductive cmp := CEq | CNe | CLt | CLe | CGt | CGe.

Inductive lit :=
| LInt (z : Z) | LFloat (bits : N) (json : bytes) | LStr (s : bytes) | LBool (b : bool).

Inductive expr :=
| ECmp (f : bytes) (op : cmp) (l : lit)
| EIn (f : bytes) (ls : list lit)
| EAnd (a b : expr)
| EOr (a b : expr)
| ENot (a : expr).

(** [QUERY t [FOR ctx] [WHERE e]] — one event type; SINCE is not modelled. *)
Record query := mk_query { q_ctx : option bytes; q_where : option expr }.

Definition cmp_holds (op : cmp) (c : comparison) : bool :=
  match op, c with
  | CEq, Eq => true
  | CNe, Eq => false
  | CNe, _ => true
  | CLt, Lt => true
  | CLe, Lt => true
  | CLe, Eq => true
  | CGt, Gt => true
  | CGe, Gt => true
  | CGe, Eq => true
  | _, _ => false
  end.

Definition is_range (op : cmp) : bool :=
  match op with CLt | CLe | CGt | CGe => true | _ => false end.

Fixpoint not_free (e : expr) : bool :=
  match e with
  | ECmp _ _ _ | EIn _ _ => true
  | EAnd a b | EOr a b => not_free a && not_free b
  | ENot _ => false
  end.
