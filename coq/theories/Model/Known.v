(** C02 — the known classes of inputs on which the query path deviates from the specification.
    Executable (decidable) definitions only; extracted, so the check classifies a failing input
    with the same function the theorems are about.

    [known_class sch evs q = None] is the hypothesis of [C02_exact_outside_known]; every
    constructor other than [IllTyped] names one mechanism (see notes/C02.md).  After the fix round
    (/repo d4c8eed f801704 6311f23 85f577c 39dd6e5 db7c428) the classes FloatColumn, BoolColumn,
    NeqPruned, EnumUnknownVariant, TemporalNegativeLiteral and MixedZoneProvenance are gone; what is
    left of them is the narrower FloatColumnIn, FloatThresholdRounded and NeqOnOptionalText.

    NotComplement          the WHERE clause contains NOT: zone_group_collector.rs [handle_not] reads
                           the complement of the leaf's zones — a zone holding both a satisfying and a
                           non-satisfying row is dropped
    LiteralDropped         a decimal literal (or the bare-field atom): condition_evaluator_builder.rs
                           [add_where_clause] builds no condition, the pruning still uses the leaf
    FloatColumnIn          IN on a float field: [InNumericCondition::evaluate_event_direct] still has no
                           view of a Float64 cell (the repair covered [NumericCondition] only)
    FloatThresholdRounded  an integer literal of magnitude 2^53 or more on a float field: the comparison
                           is made against [threshold as f64], i.e. against the rounded literal
    U64NegativeThreshold   [>], [>=], [!=] a negative number on a u64 field: the "negative threshold ->
                           false" shortcut of condition.rs / condition_evaluator.rs
    U64AboveI64Max         a u64 value above i64::MAX is kept in memory as text
    NumericLookingString   a string/enum literal that parses as a time or an i64 becomes a numeric condition
    StringOrdering         [<,<=,>,>=] on a string field: [StringCondition] answers false
    NullSpelling           the literal "" or "null" on an optional string/enum field: in memory an
                           absent cell reads "" and a null cell reads "null"
    NeqOnOptionalText      [!=] on an optional string / enum / bool field: a null or absent cell reads
                           "null" / "" and therefore satisfies the inequality *)
From Coq Require Import ZArith NArith List Bool.
From Snel Require Import Base.Bytes Model.Time Model.Value Model.Expr Model.Sem Model.Cond.
Import ListNotations.

Inductive kclass :=
| NotComplement | LiteralDropped | FloatColumnIn | FloatThresholdRounded
| U64NegativeThreshold | U64AboveI64Max | NumericLookingString | StringOrdering | NullSpelling
| NeqOnOptionalText | IllTyped.

Definition is_plain_str (s : bytes) : bool :=
  match build_lit (LStr s) with BStr _ => true | _ => false end.
Definition null_like (s : bytes) : bool := bytes_eqb s [] || bytes_eqb s b_null.
Definition is_ne (op : cmp) : bool := match op with CNe => true | _ => false end.

Definition atom_class (d : fdecl) (op : cmp) (l : lit) : option kclass :=
  match l with
  | LFloat _ _ | LBool _ => if wt_atom (f_kind d) op l then Some LiteralDropped else Some IllTyped
  | LInt v =>
      match f_kind d with
      | KFloat => if (Z.abs v <? 2 ^ 53)%Z then None else Some FloatThresholdRounded
      | KInt | KTime => None
      | KU64 => match op with
                | CGt | CGe | CNe => if (v <? 0)%Z then Some U64NegativeThreshold else None
                | _ => None
                end
      | _ => Some IllTyped
      end
  | LStr s =>
      match f_kind d with
      | KTime =>
          match parse_str_to_epoch_seconds s with
          | None => Some IllTyped
          | Some _ => None
          end
      | KStr =>
          if negb (is_plain_str s) then Some NumericLookingString
          else if is_range op then Some StringOrdering
          else if f_opt d && null_like s then Some NullSpelling
          else if f_opt d && is_ne op then Some NeqOnOptionalText
          else None
      | KEnum vs =>
          if is_range op then Some IllTyped
          else if negb (is_plain_str s) then Some NumericLookingString
          else if f_opt d && null_like s then Some NullSpelling
          else if f_opt d && is_ne op then Some NeqOnOptionalText
          else None
      | KBool =>
          if wt_atom KBool op l
          then (if f_opt d && is_ne op then Some NeqOnOptionalText else None)
          else Some IllTyped
      | _ => Some IllTyped
      end
  end.

Fixpoint first_some {A} (l : list (option A)) : option A :=
  match l with
  | [] => None
  | Some x :: _ => Some x
  | None :: l' => first_some l'
  end.

Fixpoint expr_class (sch : schema) (e : expr) : option kclass :=
  match e with
  | ECmp f op l => match find_decl sch f with Some d => atom_class d op l | None => Some IllTyped end
  | EIn f ls =>
      match find_decl sch f, ls with
      | Some d, _ :: _ =>
          match f_kind d with
          | KFloat => Some FloatColumnIn
          | _ => first_some (map (atom_class d CEq) ls)
          end
      | _, _ => Some IllTyped
      end
  | EAnd a b | EOr a b =>
      match expr_class sch a with Some c => Some c | None => expr_class sch b end
  | ENot _ => Some NotComplement
  end.

(** the u64 fields a query mentions hold only values up to i64::MAX *)
Fixpoint fields_of (e : expr) : list bytes :=
  match e with
  | ECmp f _ _ | EIn f _ => [f]
  | EAnd a b | EOr a b => fields_of a ++ fields_of b
  | ENot a => fields_of a
  end.
Definition big_u64 (sch : schema) (ev : event) (f : bytes) : bool :=
  match lookup sch (ev_row ev) f with
  | Some (_, VU64 n) => (i64_max <? Z.of_N n)%Z
  | _ => false
  end.

Definition known_class (sch : schema) (evs : list event) (q : query) : option kclass :=
  match q_where q with
  | None => None
  | Some e =>
      match expr_class sch e with
      | Some c => Some c
      | None => if existsb (fun ev => existsb (big_u64 sch ev) (fields_of e)) evs
                then Some U64AboveI64Max else None
      end
  end.
