(** Model of src/engine/core/filter/surf_encoding.rs ([encode_value] and its three
    8-byte lanes) — executable definitions only.

    IEEE-754 doubles are modelled as their 64-bit pattern [N] (sign bit 63, exponent
    field bits 62..52, mantissa bits 51..0).  The real number denoted by a finite
    pattern is [(-1)^s * sig * 2^(e'-1075)] with [sig = 2^52 + m, e' = e] for a normal
    and [sig = m, e' = 1] for a subnormal; to stay inside [Z] every numeric value of the
    model is carried *scaled by 2^1074* ([f_val], [num_scale]), which is exact for every
    double and every integer.  [Rust: f.is_finite(), f.trunc(), (f - t).abs() == 0.0,
    t as i64 / t as u64 (saturating casts)] are modelled on the pattern.

    [str::parse::<f64>] is not modelled: a [VStr] carries, next to its bytes, the pattern
    Rust's parser returns for it ([None] = not a float), supplied by the case generator and
    verified against the real parser by the Rust probe on every case. *)
From Coq Require Import ZArith NArith List Bool.
From Snel Require Import Base.Bytes Gen.Params.
Import ListNotations.
Open Scope N_scope.

Definition two52 : N := 2 ^ 52.
Definition two63 : N := 2 ^ 63.
Definition two64 : N := 2 ^ 64.

(** [u64::to_be_bytes] *)
Definition be8 (n : N) : bytes :=
  [ N.shiftr n 56 mod 256; N.shiftr n 48 mod 256; N.shiftr n 40 mod 256; N.shiftr n 32 mod 256;
    N.shiftr n 24 mod 256; N.shiftr n 16 mod 256; N.shiftr n 8 mod 256; n mod 256 ].

(** [i as u64] for an [i64] *)
Definition i64_as_u64 (z : Z) : N := Z.to_N (z mod 2 ^ 64).

(** [encode_i64]: [(i as u64) ^ FLIP], big endian *)
Definition enc_i64 (z : Z) : bytes := be8 (N.lxor (i64_as_u64 z) surf_i64_flip).
(** [encode_u64] *)
Definition enc_u64 (n : N) : bytes := be8 n.
(** [encode_f64]: [if bits & (1<<k) != 0 { !bits } else { bits ^ (1<<k) }], big endian *)
Definition f64_key (b : N) : N :=
  if N.testbit b surf_f64_sign_shift then two64 - 1 - b
  else N.lxor b (N.shiftl 1 surf_f64_sign_shift).
Definition enc_f64 (b : N) : bytes := be8 (f64_key b).

(** ---- fields of a double ---- *)
Definition f_sign (b : N) : bool := N.testbit b 63.
Definition f_exp (b : N) : N := N.shiftr b 52 mod 2048.
Definition f_man (b : N) : N := b mod two52.
Definition f_is_finite (b : N) : bool := negb (f_exp b =? 2047).
Definition f_is_nan (b : N) : bool := (f_exp b =? 2047) && negb (f_man b =? 0).

(** magnitude scaled by 2^1074 (for e = 2047 this is larger than every finite magnitude,
    which is what an infinity needs) *)
Definition f_mag_scaled (b : N) : N :=
  if f_exp b =? 0 then f_man b else N.shiftl (two52 + f_man b) (f_exp b - 1).
Definition f_val (b : N) : Z :=
  if f_sign b then (- Z.of_N (f_mag_scaled b))%Z else Z.of_N (f_mag_scaled b).

(** [Some |x|] when the finite double [x] is an integer (what [f.trunc()] returns, then) *)
Definition f_int_mag (b : N) : option N :=
  let e := f_exp b in
  let m := f_man b in
  if e =? 2047 then None
  else if e =? 0 then (if m =? 0 then Some 0 else None)
  else if 1075 <=? e then Some (N.shiftl (two52 + m) (e - 1075))
  else
    let sh := 1075 - e in
    if N.land (two52 + m) (N.ones sh) =? 0 then Some (N.shiftr (two52 + m) sh) else None.

(** Which lane a value is routed to, and with which lane coordinate. *)
Inductive route :=
| RI (z : Z)          (* encode_i64(z) *)
| RU (n : N)          (* encode_u64(n) *)
| RF (bits : N)       (* encode_f64(bits) *)
| RRaw (b : bytes)    (* raw bytes (non-numeric string, boolean) *)
| RNone.              (* encode_value returns None *)

(** The integral-float normalisation shared by the [Utf8] and [Float64] arms. *)
Definition float_route (b : N) : route :=
  if f_is_finite b then
    match f_int_mag b with
    | Some mag =>
        if mag <=? two63 then
          (* t >= i64::MIN as f64 && t <= i64::MAX as f64 (= 2^63); [t as i64] saturates *)
          RI (if f_sign b then (- Z.of_N mag)%Z else Z.min (Z.of_N mag) (Z.of_N two63 - 1))
        else if negb (f_sign b) then
          (* t >= 0.0; [t as u64] saturates *)
          RU (N.min mag (two64 - 1))
        else RF b
    | None => RF b
    end
  else RF b.

(** ---- Rust's [i64::from_str] / [u64::from_str] ---- *)
Fixpoint digits_val (s : bytes) (acc : N) : option N :=
  match s with
  | [] => Some acc
  | c :: r => if is_digit c then digits_val r (acc * 10 + digit_val c) else None
  end.

Definition digits_nonempty (s : bytes) : option N :=
  match s with [] => None | _ => digits_val s 0 end.

Definition parse_i64 (s : bytes) : option Z :=
  match s with
  | [] => None
  | c :: r =>
      if c =? 43 then
        match digits_nonempty r with
        | Some n => if n <? two63 then Some (Z.of_N n) else None
        | None => None
        end
      else if c =? 45 then
        match digits_nonempty r with
        | Some n => if n <=? two63 then Some (- Z.of_N n)%Z else None
        | None => None
        end
      else
        match digits_val s 0 with
        | Some n => if n <? two63 then Some (Z.of_N n) else None
        | None => None
        end
  end.

(** for an unsigned type a leading '-' is not a sign: it fails as an invalid digit *)
Definition parse_u64 (s : bytes) : option N :=
  match s with
  | [] => None
  | c :: r =>
      if c =? 43 then
        match digits_nonempty r with
        | Some n => if n <? two64 then Some n else None
        | None => None
        end
      else
        match digits_val s 0 with
        | Some n => if n <? two64 then Some n else None
        | None => None
        end
  end.

(** [ScalarValue]; [VStr s h]: [h] is what [s.parse::<f64>()] returns (bit pattern). *)
Inductive sval :=
| VNull
| VBool (b : bool)
| VInt (z : Z)
| VTs (z : Z)
| VFloat (bits : N)
| VStr (s : bytes) (fparse : option N)
| VBin.

Definition route_of (v : sval) : route :=
  match v with
  | VStr s h =>
      match parse_i64 s with
      | Some i => RI i
      | None =>
          match parse_u64 s with
          | Some u => RU u
          | None =>
              match h with
              | Some f => float_route f
              | None => RRaw s
              end
          end
      end
  | VInt i => RI i
  | VTs t => RI t
  | VFloat f => float_route f
  | VBool b => RRaw [if b then 1 else 0]
  | VNull | VBin => RNone
  end.

Definition enc_route (r : route) : option bytes :=
  match r with
  | RI z => Some (enc_i64 z)
  | RU n => Some (enc_u64 n)
  | RF b => Some (enc_f64 b)
  | RRaw b => Some b
  | RNone => None
  end.

(** [encode_value] *)
Definition encode_value (v : sval) : option bytes := enc_route (route_of v).

(** ---- specification side: the number a value denotes, scaled by 2^1074 ---- *)
Definition num_scale : Z := 2 ^ 1074.

Definition f_num (b : N) : option Z := if f_is_nan b then None else Some (f_val b).

Definition num_of (v : sval) : option Z :=
  match v with
  | VInt z | VTs z => Some (z * num_scale)%Z
  | VFloat b => f_num b
  | VStr s h =>
      match parse_i64 s with
      | Some i => Some (i * num_scale)%Z
      | None =>
          match parse_u64 s with
          | Some u => Some (Z.of_N u * num_scale)%Z
          | None => match h with Some f => f_num f | None => None end
          end
      end
  | _ => None
  end.

(** Lanes.  A value whose saturating cast changed its number has no lane. *)
Inductive lane := LI | LU | LF.

Definition lane_eqb (a b : lane) : bool :=
  match a, b with LI, LI | LU, LU | LF, LF => true | _, _ => false end.

(** [true] when the double is an integer that [t as i64] / [t as u64] cannot represent
    exactly: 2^63 (routed to the i64 lane as i64::MAX) and everything >= 2^64. *)
Definition f_saturates (b : N) : bool :=
  if f_is_finite b then
    match f_int_mag b with
    | Some mag => negb (f_sign b) && ((mag =? two63) || (two64 <=? mag))
    | None => false
    end
  else false.

Definition float_of (v : sval) : option N :=
  match v with
  | VFloat b => Some b
  | VStr s (Some f) =>
      match parse_i64 s, parse_u64 s with
      | None, None => Some f
      | _, _ => None
      end
  | _ => None
  end.

Definition saturates (v : sval) : bool :=
  match float_of v with Some b => f_saturates b | None => false end.

Definition lane_of (v : sval) : option lane :=
  match num_of v with
  | None => None
  | Some _ =>
      match route_of v with
      | RI _ => Some LI
      | RU _ => Some LU
      | RF _ => Some LF
      | _ => None
      end
  end.

(** Well-formed values: what the Rust types guarantee. *)
Definition i64_ok (z : Z) : bool := ((- 2 ^ 63 <=? z) && (z <? 2 ^ 63))%Z.
Definition sval_wf (v : sval) : bool :=
  match v with
  | VInt z | VTs z => i64_ok z
  | VFloat b => b <? two64
  | VStr _ (Some f) => f <? two64
  | _ => true
  end.
