(** Model of src/engine/core/filter/surf_trie.rs ([SurfTrie::build_from_sorted]) and of the
    private [SurfQuery] in zone_surf_filter.rs ([find_first_key_geq], [find_last_key_leq],
    [find_first_key], [find_last_key], [may_overlap_ge], [may_overlap_le]) — executable
    definitions only.

    The trie is a tree whose children are kept in increasing label order (the builder's
    [BTreeMap<u8, usize>]).  The breadth-first array layout ([degrees], [child_offsets],
    [labels], [edge_to_child], [is_terminal_bits]) is a representation of this tree and is
    not modelled; [child_range]/[edge_to_child] become the forest structure.  The query
    functions follow the code's control flow: one loop over the target bytes, an explicit
    stack of backtrack points (the siblings after / the sibling before the chosen edge and
    the path up to the node), leftmost / rightmost descents.  The SIMD label search
    ([simd_first_ge], [simd_last_le]) is a linear search over the sorted labels. *)
From Coq Require Import NArith List Bool.
From Snel Require Import Base.Bytes.
Import ListNotations.
Open Scope N_scope.

Inductive trie :=
| Node : bool -> forest -> trie
with forest :=
| FNil : forest
| FCons : N -> trie -> forest -> forest.

Definition t_empty : trie := Node false FNil.
Definition t_terminal (t : trie) : bool := match t with Node tm _ => tm end.
Definition t_children (t : trie) : forest := match t with Node _ f => f end.

(** insertion of the edge [b] (then the rest of the key, by [ins_r]) into sorted children:
    [BTreeMap::get] / [BTreeMap::insert] *)
Definition f_ins (b : N) (ins_r : trie -> trie) : forest -> forest :=
  fix ins (f : forest) : forest :=
    match f with
    | FNil => FCons b (ins_r t_empty) FNil
    | FCons l c rest =>
        if b <? l then FCons b (ins_r t_empty) f
        else if b =? l then FCons l (ins_r c) rest
        else FCons l c (ins rest)
    end.

(** One iteration of the builder's outer loop: walk/extend the path of [k], mark terminal. *)
Fixpoint t_insert (k : bytes) (t : trie) {struct k} : trie :=
  match t with
  | Node tm f =>
      match k with
      | [] => Node true f
      | b :: r => Node tm (f_ins b (t_insert r) f)
      end
  end.

(** [SurfTrie::build_from_sorted] (works for any order of the keys). *)
Definition t_build (ks : list bytes) : trie := fold_left (fun t k => t_insert k t) ks t_empty.

(** [descend_leftmost] *)
Fixpoint descend_leftmost (t : trie) (out : bytes) : option bytes :=
  match t with
  | Node tm f =>
      if tm then Some out
      else match f with
           | FNil => None
           | FCons l c _ => descend_leftmost c (out ++ [l])
           end
  end.

(** [descend_rightmost]: follow the last edge until a node without children; that node must
    be terminal.  [rightmost_f f out] = [None] when [f] is empty. *)
Fixpoint descend_rightmost (t : trie) (out : bytes) {struct t} : option bytes :=
  match t with
  | Node tm f =>
      match rightmost_f f out with
      | Some r => r
      | None => if tm then Some out else None
      end
  end
with rightmost_f (f : forest) (out : bytes) {struct f} : option (option bytes) :=
  match f with
  | FNil => None
  | FCons l c r =>
      match rightmost_f r out with
      | Some res => Some res
      | None => Some (descend_rightmost c (out ++ [l]))
      end
  end.

(** [find_first_key] / [find_last_key] *)
Definition find_first_key (t : trie) : option bytes := descend_leftmost t [].
Definition find_last_key (t : trie) : option bytes := descend_rightmost t [].

(** the suffix of the (sorted) children starting at the first label >= tb *)
Fixpoint first_ge (tb : N) (f : forest) : forest :=
  match f with
  | FNil => FNil
  | FCons l c r => if tb <=? l then f else first_ge tb r
  end.

(** backtracking of [find_first_key_geq]: nearest ancestor with a next sibling *)
Fixpoint backtrack_ge (stack : list (forest * bytes)) : option bytes :=
  match stack with
  | [] => None
  | (FNil, _) :: s => backtrack_ge s
  | (FCons l c _, p) :: _ => descend_leftmost c (p ++ [l])
  end.

(** [find_first_key_geq_with_stats]: the main loop.  A stack entry holds the siblings to the
    right of the followed edge and the path of the node. *)
Fixpoint geq_loop (target : bytes) (t : trie) (path : bytes) (stack : list (forest * bytes))
  : option bytes :=
  match target with
  | [] => descend_leftmost t path
  | tb :: rest =>
      match first_ge tb (t_children t) with
      | FCons l c sibs =>
          if l =? tb then geq_loop rest c (path ++ [l]) ((sibs, path) :: stack)
          else descend_leftmost c (path ++ [l])
      | FNil => backtrack_ge stack
      end
  end.
Definition find_first_key_geq (t : trie) (target : bytes) : option bytes := geq_loop target t [] [].

(** [(previous sibling, last child with label <= tb)] over the sorted children: the code's
    [simd_last_le] index and, on backtracking, [chosen - 1] *)
Fixpoint scan_le (tb : N) (f : forest) : option (N * trie) * option (N * trie) :=
  match f with
  | FNil => (None, None)
  | FCons l c r =>
      if l <=? tb then
        match scan_le tb r with
        | (pp, Some x) => (match pp with Some _ => pp | None => Some (l, c) end, Some x)
        | (_, None) => (None, Some (l, c))
        end
      else (None, None)
  end.

(** backtracking of [find_last_key_leq]: nearest ancestor with a previous sibling;
    [None] = no backtrack point *)
Fixpoint backtrack_le (stack : list (option (N * trie) * bytes)) : option (option bytes) :=
  match stack with
  | [] => None
  | (None, _) :: s => backtrack_le s
  | (Some (l, c), p) :: _ => Some (descend_rightmost c (p ++ [l]))
  end.

(** [find_last_key_leq_with_stats] *)
Fixpoint leq_loop (target : bytes) (t : trie) (path : bytes)
  (stack : list (option (N * trie) * bytes)) : option bytes :=
  match target with
  | [] =>
      (* depth >= target.len(): rightmost under the current node, else the node itself *)
      match descend_rightmost t path with
      | Some k => Some k
      | None => if t_terminal t then Some path else None
      end
  | tb :: rest =>
      match scan_le tb (t_children t) with
      | (pp, Some (l, c)) =>
          if l =? tb then leq_loop rest c (path ++ [l]) ((pp, path) :: stack)
          else descend_rightmost c (path ++ [l])
      | (_, None) =>
          match backtrack_le stack with
          | Some r => r
          | None => if t_terminal t then Some path else None
          end
      end
  end.
Definition find_last_key_leq (t : trie) (target : bytes) : option bytes := leq_loop target t [] [].

Definition bytes_ltb (a b : bytes) : bool :=
  match bytes_cmp a b with Lt => true | _ => false end.

(** [may_overlap_ge_with_stats] *)
Definition may_overlap_ge (t : trie) (lower : bytes) (inclusive : bool) : bool :=
  match find_first_key_geq t lower with
  | Some k =>
      if inclusive then true
      else if bytes_ltb lower k then true
      else match find_last_key t with
           | Some last => bytes_ltb lower last
           | None => false
           end
  | None => false
  end.

(** [may_overlap_le_with_stats] *)
Definition may_overlap_le (t : trie) (upper : bytes) (inclusive : bool) : bool :=
  match find_last_key_leq t upper with
  | Some k =>
      if inclusive then true
      else if bytes_ltb k upper then true
      else match find_first_key t with
           | Some mn => bytes_ltb mn upper
           | None => false
           end
  | None => false
  end.
