(** IEEE-754 binary64 as bit patterns ([Z], 0 .. 2^64-1) — executable definitions only.
    What the value path of sneldb needs from floating point:
    - [f64_of_dec]: correctly rounded decimal -> double (Rust [str::parse::<f64>], CPython [float]);
    - [fmul]/[fdiv]/[f64_of_u64]: single IEEE operations, round-to-nearest-even (used by
      serde_json's [f64_from_parts], which is NOT correctly rounded without [float_roundtrip]);
    - [shortest_digits]: the shortest decimal that reads back as the same double, closest to the
      exact value among the shortest (ryu, Rust [Display], CPython [repr]). *)
From Coq Require Import ZArith List Bool.
Import ListNotations.
Open Scope Z_scope.

Definition two52 : Z := 2 ^ 52.
Definition two63 : Z := 2 ^ 63.
Definition f64_inf : Z := 2047 * two52.            (* magnitude bits of +inf *)
Definition sign_bit : Z := two63.

Definition f64_mag (b : Z) : Z := b mod two63.
Definition f64_neg (b : Z) : bool := two63 <=? b.
Definition f64_with_sign (neg : bool) (mag : Z) : Z := if neg then mag + two63 else mag.
Definition f64_is_finite (b : Z) : bool := f64_mag b <? f64_inf.
Definition f64_is_zero (b : Z) : bool := f64_mag b =? 0.

(** Magnitude bits of the positive rational [n/d] rounded to nearest, ties to even;
    overflow gives [f64_inf].  value = q * 2^e with 2^52 <= q < 2^53 (normal) or e = -1074. *)
Definition round_mag (n d : Z) : Z :=
  if (n <=? 0) || (d <=? 0) then 0 else
  let k := Z.log2 n - Z.log2 d in
  (* floor(log2 (n/d)) is k or k-1 *)
  let ge := if 0 <=? k then d * 2 ^ k <=? n else d <=? n * 2 ^ (- k) in
  let fl := if ge then k else k - 1 in
  let e := Z.max (fl - 52) (-1074) in
  let num := if 0 <=? e then n else n * 2 ^ (- e) in
  let den := if 0 <=? e then d * 2 ^ e else d in
  let q := num / den in
  let r := num mod den in
  let up := (den <? 2 * r) || ((den =? 2 * r) && Z.odd q) in
  let q' := if up then q + 1 else q in
  let bits := (e + 1074) * two52 + q' in
  if f64_inf <=? bits then f64_inf else bits.

(** Exact value of finite magnitude bits as a fraction (numerator, denominator). *)
Definition mag_frac (m : Z) : Z * Z :=
  let ef := m / two52 in
  let mant := m mod two52 in
  if ef =? 0 then (mant, 2 ^ 1074)
  else
    let q := two52 + mant in
    let e := ef - 1075 in
    if 0 <=? e then (q * 2 ^ e, 1) else (q, 2 ^ (- e)).

(** [a * b] and [a / b] on full bit patterns (finite or infinite operands; no NaN arises on the
    paths modelled: divisors are positive powers of ten). *)
Definition fmul (a b : Z) : Z :=
  let neg := xorb (f64_neg a) (f64_neg b) in
  let ma := f64_mag a in let mb := f64_mag b in
  if (ma =? 0) || (mb =? 0) then f64_with_sign neg 0
  else if (f64_inf <=? ma) || (f64_inf <=? mb) then f64_with_sign neg f64_inf
  else
    let '(na, da) := mag_frac ma in
    let '(nb, db) := mag_frac mb in
    f64_with_sign neg (round_mag (na * nb) (da * db)).

Definition fdiv (a b : Z) : Z :=
  let neg := xorb (f64_neg a) (f64_neg b) in
  let ma := f64_mag a in let mb := f64_mag b in
  if ma =? 0 then f64_with_sign neg 0
  else if f64_inf <=? ma then f64_with_sign neg f64_inf
  else
    let '(na, da) := mag_frac ma in
    let '(nb, db) := mag_frac mb in
    f64_with_sign neg (round_mag (na * db) (da * nb)).

(** [n as f64] for a non-negative integer. *)
Definition f64_of_nat_int (n : Z) : Z := round_mag n 1.
(** [z as f64] for a signed integer. *)
Definition f64_of_int (z : Z) : Z :=
  if z <? 0 then f64_with_sign true (round_mag (- z) 1) else round_mag z 1.

(** number of decimal digits of a positive integer (0 for 0) *)
Fixpoint ndigits_fuel (fuel : nat) (x : Z) (c : Z) : Z :=
  match fuel with
  | O => c
  | S f => if x <=? 0 then c else ndigits_fuel f (x / 10) (c + 1)
  end.
Definition ndigits (x : Z) : Z := ndigits_fuel (S (Z.to_nat (Z.log2 x))) x 0.

(** Correctly rounded [m * 10^e10] (m >= 0).  Exponents far outside the double range are decided
    without building the power. *)
Definition dec_mag (m e10 : Z) : Z :=
  if m <=? 0 then 0 else
  let nd := ndigits m in
  if 400 <? e10 + nd then f64_inf
  else if e10 + nd <? -400 then 0
  else if 0 <=? e10 then round_mag (m * 10 ^ e10) 1
  else round_mag m (10 ^ (- e10)).
Definition f64_of_dec (neg : bool) (m e10 : Z) : Z := f64_with_sign neg (dec_mag m e10).

(** floor(log10 (n/d)) for n, d > 0: estimate from the bit lengths, then correct. *)
Definition pow10_le (k n d : Z) : bool :=   (* 10^k <= n/d *)
  if 0 <=? k then d * 10 ^ k <=? n else d <=? n * 10 ^ (- k).
Fixpoint ilog10_fix (fuel : nat) (k n d : Z) : Z :=
  match fuel with
  | O => k
  | S f =>
      if negb (pow10_le k n d) then ilog10_fix f (k - 1) n d
      else if pow10_le (k + 1) n d then ilog10_fix f (k + 1) n d
      else k
  end.
Definition ilog10_q (n d : Z) : Z :=
  let k0 := ((Z.log2 n - Z.log2 d) * 30103) / 100000 in
  ilog10_fix 6 k0 n d.

Fixpoint strip_zeros (fuel : nat) (c e : Z) : Z * Z :=
  match fuel with
  | O => (c, e)
  | S f => if (c =? 0) then (c, e) else if c mod 10 =? 0 then strip_zeros f (c / 10) (e + 1) else (c, e)
  end.

(** Shortest round-tripping decimal (digits, exponent) of finite non-zero magnitude bits [m]:
    the value is [digits * 10^exponent], digits without trailing zeros.  For each length n = 1..17
    the two n-digit neighbours of the exact value are tried, the nearer first. *)
Fixpoint shortest_fix (cnt : nat) (n : Z) (m num den k : Z) : Z * Z :=
  match cnt with
  | O => (0, 0)
  | S cnt' =>
      let s := n - 1 - k in
      let sn := if 0 <=? s then num * 10 ^ s else num in
      let sd := if 0 <=? s then den else den * 10 ^ (- s) in
      let lo := sn / sd in
      let r := sn mod sd in
      let hi := lo + 1 in
      let near_hi := sd <? 2 * r in
      let tie := sd =? 2 * r in
      let first := if near_hi then hi else if tie then (if Z.even lo then lo else hi) else lo in
      let second := if first =? lo then hi else lo in
      if dec_mag first (- s) =? m then (first, - s)
      else if (0 <? second) && (dec_mag second (- s) =? m) then (second, - s)
      else shortest_fix cnt' (n + 1) m num den k
  end.

Definition shortest_digits (m : Z) : Z * Z :=
  if (m <=? 0) || (f64_inf <=? m) then (0, 0) else
  let '(num, den) := mag_frac m in
  let k := ilog10_q num den in
  let '(c, e) := shortest_fix 17 1 m num den k in
  strip_zeros 20 c e.
