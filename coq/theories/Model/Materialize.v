(** Model of REMEMBER QUERY … AS m / SHOW m — executable definitions only.

    Rust sources: src/command/handlers/remember.rs (remember_query_with_data_dir),
    src/command/handlers/show/orchestrator.rs (ShowExecutionPipeline::run, build_outcome),
    show/delta/{refresher,watermark}.rs (DeltaRefresher, WatermarkDeduplicator::filter),
    show/store/frame_streamer.rs, show/streaming/response_writer.rs (ShowResponseWriter),
    src/engine/materialize/{high_water,sink,spec}.rs, materialize/store/{materialized_store,manifest}.rs,
    store/frame/writer.rs + store/codec/encoder.rs (the per-frame mark), materialize/catalog/*,
    src/engine/core/zone/selector/{index_selector,pruner/materialization_pruner}.rs,
    src/engine/query/streaming/{scan,merger}.rs and command/handlers/query/merge/streaming.rs (which batches
    a streaming query produces).

    What the code does (and the model reproduces):
    - a streaming, un-ordered QUERY delivers, per shard, at most one batch from the memtable flow and one
      batch from the segment flow (batch size 32768), fanned in without order; [sources] lists them, the
      arrival order is an input ([choice], taken from the observed frames in the correspondence run and
      universally quantified in the theorems);
    - REMEMBER stores every arriving batch as one frame (raw stream: no de-duplication; LIMIT n cuts the
      stream after n rows, each source having been cut to n rows by the pushed-down limit);
    - the mark of a frame is (max "timestamp" column, max "event_id" column) — two independent maxima
      (encoder.rs) — and the mark of a materialisation is the MAXIMUM of the marks of its frames
      (sink.rs since c71d768: [self.high_water.advance(..)] in append and over all frames in
      bootstrap_from_manifest; [mat_sink_mark_last = false]).  Before that fix it was the mark of the LAST
      frame; that branch of [frames_mark] is kept under the translator switch;
    - SHOW streams the stored frames, then the delta query: the query with SINCE raised to the mark's
      timestamp (spec.rs delta_command; applied to the query's own time field), run with the
      materialisation metadata, which makes the zone selector skip a segment whose .zones file mtime is
      below mark.ts - 1 (file_definitely_stale) and every zone whose CORE timestamp_max is below mark.ts
      (materialization_high_water_ts is always present, so the created_at comparison is dead code);
      delta rows pass the WatermarkDeduplicator iff (time-field value, event id) > mark lexicographically
      (the filter is enabled iff the time-field column is part of the result schema; otherwise the
      response writer drops delta rows whose id it has seen); every non-empty filtered delta batch is
      appended as a new frame; SHOW never applies LIMIT/OFFSET to its output.

    - SHOW persists in two steps: every filtered delta batch is appended to the store (frame file + manifest)
      while the response is streamed; the catalog entry (with its own copy of the mark) is rewritten only after the
      response was written completely.  A client that hangs up (or a crash) in between leaves new frames in the
      store and a stale catalog mark ([OShowFail]; the delta task is aborted, so any duplicate-free selection of the
      delta batches may have been appended).  The next SHOW takes the frames, the guard timestamp and the
      watermark filter from the STORE's manifest (last frame) and only the SINCE of the delta query from the catalog
      entry ([n_cat]).

    - Several remembered queries live side by side in the catalog, each with its own store directory
      (catalog/entry.rs: [storage_path = root_dir.join(alias)]) and its own catalog entry; names are compared
      exactly (case-sensitively) by the catalog index, the duplicate check and the path.  The model identifies a view
      by a number; two spellings are the same number iff they are the same string (the harness keeps that map), so
      [lookup] / [update] are the whole name semantics and an operation on one view touches no other ([frame_property]).

    Not modelled: ORDER BY / OFFSET / aggregates / sequences in the remembered query, retention policies,
    batches above 32768 rows, a SHOW racing with a flush (SHOW waits for in-flight flushes first). *)
From Coq Require Import NArith List Bool.
From Snel Require Import Gen.Params.
Import ListNotations.
Open Scope N_scope.

(** Read from the Rust text on every run (tools/params/p50_materialize.py -> Gen/Params.v):
    [mat_sink_mark_last] (sink.rs: the mark is assigned from the last frame, not advanced),
    [mat_stale_cmp], [mat_stale_slack] (index_selector.rs file_definitely_stale: mtime < cutoff - 1),
    [mat_zone_drop] (materialization_pruner.rs / segment_fully_materialized: timestamp_max < high_water),
    [mat_wm_strict] (watermark.rs: (ts, id) > mark), [mat_show_applies_limit] (orchestrator.rs passes
    None, None to the SHOW response writer), [mat_stream_batch_rows] (scan.rs STREAMING_BATCH_SIZE: one batch
    per flow below that many rows; the translator also checks that a frame's mark is built from the maxima of
    the columns named "timestamp" and "event_id"). *)

(** ** Events, queries *)

Record event := mkEvent {
  e_k : N;      (* payload key, unique per event (observation key) *)
  e_ts : N;     (* core timestamp: the STORE handler's wall-clock second *)
  e_pt : N;     (* payload time field (a "datetime" field of the schema) *)
  e_id : N;     (* event id: (ms << 22 | shard << 12 | seq), assigned when the shard applies the STORE *)
  e_ctx : N;    (* context id *)
  e_v : N;      (* integer payload field used by WHERE *)
  e_type : N }. (* event type (several types with the same field layout) *)

Inductive tfield := TCore | TPayload.
Inductive cmp := CEq | CGe | CLt.

Record query := mkQuery {
  q_ctx : option N;              (* FOR ctx *)
  q_where : option (cmp * N);    (* WHERE v <op> n *)
  q_since : option N;            (* SINCE "secs" *)
  q_tf : tfield;                 (* USING <payload time field> or the core timestamp *)
  q_tf_returned : bool;          (* is the time-field column part of the result schema
                                    (always for the core timestamp; for a payload field unless RETURN omits it) *)
  q_limit : option N;
  q_type : N }.                  (* the event type queried *)

Definition tfval (q : query) (e : event) : N :=
  match q_tf q with TCore => e_ts e | TPayload => e_pt e end.

Definition cmp_holds (c : cmp) (a b : N) : bool :=
  match c with CEq => a =? b | CGe => b <=? a | CLt => a <? b end.

(** With a WHERE clause the time filter is not among the plan's filter groups, so the time-field column of a
    SEGMENT row is loaded only if the projection asks for it: SINCE on a payload time field that RETURN omits
    then compares against a missing value and rejects every segment row, while memtable rows are evaluated on
    the event itself (observed on the engine: same query, rows of the memtable returned, rows of segments not). *)
Definition since_blind (q : query) : bool :=
  match q_tf q with
  | TCore => false
  | TPayload => negb (q_tf_returned q) && (match q_where q with Some _ => true | None => false end)
  end.

Definition matches_at (disk : bool) (q : query) (e : event) : bool :=
  (e_type e =? q_type q)
  && (match q_ctx q with None => true | Some c => e_ctx e =? c end)
  && (match q_where q with None => true | Some (c, n) => cmp_holds c (e_v e) n end)
  && (match q_since q with
      | None => true
      | Some s => if disk && since_blind q then false else s <=? tfval q e
      end).

(** the selection predicate of the query *)
Definition matches (q : query) (e : event) : bool := matches_at false q e.

(** ** Marks *)

Definition mark := (N * N)%type.
Definition mlt (a b : mark) : bool := (fst a <? fst b) || ((fst a =? fst b) && (snd a <? snd b)).
Definition mle (a b : mark) : bool := negb (mlt b a).
Definition mark_zero (m : mark) : bool := (fst m =? 0) && (snd m =? 0).

Definition max_of (f : event -> N) (l : list event) : N := fold_right (fun e m => N.max (f e) m) 0 l.
(** encoder.rs: max over the "timestamp" column and, independently, max over the "event_id" column *)
Definition frame_mark (f : list event) : mark := (max_of e_ts f, max_of e_id f).
Definition mark_max (a b : mark) : mark := if mlt a b then b else a.
(** sink.rs: HighWaterMark::advance over every frame — the maximum ([mat_sink_mark_last = false], the code as it
    is since c71d768); the other branch is the pre-fix rule "mark of the last frame" *)
Definition frames_mark (fs : list (list event)) : mark :=
  if mat_sink_mark_last
  then match fs with [] => (0, 0) | _ => frame_mark (last fs []) end
  else fold_left (fun m f => mark_max m (frame_mark f)) fs (0, 0).
Definition ekey (e : event) : mark := (e_ts e, e_id e).

(** ** Layout of the stored events at a quiescent moment *)

Record segment := mkSeg { g_mtime : N; g_zones : list (list event) }.
Record shard := mkShard { s_mem : list event; s_segs : list segment }.
Definition layout := list shard.

Definition seg_events (g : segment) : list event := concat (g_zones g).
Definition shard_events (s : shard) : list event := s_mem s ++ flat_map seg_events (s_segs s).
Definition content (l : layout) : list event := flat_map shard_events l.

Definition zone_tsmax (z : list event) : N := max_of e_ts z.

(** [guard = Some h]: the query carries the materialisation metadata with high-water timestamp [h] *)
Definition zone_kept (g : option N) (z : list event) : bool :=
  match g with None => true | Some h => negb (mat_zone_drop (zone_tsmax z) h) end.
Definition seg_stale (g : option N) (s : segment) : bool :=
  match g with None => false | Some h => mat_stale_cmp (g_mtime s) (h - mat_stale_slack) end.
Definition seg_rows (g : option N) (q : query) (s : segment) : list event :=
  if seg_stale g s then []
  else flat_map (fun z => if zone_kept g z then filter (matches_at true q) z else []) (g_zones s).
Definition shard_sources (g : option N) (q : query) (s : shard) : list (list event) :=
  [filter (matches q) (s_mem s); flat_map (seg_rows g q) (s_segs s)].
(** the batches of a streaming query, in source order (index 2*shard for the memtable flow,
    2*shard+1 for the segment flow); empty ones are not delivered *)
Definition sources (g : option N) (q : query) (l : layout) : list (list event) :=
  flat_map (shard_sources g q) l.

(** ** Arrival order / row choice *)

(** one element per arriving batch: the source index and (only used when the query has a LIMIT) the keys of
    the rows that arrived *)
Definition choice := list (N * list N).

Definition nthN {A} (l : list A) (i : N) (d : A) : A := nth (N.to_nat i) l d.
Definition memN (k : N) (ks : list N) : bool := existsb (N.eqb k) ks.
Fixpoint nodupN (l : list N) : bool :=
  match l with [] => true | x :: r => negb (memN x r) && nodupN r end.
Definition lenN {A} (l : list A) : N := N.of_nat (length l).
Definition nonempty {A} (l : list A) : bool := match l with [] => false | _ => true end.
Definition seqN (n : nat) : list N := map N.of_nat (seq 0 n).

Definition frames_of (bs : list (list event)) (ord : list N) : list (list event) :=
  map (fun i => nthN bs i []) ord.
(** the order names every non-empty batch exactly once and nothing else *)
Definition valid_order (bs : list (list event)) (ord : list N) : bool :=
  nodupN ord
  && forallb (fun i => i <? lenN bs) ord
  && forallb (fun j => Bool.eqb (nonempty (nthN bs j [])) (memN j ord)) (seqN (length bs)).

Definition pick (b : list event) (ks : list N) : list event := filter (fun e => memN (e_k e) ks) b.
Definition keys_ok (b : list event) (ks : list N) : bool :=
  nodupN ks && forallb (fun k => existsb (fun e => e_k e =? k) b) ks.

(** REMEMBER … LIMIT n: every source delivers at most n rows, the handler stores rows until n are stored *)
Fixpoint cut_frames (bs : list (list event)) (rem : N) (ch : choice) (used : list N)
  : option (list (list event) * list N * N) :=
  match ch with
  | [] => Some ([], used, rem)
  | (i, ks) :: r =>
      let b := nthN bs i [] in
      let f := pick b ks in
      if negb (memN i used) && (i <? lenN bs) && nonempty b && (0 <? rem) && keys_ok b ks
         && (lenN f =? N.min rem (lenN b))
      then match cut_frames bs (rem - lenN f) r (i :: used) with
           | Some (fs, u, rm) => Some (f :: fs, u, rm)
           | None => None
           end
      else None
  end.

Definition remember_frames (q : query) (l : layout) (ch : choice) : option (list (list event)) :=
  let bs := sources None q l in
  match q_limit q with
  | None => let ord := map fst ch in
            if valid_order bs ord then Some (frames_of bs ord) else None
  | Some n =>
      match cut_frames bs n ch [] with
      | Some (fs, used, rem) =>
          if (rem =? 0) || forallb (fun j => negb (nonempty (nthN bs j [])) || memN j used) (seqN (length bs))
          then Some fs else None
      | None => None
      end
  end.

(** ** SHOW *)

Definition wm_enabled (q : query) : bool :=
  match q_tf q with TCore => true | TPayload => q_tf_returned q end.
Definition wm_pass (q : query) (m : mark) (e : event) : bool :=
  if mat_wm_strict then mlt m (tfval q e, e_id e) else mle m (tfval q e, e_id e).

(** spec.rs delta_command / should_update_since *)
Definition delta_query (q : query) (m : mark) : query :=
  if mark_zero m then q
  else mkQuery (q_ctx q) (q_where q)
         (Some (match q_since q with Some s => if s <? fst m then fst m else s | None => fst m end))
         (q_tf q) (q_tf_returned q) (q_limit q) (q_type q).

Definition show_filter (q : query) (m : mark) (b : list event) : list event :=
  if wm_enabled q then filter (wm_pass q m) b else b.

(** delta batches of a LIMIT n query: n rows of the source flow, then the watermark filter *)
Fixpoint delta_cut (q : query) (m : mark) (n : N) (bs : list (list event)) (ch : choice) (used : list N)
  : option (list (list event) * list N) :=
  match ch with
  | [] => Some ([], used)
  | (i, ks) :: r =>
      let b := nthN bs i [] in
      let fb := show_filter q m b in
      let f := pick fb ks in
      let dropped := lenN b - lenN fb in
      if negb (memN i used) && (i <? lenN bs) && keys_ok fb ks && nonempty f
         && (if lenN b <=? n then lenN f =? lenN fb
             else (n - dropped <=? lenN f) && (lenN f <=? N.min n (lenN fb)))
      then match delta_cut q m n bs r (i :: used) with
           | Some (fs, u) => Some (f :: fs, u)
           | None => None
           end
      else None
  end.

Definition delta_lower (q : query) (m : mark) (n : N) (b : list event) : N :=
  let fb := show_filter q m b in
  if lenN b <=? n then lenN fb else n - (lenN b - lenN fb).

(** which mark the next SHOW uses (read from the Rust text): the guard timestamp and the watermark filter come from
    the store's manifest ([mat_delta_mark_from_store]: refresher.rs [sink.high_water_mark()]), the SINCE of the delta
    query from the catalog entry ([mat_delta_since_from_catalog]: orchestrator.rs [delta_command(entry.high_water_mark)]) *)
Definition filter_mark (fs : list (list event)) (cat : mark) : mark :=
  if mat_delta_mark_from_store then frames_mark fs else cat.
Definition since_mark (fs : list (list event)) (cat : mark) : mark :=
  if mat_delta_since_from_catalog then cat else frames_mark fs.

Definition delta_batches (q : query) (fs : list (list event)) (cat : mark) (l : layout) : list (list event) :=
  sources (Some (fst (filter_mark fs cat))) (delta_query q (since_mark fs cat)) l.

Definition show_frames (q : query) (fs : list (list event)) (cat : mark) (l : layout) (ch : choice)
  : option (list (list event)) :=
  let m := filter_mark fs cat in
  let bs := delta_batches q fs cat l in
  match q_limit q with
  | None => let fbs := map (show_filter q m) bs in
            let ord := map fst ch in
            if valid_order fbs ord then Some (frames_of fbs ord) else None
  | Some n =>
      match delta_cut q m n bs ch [] with
      | Some (nf, used) =>
          if forallb (fun j => (delta_lower q m n (nthN bs j []) =? 0) || memN j used) (seqN (length bs))
          then Some nf else None
      | None => None
      end
  end.

(** An interrupted SHOW (the response writer failed, the delta task was aborted): the batches named by the
    choice — any duplicate-free selection of the non-empty filtered delta batches, in arrival order — were
    appended; [rest] are the ones that were not. *)
Definition valid_prefix (fbs : list (list event)) (ord : list N) : bool :=
  nodupN ord && forallb (fun i => (i <? lenN fbs) && nonempty (nthN fbs i [])) ord.
Definition rest_of (fbs : list (list event)) (ord : list N) : list (list event) :=
  flat_map (fun j => if memN j ord then [] else let b := nthN fbs j [] in if nonempty b then [b] else [])
           (seqN (length fbs)).
Definition show_fail_frames (q : query) (fs : list (list event)) (cat : mark) (l : layout) (ch : choice)
  : option (list (list event) * list (list event)) :=
  let m := filter_mark fs cat in
  let bs := delta_batches q fs cat l in
  match q_limit q with
  | None => let fbs := map (show_filter q m) bs in
            let ord := map fst ch in
            if valid_prefix fbs ord then Some (frames_of fbs ord, rest_of fbs ord) else None
  | Some n =>
      match delta_cut q m n bs ch [] with
      | Some (nf, _) => Some (nf, [])
      | None => None
      end
  end.

(** orchestrator.rs build_outcome: the catalog mark after a completed SHOW *)
Definition mark_eqb (a b : mark) : bool := (fst a =? fst b) && (snd a =? snd b).
Definition cat_after (cat m0 m' : mark) : mark :=
  if mark_zero m' then cat else if mark_eqb m' m0 then cat else m'.

(** the response writer's id filter when the watermark filter is disabled *)
Fixpoint dedup_seen (seen : list N) (l : list event) : list event :=
  match l with
  | [] => []
  | e :: r => if memN (e_id e) seen then dedup_seen seen r else e :: dedup_seen (e_id e :: seen) r
  end.

Definition apply_limit (q : query) (l : list event) : list event :=
  match q_limit q with
  | Some n => if mat_show_applies_limit then firstn (N.to_nat n) l else l
  | None => l
  end.
Definition show_output (q : query) (old new : list (list event)) : list event :=
  apply_limit q
    (if wm_enabled q then concat old ++ concat new
     else concat old ++ dedup_seen (map e_id (concat old)) (concat new)).

(** ** The catalog and the step function *)

(** [n_frames]: the store's manifest; [n_cat]: the catalog entry's high_water_mark ((0,0) = None) *)
Record entry := mkEntry { n_q : query; n_frames : list (list event); n_cat : mark }.
Record state := mkState { st_layout : layout; st_entries : list (N * entry) }.

Fixpoint lookup (name : N) (es : list (N * entry)) : option entry :=
  match es with
  | [] => None
  | (n, e) :: r => if n =? name then Some e else lookup name r
  end.
Fixpoint update (name : N) (e : entry) (es : list (N * entry)) : list (N * entry) :=
  match es with
  | [] => []
  | (n, e0) :: r => if n =? name then (n, e) :: r else (n, e0) :: update name e r
  end.

Inductive op :=
| OSetLayout (l : layout)                          (* STORE / FLUSH / compaction / restart: the new quiescent layout *)
| ORemember (name : N) (q : query) (ch : choice)
| OShow (name : N) (ch : choice)
| OShowFail (name : N) (ch : choice).               (* SHOW whose delivery failed: frames of [ch] appended, catalog untouched *)

Inductive obs :=
| ObsLayout
| ObsRemembered (frames : list (list event)) (m : mark)
| ObsRejected                                      (* "Materialization '…' already exists" *)
| ObsShow (out : list event) (new_frames : list (list event)) (m : mark) (cat : mark)
| ObsShowFailed (appended : list (list event)) (m : mark) (cat : mark)
| ObsUnknown                                       (* "Materialization '…' not found" *)
| ObsBadChoice.                                    (* the given arrival order is not one the model admits *)

Definition step (st : state) (o : op) : state * obs :=
  match o with
  | OSetLayout l => (mkState l (st_entries st), ObsLayout)
  | ORemember name q ch =>
      match lookup name (st_entries st) with
      | Some _ => (st, ObsRejected)
      | None =>
          match remember_frames q (st_layout st) ch with
          | None => (st, ObsBadChoice)
          | Some fs => (mkState (st_layout st) (st_entries st ++ [(name, mkEntry q fs (frames_mark fs))]),
                        ObsRemembered fs (frames_mark fs))
          end
      end
  | OShow name ch =>
      match lookup name (st_entries st) with
      | None => (st, ObsUnknown)
      | Some en =>
          match show_frames (n_q en) (n_frames en) (n_cat en) (st_layout st) ch with
          | None => (st, ObsBadChoice)
          | Some nf =>
              let fs' := n_frames en ++ nf in
              let cat' := cat_after (n_cat en) (frames_mark (n_frames en)) (frames_mark fs') in
              (mkState (st_layout st) (update name (mkEntry (n_q en) fs' cat') (st_entries st)),
               ObsShow (show_output (n_q en) (n_frames en) nf) nf (frames_mark fs') cat')
          end
      end
  | OShowFail name ch =>
      match lookup name (st_entries st) with
      | None => (st, ObsUnknown)
      | Some en =>
          match show_fail_frames (n_q en) (n_frames en) (n_cat en) (st_layout st) ch with
          | None => (st, ObsBadChoice)
          | Some (ap, _) =>
              let fs' := n_frames en ++ ap in
              (* the catalog entry is rewritten after the response ([mat_catalog_after_response]): not at all here *)
              let cat' := if mat_catalog_after_response then n_cat en
                          else cat_after (n_cat en) (frames_mark (n_frames en)) (frames_mark fs') in
              (mkState (st_layout st) (update name (mkEntry (n_q en) fs' cat') (st_entries st)),
               ObsShowFailed ap (frames_mark fs') cat')
          end
      end
  end.

Definition init : state := mkState [] [].

Fixpoint run (st : state) (ops : list op) : list obs :=
  match ops with
  | [] => []
  | o :: r => let (st', ob) := step st o in ob :: run st' r
  end.

(** ** The live query *)

Definition sel (q : query) (l : layout) : list event := filter (matches q) (content l).

(** ** Decidable descriptions of the failing situations (the known-finding classes) *)

Definition event_eqb (a b : event) : bool :=
  (e_k a =? e_k b) && (e_ts a =? e_ts b) && (e_pt a =? e_pt b) && (e_id a =? e_id b)
  && (e_ctx a =? e_ctx b) && (e_v a =? e_v b) && (e_type a =? e_type b).
Definition in_events (e : event) (l : list event) : bool := existsb (event_eqb e) l.

(** the frames appended by one REMEMBER / SHOW do not end with the frame carrying the largest row:
    the mark regresses below rows that are already stored *)
Definition last_dominates (fs : list (list event)) : bool :=
  forallb (fun e => mle (ekey e) (frames_mark fs)) (concat fs).

(** an event that was not there before, matches a remembered query and is not above its mark
    (frozen / backward clock, same millisecond on a lower-numbered shard) *)
Definition late_for (en : entry) (old new : list event) : bool :=
  existsb (fun e => negb (in_events e old) && matches (n_q en) e && mle (ekey e) (frames_mark (n_frames en))) new.
Definition some_late (st : state) (l : layout) : bool :=
  existsb (fun ne => late_for (snd ne) (content (st_layout st)) (content l)) (st_entries st).

(** the same event visible in two places: a read issued inside a flush window (passive memtable + published
    segment), or an event replayed from a WAL file that outlived its segment at a restart *)
Definition dup_content (l : layout) : bool :=
  negb (nodupN (map e_k (content l))) || negb (nodupN (map e_id (content l))).

(** a segment whose .zones file is more than a second older than an event it holds
    (event stamped ahead of the file-system clock) *)
Definition seg_time_bad (g : segment) : bool :=
  existsb (fun e => g_mtime g + mat_stale_slack <? e_ts e) (seg_events g).
Definition mtime_bad (l : layout) : bool :=
  existsb (fun s => existsb seg_time_bad (s_segs s)) l.

Definition zero_id (l : layout) : bool := existsb (fun e => e_id e =? 0) (content l).

(** events are only added (C01/C03/C05 are the properties about that) *)
Definition keeps_events (st : state) (l : layout) : bool :=
  forallb (fun e => in_events e (content l)) (content (st_layout st)).

Inductive known_class :=
| PayloadTimeField | LimitNotReapplied | MarkOfLastFrame | EventNotAboveMark | RawStreamDuplicates | SegmentOlderThanEvent
| InterruptedRefresh.

(** an interrupted SHOW appended some delta batches and left out one holding a row that is not above the mark of
    the last appended frame: that row is below the store's mark and is never delivered *)
Definition strands (ap rest : list (list event)) : bool :=
  nonempty ap && existsb (fun e => mle (ekey e) (frames_mark ap)) (concat rest).

(** classes an operation falls into, in the state it is applied to *)
Definition classes_of (st : state) (o : op) : list known_class :=
  match o with
  | OSetLayout l =>
      (if dup_content l then [RawStreamDuplicates] else [])
      ++ (if mtime_bad l then [SegmentOlderThanEvent] else [])
      ++ (if some_late st l then [EventNotAboveMark] else [])
  | ORemember name q ch =>
      match lookup name (st_entries st) with
      | Some _ => []
      | None =>
        (match q_tf q with TPayload => [PayloadTimeField] | TCore => [] end)
        ++ (match q_limit q with Some _ => [LimitNotReapplied] | None => [] end)
        ++ (match remember_frames q (st_layout st) ch with
            | Some fs => if last_dominates fs then [] else [MarkOfLastFrame]
            | None => [] end)
      end
  | OShow name ch =>
      match lookup name (st_entries st) with
      | None => []
      | Some en =>
          match show_frames (n_q en) (n_frames en) (n_cat en) (st_layout st) ch with
          | Some nf => if nonempty nf && negb (last_dominates nf) then [MarkOfLastFrame] else []
          | None => []
          end
      end
  | OShowFail name ch =>
      match lookup name (st_entries st) with
      | None => []
      | Some en =>
          match show_fail_frames (n_q en) (n_frames en) (n_cat en) (st_layout st) ch with
          | Some (ap, rest) =>
              (if nonempty ap && negb (last_dominates ap) then [MarkOfLastFrame] else [])
              ++ (if strands ap rest then [InterruptedRefresh] else [])
          | None => []
          end
      end
  end.

(** ** HighWaterMark (high_water.rs), for the function-level probe *)
Definition hw_advance (m p : mark) : mark := if mlt m p then p else m.
Definition hw_satisfies (m p : mark) : bool := mlt m p.

(** marks reported by a sink after each append of a non-empty batch, and by a re-opened sink *)
Fixpoint sink_marks (acc fs : list (list event)) : list mark :=
  match fs with
  | [] => []
  | f :: r => match f with
              | [] => frames_mark acc :: sink_marks acc r          (* empty batch: append is a no-op *)
              | _ => frames_mark (acc ++ [f]) :: sink_marks (acc ++ [f]) r
              end
  end.
