(** Model of sneldb's authentication and authorisation (property C13) — executable
    definitions only.

    Sources: src/engine/auth/{types,user_ops,permission_ops,signature,manager,db_ops}.rs,
    src/frontend/tcp/listener.rs (check_auth / TcpAuthState), src/frontend/unix/connection.rs,
    src/frontend/http/dispatcher.rs (check_auth_with_headers), src/command/dispatcher.rs and the
    handlers store / query / define / auth / permissions / replay / remember / show / compare /
    flush.

    Strings are byte lists.  Two places where the Rust code is Unicode-aware are modelled on
    ASCII only: [char::is_alphanumeric] in [validate_user_id] and [str::trim].  HMAC-SHA256 is an
    uninterpreted function (a [Section] variable), so is the command parser ([parse]).
    Constants, reserved ids, role names and — per handler — whether it has the reserved-id
    shortcut / receives the caller's identity come from the regenerated [Gen.Params]. *)
From Coq Require Import NArith List Bool.
From Snel Require Import Base.Bytes Gen.Params.
Import ListNotations.
Open Scope N_scope.

Definition blen (s : bytes) : N := N.of_nat (length s).
Definition is_nil {A} (l : list A) : bool := match l with [] => true | _ => false end.

(** ---- HashMap<String, _> / HashSet<String> as association lists / lists ---- *)
Fixpoint alookup {A} (k : bytes) (m : list (bytes * A)) : option A :=
  match m with
  | [] => None
  | (k', v) :: r => if bytes_eqb k k' then Some v else alookup k r
  end.
Fixpoint aremove {A} (k : bytes) (m : list (bytes * A)) : list (bytes * A) :=
  match m with
  | [] => []
  | (k', v) :: r => if bytes_eqb k k' then aremove k r else (k', v) :: aremove k r
  end.
Definition ainsert {A} (k : bytes) (v : A) (m : list (bytes * A)) : list (bytes * A) :=
  (k, v) :: aremove k m.

Definition smem (k : bytes) (s : list bytes) : bool := existsb (bytes_eqb k) s.
Definition sremove (k : bytes) (s : list bytes) : list bytes :=
  filter (fun x => negb (bytes_eqb k x)) s.
Definition sinsert (k : bytes) (s : list bytes) : list bytes := k :: sremove k s.

(** ---- users, permission sets, the permission cache (types.rs) ---- *)
Record perm := mkPerm { p_read : bool; p_write : bool }.
Definition perm_none : perm := mkPerm false false.

Record user := mkUser {
  u_id : bytes; u_key : bytes; u_active : bool;
  u_roles : list bytes; u_perms : list (bytes * perm) }.

Record pcache := mkPC {
  pc_perms : list (bytes * list (bytes * perm));
  pc_admin : list bytes; pc_ro : list bytes; pc_ed : list bytes; pc_wo : list bytes }.
Definition pcache_empty : pcache := mkPC [] [] [] [] [].

(** some role of the user is one of [names] (the arms of the match in [update_user]) *)
Definition role_in (names roles : list bytes) : bool := existsb (fun r => smem r names) roles.

(** [PermissionCache::update_user] *)
Definition update_user (c : pcache) (u : user) : pcache :=
  let id := u_id u in
  let upd names set := if role_in names (u_roles u) then sinsert id set else sremove id set in
  mkPC (if is_nil (u_perms u) then aremove id (pc_perms c) else ainsert id (u_perms u) (pc_perms c))
       (upd auth_roles_admin (pc_admin c))
       (upd auth_roles_read_only (pc_ro c))
       (upd auth_roles_editor (pc_ed c))
       (upd auth_roles_write_only (pc_wo c)).

Definition cache_perm (c : pcache) (uid t : bytes) : option perm :=
  match alookup uid (pc_perms c) with
  | Some ps => alookup t ps
  | None => None
  end.

(** [PermissionCache::can_read] *)
Definition can_read (c : pcache) (uid t : bytes) : bool :=
  if smem uid (pc_admin c) then true
  else
    match cache_perm c uid t with
    | Some p =>
        if p_read p then true
        else if negb (p_read p) && negb (p_write p) then false
        else smem uid (pc_ro c) || smem uid (pc_ed c)
    | None => smem uid (pc_ro c) || smem uid (pc_ed c)
    end.

(** [PermissionCache::can_write] *)
Definition can_write (c : pcache) (uid t : bytes) : bool :=
  if smem uid (pc_admin c) then true
  else
    match cache_perm c uid t with
    | Some p => p_write p
    | None => smem uid (pc_ed c) || smem uid (pc_wo c)
    end.

Definition is_admin (c : pcache) (uid : bytes) : bool := smem uid (pc_admin c).

(** ---- server state ---- *)
Record state := mkSt {
  st_users : list (bytes * user);                 (* UserCache *)
  st_cache : pcache;                              (* PermissionCache *)
  st_sessions : list (bytes * (bytes * N));       (* token -> (user id, expires_at) *)
  st_schemas : list bytes;                        (* defined event types *)
  st_mats : list (bytes * list bytes) }.          (* remembered query -> event types it reads *)
Definition state_empty : state := mkSt [] pcache_empty [] [] [].

Definition set_users_cache (s : state) (us : list (bytes * user)) (c : pcache) : state :=
  mkSt us c (st_sessions s) (st_schemas s) (st_mats s).
Definition set_sessions (s : state) (ss : list (bytes * (bytes * N))) : state :=
  mkSt (st_users s) (st_cache s) ss (st_schemas s) (st_mats s).

(** insert the user into the user cache, then refresh the permission cache *)
Definition put_user (s : state) (u : user) : state :=
  set_users_cache s (ainsert (u_id u) u (st_users s)) (update_user (st_cache s) u).

Inductive auth_err := EInvalidId | EIdTooLong | EKeyTooLong | EExists | ENotFound.

(** [validate_user_id] (ASCII model of [char::is_alphanumeric]) *)
Definition id_char_ok (c : N) : bool := is_alpha c || is_digit c || (c =? 95) || (c =? 45).
Definition is_reserved_id (id : bytes) : bool :=
  bytes_eqb id auth_bypass_id || bytes_eqb id auth_noauth_id.
Definition validate_user_id (id : bytes) : option auth_err :=
  if is_nil id then Some EInvalidId
  else if auth_max_user_id_len <? blen id then Some EIdTooLong
  else if negb (forallb id_char_ok id) then Some EInvalidId
  else if auth_validate_rejects_reserved && is_reserved_id id then Some EInvalidId
  else None.

(** [create_user_with_roles]; [fresh_key] is the key the server would generate *)
Definition create_user (s : state) (id : bytes) (key : option bytes) (fresh_key : bytes)
    (roles : list bytes) : option auth_err * state :=
  match validate_user_id id with
  | Some e => (Some e, s)
  | None =>
      let too_long := match key with Some k => auth_max_key_len <? blen k | None => false end in
      if too_long then (Some EKeyTooLong, s)
      else
        match alookup id (st_users s) with
        | Some _ => (Some EExists, s)
        | None =>
            let k := match key with Some k => k | None => fresh_key end in
            (None, put_user s (mkUser id k true roles []))
        end
  end.

(** [AuthManager::revoke_key]: mark inactive, refresh the cache, drop the user's sessions *)
Definition revoke_key (s : state) (id : bytes) : option auth_err * state :=
  match alookup id (st_users s) with
  | None => (Some ENotFound, s)
  | Some u =>
      let s1 := put_user s (mkUser id (u_key u) false (u_roles u) (u_perms u)) in
      (None, set_sessions s1
               (filter (fun e => negb (bytes_eqb (fst (snd e)) id)) (st_sessions s1)))
  end.

(** [AuthManager::grant_permission] (sets the permission set of one event type) *)
Definition grant_permission (s : state) (id t : bytes) (p : perm) : option auth_err * state :=
  match alookup id (st_users s) with
  | None => (Some ENotFound, s)
  | Some u =>
      (None, put_user s (mkUser id (u_key u) (u_active u) (u_roles u) (ainsert t p (u_perms u))))
  end.

(** [AuthManager::revoke_permission] (drops the entry of one event type) *)
Definition revoke_permission (s : state) (id t : bytes) : option auth_err * state :=
  match alookup id (st_users s) with
  | None => (Some ENotFound, s)
  | Some u =>
      (None, put_user s (mkUser id (u_key u) (u_active u) (u_roles u) (aremove t (u_perms u))))
  end.

Definition get_permission (s : state) (id t : bytes) : perm :=
  match alookup id (st_users s) with
  | Some u => match alookup t (u_perms u) with Some p => p | None => perm_none end
  | None => perm_none
  end.

(** [load_from_db] after a restart: the user records survive, the permission cache is rebuilt
    from them, sessions (in memory only) are gone. *)
Definition restart (s : state) : state :=
  mkSt (st_users s)
       (fold_left (fun c e => update_user c (snd e)) (st_users s) pcache_empty)
       [] (st_schemas s) (st_mats s).

(** ---- sessions (manager.rs) ---- *)
Definition new_session (s : state) (tok uid : bytes) (now expiry : N) : state :=
  set_sessions s (ainsert tok (uid, now + expiry) (st_sessions s)).

(** [validate_session_token] *)
Definition validate_token (s : state) (tok : bytes) (now : N) : option bytes :=
  match alookup tok (st_sessions s) with
  | None => None
  | Some (uid, exp) =>
      if exp <? now then None
      else match alookup uid (st_users s) with
           | Some u => if u_active u then Some uid else None
           | None => None
           end
  end.
Definition revoke_token (s : state) (tok : bytes) : bool * state :=
  (match alookup tok (st_sessions s) with Some _ => true | None => false end,
   set_sessions s (aremove tok (st_sessions s))).
Definition revoke_user_sessions (s : state) (uid : bytes) : N * state :=
  let keep := filter (fun e => negb (bytes_eqb (fst (snd e)) uid)) (st_sessions s) in
  (N.of_nat (length (st_sessions s) - length keep), set_sessions s keep).

(** ---- string helpers of the gates ---- *)
(** split at the first occurrence of byte [c] *)
Fixpoint split_byte (c : N) (s : bytes) : option (bytes * bytes) :=
  match s with
  | [] => None
  | x :: r =>
      if x =? c then Some ([], r)
      else match split_byte c r with
           | Some (a, b) => Some (x :: a, b)
           | None => None
           end
  end.

Fixpoint is_prefix (p s : bytes) : bool :=
  match p, s with
  | [], _ => true
  | x :: p', y :: s' => (x =? y) && is_prefix p' s'
  | _ :: _, [] => false
  end.

(** split at the LAST occurrence of the byte string [pat] ([str::rfind] + [split_at]) *)
Fixpoint rsplit_sub (pat s : bytes) : option (bytes * bytes) :=
  match s with
  | [] => None
  | x :: r =>
      match rsplit_sub pat r with
      | Some (a, b) => Some (x :: a, b)
      | None => if is_prefix pat s then Some ([], skipn (length pat) s) else None
      end
  end.

Definition colon : N := 58.
Definition token_marker : bytes := [32; 84; 79; 75; 69; 78; 32].      (* " TOKEN " *)
Definition auth_word : bytes := [65; 85; 84; 72; 32].                  (* "AUTH " *)
Definition eq_ignore_case (a b : bytes) : bool := bytes_eqb (map to_lower a) (map to_lower b).

(** [parse_auth]: "user_id:signature:command" *)
Definition parse_auth (s : bytes) : option (bytes * bytes * bytes) :=
  match split_byte colon s with
  | None => None
  | Some (uid, rest) =>
      match split_byte colon rest with
      | None => None
      | Some (sig, cmd) =>
          if is_nil uid || (auth_max_user_id_len <? blen uid) then None
          else if auth_max_sig_len <? blen sig then None
          else Some (uid, sig, cmd)
      end
  end.

(** ---- abstract commands and the dispatcher ---- *)
(** a query reads its head event type and the further types of its event sequence *)
Definition qspec := (bytes * list bytes)%type.
Definition q_types (q : qspec) : list bytes := fst q :: snd q.

Inductive cmd :=
| CStore (t : bytes)
| CQuery (q : qspec)
| CReplay (t : option bytes) (present : list bytes)  (* [present]: event types stored in the context *)
| CCompare (qs : list qspec)
| CRemember (name : bytes) (q : qspec)
| CShow (name : bytes)
| CFlush
| CPing
| CDefine (t : bytes)
| CCreateUser (id : bytes) (key : option bytes) (roles : option (list bytes))
| CRevokeKey (id : bytes)
| CListUsers
| CGrant (r w : bool) (ts : list bytes) (id : bytes)
| CRevokePerm (r w : bool) (ts : list bytes) (id : bytes)
| CShowPerms (id : bytes)
| CBatch.

(** 401 / 403 / 400 / 500 / handler ran past its authorisation checks / dispatcher panic *)
Inductive outcome := O401 | O403 | O400 | O500 | OExec | OPanic.

(** The check pattern shared by the handlers:
    [None => 401], [uid != BYPASS_USER_ID && !ok(uid) => 403]. *)
Definition hcheck (skip : bool) (who : option bytes) (ok : bytes -> bool) : option outcome :=
  match who with
  | None => Some O401
  | Some u => if (skip && bytes_eqb u auth_bypass_id) || ok u then None else Some O403
  end.

Definition is_blank (s : bytes) : bool := is_nil (trim s).

Fixpoint grant_loop (s : state) (r w : bool) (ts : list bytes) (id : bytes) : outcome * state :=
  match ts with
  | [] => (OExec, s)
  | t :: rest =>
      if negb (smem t (st_schemas s)) then (O400, s)
      else
        let ex := get_permission s id t in
        match grant_permission s id t (mkPerm (p_read ex || r) (p_write ex || w)) with
        | (Some _, _) => (O400, s)
        | (None, s') => grant_loop s' r w rest id
        end
  end.

(** REVOKE goes through [grant_permission] with the reduced set, so an explicit
    (false,false) entry is left behind. *)
Fixpoint revoke_loop (s : state) (r w : bool) (ts : list bytes) (id : bytes) : outcome * state :=
  match ts with
  | [] => (OExec, s)
  | t :: rest =>
      let ex := get_permission s id t in
      match grant_permission s id t (mkPerm (p_read ex && negb r) (p_write ex && negb w)) with
      | (Some _, _) => (O400, s)
      | (None, s') => revoke_loop s' r w rest id
      end
  end.

Definition mat_types (s : state) (name : bytes) : list bytes :=
  match alookup name (st_mats s) with Some ts => ts | None => [] end.

(** event types a read command touches *)
Definition replay_types (t : option bytes) (present : list bytes) : list bytes :=
  match t with Some t => [t] | None => present end.

(** A handler that does not receive the caller's identity cannot check anything.  The branch
    taken when the dispatcher does pass the identity models the proposed repair (same pattern
    as QUERY: every event type read must be readable). *)
Definition read_check (ident : bool) (c : pcache) (who : option bytes) (ts : list bytes) : option outcome :=
  if ident then hcheck true who (fun u => forallb (can_read c u) ts) else None.

Definition writer_role (c : pcache) (u : bytes) : bool :=
  smem u (pc_admin c) || smem u (pc_ed c) || smem u (pc_wo c).

(** [dispatch_command] with [auth_manager = Some _] (what [FrontendContext::from_config] builds). *)
Definition dispatch (s : state) (who : option bytes) (c : cmd) (fresh_key : bytes) : outcome * state :=
  let pc := st_cache s in
  match c with
  | CStore t =>
      match (if auth_ident_store then hcheck auth_skip_store who (fun u => can_write pc u t) else None) with
      | Some o => (o, s)
      | None => (OExec, s)
      end
  | CQuery q =>
      if is_blank (fst q) then (O400, s)
      else
        match (if auth_ident_query then hcheck auth_skip_query who (fun u => can_read pc u (fst q)) else None) with
        | Some o => (o, s)
        | None =>
            match (if auth_query_checks_sequence
                   then hcheck auth_skip_query who (fun u => forallb (can_read pc u) (snd q)) else None) with
            | Some o => (o, s)
            | None => (OExec, s)
            end
        end
  | CReplay t present =>
      (* d146031: the named event type, or EVERY DEFINED event type when the whole context is
         replayed (registry.get_all()), must be readable *)
      match read_check auth_ident_replay pc who (match t with Some t => [t] | None => st_schemas s end) with
      | Some o => (o, s)
      | None => (OExec, s)
      end
  | CCompare qs =>
      (* 20fee3f: the identity / read check comes first, the "at least 2 queries" check second *)
      match read_check auth_ident_compare pc who (flat_map q_types qs) with
      | Some o => (o, s)
      | None => if Nat.ltb (length qs) 2 then (O400, s) else (OExec, s)
      end
  | CRemember name q =>
      match read_check auth_ident_remember pc who (q_types q) with
      | Some o => (o, s)
      | None =>
          match alookup name (st_mats s) with
          | Some _ => (O500, s)
          | None => (OExec, mkSt (st_users s) (st_cache s) (st_sessions s) (st_schemas s)
                                 (ainsert name (q_types q) (st_mats s)))
          end
      end
  | CShow name =>
      match alookup name (st_mats s) with
      | None => (O500, s)
      | Some ts =>
          match read_check auth_ident_show pc who ts with
          | Some o => (o, s)
          | None => (OExec, s)
          end
      end
  | CFlush =>
      match (if auth_ident_flush then hcheck true who (is_admin pc) else None) with
      | Some o => (o, s)
      | None => (OExec, s)
      end
  | CPing => (OExec, s)
  | CDefine t =>
      match (if auth_ident_define then hcheck auth_skip_define who (is_admin pc) else None) with
      | Some o => (o, s)
      | None => (OExec, mkSt (st_users s) (st_cache s) (st_sessions s)
                             (sinsert t (st_schemas s)) (st_mats s))
      end
  | CCreateUser id key roles =>
      match hcheck auth_skip_users who (is_admin pc) with
      | Some o => (o, s)
      | None =>
          match create_user s id key fresh_key (match roles with Some r => r | None => [] end) with
          | (None, s') => (OExec, s')
          | (Some _, _) => (O400, s)
          end
      end
  | CRevokeKey id =>
      match hcheck auth_skip_users who (is_admin pc) with
      | Some o => (o, s)
      | None =>
          match revoke_key s id with
          | (None, s') => (OExec, s')
          | (Some _, _) => (O400, s)
          end
      end
  | CListUsers =>
      match hcheck auth_skip_users who (is_admin pc) with
      | Some o => (o, s)
      | None => (OExec, s)
      end
  | CGrant r w ts id =>
      match hcheck auth_skip_perms who (is_admin pc) with
      | Some o => (o, s)
      | None => grant_loop s r w ts id
      end
  | CRevokePerm r w ts id =>
      match hcheck auth_skip_perms who (is_admin pc) with
      | Some o => (o, s)
      | None => revoke_loop s r w ts id
      end
  | CShowPerms id =>
      match hcheck auth_skip_perms who (is_admin pc) with
      | Some o => (o, s)
      | None => match alookup id (st_users s) with Some _ => (OExec, s) | None => (O400, s) end
      end
  | CBatch => (OPanic, s)
  end.

(** ---- the gates ---- *)
Record gate_cfg := mkCfg { g_bypass : bool; g_has_mgr : bool; g_expiry : N }.

Inductive gate_result :=
| GReject
| GAuthOk (u : bytes)                 (* AUTH accepted: "OK TOKEN <token>" *)
| GDispatch (text : bytes) (u : bytes).

Section Gates.
  (** hex(HMAC-SHA256(key, message)) — uninterpreted *)
  Variable hmac : bytes -> bytes -> bytes.

  (** [signature::verify_signature] *)
  Definition verify_signature (s : state) (msg uid sig : bytes) : bool :=
    if auth_max_sig_len <? blen sig then false
    else if auth_max_user_id_len <? blen uid then false
    else if auth_verify_rejects_reserved && is_reserved_id uid then false
    else match alookup uid (st_users s) with
         | None => false
         | Some u => u_active u && bytes_eqb sig (hmac (u_key u) msg)
         end.

  (** [check_auth] of the TCP (and WebSocket) listener.
      [conn]: the user the connection authenticated as (TcpAuthState.user_id);
      [fresh_tok]: the session token the server would generate now. *)
  Definition gate_tcp (cfg : gate_cfg) (s : state) (conn : option bytes) (line : bytes)
      (now : N) (fresh_tok : bytes) : gate_result * option bytes * state :=
    let t := trim line in
    if g_bypass cfg then (GDispatch t auth_bypass_id, conn, s)
    else if (5 <=? blen t) && eq_ignore_case (firstn 5 t) auth_word then
      (* TcpAuthState::authenticate *)
      match split_byte colon (trim (skipn 5 t)) with
      | None => (GReject, conn, s)
      | Some (uid, sig) =>
          if g_has_mgr cfg && verify_signature s uid uid sig
          then (GAuthOk uid, Some uid, new_session s fresh_tok uid now (g_expiry cfg))
          else (GReject, conn, s)
      end
    else if negb (g_has_mgr cfg) then (GDispatch t auth_noauth_id, conn, s)
    else
      let by_token :=
        match rsplit_sub token_marker t with
        | Some (before, after) =>
            let tok := trim after in
            if negb (is_nil tok) && (blen tok <=? auth_token_max_len) then
              match validate_token s tok now with
              | Some uid => Some (GDispatch (trim before) uid)
              | None => None
              end
            else None
        | None => None
        end in
      match by_token with
      | Some r => (r, conn, s)
      | None =>
          match conn with
          | Some uid =>
              match split_byte colon t with
              | Some (sig, rest) =>
                  let c := trim rest in
                  if verify_signature s c uid sig then (GDispatch c uid, conn, s) else (GReject, conn, s)
              | None => (GReject, conn, s)
              end
          | None =>
              match parse_auth t with
              | Some (uid, sig, c) =>
                  if verify_signature s c uid sig then (GDispatch c uid, conn, s) else (GReject, conn, s)
              | None => (GReject, conn, s)
              end
          end
      end.

  (** [Connection::check_auth] of the UNIX-socket frontend (inline format only) *)
  Definition gate_unix (cfg : gate_cfg) (s : state) (line : bytes) : gate_result :=
    let t := trim line in
    if g_bypass cfg then GDispatch t auth_bypass_id
    else if negb (g_has_mgr cfg) then GDispatch t auth_noauth_id
    else match parse_auth t with
         | Some (uid, sig, c) => if verify_signature s c uid sig then GDispatch c uid else GReject
         | None => GReject
         end.

  (** [check_auth_with_headers] of the HTTP /command endpoint;
      [hdr]: X-Auth-User / X-Auth-Signature when both are present and non-empty *)
  Definition gate_http (cfg : gate_cfg) (s : state) (hdr : option (bytes * bytes)) (body : bytes)
      : gate_result :=
    let t := trim body in
    if g_bypass cfg then GDispatch t auth_bypass_id
    else if negb (g_has_mgr cfg) then GDispatch t auth_noauth_id
    else match hdr with
         | Some (uid, sig) => if verify_signature s t uid sig then GDispatch t uid else GReject
         | None =>
             match parse_auth t with
             | Some (uid, sig, c) => if verify_signature s c uid sig then GDispatch c uid else GReject
             | None => GReject
             end
         end.

  (** ---- a whole request: gate, parser (uninterpreted), dispatcher ---- *)
  Variable parse : bytes -> option cmd.

  Inductive served :=
  | SAuthFail
  | SAuthOk (u : bytes)
  | SParseErr (u : bytes)
  | SOut (c : cmd) (u : bytes) (o : outcome).

  Definition after_gate (r : gate_result) (s : state) (fresh_key : bytes) : served * state :=
    match r with
    | GReject => (SAuthFail, s)
    | GAuthOk u => (SAuthOk u, s)
    | GDispatch text u =>
        match parse text with
        | None => (SParseErr u, s)
        | Some c => let '(o, s') := dispatch s (Some u) c fresh_key in (SOut c u o, s')
        end
    end.

  Definition serve_tcp (cfg : gate_cfg) (s : state) (conn : option bytes) (line : bytes) (now : N)
      (fresh_tok fresh_key : bytes) : served * option bytes * state :=
    let '(r, conn', s1) := gate_tcp cfg s conn line now fresh_tok in
    let '(o, s2) := after_gate r s1 fresh_key in (o, conn', s2).

  Definition serve_unix (cfg : gate_cfg) (s : state) (line : bytes) (fresh_key : bytes) : served * state :=
    after_gate (gate_unix cfg s line) s fresh_key.

  Definition serve_http (cfg : gate_cfg) (s : state) (hdr : option (bytes * bytes)) (body : bytes)
      (fresh_key : bytes) : served * state :=
    after_gate (gate_http cfg s hdr body) s fresh_key.
End Gates.
