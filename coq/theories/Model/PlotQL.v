(** Model of src/command/parser/commands/plotql.rs: the PLOT grammar (a peg grammar with its own
    copy of the expression rules over its own leaves) and the assembly of the parsed clauses
    into [Command::Query] / [Command::Compare].  Executable definitions only. *)
From Coq Require Import NArith ZArith List Bool.
From Snel Require Import Base.Bytes Model.Tokenizer Model.Parser.
Import ListNotations.
Open Scope N_scope.

Definition K_PLOT : bytes := [80; 76; 79; 84].
Definition K_OF : bytes := [79; 70].
Definition K_VS : bytes := [86; 83].
Definition K_SUM : bytes := [83; 85; 77].
Definition K_THEN : bytes := [84; 72; 69; 78].
Definition K_BREAKDOWN : bytes := [66; 82; 69; 65; 75; 68; 79; 87; 78].
Definition K_OVER : bytes := [79; 86; 69; 82].
Definition K_FILTER : bytes := [70; 73; 76; 84; 69; 82].
Definition K_TOP : bytes := [84; 79; 80].
Definition K_EXISTS : bytes := [69; 88; 73; 83; 84; 83].

(** * Terminals *)

Definition is_pa (c : N) : bool := is_alpha c || is_digit c || (c =? 95).

(** after the first run of [a-zA-Z0-9_]: groups of one '-' followed by at least one such character *)
Fixpoint pid_tail (fuel : nat) (s : bytes) : bytes * bytes :=
  match fuel with
  | O => ([], s)
  | S f =>
      match s with
      | c :: r =>
          if c =? 45 then
            let '(a, r') := span is_pa r in
            match a with
            | [] => ([], s)
            | _ => let '(t, r'') := pid_tail f r' in (45 :: a ++ t, r'')
            end
          else ([], s)
      | [] => ([], s)
      end
  end.

(** [rule identifier()] *)
Definition p_ident (s : bytes) : option (bytes * bytes) :=
  match s with
  | c :: r =>
      if is_ident_start c then
        let '(a, r1) := span is_pa r in
        let '(t, r2) := pid_tail (length r1) r1 in
        Some (c :: a ++ t, r2)
      else None
  | [] => None
  end.

Definition p_field (s : bytes) : option (bytes * bytes) :=
  match p_ident s with
  | Some (i, r) =>
      match r with
      | c :: r1 =>
          if c =? 46 then
            match p_ident r1 with
            | Some (j, r2) => Some (i ++ 46 :: j, r2)
            | None => Some (i, r)
            end
          else Some (i, r)
      | [] => Some (i, r)
      end
  | None => None
  end.

Definition p_identp : P bytes := lift p_ident.
Definition p_fieldp : P bytes := lift p_field.

(** [value = string_literal / number / identifier]; [number] is fallible here ([parse_json_number]) *)
Definition p_value : P jval :=
  alt (fun s => match string_lit s with Some (a, r) => Ok (VStr a, r) | None => Err end)
      (alt (number true)
           (fun s => match p_ident s with Some (a, r) => Ok (VStr a, r) | None => Err end)).

(** [comparison_op]: "=" "!=" ">=" "<=" ">" "<" - no operator is a prefix of an earlier one except
    ">" / "<" of ">=" / "<=", which are tried later, so the order of query.rs gives the same choice *)
Definition p_comparison : P expr :=
  let* f := p_fieldp in
  let* _ := skip in
  let* op := lift cmp_op in
  let* _ := skip in
  let* v := p_value in
  ret (ECmp f op v).

(** [value_list = head:value() tail:( _? "," _? v:value() )*] (at least one value) *)
Definition p_value_list : P (list jval) :=
  let* v := p_value in
  let* vs := (fun s => many (S (length s))
                            (fun s1 => match comma_sep s1 with Some s2 => p_value s2 | None => Err end) s) in
  ret (v :: vs).

Definition p_in_expr : P expr :=
  let* f := p_fieldp in
  let* _ := skip in
  let* _ := kw K_IN in
  let* _ := skip in
  let* _ := sym 40 in
  let* _ := skip in
  let* vs := p_value_list in
  let* _ := skip in
  let* _ := sym 41 in
  ret (EIn f vs).

(** [exists_expr]: the field is the text "exists(<id>)" *)
Definition exists_field (id : bytes) : bytes := [101; 120; 105; 115; 116; 115; 40] ++ id ++ [41].
Definition p_exists_args (v : bool) : P expr :=
  let* _ := kw K_EXISTS in let* _ := skip in
  let* _ := sym 40 in let* _ := skip in
  let* id := p_identp in let* _ := skip in
  let* _ := sym 41 in
  ret (ECmp (exists_field id) OpEq (VBool v)).
Definition p_exists_expr : P expr :=
  alt (let* _ := kw K_NOT in let* _ := skip in p_exists_args false) (p_exists_args true).

Definition p_leaf : P expr := alt p_comparison (alt p_in_expr p_exists_expr).

Definition p_expression : P expr := fun s => or_expr_g p_leaf (expr_fuel s) s.

(** * Metric, events, clauses *)

Inductive metric :=
| MCountAll | MCountField (f : bytes) | MCountUnique (f : bytes)
| MTotal (f : bytes) | MAvg (f : bytes) | MMin (f : bytes) | MMax (f : bytes).

Definition paren_field : P bytes :=
  let* _ := skip in let* _ := sym 40 in let* _ := skip in
  let* f := p_fieldp in
  let* _ := skip in let* _ := sym 41 in ret f.

Definition agg_func : P (bytes -> metric) :=
  alt (let* _ := kw K_TOTAL in ret MTotal)
 (alt (let* _ := kw K_SUM in ret MTotal)
 (alt (let* _ := kw K_AVG in ret MAvg)
 (alt (let* _ := kw K_MIN in ret MMin)
      (let* _ := kw K_MAX in ret MMax)))).

Definition metric_expr : P metric :=
  alt (let* mk := agg_func in let* f := paren_field in ret (mk f))
 (alt (let* _ := kw K_COUNT in let* f := paren_field in ret (MCountField f))
 (alt (let* _ := kw K_COUNT in ret MCountAll)
      (let* _ := kw K_UNIQUE in let* f := paren_field in ret (MCountUnique f)))).

(** ["->" / ci("THEN")] *)
Definition seq_sep : P unit :=
  alt (fun s => match s with
                | a :: r => match r with
                            | c :: r' => if (a =? 45) && (c =? 62) then Ok (tt, r') else Err
                            | [] => Err
                            end
                | [] => Err
                end)
      (kw K_THEN).

Definition p_events : P (list bytes) :=
  let* head := p_identp in
  let* tail := (fun s => many (S (length s))
                              (let* _ := skip in let* _ := seq_sep in let* _ := skip in p_identp) s) in
  ret (head :: tail).

Inductive topby := TopField (f : bytes) | TopMetric (m : metric).

Inductive pclause :=
| PBreakdown (l : list bytes)
| PTime (g : gran) (f : bytes)
| PFilter (e : expr)
| PTop (n : N) (by_ : option topby).

Definition p_field_list : P (list bytes) :=
  let* f := p_fieldp in
  let* fs := (fun s => many (S (length s))
                            (fun s1 => match comma_sep s1 with Some s2 => p_fieldp s2 | None => Err end) s) in
  ret (f :: fs).

Definition breakdown_clause : P pclause :=
  let* _ := kw K_BREAKDOWN in let* _ := skip in
  let* _ := kw K_BY in let* _ := skip in
  let* l := p_field_list in ret (PBreakdown l).

Definition ptime_clause : P pclause :=
  let* _ := kw K_OVER in let* _ := skip in
  let* g := granularity in
  let* f := paren_field in ret (PTime g f).

Definition filter_clause : P pclause :=
  let* _ := kw K_FILTER in let* _ := skip in
  let* e := p_expression in ret (PFilter e).

(** [integer() -> u32]: i64 parse, negative rejected, then [value as u32] (truncation to 32 bits) *)
Definition p_integer : P N :=
  fun s => match integer s with
           | Some ((neg, d), r) =>
               let v := digits_val d 0 in
               if neg then (if v =? 0 then Ok (0, r) else Err)
               else if v <=? 9223372036854775807 then Ok (v mod 4294967296, r) else Err
           | None => Err
           end.

Definition top_by_target : P topby :=
  alt (let* m := metric_expr in ret (TopMetric m)) (let* f := p_fieldp in ret (TopField f)).

Definition top_clause : P pclause :=
  let* _ := kw K_TOP in let* _ := skip in
  let* n := p_integer in
  let* by_ := opt (let* _ := skip in let* _ := kw K_BY in let* _ := skip in top_by_target) in
  ret (PTop n by_).

Definition clause_before_vs : P pclause := alt filter_clause top_clause.
Definition clause_after_vs : P pclause := alt breakdown_clause (alt ptime_clause top_clause).

Definition clauses_of (p : P pclause) : P (list pclause) :=
  fun s => many (S (length s)) (let* _ := skip in p) s.

Record side := mkSide { sd_metric : metric; sd_events : list bytes; sd_clauses : list pclause }.

Definition metric_of_events : P side :=
  let* m := metric_expr in let* _ := skip in
  let* _ := kw K_OF in let* _ := skip in
  let* ev := p_events in
  let* cl := clauses_of clause_before_vs in
  ret (mkSide m ev cl).

Definition plot_rule : P (side * list side * list pclause) :=
  let* _ := skip in
  let* _ := kw K_PLOT in let* _ := skip in
  let* main := metric_of_events in
  let* sides := (fun s => many (S (length s))
                               (let* _ := skip in let* _ := kw K_VS in let* _ := skip in metric_of_events) s) in
  let* after := clauses_of clause_after_vs in
  let* _ := skip in
  let* _ := eof in
  ret (main, sides, after).

(** * Assembly (PlotQueryParts::into_command) *)

Definition metric_eqb (a b : metric) : bool :=
  match a, b with
  | MCountAll, MCountAll => true
  | MCountField x, MCountField y | MCountUnique x, MCountUnique y | MTotal x, MTotal y
  | MAvg x, MAvg y | MMin x, MMin y | MMax x, MMax y => bytes_eqb x y
  | _, _ => false
  end.

Definition agg_of_metric (m : metric) : agg :=
  match m with
  | MCountAll => ACount None | MCountField f => ACountField f | MCountUnique f => ACount (Some f)
  | MTotal f => ATotal f | MAvg f => AAvg f | MMin f => AMin f | MMax f => AMax f
  end.

Definition S_count : bytes := [99; 111; 117; 110; 116].                       (* count *)
Definition S_count_ : bytes := [99; 111; 117; 110; 116; 95].                  (* count_ *)
Definition S_count_unique_ : bytes := [99; 111; 117; 110; 116; 95; 117; 110; 105; 113; 117; 101; 95].
Definition S_total_ : bytes := [116; 111; 116; 97; 108; 95].
Definition S_avg_ : bytes := [97; 118; 103; 95].
Definition S_min_ : bytes := [109; 105; 110; 95].
Definition S_max_ : bytes := [109; 97; 120; 95].

Definition metric_field_name (m : metric) : bytes :=
  match m with
  | MCountAll => S_count | MCountField f => S_count_ ++ f | MCountUnique f => S_count_unique_ ++ f
  | MTotal f => S_total_ ++ f | MAvg f => S_avg_ ++ f | MMin f => S_min_ ++ f | MMax f => S_max_ ++ f
  end.

(** per-side state: filter (conjunction of the FILTER clauses, in order), top, top target *)
Definition side_fold (acc : option expr * option N * option topby) (c : pclause) :=
  let '(flt, top, tby) := acc in
  match c with
  | PFilter e => (Some (match flt with Some x => EAnd x e | None => e end), top, tby)
  | PTop n b => (flt, Some n, b)
  | _ => acc
  end.

(** shared state: time, breakdown, top, top target *)
Definition shared_fold (acc : option (gran * bytes) * option (list bytes) * option N * option topby) (c : pclause) :=
  let '(tm, bd, top, tby) := acc in
  match c with
  | PBreakdown l => (tm, Some l, top, tby)
  | PTime g f => (Some (g, f), bd, top, tby)
  | PTop n b => (tm, bd, Some n, b)
  | PFilter _ => acc
  end.

Definition or_opt {A} (a b : option A) : option A := match a with Some _ => a | None => b end.

Definition build_query (shared : option (gran * bytes) * option (list bytes) * option N * option topby) (sd : side) : query :=
  let '(tm, bd, stop, stby) := shared in
  let '(flt, top0, tby0) := fold_left side_fold (sd_clauses sd) (None, None, None) in
  let top := or_opt stop top0 in
  let tby := or_opt stby tby0 in
  let m := sd_metric sd in
  let aggs0 := [agg_of_metric m] in
  let '(aggs, order) :=
    match top with
    | None => (aggs0, None)
    | Some _ =>
        match tby with
        | Some (TopField f) => (aggs0, Some (f, true))
        | Some (TopMetric m2) =>
            ((if metric_eqb m m2 then aggs0 else aggs0 ++ [agg_of_metric m2]), Some (metric_field_name m2, true))
        | None => (aggs0, Some (metric_field_name m, true))
        end
    end in
  let '(ev, links) := match sd_events sd with
                      | e :: rest => (e, map (fun x => (FollowedBy, x)) rest)
                      | [] => ([42], [])
                      end in
  mkQuery ev None None (option_map snd tm) None flt top None order None None (Some aggs) (option_map fst tm) bd links.

Inductive plot_result := PlotQuery (q : query) | PlotCompare (qs : list query).

Definition parse_plot (s : bytes) : res plot_result :=
  match plot_rule s with
  | Ok ((main, sides, after), _) =>
      if forallb (fun sd => metric_eqb (sd_metric main) (sd_metric sd)) sides then
        let shared := fold_left shared_fold after (None, None, None, None) in
        match sides with
        | [] => Ok (PlotQuery (build_query shared main))
        | _ => Ok (PlotCompare (build_query shared main :: map (build_query shared) sides))
        end
      else Err
  | Err => Err
  | Panic k => Panic k
  | OOF => OOF
  end.
