(** Cluster model for C12: [n] shards, STORE routed by [route ctx n]
    (src/command/handlers/store.rs -> ShardManager::get_shard), ids assigned by the generator of
    the shard that applies the event (worker.rs [on_store], ShardContext::next_event_id), every
    read fanned out to all shards (query/dispatch/streaming.rs iterates [all_shards()]).
    Executable definitions only.

    The physical placement is the shard index paired with the event in the log: shard [j] holds
    exactly the log entries placed at [j], in append order. *)
From Coq Require Import NArith List Bool.
From Snel Require Import Base.Bytes Model.EventId Model.SipHash.
Import ListNotations.
Open Scope N_scope.

Record event := mkEvent { ev_ctx : bytes; ev_payload : N; ev_id : N }.

Record cluster := mkCluster {
  cl_n : N;                          (* shard count of this deployment *)
  cl_log : list (N * event);         (* (shard that applied it, event), in global apply order *)
  cl_gens : list gen                 (* id generator of each shard *)
}.

Definition shard_ids (n : N) : list N := map N.of_nat (seq 0 (N.to_nat n)).

Definition cluster_init (n : N) : cluster :=
  mkCluster n [] (repeat gen0 (N.to_nat n)).

Fixpoint set_nth (i : nat) (g : gen) (l : list gen) : list gen :=
  match l, i with
  | [], _ => []
  | _ :: r, O => g :: r
  | x :: r, S i' => x :: set_nth i' g r
  end.

Inductive op :=
| Store (ctx : bytes) (payload : N) (clock : list N)   (* clock: the readings this STORE's id generation sees *)
| Restart.                                             (* all shards restart; same shard count *)

Definition apply_op (st : cluster) (o : op) : cluster :=
  match o with
  | Store ctx payload clock =>
      match route ctx (cl_n st) with
      | None => st                                      (* no shards: get_shard panics, nothing stored *)
      | Some i =>
          match gen_next (nth (N.to_nat i) (cl_gens st) gen0) i clock with
          | None => st                                  (* the clock never advanced: the STORE never completes *)
          | Some (id, g', _) =>
              mkCluster (cl_n st) (cl_log st ++ [(i, mkEvent ctx payload id)])
                        (set_nth (N.to_nat i) g' (cl_gens st))
          end
      end
  | Restart => mkCluster (cl_n st) (cl_log st) (repeat gen0 (N.to_nat (cl_n st)))
  end.

Definition run_ops (n : N) (ops : list op) : cluster := fold_left apply_op ops (cluster_init n).

(** contents of one shard, in its append order *)
Definition shard_events (st : cluster) (j : N) : list event :=
  map snd (filter (fun p => fst p =? j) (cl_log st)).

(** a read is sent to every shard and the per-shard results are concatenated (shard order) *)
Definition read_all (st : cluster) : list event :=
  flat_map (shard_events st) (shard_ids (cl_n st)).

Definition for_ctx (c : bytes) (e : event) : bool := bytes_eqb (ev_ctx e) c.

Definition read_scoped (st : cluster) (c : bytes) : list event :=
  flat_map (fun j => filter (for_ctx c) (shard_events st j)) (shard_ids (cl_n st)).

(** everything ever applied, in apply order *)
Definition applied (st : cluster) : list event := map snd (cl_log st).
