(** Model of [serde_json::Value] as the STORE path sees it — executable definitions only.

    serde_json (1.0.140, no [arbitrary_precision], no [preserve_order]) keeps a number in
    one of three shapes ([serde_json::number::N]):
      - [PosInt u64]  every non-negative integer literal below 2^64,
      - [NegInt i64]  every negative integer literal down to -2^63 (always < 0),
      - [Float f64]   everything else (fraction, exponent, or out of those ranges); finite.
    Floats cross the model boundary as their IEEE-754 bit pattern.
    Objects are association lists; [serde_json::Map] has unique keys, which is the
    well-formedness condition [keys_unique] the theorems assume for the payload. *)
From Coq Require Import ZArith NArith List Bool.
From Snel Require Import Base.Bytes.
Import ListNotations.

Inductive jnum :=
| PosInt (n : N)
| NegInt (z : Z)
| Float (bits : N).

Inductive json :=
| JNull
| JBool (b : bool)
| JNum (n : jnum)
| JStr (s : bytes)
| JArr (l : list json)
| JObj (m : list (bytes * json)).

Definition u64_bound : N := (2 ^ 64)%N.
Definition i64_lo : Z := (- 2 ^ 63)%Z.
Definition i64_hi : Z := (2 ^ 63 - 1)%Z.

(** Shapes serde_json can actually hold. *)
Definition f64_exp (bits : N) : N := N.land (N.shiftr bits 52) 2047.
Definition f64_mant (bits : N) : N := N.land bits (2 ^ 52 - 1).
Definition f64_neg (bits : N) : bool := N.testbit bits 63.
Definition f64_finite (bits : N) : bool := (bits <? u64_bound)%N && negb (f64_exp bits =? 2047)%N.

Definition wf_num (n : jnum) : bool :=
  match n with
  | PosInt n => (n <? u64_bound)%N
  | NegInt z => (i64_lo <=? z)%Z && (z <? 0)%Z
  | Float b => f64_finite b
  end.

(** [Value::is_string], [is_boolean], [is_number], [is_null]. *)
Definition is_string (v : json) : bool := match v with JStr _ => true | _ => false end.
Definition is_boolean (v : json) : bool := match v with JBool _ => true | _ => false end.
Definition is_number (v : json) : bool := match v with JNum _ => true | _ => false end.
Definition is_null (v : json) : bool := match v with JNull => true | _ => false end.

(** [Number::as_u64]: PosInt only. *)
Definition num_as_u64 (n : jnum) : option N :=
  match n with PosInt n => Some n | _ => None end.
(** [Number::as_i64]: PosInt when it fits i64, NegInt always. *)
Definition num_as_i64 (n : jnum) : option Z :=
  match n with
  | PosInt n => if (Z.of_N n <=? i64_hi)%Z then Some (Z.of_N n) else None
  | NegInt z => Some z
  | Float _ => None
  end.
(** [Number::as_f64] is [Some] for every number (integers are converted); only the
    fact that it is [Some] matters to validation. *)
Definition num_as_f64_is_some (n : jnum) : bool := true.

Definition as_u64 (v : json) : option N := match v with JNum n => num_as_u64 n | _ => None end.
Definition as_i64 (v : json) : option Z := match v with JNum n => num_as_i64 n | _ => None end.
Definition as_f64_is_some (v : json) : bool :=
  match v with JNum n => num_as_f64_is_some n | _ => false end.
Definition as_str (v : json) : option bytes := match v with JStr s => Some s | _ => None end.

(** [Map::get] / [Map::contains_key] on an association list. *)
Fixpoint obj_get (m : list (bytes * json)) (k : bytes) : option json :=
  match m with
  | [] => None
  | (k', v) :: r => if bytes_eqb k' k then Some v else obj_get r k
  end.

Fixpoint mem_bytes (k : bytes) (l : list bytes) : bool :=
  match l with
  | [] => false
  | x :: r => bytes_eqb x k || mem_bytes k r
  end.

Fixpoint uniq_bytes (l : list bytes) : bool :=
  match l with
  | [] => true
  | x :: r => negb (mem_bytes x r) && uniq_bytes r
  end.

Definition keys_unique {A : Type} (m : list (bytes * A)) : bool := uniq_bytes (map fst m).

(** The exact value of a finite double is [f64_sig * 2 ^ f64_pow2] (sign applied to
    [f64_sig]); [f64_floor] is its mathematical floor ([f64::floor] is exact). *)
Definition f64_sig (bits : N) : Z :=
  let m := Z.of_N (f64_mant bits) in
  let s := if (f64_exp bits =? 0)%N then m else (2 ^ 52 + m)%Z in
  if f64_neg bits then (- s)%Z else s.
Definition f64_pow2 (bits : N) : Z :=
  if (f64_exp bits =? 0)%N then (-1074)%Z else (Z.of_N (f64_exp bits) - 1075)%Z.
Definition f64_floor (bits : N) : Z :=
  let e := f64_pow2 bits in
  if (0 <=? e)%Z then (f64_sig bits * 2 ^ e)%Z else (f64_sig bits / 2 ^ (- e))%Z.
