(** C16 — the call sites that read time literals, each as a small function over
    [parse_str_to_epoch_seconds] (Model/Time.v).  Executable definitions only.

    - payload normaliser      src/engine/schema/normalization.rs  PayloadTimeNormalizer::normalize
    - WHERE literal (rows)    src/engine/core/filter/condition_evaluator_builder.rs  add_where_clause
    - SINCE (rows)            ... add_special_fields
    - WHERE literal (planner) src/engine/core/filter/filter_group_builder.rs  normalize_temporal_literals
    - field selector          src/engine/core/zone/selector/field_selector.rs  select_for_segment (temporal arm)
    - zone pruner             src/engine/core/zone/selector/pruner/temporal_pruner.rs  apply_temporal_only,
                              over the artifacts written by src/engine/core/time/temporal_builder.rs
                              (temporal_calendar_index.rs, zone_temporal_index.rs)
    - materialised queries    src/engine/materialize/spec.rs  delta_command / parse_since_epoch *)
From Coq Require Import ZArith NArith List Bool.
From Snel Require Import Base.Bytes Base.Civil Gen.Params Model.Time.
Import ListNotations.
Open Scope Z_scope.

(** JSON values as the sites see them ([TOther] = array / object with its compact text). *)
Inductive tval :=
| TStr (s : bytes)
| TNum (n : jnum)
| TNull
| TBool
| TOther (txt : bytes).

Inductive ftype := FDateTime | FDate | FOptDateTime | FOptDate | FString.

Definition is_temporal (ft : ftype) : bool := match ft with FString => false | _ => true end.
Definition is_optional (ft : ftype) : bool :=
  match ft with FOptDateTime | FOptDate => true | _ => false end.

(** [TimeParser::normalize_json_value] (both [TimeKind]s behave alike) *)
Definition normalize_json_value (v : tval) : option Z :=
  match v with
  | TStr s => parse_str_to_epoch_seconds s
  | TNum n => normalize_json_number n
  | _ => None
  end.

(** * Payload normaliser: the state of the field afterwards *)
Inductive pstate := PAbsent | PErr | PNum (z : Z) | PStr (s : bytes) | PNull | POther.

Definition state_of (v : tval) : pstate :=
  match v with
  | TStr s => PStr s
  | TNum (JInt z) => PNum z
  | TNum (JDec _ _) => POther
  | TNull => PNull
  | TBool | TOther _ => POther
  end.

Definition is_null (v : tval) : bool := match v with TNull => true | _ => false end.

Definition site_payload (ft : ftype) (v : option tval) : pstate :=
  match v with
  | None => PAbsent
  | Some v =>
      if is_temporal ft then
        if is_optional ft && is_null v then PNull
        else match normalize_json_value v with Some z => PNum z | None => PErr end
      else state_of v
  end.

(** * [ScalarValue::from(serde_json::Value)] *)
Inductive scalar := SInt (z : Z) | SUtf8 (s : bytes) | SFloat | SNull | SBool.

Definition scalar_of (v : tval) : scalar :=
  match v with
  | TStr s => SUtf8 s
  | TNum (JInt z) => if z <=? i64_max then SInt z else SUtf8 (dec_of_Z z)
  | TNum (JDec _ _) => SFloat
  | TNull => SNull
  | TBool => SBool
  | TOther txt => SUtf8 txt
  end.

(** [str::parse::<i64>] / [str::parse::<u64>] *)
Definition parse_i64_str (s : bytes) : option Z :=
  match parse_int_str s with Some z => try_i64 z | None => None end.

Definition u64_max : Z := 2 ^ 64 - 1.
Definition parse_u64_str (s : bytes) : option Z :=
  let digits := match s with 43%N :: (_ :: _) as r => r | _ => s end in
  match digits with
  | [] => None
  | _ => match all_digits_val digits 0 with
         | Some z => if z <=? u64_max then Some z else None
         | None => None
         end
  end.

Definition scalar_as_i64 (sv : scalar) : option Z :=
  match sv with SInt z => Some z | SUtf8 s => parse_i64_str s | _ => None end.

(** * WHERE literal when rows are filtered: [add_where_clause] on [Expr::Compare] *)
Inductive cond := CNum (z : Z) | CStr | CNone.

Definition site_where (v : tval) : cond :=
  let sv := scalar_of v in
  let temporal := match sv with SUtf8 s => parse_str_to_epoch_seconds s | _ => None end in
  match temporal with
  | Some z => CNum z
  | None =>
      match scalar_as_i64 sv with
      | Some z => CNum z
      | None => match sv with SUtf8 _ => CStr | _ => CNone end
      end
  end.

(** * SINCE when rows are filtered: [add_special_fields] *)
Inductive since_cond := SinceNum (z : Z) | SinceIgnored.

Definition site_since_row (s : bytes) : since_cond :=
  match parse_str_to_epoch_seconds s with
  | Some z => SinceNum z
  | None => match parse_i64_str s with Some z => SinceNum z | None => SinceIgnored end
  end.

(** what [FilterGroupBuilder::add_time_filter] hands to the pruner: the raw literal *)
Definition site_since_filter (s : bytes) : scalar := SUtf8 s.

(** * WHERE literal in the planner: [normalize_temporal_literals] on [Expr::Compare] *)
Definition site_filter (ft : ftype) (v : tval) : scalar :=
  if is_temporal ft then
    match scalar_of v with
    | SUtf8 s => match parse_str_to_epoch_seconds s with
                 | Some z => SInt z
                 | None => SUtf8 s
                 end
    | sv => sv
    end
  else scalar_of v.

(** * The temporal pruner

    The shapes of the code that differ between the pinned tree and the proposed repair
    (fixes/C16-pre-epoch-time-values.diff) are parameters, regenerated from the Rust text by
    tools/params/p11_timesites.py:
      [tsite_cal_guard]            temporal_builder.rs registers a zone in the field calendar only
                                   when min_ts >= 0 && max_ts >= 0 (else: always, range clamped at 0)
      [tsite_pruner_clamps]        temporal_pruner.rs clamps the literal at 0 and uses the clamped value
                                   everywhere (else: signed literal, only the calendar lookup clamped)
      [tsite_pruner_u64_fallback]  an unparsable string literal is tried as u64
      [tsite_pruner_unparsable]    value of an unparsable literal otherwise
      [tsite_bucket_hour/day/mod]  bucket sizes and the truncation of bucket ids.
    The [_gen] functions take them as arguments (the theorems that do not depend on them are
    proved for all values); the plain names are the instances for the current tree. *)

(** literal handling: parse as time, else (u64, else) a default; clamp at 0 *)
Definition pruner_ts_gen (clamps fallback : bool) (dflt : Z) (sv : scalar) : Z :=
  match sv with
  | SInt i => if clamps then Z.max i 0 else i
  | SUtf8 s =>
      match parse_str_to_epoch_seconds s with
      | Some p => if clamps then Z.max p 0 else p
      | None => if fallback
                then match parse_u64_str s with Some u => u | None => dflt end
                else dflt
      end
  | _ => 0
  end.
Definition pruner_ts : scalar -> Z :=
  pruner_ts_gen tsite_pruner_clamps tsite_pruner_u64_fallback tsite_pruner_unparsable.

(** [ts as i64] (the identity on values that already are i64) *)
Definition wrap_i64 (u : Z) : Z := if u <? 2 ^ 63 then u else u - 2 ^ 64.

(** a zone and the stamps of the time field of its events *)
Record zone := mkZone { z_id : N; z_ts : list Z }.

Definition zmin (z : zone) : Z :=
  match z_ts z with [] => 0 | x :: r => fold_left Z.min r x end.
Definition zmax (z : zone) : Z :=
  match z_ts z with [] => 0 | x :: r => fold_left Z.max r x end.

(** temporal_builder.rs: which zones enter the field calendar *)
Definition in_cal_gen (guard : bool) (z : zone) : bool :=
  if guard then (0 <=? zmin z) && (0 <=? zmax z) else true.
Definition in_cal : zone -> bool := in_cal_gen tsite_cal_guard.

(** [bucket_id]: start of the bucket, truncated to u32 *)
Definition u32_mod : Z := tsite_bucket_mod.
Definition bucket_id (g ts : Z) : Z := ((ts / g) * g) mod u32_mod.

(** [add_zone_range]: every bucket from the one of [lo] to the one of [hi] *)
Definition buckets (g lo hi : Z) : list Z :=
  map (fun i => ((lo / g + Z.of_nat i) * g) mod u32_mod)
      (seq 0 (Z.to_nat (hi / g - lo / g + 1))).

(** the range is registered as u64: clamped at 0 (a no-op under the guard) *)
Definition zone_buckets_gen (guard : bool) (g : Z) (z : zone) : list Z :=
  if in_cal_gen guard z then buckets g (Z.max 0 (zmin z)) (Z.max 0 (zmax z)) else [].

Definition has_bucket_gen (guard : bool) (g : Z) (z : zone) (b : Z) : bool :=
  existsb (Z.eqb b) (zone_buckets_gen guard g z).

(** [zones_for_ts]: hour bucket when present in the hour map, else day bucket *)
Definition cal_zones_eq_gen (guard : bool) (ts : Z) (zones : list zone) : list zone :=
  match filter (fun z => has_bucket_gen guard tsite_bucket_hour z (bucket_id tsite_bucket_hour ts)) zones with
  | [] => filter (fun z => has_bucket_gen guard tsite_bucket_day z (bucket_id tsite_bucket_day ts)) zones
  | hz => hz
  end.
(** [zones_for_ge] / [zones_for_le]: day buckets compared by their (truncated) ids *)
Definition cal_zones_ge_gen (guard : bool) (ts : Z) (zones : list zone) : list zone :=
  filter (fun z => existsb (fun b => bucket_id tsite_bucket_day ts <=? b)
                           (zone_buckets_gen guard tsite_bucket_day z)) zones.
Definition cal_zones_le_gen (guard : bool) (ts : Z) (zones : list zone) : list zone :=
  filter (fun z => existsb (fun b => b <=? bucket_id tsite_bucket_day ts)
                           (zone_buckets_gen guard tsite_bucket_day z)) zones.

Inductive cmpop := OEq | ONeq | OGt | OGte | OLt | OLte | OIn.

(** the per-zone test on the zone temporal index (stride 1: the exact stamp set) *)
Definition zti_ok (op : cmpop) (v : Z) (z : zone) : bool :=
  match op with
  | OEq => existsb (Z.eqb v) (z_ts z)
  | OGt => v <? zmax z
  | OGte => v <=? zmax z
  | OLt => zmin z <? v
  | OLte => zmin z <=? v
  | _ => false
  end.

(** [apply_temporal_only]; [None] = no answer (the field selector then returns no zone) *)
Definition prune_gen (guard clamps fallback : bool) (dflt : Z)
                     (is_timestamp : bool) (op : cmpop) (sv : scalar) (zones : list zone)
  : option (list N) :=
  let v := wrap_i64 (pruner_ts_gen clamps fallback dflt sv) in
  let vc := if clamps then v else Z.max v 0 in      (* what the calendar is asked *)
  match op with
  | OEq | OGt | OGte | OLt | OLte =>
      if negb (existsb (in_cal_gen guard) zones) then (if is_timestamp then Some [] else None)
      else
        let cands :=
          if vc <? 0 then []
          else match op with
               | OEq => cal_zones_eq_gen guard vc zones
               | OGt | OGte => cal_zones_ge_gen guard vc zones
               | _ => cal_zones_le_gen guard vc zones
               end in
        Some (map z_id (filter (zti_ok op v) cands))
  | _ => None
  end.
Definition prune : bool -> cmpop -> scalar -> list zone -> option (list N) :=
  prune_gen tsite_cal_guard tsite_pruner_clamps tsite_pruner_u64_fallback tsite_pruner_unparsable.

(** * The field selector on a temporal filter (field_selector.rs, select_for_segment):
      the pruner's answer, or — when the pruner has no answer — every zone of the segment for
      [!=] / IN ([tsite_selector_neq_all_zones], regenerated from the Rust text), else none. *)
Definition op_unanswered (op : cmpop) : bool :=
  match op with ONeq | OIn => true | _ => false end.

Definition select_gen (neq_all : bool) (pr : option (list N)) (op : cmpop) (zones : list zone) : list N :=
  match pr with
  | Some ids => ids
  | None => if neq_all && op_unanswered op then map z_id zones else []
  end.

Definition select_zones (is_timestamp : bool) (op : cmpop) (sv : scalar) (zones : list zone) : list N :=
  select_gen tsite_selector_neq_all_zones (prune is_timestamp op sv zones) op zones.

(** * Materialised queries: [delta_command] *)
Definition parse_since_epoch (s : bytes) : option Z :=
  match parse_str_to_epoch_seconds s with
  | Some t => Some (Z.max t 0)
  | None => parse_u64_str s
  end.

Definition site_matspec (since : option bytes) (wm_ts wm_eid : Z) : option bytes :=
  if (wm_ts =? 0) && (wm_eid =? 0) then since
  else
    let upd := match since with
               | None => true
               | Some s => match parse_since_epoch s with
                           | Some e => e <? wm_ts
                           | None => true
                           end
               end in
    if upd then Some (dec_of_Z wm_ts) else since.
