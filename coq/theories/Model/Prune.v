(** C02 — which zones of a segment a query reads.  Executable definitions only.

    Rust sources:
    * src/engine/core/filter/filter_group_builder.rs [FilterGroupBuilder::build] +
      filter/in_expansion.rs: the WHERE tree becomes a filter-group tree; [f IN (v1..vn)] is the OR
      of the leaves [f = vi] (one leaf for n = 1, no tree at all for n = 0); OR-of-equalities
      flattening only regroups an OR (same union of zones).  Literals are kept as they are
      ([ScalarValue::from]) — also the ones the row filter drops.
    * src/engine/core/read/index_planner.rs [IndexPlanner::choose]: one strategy per leaf, from the
      field's kind and the operator (the catalog kinds are the planned kinds of the field's
      category): datetime field -> TemporalEq for [=], TemporalRange for every other operator;
      enum field -> EnumBitmap; any other field -> ZoneSuRF for [<,<=,>,>=], ZoneXorIndex for
      [=,!=]; a field the schema does not know -> FullScan.
    * src/engine/core/zone/selector/field_selector.rs [select_for_segment] + selector/pruner/*:
      Temporal / EnumBitmap / ZoneXorIndex: the pruner's zones, or NO zones when the pruner
      answers None; ZoneSuRF: the pruner's zones, or ALL zones when it answers None.  The pruners
      answer None without looking at the structure when the operator is not the one they serve
      (temporal: [!=]; enum: not [=,!=], a non-string literal, a variant that is not declared;
      zone-xor: everything but [=]).
    * src/engine/core/zone/zone_group_collector.rs: AND = intersection, OR = union,
      NOT(leaf) = all zones of the segment minus the leaf's zones, De Morgan for NOT over AND/OR,
      NOT NOT x = x.

    What a pruning structure answers when it IS consulted is not modelled here: it is the
    parameter [ans] (segment index, leaf) -> option (list of zone ids) — in the correspondence runs
    the answer of the real pruner on the real segment directory, in the theorems a function about
    which only "a superset of the zones holding a satisfying row" is assumed (C08). *)
From Coq Require Import ZArith NArith List Bool.
From Snel Require Import Base.Bytes Gen.Params Model.Value Model.Expr Model.Sem.
Import ListNotations.

Record leaf := mk_leaf { l_field : bytes; l_op : cmp; l_lit : lit }.

Inductive fg :=
| FLeaf (l : leaf)
| FAnd (a b : fg)
| FOr (a b : fg)
| FNot (a : fg).

Fixpoint in_leaves (f : bytes) (l0 : lit) (ls : list lit) : fg :=
  match ls with
  | [] => FLeaf (mk_leaf f CEq l0)
  | l1 :: ls' => FOr (FLeaf (mk_leaf f CEq l0)) (in_leaves f l1 ls')
  end.

(** [None]: an empty IN list somewhere — the plan then has no filter tree. *)
Fixpoint build_fg (e : expr) : option fg :=
  match e with
  | ECmp f op l => Some (FLeaf (mk_leaf f op l))
  | EIn f [] => None
  | EIn f (l0 :: ls) => Some (in_leaves f l0 ls)
  | EAnd a b => match build_fg a, build_fg b with Some x, Some y => Some (FAnd x y) | _, _ => None end
  | EOr a b => match build_fg a, build_fg b with Some x, Some y => Some (FOr x y) | _, _ => None end
  | ENot a => option_map FNot (build_fg a)
  end.

Inductive strategy := SFullScan | STemporal | SEnum | SSurf | SZoneXor.

Definition choose (sch : schema) (l : leaf) : strategy :=
  match find_decl sch (l_field l) with
  | None => SFullScan
  | Some d =>
      match f_kind d with
      | KTime => STemporal
      | KEnum _ => SEnum
      | _ => if is_range (l_op l) then SSurf else SZoneXor
      end
  end.

(** does the pruner of the chosen strategy look at its structure for this leaf? *)
Definition serves (sch : schema) (l : leaf) : bool :=
  match choose sch l with
  | SFullScan => true
  | STemporal => match l_op l with CNe => false | _ => true end
  | SEnum =>
      negb (is_range (l_op l)) &&
      match l_lit l, find_decl sch (l_field l) with
      | LStr s, Some d => match f_kind d with KEnum vs => mem_bytes s vs | _ => false end
      | _, _ => false
      end
  | SSurf => true
  | SZoneXor => match l_op l with CEq => true | _ => false end
  end.

Definition zid := N.
(** A candidate zone: its id and whether the object carries the event type's uid
    ([CandidateZone::set_uid]) — the zones enumerated from the segment's zone metadata
    ([create_all_zones_for_segment_from_meta*]: full scan, SuRF fallback, the complement of NOT) do,
    the zones a pruner returns ([CandidateZone::new]) do not.  zone_hydrator.rs hydrates only the
    uid-carrying zones as soon as ONE candidate of the query carries a uid (see Layout.v). *)
Definition czone := (zid * bool)%type.
Fixpoint memN (z : N) (l : list N) : bool :=
  match l with [] => false | x :: l' => (z =? x)%N || memN z l' end.
Fixpoint cmem (z : zid) (l : list czone) : bool :=
  match l with [] => false | (x, _) :: l' => (z =? x)%N || cmem z l' end.
Fixpoint ctag (z : zid) (l : list czone) : option bool :=
  match l with [] => None | (x, t) :: l' => if (z =? x)%N then Some t else ctag z l' end.
(** zone_combiner.rs: AND keeps the objects of the first child, OR lets a later child overwrite *)
Definition inter (a b : list czone) : list czone := filter (fun z => cmem (fst z) b) a.
Definition union (a b : list czone) : list czone := filter (fun z => negb (cmem (fst z) b)) a ++ b.
Definition minus (a b : list czone) : list czone := filter (fun z => negb (cmem (fst z) b)) a.
Definition tagged (zs : list zid) : list czone := map (fun z => (z, true)) zs.
Definition untagged (zs : list zid) : list czone := map (fun z => (z, false)) zs.

Section Collect.
  Variable sch : schema.
  (** the structure's answer for this segment *)
  Variable ans : leaf -> option (list zid).
  (** all zone ids of the segment *)
  Variable all : list zid.

  (** an operator the pruner does not serve ([!=]; for the enum bitmap also an undeclared variant):
      no zones, or — after the repair — all zones of the type, read from the arms of
      [select_for_segment] (Gen/Params.v).  An index that is served but answers None (cannot be
      loaded) means "no zones". *)
  Definition unserved_zones (st : strategy) (l : leaf) : list czone :=
    match st with
    | STemporal => if query_unserved_no_zones_temporal then [] else tagged all
    | SEnum => match l_op l with
               | CNe => if query_unserved_no_zones_enum then [] else tagged all
               | _ => []
               end
    | SZoneXor => if query_unserved_no_zones_zonexor then [] else tagged all
    | _ => tagged all
    end.

  Definition leaf_zones (l : leaf) : list czone :=
    match choose sch l with
    | SFullScan => tagged all
    | SSurf => match ans l with Some zs => untagged zs | None => tagged all end
    | st => if serves sch l
            then match ans l with Some zs => untagged zs | None => [] end
            else unserved_zones st l
    end.

  (** [neg = true]: the zones of NOT g *)
  Fixpoint collect (neg : bool) (g : fg) : list czone :=
    match g with
    | FLeaf l => if neg
                 then (if query_not_leaf_complement then minus (tagged all) (leaf_zones l) else tagged all)
                 else leaf_zones l
    | FAnd a b => if neg then union (collect true a) (collect true b)
                  else inter (collect false a) (collect false b)
    | FOr a b => if neg then inter (collect true a) (collect true b)
                 else union (collect false a) (collect false b)
    | FNot a => collect (negb neg) a
    end.

  (** the zones the segment flow reads for a query ([None] tree: no WHERE, or an empty IN list —
      the flat filter list of [build_all] then selects every zone of the type) *)
  Definition candidates (w : option expr) : list czone :=
    match w with
    | None => untagged all
    | Some e => match build_fg e with Some g => collect false g | None => untagged all end
    end.
End Collect.
